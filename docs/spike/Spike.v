From Coq Require Import List Arith Lia Bool Relations.
Import ListNotations.

Definition text := list nat.
Inductive re := Chr (c:nat) | Cat (a b:re) | Alt (a b:re) | Star (r:re).

Section W.
Variable w : text.

Definition chr_res (c p:nat) : list nat :=
  match nth_error w p with Some d => if Nat.eqb c d then [S p] else [] | None => [] end.

Inductive Sem : re -> nat -> list nat -> Prop :=
| SChr c p : Sem (Chr c) p (chr_res c p)
| SCat a b p qs rs : Sem a p qs -> CatTail b qs rs -> Sem (Cat a b) p rs
| SAlt a b p r1 r2 : Sem a p r1 -> Sem b p r2 -> Sem (Alt a b) p (r1 ++ r2)
| SStar a p qs rs : Sem a p qs -> StarTail a p qs rs -> Sem (Star a) p (rs ++ [p])
with CatTail : re -> list nat -> list nat -> Prop :=
| CTnil b : CatTail b [] []
| CTcons b q qs r1 rs : Sem b q r1 -> CatTail b qs rs -> CatTail b (q::qs) (r1 ++ rs)
with StarTail : re -> nat -> list nat -> list nat -> Prop :=
| STnil a p : StarTail a p [] []
| STempty a p qs rs : StarTail a p qs rs -> StarTail a p (p::qs) (p::rs)
| STmore a p q qs r1 rs : q <> p -> Sem (Star a) q r1 -> StarTail a p qs rs -> StarTail a p (q::qs) (r1 ++ rs).

Scheme Sem_ind' := Induction for Sem Sort Prop
with CatTail_ind' := Induction for CatTail Sort Prop
with StarTail_ind' := Induction for StarTail Sort Prop.
Combined Scheme Sem_mut from Sem_ind', CatTail_ind', StarTail_ind'.

(* ---------- VM ---------- *)
Inductive instr := IOne (c:nat) | ILazybranch (l:nat) | IGoto (l:nat) | INullmark | IBranchmark (l:nat) | IStop.
Definition mark := option nat.
Inductive frame := FLb (pos pc:nat) | FMark (pc:nat) | FBm (m:mark) (pos pc:nat) | FBm2 (m:mark) (pc:nat).
Inductive state := Run (pc pos:nat) (T:list frame) (S:list mark) | Back (T:list frame) (S:list mark).

Variable P : list instr.

Definition mark_eqb (m:mark) (p:nat) := match m with Some q => Nat.eqb q p | None => false end.

Inductive step : state -> state -> Prop :=
| st_one_ok pc pos T S c : nth_error P pc = Some (IOne c) -> chr_res c pos = [Datatypes.S pos] ->
    step (Run pc pos T S) (Run (pc+1) (Datatypes.S pos) T S)
| st_one_no pc pos T S c : nth_error P pc = Some (IOne c) -> chr_res c pos = [] ->
    step (Run pc pos T S) (Back T S)
| st_lb pc pos T S l : nth_error P pc = Some (ILazybranch l) ->
    step (Run pc pos T S) (Run (pc+1) pos (FLb pos pc :: T) S)
| st_goto pc pos T S l : nth_error P pc = Some (IGoto l) -> step (Run pc pos T S) (Run l pos T S)
| st_null pc pos T S : nth_error P pc = Some INullmark ->
    step (Run pc pos T S) (Run (pc+1) pos (FMark pc :: T) (None :: S))
| st_bm_loop pc pos T S l m : nth_error P pc = Some (IBranchmark l) -> mark_eqb m pos = false ->
    step (Run pc pos T (m::S)) (Run l pos (FBm m pos pc :: T) (Some pos :: S))
| st_bm_empty pc pos T S l m : nth_error P pc = Some (IBranchmark l) -> mark_eqb m pos = true ->
    step (Run pc pos T (m::S)) (Run (pc+1) pos (FBm2 m pc :: T) S)
| bk_lb pos pc T S l : nth_error P pc = Some (ILazybranch l) -> step (Back (FLb pos pc :: T) S) (Run l pos T S)
| bk_mark pc T S m : step (Back (FMark pc :: T) (m::S)) (Back T S)
| bk_bm m pos pc T S x : step (Back (FBm m pos pc :: T) (x::S)) (Run (pc+1) pos (FBm2 m pc :: T) S)
| bk_bm2 m pc T S : step (Back (FBm2 m pc :: T) S) (Back T (m::S)).

Definition steps := clos_refl_trans state step.

Fixpoint leads (b:nat) (T:list frame) (S:list mark) (F:state) (start:state) (res:list nat) : Prop :=
  match res with
  | [] => steps start F
  | q::rest => exists T', steps start (Run b q (T'++T) S) /\ leads b T S F (Back (T'++T) S) rest
  end.

End W.
