From Coq Require Import List Arith Lia Bool Relations.
Import ListNotations.
Require Import Spike.

Fixpoint compile (r:re) (a:nat) : list instr :=
  match r with
  | Chr c => [IOne c]
  | Cat x y => let cx := compile x a in cx ++ compile y (a + length cx)
  | Alt x y => let cx := compile x (a+1) in let cy := compile y (a+2+length cx) in
      ILazybranch (a+2+length cx) :: cx ++ IGoto (a+2+length cx+length cy) :: cy
  | Star x => let cx := compile x (a+2) in
      INullmark :: IGoto (a+2+length cx) :: cx ++ [IBranchmark (a+2)]
  end.

Definition code_at (P:list instr) (a:nat) (c:list instr) : Prop :=
  forall i x, nth_error c i = Some x -> nth_error P (a+i) = Some x.

Lemma code_at_app P a c1 c2 : code_at P a (c1++c2) -> code_at P a c1 /\ code_at P (a+length c1) c2.
Proof.
  intros H; split; intros i x Hi.
  - apply H. rewrite nth_error_app1; auto. apply nth_error_Some; congruence.
  - replace (a + length c1 + i) with (a + (length c1 + i)) by lia. apply H.
    rewrite nth_error_app2 by lia. replace (length c1 + i - length c1) with i by lia. auto.
Qed.

Lemma code_at_cons P a x c : code_at P a (x::c) -> nth_error P a = Some x /\ code_at P (a+1) c.
Proof.
  intros H; split.
  - replace a with (a+0) by lia. apply H. reflexivity.
  - intros i y Hi. replace (a+1+i) with (a + S i) by lia. apply H. exact Hi.
Qed.

Section Proofs.
Variable w : text.
Variable P : list instr.
Notation step := (step w P).
Notation steps := (steps w P).
Notation leads := (leads w P).

Lemma steps_trans s1 s2 s3 : steps s1 s2 -> steps s2 s3 -> steps s1 s3.
Proof. intros; eapply rt_trans; eauto. Qed.
Lemma steps_one s1 s2 : step s1 s2 -> steps s1 s2.
Proof. intros; apply rt_step; auto. Qed.
Lemma steps_refl s : steps s s. Proof. apply rt_refl. Qed.

Lemma leads_pre b T S F s s' res : steps s s' -> leads b T S F s' res -> leads b T S F s res.
Proof.
  destruct res as [|q rest]; simpl; intros H1 H2.
  - eapply steps_trans; eauto.
  - destruct H2 as [T' [H2 H3]]. exists T'. split; auto. eapply steps_trans; eauto.
Qed.

(* results r1 produced over base (T1++T), then on exhaustion we are at F1 from which r2 over base T *)
Lemma leads_app b T1 T S F s r1 r2 :
  leads b (T1++T) S (Back (T1++T) S) s r1 ->
  leads b T S F (Back (T1++T) S) r2 ->
  leads b T S F s (r1 ++ r2).
Proof.
  revert s. induction r1 as [|q r1 IH]; simpl; intros s H1 H2.
  - eapply leads_pre; eauto.
  - destruct H1 as [T' [Hs Hr]]. exists (T'++T1). rewrite <- app_assoc. split; auto.
Qed.

(* generalised: the first part's fail state is arbitrary G, from which r2 is produced *)
Lemma leads_app_gen b T1 T S G F s r1 r2 :
  leads b (T1++T) S G s r1 ->
  leads b T S F G r2 ->
  leads b T S F s (r1 ++ r2).
Proof.
  revert s. induction r1 as [|q r1 IH]; simpl; intros s H1 H2.
  - eapply leads_pre; eauto.
  - destruct H1 as [T' [Hs Hr]]. exists (T'++T1). rewrite <- app_assoc. split; auto.
Qed.


Lemma leads_exit_map m b T S F s res :
  (forall q T', steps (Run m q T' S) (Run b q T' S)) ->
  leads m T S F s res -> leads b T S F s res.
Proof.
  intros Hm. revert s. induction res as [|q rest IH]; simpl; intros s H; auto.
  destruct H as [T' [H1 H2]]. exists T'. split; auto. eapply steps_trans; eauto.
Qed.

Definition ok (r:re) (p:nat) (res:list nat) : Prop :=
  forall a T S, code_at P a (compile r a) ->
    leads (a + length (compile r a)) T S (Back T S) (Run a p T S) res.

Definition iter_ok (x:re) (p:nat) (res:list nat) : Prop :=
  forall a m T0 S, code_at P a (compile (Star x) a) ->
    let t := a + 2 + length (compile x (a+2)) in
    leads (t+1) T0 S (Back T0 (m::S)) (Run (a+2) p (FBm m p t :: T0) (Some p :: S)) res.

Definition PS (r:re) (p:nat) (res:list nat) : Prop :=
  ok r p res /\ match r with Star x => iter_ok x p res | _ => True end.

Definition cat_ok (y:re) (qs rs:list nat) : Prop :=
  forall m T S s, code_at P m (compile y m) ->
    leads m T S (Back T S) s qs ->
    leads (m + length (compile y m)) T S (Back T S) s rs.

Definition star_tail_ok (x:re) (p:nat) (qs rs:list nat) : Prop :=
  forall a m T0 S s, code_at P a (compile (Star x) a) ->
    let t := a + 2 + length (compile x (a+2)) in
    let B := FBm m p t :: T0 in
    leads t B (Some p :: S) (Back B (Some p :: S)) s qs ->
    leads (t+1) T0 S (Back T0 (m::S)) s (rs ++ [p]).

Lemma star_code a x : code_at P a (compile (Star x) a) ->
  nth_error P a = Some INullmark /\
  nth_error P (a+1) = Some (IGoto (a+2+length (compile x (a+2)))) /\
  code_at P (a+2) (compile x (a+2)) /\
  nth_error P (a+2+length (compile x (a+2))) = Some (IBranchmark (a+2)).
Proof.
  simpl. intros H.
  apply code_at_cons in H as [H0 H]. apply code_at_cons in H as [H1 H].
  replace (a+1+1) with (a+2) in H by lia.
  apply code_at_app in H as [H2 H3]. apply code_at_cons in H3 as [H3 _].
  repeat split; auto.
Qed.

Theorem all_ok :
  (forall r p res, Sem w r p res -> PS r p res) /\
  (forall y qs rs, CatTail w y qs rs -> cat_ok y qs rs) /\
  (forall x p qs rs, StarTail w x p qs rs -> star_tail_ok x p qs rs).
Proof.
  apply Sem_mut.
  - (* Chr *) intros c p. split; auto. intros a T S Hc. simpl in *.
    apply code_at_cons in Hc as [Hc _].
    unfold chr_res in *. destruct (nth_error w p) as [d|] eqn:E.
    + destruct (Nat.eqb c d) eqn:E2; simpl.
      * exists []. simpl. split.
        -- apply steps_one. eapply st_one_ok; eauto. unfold chr_res. rewrite E, E2. auto.
        -- apply steps_refl.
      * apply steps_one. eapply st_one_no; eauto. unfold chr_res. rewrite E, E2. auto.
    + simpl. apply steps_one. eapply st_one_no; eauto. unfold chr_res. rewrite E. auto.
  - (* Cat *) intros x y p qs rs Hx [IHx _] Ht IHt. split; auto.
    intros a T S Hc. simpl in Hc. apply code_at_app in Hc as [Hcx Hcy].
    simpl. rewrite app_length. rewrite Nat.add_assoc.
    apply IHt; auto.
  - (* Alt *) intros x y p r1 r2 Hx [IHx _] Hy [IHy _]. split; auto.
    intros a T S Hc. simpl in Hc.
    apply code_at_cons in Hc as [H0 Hc]. apply code_at_app in Hc as [Hcx Hc].
    apply code_at_cons in Hc as [Hg Hcy].
    set (lx := length (compile x (a+1))) in *.
    set (ly := length (compile y (a+2+lx))) in *.
    replace (a+1+lx+1) with (a+2+lx) in Hcy by lia.
    assert (Hb : a + length (compile (Alt x y) a) = a+2+lx+ly).
    { simpl. rewrite app_length. simpl. fold lx. fold ly. lia. }
    rewrite Hb.
    eapply leads_pre. { apply steps_one. eapply st_lb; eauto. }
    eapply leads_app_gen with (T1 := [FLb p a]) (r1 := r1) (r2 := r2).
    + simpl. eapply leads_exit_map; [| apply IHx; auto].
      intros q T'. apply steps_one. fold lx. eapply st_goto; eauto.
    + simpl. eapply leads_pre. { apply steps_one. eapply bk_lb; eauto. }
      specialize (IHy (a+2+lx) T S Hcy). fold ly in IHy. exact IHy.
  - (* Star *) intros x p qs rs Hx [IHx _] Ht IHt.
    assert (Hiter : iter_ok x p (rs ++ [p])).
    { intros a m T0 S Hc t. pose proof (star_code a x Hc) as (H0 & H1 & Hcx & Hbm).
      eapply IHt; eauto. all: try (apply IHx; auto). }
    split; auto.
    intros a T S Hc. pose proof (star_code a x Hc) as (H0 & H1 & Hcx & Hbm).
    set (t := a + 2 + length (compile x (a+2))) in *.
    assert (Hb : a + length (compile (Star x) a) = t+1).
    { simpl. rewrite app_length. simpl. unfold t. lia. }
    rewrite Hb.
    eapply leads_pre.
    { eapply steps_trans. apply steps_one. eapply st_null; eauto.
      eapply steps_trans. apply steps_one. eapply st_goto; eauto.
      apply steps_one. eapply st_bm_loop; eauto. }
    rewrite <- (app_nil_r (rs ++ [p])).
    eapply leads_app_gen with (T1 := [FMark a]).
    + simpl. apply Hiter; auto.
    + simpl. apply steps_one. apply bk_mark.
  - (* CTnil *) intros y m T S s Hc H. simpl in *. auto.
  - (* CTcons *) intros y q qs r1 rs Hy [IHy _] Ht IHt m T S s Hc H.
    simpl in H. destruct H as [T' [H1 H2]].
    eapply leads_pre; eauto.
    eapply leads_app with (T1 := T').
    + apply IHy; auto.
    + apply IHt; auto.
  - (* STnil *) intros x p a m T0 S s Hc t B H. simpl in H. simpl.
    exists [FBm2 m t]. simpl. split.
    + eapply steps_trans; eauto. apply steps_one. apply bk_bm.
    + apply steps_one. apply bk_bm2.
  - (* STempty *) intros x p qs rs Ht IHt a m T0 S s Hc t B H.
    pose proof (star_code a x Hc) as (H0 & H1 & Hcx & Hbm).
    simpl in H. destruct H as [T' [Hs Hr]]. simpl.
    exists (FBm2 (Some p) t :: T' ++ [FBm m p t]).
    replace ((FBm2 (Some p) t :: T' ++ [FBm m p t]) ++ T0) with (FBm2 (Some p) t :: T' ++ B)
      by (unfold B; simpl; rewrite <- app_assoc; reflexivity).
    split.
    + eapply steps_trans; eauto. apply steps_one. eapply st_bm_empty; eauto.
      simpl. apply Nat.eqb_refl.
    + eapply leads_pre. { apply steps_one. apply bk_bm2. }
      eapply IHt; eauto.
  - (* STmore *) intros x p q qs r1 rs Hne Hs [_ IHs] Ht IHt a m T0 S s Hc t B H.
    pose proof (star_code a x Hc) as (H0 & H1 & Hcx & Hbm).
    simpl in H. destruct H as [T' [Hst Hr]].
    rewrite <- app_assoc.
    eapply leads_pre.
    { eapply steps_trans; eauto. apply steps_one. eapply st_bm_loop; eauto.
      simpl. apply Nat.eqb_neq. auto. }
    eapply leads_app_gen with (T1 := T' ++ [FBm m p t]).
    + rewrite <- app_assoc. simpl. fold B. apply IHs; auto.
    + try rewrite <- app_assoc. simpl. try fold B. eapply IHt; eauto.
Qed.

Print Assumptions all_ok.
End Proofs.
