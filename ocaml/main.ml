(* Constant-size glue around the extracted model: one case per input line
   ("<leg> <int>*"), one result line per case.  Z stays the extracted Coq datatype. *)
open Model

let rec pos_of_int n =
  if n = 1 then XH
  else if n land 1 = 0 then XO (pos_of_int (n lsr 1))
  else XI (pos_of_int (n lsr 1))

let z_of_int n = if n = 0 then Z0 else if n > 0 then Zpos (pos_of_int n) else Zneg (pos_of_int (-n))

let rec int_of_pos = function
  | XH -> 1
  | XO p -> 2 * int_of_pos p
  | XI p -> 2 * int_of_pos p + 1

let int_of_z = function Z0 -> 0 | Zpos p -> int_of_pos p | Zneg p -> - (int_of_pos p)

let () =
  let buf = Buffer.create 65536 in
  try
    while true do
      let line = input_line stdin in
      let toks = List.filter (fun s -> s <> "") (String.split_on_char ' ' line) in
      (match toks with
       | [] -> print_newline ()
       | leg :: args ->
         let res = verif_main (z_of_int (int_of_string leg)) (List.map (fun s -> z_of_int (int_of_string s)) args) in
         Buffer.clear buf;
         List.iteri (fun i z -> if i > 0 then Buffer.add_char buf ' '; Buffer.add_string buf (string_of_int (int_of_z z))) res;
         print_string (Buffer.contents buf); print_newline ())
    done
  with End_of_file -> ()
