PROP = {
    "level": "proof",
    "timeout_quick": 300,
    "legs": ["c17-maps", "c17-direct"],
    "trusted_base": TB_COMMON + [
        "token abstraction of the pattern text (Model/Options.v gtok) and the harness printer that spells token lists as patterns; a printer/abstraction error shows as a model mismatch in leg c17-maps",
        "add-only hook /repo/verif_groups.go (Match.VerifSlotOf: pointer identity of a returned *Group within Groups())",
        "option bit constants of Model/Options.v are compared with syntax.RegexOptions by leg c17-maps on every run (not generated)",
    ],
    "assumptions": ASSUME_COMMON + [
        "modelled: parser.go noteCaptureSlot/noteCaptureName/assignNameSlots/assignOrderedNameSlots/countCaptures, the group-opening and reference branches of scanRegex/scanGroupOpen/scanBasicBackslash, isCaptureSlot/isCaptureName; writer.go dense remap + mapCapnum; regexp.go GetGroupNames/GetGroupNumbers/GroupNameFromNumber/groupNameFromSlot/GroupNumberFromName; match.go GroupByName/GroupByNumber/Groups naming; replacerdata.go + scanDollar reference resolution for ${n} and ${name}",
        "theorem hypotheses (ts_ok): TNamed names do not start with a digit (the scanner reads those as numbers); explicit numbers and pattern length stay away from 2^31-1 where noteCaptureSlot saturates; under MaintainCaptureOrder/RE2 no explicit numbers (known finding mco_digit_names: the name<->number round trip is refuted without the guard; for the pre-scan/main-pass agreement the guard is no longer known to be necessary since /repo 2b27550, the harness compares the model with the code on such patterns on every run)",
        "not modelled: balancing groups (?<a-b>), the Unicode 'u' option's effect on ECMAScript \\k, ECMAScript's longest-prefix rule for unbraced $n, errors for '\\8x'/'\\9x' escapes, ErrTooManyAlternates; that the number of every node the main pass creates is a group number is checked by the legs (node sequence of the exported tree), not proved",
    ],
}
TEXT = {
    "text": "Over the executable model of the capture pre-scan, slot assignment, main pass, writer remap and lookups (Model/GroupMap.v), for every token list: the table is well formed (C17_table_well_formed_partial), the documented numbering rule holds (C17_numbering_rule_default: full; C17_numbering_rule_ordered_partial), the main pass numbers each group exactly as the pre-scan reserved it (C17_prescan_agrees_with_parse_partial), number->slot is a monotone bijection onto [0,capsize) (C17_dense_map_bijective), and GetGroupNames/GetGroupNumbers/GroupNameFromNumber/GroupNumberFromName/GroupByName/GroupByNumber/Groups/$n/${name}/mapCapnum all designate the same group (C17_maps_consistent, C17_refs_use_same_map, C17_names_point_to_groups_partial). The unguarded name<->number round trip is refuted for MaintainCaptureOrder with digit names (C17_name_number_roundtrip_refuted: GetGroupNames [0 2 2 n]); the other former refutation, C17_prescan_agrees_refuted, fell with the repair /repo 2b27550 (the main pass now files digits as a name like the pre-scan: C17_prescan_agrees_on_old_witness, C17_witness_mco_accepts), the guarded theorem still carries the no-explicit-numbers hypothesis under MaintainCaptureOrder; known finding mco_digit_names). The model is tied to the code by differential legs on generated token lists x 4 modes (Parse/Write/Regexp/Match/NewReplacerData outputs, error codes, node numbers) and by direct cross-route checks on captured text.",
    "design_ref": "DESIGN.md §4 C17",
    "note": "Coq kernel; no axioms. Four genuine defects were found and fixed in /repo's working tree (Groups()[i].Name with sparse numbers, GroupByNumber on a non-number with sparse numbers, GroupNumberFromName(\"\")/overflow, ignoreNextParen surviving a non-plain condition group); one known finding remains (mco_digit_names).",
    "technique": "Coq proof (invariants + simulation between the two parser passes) over executable model + differential correspondence via extraction",
}
