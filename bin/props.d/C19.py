PROP = {
    "level": "proof",
    "legs": ["c19-escape", "c19-literal", "c19-parse"],
    "trusted_base": TB_COMMON + [
        "oracles unicode.IsPrint, syntax.IsWordChar, unicode.ToLower, unicode.SimpleFold, participatesInCaseConversion and the case-equivalence sets: universally quantified in the theorems; the hypotheses used (metacharacters are not word characters; IsPrint is false on TAB LF VT FF CR, needed under IgnorePatternWhitespace only) are checked against the running Go toolchain by legs c19-escape and c19-parse",
        "tools/gen/parselit.go: reads _category, the constants Q S Z X E, the bound/operator/threshold of isSpace/isSpecial/isStopperX/isQuantifier, the single-character escapes and scanHex digit counts of scanCharEscape and the case-label sets of scanBackslash from syntax/parser.go into Gen/ParseLitGen.v; exits non-zero on any other shape",
    ],
    "assumptions": ASSUME_COMMON + [
        "modelled: syntax/escape.go Escape/escape/Unescape; parser.go countCaptures + scanRegex on the fragment {ordinary characters, x-mode blanks and # comments, backslash escapes} with scanBlank, isTrueQuantifier, addToConcatenate, scanBackslash, scanBasicBackslash (back-references against the capture table {0}), scanCharEscape/scanHex/scanHexUntilBrace/scanOctal/scanControl under the options IgnoreCase, IgnorePatternWhitespace, ECMAScript, RE2, Unicode (other option bits only travel in the node options); tree.go newRegexNodeCh/nodeWithCaseConversion, reduce, reduceConcatenation (adjacent equal sets -> Setloop{k,k}, adjacent One/Multi -> Multi) and the root capture (Model/ParseLit.v); the reference semantics of the resulting tree is Model/Spec.v",
        "outside the parser model (the model answers POutside, never a guess): any unescaped ( ) [ * + ? | ^ $ . and a '{' that is a true quantifier, \\p \\P, ECMAScript group names, RightToLeft; 'Escape(s) compiles to a literal' under RightToLeft is sampled by leg c19-literal; the link tree -> compiled program -> interpreter is C01's",
        "not distinguished by the comparison: Setloop vs Setloopatomic of a {k,k} set loop (findAndMakeLoopsAtomic / eliminateEndingBacktracking are not part of this model)",
    ],
}
TEXT = {
    "text": "C19_unescape_escape: for every string of valid Unicode scalars and every IsPrint oracle, Unescape(Escape s) = s. C19_escape_parses_to_literal: for every such s and every option set without IgnoreCase/RightToLeft (default, IgnorePatternWhitespace, ECMAScript, RE2, Unicode, Multiline, Singleline, ExplicitCapture, combined), the parser model maps Escape(s) to Capture0 over exactly the literal s; C19_anchored_escape_parses + C19_escape_matches_only_s: \\A Escape(s) \\z parses to Concat[Beginning; literal s; End] and the reference semantics of that tree finds a match in a text t iff t = s; C19_parse_lit_total: the parser fragment never faults or hangs on any rune string under any option set; C19_category_table_ok / C19_meta_table_ok: obligations on the tables generated from parser.go and escape.go; C19_escape_ignorecase_refuted: under IgnoreCase the tree is (as intended) not the literal. The parser model is compared with syntax.Parse on every run (error kind and final tree with node options, 16 option sets, every escape form and error kind gated).",
    "design_ref": "DESIGN.md §4 C19",
    "note": "Coq kernel; no axioms; oracle hypotheses checked at run time against the Go toolchain; RightToLeft and the tree->program->interpreter link are not part of these theorems (c19-literal samples the real engine end to end under RightToLeft and the dialect options).",
    "technique": "Coq proofs (induction over the string / fuel-free totality) over executable models generated in part from the source + differential correspondence via extraction",
}
