PROP = {
    "level": "proof",
    "legs": ["c19-escape", "c19-literal", "c19-parse"],
    "trusted_base": TB_COMMON + ["oracles unicode.IsPrint and syntax.IsWordChar: universally quantified in the theorem; the single hypothesis (metacharacters are not word characters) is checked against the running Go toolchain by leg c19-escape"],
    "assumptions": ASSUME_COMMON + [
        "modelled: syntax/escape.go Escape/escape/Unescape and parser.go scanCharEscape/scanHex/scanHexUntilBrace/scanOctal/scanControl under the zero-option parser Unescape uses",
        "not modelled: the literal-run scanner of the full pattern parser; the 'Escape(s) compiles to a literal' half is exercised by leg c19-literal (sampled), not proved",
    ],
}
TEXT = {
    "text": "Theorem C19_unescape_escape: for every string of valid Unicode scalars and every IsPrint oracle, the model's Unescape(Escape s) = s (induction over the string, no bound on length); C19_meta_table_ok re-checks the metacharacter table generated from escape.go. The model is tied to the code by 40k+ differential cases per run (Escape and Unescape outputs, including malformed escapes), and the literal-pattern half is sampled against the real compiler.",
    "design_ref": "DESIGN.md §4 C19",
    "note": "Coq kernel; no axioms; oracle hypothesis meta_not_word checked at run time; the statement 'Escape(s) compiles to a literal under every option set' is sampled (leg c19-literal), not proved.",
    "technique": "Coq proof (induction) over executable model + differential correspondence via extraction",
}
