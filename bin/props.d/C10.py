PROP = {
    "level": "proof",
    "legs": ["c10-robust"],
    "timeout_quick": 900,
    "trusted_base": TB_COMMON + ["Properties/C10.v re-states theorems proved in the developments of C08, C09, C13, C18 and Proofs/SpecBoundsProofs.v"],
    "assumptions": ASSUME_COMMON + [
        "every Go fault site of a modelled layer is a Crash value in its model; the theorems say Crash is unreachable there (interpreter stack overflow given the 4*TrackCount check, replacement parser, UTF-8 decoding and byte-range tables, option pre-scan, positions/captures of the reference search)",
        "NOT proved: panic-freedom of the pattern parser and class canonicaliser on arbitrary bytes, for ARBITRARY (non-compiled) programs control-flow safety and termination (for compiled programs both are theorems): these are explored by leg c10-robust (mutated parser corpus x options x hostile inputs under recover and a watchdog), which is exploration in support of the claim, not a proof",
    ],
}
TEXT = {
    "text": "Partial proof + exploration: C10_interpreter_step_never_overflows and C10_compiled_push_weight (the backtracking stack cannot be overrun between two ensureStorage checks for any program the writer emits — the capacity argument behind 'never panics' of C13), C10_limit_dichotomy_partial, C10_search_stays_inside_the_input, C10_replacer_data_no_panic, C10_replace_count_startat, C10_decode_total, C10_byte_range_slices, C10_prescan_total. The unmodelled parser glue is driven by 12k (quick) mutated patterns of the shipped 1,883-file parser corpus and harvested patterns, all option subsets, out-of-range arguments; any panic, hang or undocumented error is a violation. Added from C01/C13/C03/C02/C19: C10_compiled_program_never_crashes, C10_exec_never_crashes_explicit (exec_at on a compiled supported program is never Crash), C10_compiled_program_control_flow_safe, C10_limit_dichotomy_compiled, C10_optimized_finders_answer_ok, C10_prefilter_closures_answer_ok, C10_literal_parser_total. C10_default_finder_answers_ok (all of findFirstCharDefault answers Ok at every position of the text). C10_search_never_hangs: the reference search terminates on every tree, text and start offset (explicit fuel), within term_fuel e root on trees with one-directional loop bodies, and on the program of such a supported2 tree the interpreter model returns a state or ErrBacktrackingStackLimit from some interpreter fuel on (C10_compiled_program_returns: the state is the reference answer).",
    "design_ref": "DESIGN.md §4 C10",
    "note": "Claimed partial: theorems cover the modelled layers only; the search itself is proved to terminate and never to crash for compiled programs of every tree the parser builds (C10_search_never_hangs, C10_compiled_program_never_crashes); the pattern parser on arbitrary bytes outside the modelled fragments is explored, not proved.",
    "technique": "Coq no-crash theorems for modelled layers + mutation-based robustness exploration of the parser glue",
}
