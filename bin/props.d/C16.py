PROP = {
    "level": "proof",
    "legs": ["c16-class-0", "c16-class-1", "c16-class-2", "c16-class-3", "c16-ops", "c16-sweep"],
    "trusted_base": TB_COMMON + [
        "oracles unicode.Is/IsSpace/IsWordChar per category name, unicode.SimpleFold, unicode.ToLower: universally quantified in the theorems; the tables used by each case are dumped from the running Go toolchain into the case",
        "hook /repo/syntax/verif_charclass.go (build tag verif, add-only): field accessors of CharSet and wrappers of its unexported methods",
    ],
    "assumptions": ASSUME_COMMON + [
        "modelled: syntax/charclass.go CharSet (CharIn, charInSlow, charInCategories, prepareASCIIBitmap, canonicalize, add*, addLowercase, addCaseEquivalences, IsSingleton*, MayOverlap) and the member-adding calls of parser.go scanCharSet + tree.go nodeWithCaseConversion/reduceSet",
        "not modelled: the text-level scanning of scanCharSet (escapes, range syntax errors); the generator's printer and the real parser are on the implementation side of the three-way comparison",
    ],
}
TEXT = {
    "text": "C16: character-class membership is exact set algebra (model of CharSet; three-way comparison implementation = model char_in on the exported class = denote on the generator's expression).",
    "design_ref": "DESIGN.md §4 C16",
    "note": "work in progress",
    "technique": "Coq proof over executable model + differential correspondence via extraction",
}
