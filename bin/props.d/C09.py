PROP = {
    "level": "proof",
    "legs": ["c09-parse", "c09-replace", "c09-split"],
    "trusted_base": TB_COMMON + [
        "oracles syntax.IsWordChar / IsECMAIdentifierStartChar / IsECMAIdentifierChar: universally quantified in every theorem (no hypothesis about them); for execution their values on the runes of each replacement string are shipped with the case",
        "coq/Gen/ReplaceGen.v (tools/gen/replace.go): replaceSpecials and the four special rule numbers from replace.go AND syntax/replacerdata.go (theorem C09_special_rule_numbers_agree), NtOne/NtMulti/NtRef/NtConcatenate, the ECMAScript/Unicode option bits, maxValueDiv10/Mod10",
        "the match sequence handed to the model is the one FindStringMatchStartingAt/FindNextMatch return (harness c09Sequence); that the replacement-pattern drivers' own scan loop yields the same sequence is what legs c09-replace (Replace vs model on that sequence) exercise, and what C02/C07 state",
    ],
    "assumptions": ASSUME_COMMON + [
        "modelled (coq/Model/Replace.v): parser.go scanReplacement/scanDollar/scanDecimal/scanWord/scanECMACapname/addToConcatenate/isCaptureSlot/isCaptureName/captureSlotFromName, replacerdata.go NewReplacerData, replace.go replace/replaceRunnerLTR/replaceRunnerRTL/replacementImpl/replacementImplRTL, match.go groupValueAppendToBuf and Group.String, split.go Split, regexp.go Replace/ReplaceFunc/getReplacerData and the replacerDataCache LRU — all WITH the three C09 fixes (RTL rule order, count==0 returns input, RTL Split; docs/patches/C09-replace-split.patch)",
        "the engine is abstract: theorems quantify over ALL match sequences satisfying wf_matches (in bounds, ordered in scan direction, non-overlapping) and, for the replacement-pattern drivers, matches with as many slots as the Regexp has (env_ok); the harness checks wf_matches on every real sequence it feeds",
        "text is the rune view of a Go string (valid scalars or U+FFFD), for which bytes.Buffer.WriteRune and string([]rune) are the identity; slice bounds are checked against len (not cap); math.MaxInt is 2^63-1",
        "not modelled: buffer pooling (getPooledReplaceBuffer, pooledRuneBuffers), the mutex of the cache, compactBalancedMatches (the abstract match already holds the compacted captures; leg c09-replace includes balancing-group patterns), MatchTimeout errors",
        "replacement_parser_spec is PARTIAL for ECMAScript replacements containing a backslash (\\u escapes inside ${name}): modelled and compared with the implementation by leg c09-parse, but outside the declarative grammar; C09_replacer_data_ok and C09_replacer_data_no_panic cover them",
    ],
    "timeout_quick": 600,
}
TEXT = {
    "text": "Theorems C09_replace_ltr_fold / C09_replace_rtl_fold: for every replacement string the parser accepts, every well-formed match sequence, count >= -1 and valid startAt, the model's Replace equals the fold replace_spec (first count matches in scan order replaced by the expansion, everything else kept, output in text order); C09_replace_func_fold / C09_replace_func_eq_replace for ReplaceFunc with any evaluator; C09_replace_amp_identity ($& is the identity, both directions); C09_replace_count_startat (errors, count=0, no match); C09_expand_refs / C09_expand_meaning (per-match expansion); C09_replacement_parser_spec_partial (scanReplacement/scanDollar against an inductive $-grammar incl. the longest-group-number rule and its ECMAScript variant), C09_replacer_data_ok, C09_replacer_data_no_panic, C09_cache_transparent; C09_split_spec_eq, C09_split_rejoin, C09_split_count for Split in both directions. C09_unfixed_*_refuted record the three defects of the pre-fix code with witnesses. The model is tied to the code by ~100k differential cases per run (parser output, Replace, ReplaceFunc, Split on real match sequences; specification functions evaluated directly) plus direct observables ($& identity, ReplaceFunc = Replace, re-join, fresh-Regexp/cache transparency).",
    "design_ref": "DESIGN.md §3.8, §4 C09",
    "note": "Coq kernel; no axioms; oracles universally quantified; engine abstracted to well-formed match sequences (C07/C08 discharge that hypothesis, the harness checks it on every sequence); parser grammar partial for ECMAScript \\u-escaped names.",
    "technique": "Coq proofs (induction over match lists / replacement strings) over an executable model + differential correspondence via extraction",
}
