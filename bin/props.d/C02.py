PROP = {
    "level": "proof",
    "legs": ["c02-entry", "c02-filter", "c03-accel"],
    "timeout_quick": 600,
    "trusted_base": TB_COMMON + ["oracles (class membership, ToLower, word tests) universally quantified in the theorems"],
    "assumptions": ASSUME_COMMON + [
        "the bool-only entry points run Code.QuickCodes: theorems C02_quick_program_is_program_of_erased_tree / C02_quick_program_sound show (on the writer model, which leg c01-writer compares word for word with the real QuickCodes) that it is the full program of the tree with unobserved captures erased, and (on the reference semantics) that erasing them changes neither match position nor kept captures",
        "string vs rune entry points: index conversion is C08's theorems; the raw-string prefilter and candidate finders are C03's; iteration / find-all is C07's; Replace/Split enumeration is C09's",
        "not proved here: the Go glue of each entry point (argument validation, which program is selected, pooling): exercised by leg c02-entry, which cross-checks ~14 entry points on every (pattern,input)",
    ],
}
TEXT = {
    "text": "Theorems: erasing captures that nothing in the pattern observes preserves the result lists up to the erased groups (C02_erasing_unobserved_captures_preserves_result_lists / _preserves_matches, every tree incl. lookarounds, conditionals, balancing groups), and the writer's quick program IS the full program of that erased tree (C02_quick_program_is_program_of_erased_tree, C02_quick_program_sound incl. the captureSlotsInUse analysis) — so the boolean entry points agree with the find entry points. The remaining clauses of the property are carried by C03 (prefilter/finders), C07 (iteration, find-all), C08 (byte/rune index maps), C09 (Replace/Split enumeration). Leg c02-entry checks on the implementation that all entry points agree (bool vs find, string vs runes at every start offset, FindNextMatch sequences, find-all through the byte map, adapter index methods, the enumeration inside ReplaceFunc/Replace/Split, compile options), incl. invalid UTF-8.",
    "design_ref": "DESIGN.md §4 C02",
    "note": "Coq kernel, no axioms; proof over Spec/Writer models tied to the code by legs c01-writer (exact QuickCodes) and c01-sem; entry-point glue is sampled, not modelled.",
    "technique": "Coq proof (capture erasure + quick-program equality) + cross-entry-point differential leg",
}
