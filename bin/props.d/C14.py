PROP = {
    "level": "proof",
    "legs": ["c14-clock", "c14-interleave"],
    "timeout_quick": 600,
    "trusted_base": TB_COMMON + [
        "hook /repo/verif_clock.go (build tag verif, add-only): VerifClockSnapshot/Reset/MakeDeadline/Period read or reset the clock state under fast.mu",
        "scheduling points verifClockPoint(1|2) in makeDeadline (two inserted lines in /repo/fastclock.go, empty function without the verif tag; verif_clockpoint_on.go/_off.go): leg c14-interleave parks a call between its unlocked loads and its critical section while another call completes, producing on the real code the schedules the model's theorems quantify over",
        "wall-clock stamps (time.Since on Go's monotonic clock) and runtime.Stack as taken by the harness",
    ],
    "assumptions": ASSUME_COMMON + [
        "CLAIMED PARTIAL: the theorems are about the atomic-action model coq/Model/Clock.v of fastclock.go (every statement that touches shared state, fast.mu or the wall clock is one atomic action; an execution is an arbitrary interleaving). Not expressible in the model and only exercised by leg c14-clock: that time.Sleep(clockPeriod) returns within the lag bound, goroutine start latency, the monotonic clock itself, and the Go memory model for the two atomics (the model assumes sequential consistency).",
        "schedules are assumed lag-timely: one runClock iteration takes at most clockPeriod+lag between two time readings and one makeDeadline call at most lag; the bounds are early_slack = 2*lag + 2 ticks, late_slack = 2*period + 3*lag, exit_slack = 2*(period+lag); the interpreter's polling (CheckTimeout once per instruction, runner.go:189/242) is modelled as a poll action of the matching goroutine, its own scheduling delay is not bounded by the theorems",
        "timeout_fires assumes no StopTimeoutClock reset takes effect between the call and the deadline (StopTimeoutClock is documented as test-only and does abandon pending deadlines: Example C14_stop_kills_pending_deadline); all other theorems allow StopTimeoutClock anywhere",
        "modelled code is /repo's working tree INCLUDING docs/patches/C14-fastclock-false-timeout.patch (fx = true); for the pinned code (fx = false) the no-early-timeout statement is refuted in Coq (C14_no_early_timeout_orig_refuted) and on the real code",
        "hypothesis d + clockPeriod <= MaxInt64 of the theorems is necessary: known finding c14-overflow (int64 wrap-around, reproduced by model and code)",
        "clockPeriod is a constant of a run (SetTimeoutCheckPeriod is called before the first match); time.Duration arithmetic other than d + clockPeriod is modelled in unbounded integers (process uptime < 2^62 ns)",
    ],
}
TEXT = {
    "text": "Six theorems over ALL schedules of the atomic-action model of fastclock.go (induction over the action list; any number of goroutines, idle gaps, StopTimeoutClock calls): C14_no_early_timeout (a timeout error is never observed before t0 + d - 2*lag - 2 ticks), C14_finished_in_time_no_error, C14_timeout_fires (current >= deadline is written by t0 + d + 2*period + 3*lag), C14_clock_exits (goroutine gone 2*(period+lag) after the later of the last call and clockEnd), C14_clock_restarts (makeDeadline on any stopped clock refreshes current and starts a new goroutine), and C14_no_early_timeout_orig_refuted: the pinned makeDeadline lets a match that starts together with another one after an idle period keep a deadline computed from the stale clock (false timeout after one period) — reproduced on the real code through the public API and fixed in /repo's working tree by docs/patches/C14-fastclock-false-timeout.patch (load clockEnd before current, always recompute the deadline under the lock, extend the clock in the same critical section); the model follows the fixed code. The model is tied to the code by replaying recorded real histories (stamps, hook snapshots, runtime.Stack) on the extracted step function.",
    "design_ref": "DESIGN.md §4 C14",
    "note": "Coq kernel; no axioms. PARTIAL: theorems are about the model; Sleep accuracy, goroutine start latency and the Go memory model are assumptions exercised only by leg c14-clock. Genuine defect found and fixed (false timeout after idle with concurrent matches); known finding c14-overflow (MatchTimeout within clockPeriod of MaxInt64).",
    "technique": "Coq proof (invariant over an interleaving model of goroutines with mutex and timed-automaton urgency) + replay of recorded real-clock histories on the extracted model",
}
