PROP = {
    "level": "proof",
    "legs": ["c06-compat"],
    "trusted_base": TB_COMMON + [
        "Go's standard regexp package (go1.25.0) is the ORACLE of the sampled link: its engine is not modelled; Model/Iter.v module Go is a hand transcription of regexp.go allMatches/pad and the FindAll*/Find*Index callers, checked against the real stdlib on every case of leg c06-compat",
        "the stdlib single-match table M(pos) is obtained through the public API by wrapping the pattern as \\A(?s:.{j})(?s:.*?)(P)",
    ],
    "assumptions": ASSUME_COMMON + [
        "PROOF UP TO THE SINGLE-MATCH ORACLE: the theorems hold for every single-match function M under the explicit hypothesis `bridge` (at every rune boundary, M(byte offset) = regexp2's fresh search from that rune, as byte pairs); that Go's engine satisfies `bridge` on the RE2-common fragment is sampled (three-way on every case: stdlib = adapter = model fed with the stdlib table), not proved",
        "`bridge` is known to FAIL on the real engines for \\b / \\B next to non-ASCII word characters (known finding re2-boundary-nonascii) and for a literal U+FFFD against an invalid byte through the string prefilter (known finding re2-fffd-literal-prefilter)",
        "other hypotheses of the theorems: `forward` and `no_G` on the matcher (C07), group 0 is the match and there are 1+numSubexp groups, rune->byte offsets strictly increasing from 0 to len(s) (C08), Go's step width = distance to the next boundary, `cand_ok`: the string prefilter candidate does not change the first match (C03)",
        "modelled: compat/regexp.go forEachStringMatch, FindAll*Index, FindAllStringSubmatchIndex, Find*SubmatchIndex, Find*Index, matchIndexes/captureIndex; regexp.go findAllRunesIndex (as fixed in eb87fbc). Not modelled: string/[]byte slicing of the text (FindAll, FindAllString, FindSubmatch ... read the same delivered matches; compared directly), readRunes, the three offset tables (C08)",
        "fragment: random ASTs of literals, classes, ., ^ $ \\A \\z \\b \\B, capturing / non-capturing / named groups, alternation, greedy and lazy quantifiers over NON-nullable bodies, (?i)(?s)(?m); x ASCII, multi-byte and invalid-UTF-8 inputs x n in {-1,0,1,2,3,100}",
    ],
}
TEXT = {
    "text": "Theorems (for every n in Z, every matcher, every single-match function M bridged to it): C06_compat_find_all_eq_go (forEachStringMatch-based FindAll*Submatch* = Go's allMatches incl. the adjacent-empty-match rule and nil results), C06_compat_find_all_index_eq_go (FindAllIndex/FindAll through FindAllRunesIndex), C06_compat_find_all_string_index_eq_go, C06_compat_find_eq_go (single-match methods, nil on no match), C06_compat_shapes (-1 pairs exactly for groups without a capture), summary C06_adapter_eq_go_partial. The proof is a simulation between Go's loop (which re-finds an empty match it has just delivered and then rejects it) and the adapter's walk of the FindNextMatch chain, using C07's chain lemmas. Leg c06-compat compares all 21 adapter methods with the stdlib on every case and feeds both models (Go's loop with the stdlib's table; the adapter's loops with regexp2's attempt table).",
    "design_ref": "DESIGN.md §4 C06, §3.8 (Compat)",
    "note": "Coq kernel; no axioms. Honest scope: proof of the iteration/shape layer up to the single-match oracle; Go's engine itself is sampled, not modelled. Defects found: non-nil empty find-all result and n-sized preallocation (fixed, eb87fbc); RE2 boundary on non-ASCII word characters and U+FFFD literal through the string prefilter (known findings); named groups numbered after unnamed ones under RE2 (reported).",
    "technique": "Coq proof (simulation of two loops over a common match chain) + transcription of the stdlib loop as specification + three-way differential testing against Go's regexp",
}
