PROP = {
    "level": "proof",
    "legs": ["c13-vm"],
    "timeout_quick": 600,
    "timeout_thorough": 7200,
    "trusted_base": TB_COMMON + [
        "hook of leg c13-vm (build tag verif, add-only): the accelerator-free scan VerifNaiveScan and the accessor reporting the pooled runner's backtracking-stack capacity, compared with the model's tcap on every case",
        "generated constants Gen/RunnerGen.v (initial sizes 8*TrackCount / min 64, ensureStorage factor 4, two capacity tests in ensureStorage = the re-check after growTrack) are re-read from runner.go on every run",
    ],
    "assumptions": ASSUME_COMMON + [
        "modelled (Model/VM.v): initMatch's stack allocation, ensureStorage with the re-check after growTrack, growTrack, goTo, backtrack, advance and every opcode of executeDefault incl. Back/Back2 variants; each Go index fault is a Crash value, ErrBacktrackingStackLimit is Err 1",
        "the theorems quantify over EVERY program, input, limit and fuel (no well-formedness hypothesis); compiled programs enter only through leg c13-vm and the Examples",
        "partial: 'never panics' — a push beyond the allocated stack (Crash C_track) on the limited side is not excluded by a theorem; that needs the capacity argument for programs produced by the writer (at most 4*TrackCount net pushes between two ensureStorage checks, DESIGN Appendix A), which is validated by leg c13-vm (limits 0..64, 100, 257, 1000, default, -1 on nested/counted/lookaround ASTs; a Go panic is recorded as Crash) but not proved",
        "'the Regexp stays fully usable afterwards' is C12 (runner_ok_preserved, history independence), not restated here",
        "not modelled: timeouts (C14), the prefilters in front of the scan (C03), regexp_codegen engines",
    ],
}
TEXT = {
    "text": "Theorems over the word-for-word interpreter model, for every program, input, limit and fuel: C13_track_never_exceeds_limit (invariant tcap <= L, |track| <= tcap, |stack| <= scap holds after initMatch, is preserved by every opcode step — an 80-branch case analysis — and holds in every returned state); C13_limit_transparent (a search that succeeds under any limit L returns exactly the unlimited result: same match/no match, text position, capture arrays; only the allocated length differs); C13_raise_limit_monotone (success under L >= 0 implies the same success under every L' >= L and without a limit); C13_limit_trichotomy_partial (under any limit the search is ErrBacktrackingStackLimit, or agrees with the unlimited search in every outcome, or — not excluded — a push ran beyond the allocated stack); all lifted from C13_step_simulation, a lock-step simulation between two limits whose state relation is 'equal except the track length, and the lengths are equal or the smaller limit has capped the first'. The model is tied to the code by leg c13-vm (about 15k cases per run: result, captures, final position, error, and the capacity the real backtracking stack grew to).",
    "design_ref": "DESIGN.md §4 C13, Appendix A",
    "note": "Coq kernel; no axioms. PARTIAL in one respect: 'never panics' is not a theorem — excluding Crash C_track needs the writer-shape capacity argument (<= 4*TrackCount net pushes between two checks), sampled by leg c13-vm, not proved. The ensureStorage re-check (repair of the defect found earlier: limit-capped growTrack accepted with < 4*TrackCount free, /repo 5282c0f) is what makes raise_limit_monotone and the simulation go through; 'usable afterwards' is C12.",
    "technique": "Coq proof (invariant + two-limit simulation by generic case analysis of the interpreter step) over executable model + differential correspondence via extraction",
}
