PROP = {
    "level": "proof",
    "legs": ["c08-utf8", "c08-offsets", "c08-wellformed"],
    "trusted_base": TB_COMMON + [
        "Go standard library unicode/utf8 and the compiler's `range`-over-string / []rune(string) / string([]rune) conversions of the toolchain that builds /repo: "
        "Base/Utf8.v (decode, rune_len, encode) is written from the definition of UTF-8 and compared with them by leg c08-utf8 (every byte string of length <= 2, boundary classes of length 3-4, thorough: every 3-byte string)",
        "leg c08-wellformed is a direct check on the implementation (no model): its reference byte boundaries are computed with Go's `range` loop",
    ],
    "assumptions": ASSUME_COMMON + [
        "modelled (coq/Model/Offsets.v, loop by loop, slices as lists with out-of-range = Crash): match.go stringByteOffsets, runeByteOffsets, matchText.byteRange, Capture.Runes/String, newGroup, Groups()/populateOtherGroups; "
        "regexp.go newStringByteMapper, stringByteMapper.byteIndex (with sort.Search) and the FindAllStringIndex index pair; compat/regexp.go bytesToRunesAndOffsets, readRunes, captureIndex/runeCaptureIndex pairs",
        "NOT in these files: the interpreter invariant caps_in_bounds (every capture word pair stored by the VM and left by Match.tidy is an in-range (index,length)); it is the lead's part (VM model). "
        "Theorem C08_groups_wf_partial takes it as the explicit hypothesis stored_ok and derives the group-level statement (all captures in bounds, group 0 = one capture = the match, embedded = last) from it; "
        "on the implementation that statement is checked directly on every returned match by leg c08-wellformed (sampled patterns x inputs)",
        "the lazy byteOffsets cache of matchText (byteOffsetsReady) is modelled as recomputation: it only memoises a pure function; its data race under concurrent ByteRange calls is C11's topic",
        "Go slices are modelled with capacity = length (a[i:j] with j beyond len but within cap is not represented; the modelled code never relies on it)",
        "getRunesAndStart / decodeString / decodeStringWithStart are covered only through Base/Utf8.decode = `range` (they copy the range loop's runes); the byte startAt -> rune start conversion is exercised by leg c08-offsets, its statement belongs to C02",
    ],
}
TEXT = {
    "text": "Ten Coq theorems over ALL byte strings and ALL rune slices (no length bound): C08_decode_total (Go's range loop tiles any byte string, widths 1..4), C08_decode_encode / C08_encode_decode (round trips; non-scalars become U+FFFD of width 3), "
            "C08_offsets_spec (match.go stringByteOffsets, compat bytesToRunesAndOffsets, readRunes and match.go runeByteOffsets never fault and return exactly the prefix sums of the decode widths / encoded lengths, nil iff all widths are 1; the []rune table is the string table of string(runes) and coincides with the string table on valid UTF-8), "
            "C08_byte_index_spec (regexp.go's sparse table + binary search equals the prefix-sum function at every rune index 0..n), C08_byte_range_slices (the bytes addressed by ByteRange decode to exactly the captured runes = Runes(); String() equals them when they are valid UTF-8), "
            "C08_routes_agree (ByteRange, FindAllStringIndex, compat FindAllIndex([]byte) and compat reader offsets give the same byte pair for every rune span), C08_rune_input_byte_range, C08_new_group_embedded_last, and C08_groups_wf_partial "
            "(Groups() is well-formed given the interpreter invariant as a hypothesis). The interpreter half of the property (captures stored by the VM are in range; group 0 is captured once) is not proved in these files. "
            "The model is tied to the code by three legs per run: UTF-8 view vs Go (>= 130k strings), every route's byte pair for every rune span of 9k strings through the public API, and direct well-formedness checks of every returned match for >= 12k random and all harvested test patterns. Interpreter level (Proofs/ComposeExec.v, from C01 compile_correct2 + the Spec-level bounds): C08_exec_captures_in_bounds (whenever the interpreter model returns a match on a compiled supported program, every slot's array with balanceMatch's marker pairs denotes a stack of captures inside [0, len] with non-negative lengths, and isMatched/matchIndex/matchLength read its top) and C08_exec_group0_is_match_span (slot 0 denotes exactly the match span). C08_exec_captures_in_bounds_terminating / C08_exec_group0_is_match_span_terminating: the interpreter-level capture theorems without the residual hypothesis that the reference attempt terminates (discharged by Proofs/SpecTermProofs.v for trees with one-directional loop bodies: term_ok root, term_fuel e root <= 2^31-1).",
    "design_ref": "DESIGN.md §3.1, §3.8, §4 C08",
    "note": "Coq kernel; no axioms; index conversion and slicing proved for all inputs; caps_in_bounds (interpreter) is a hypothesis of the one _partial theorem and is checked on the implementation only by sampling (leg c08-wellformed).",
    "technique": "Coq proofs (induction over the decode of the string, loop invariants for the array-building loops, binary-search invariant) over an executable model + differential correspondence via extraction + direct observation of every returned match",
}
