PROP = {
    "level": "proof",
    "legs": ["c11-conc", "c11-race", "c11-writeset"],
    "timeout_quick": 900,
    "timeout_thorough": 7200,
    "trusted_base": TB_COMMON + [
        "the Go race detector (go build -race, runtime/race) is the oracle of the unmodelled half: data races and visibility under the Go memory model",
        "hook /repo/verif_pool.go (build tag verif, add-only): VerifOnScan (yield injection through the existing findFirstChar hook point), VerifPoolPeek, VerifCacheKeys",
        "go/parser + go/ast in harness/leg_c11.go (write-set scan: syntactic, reachability by function name, no alias analysis)",
    ],
    "assumptions": ASSUME_COMMON + [
        "PARTIAL: proved is that under every interleaving of the model's atomic actions (sync.Pool Get/Put of runners, Get/Put of size-classed buffers, replacerDataCache get/add under its mutex) every finished call returned its fresh result and the shared state stays legal; NOT expressible and only sampled: the Go memory model, real sync.Pool internals, preemption inside an action the model treats as atomic",
        "the premise that everything reachable from *Regexp/*syntax.Code/*CharSet is read-only after Compile is backed by leg c11-writeset (allow-list of match-time writes to shared state, committed in harness/leg_c11.go)",
        "the timeout clock (fastclock.go) is C14's model; here it only takes part in the race-detector runs",
        "hypotheses env_wf on the abstract interpreter as in C12",
    ],
}
TEXT = {
    "text": "Theorems C11_interleaving_eq_sequential_partial / C11_finished_goroutine_partial / C11_shared_state_ok_partial / C11_ownership_partial: goroutines are lists of calls, each call the entry-point program of Model/Pool.v (atomic pool, buffer and cache actions separated by local computation on owned objects); for every schedule, any number of goroutines and any pool answers, each finished call returned its fresh result and the shared state is legal (induction over the schedule; the per-thread invariant is a simulation with a program whose fresh value is the fresh result); no goroutine ever Puts an object it does not hold and every runner/buffer identity is in a pool xor held by exactly one goroutine (every entry point is linear in the objects it Gets, on all paths). The unmodelled half is sampled: G in {2,8,32} goroutines on shared and distinct Regexps against precomputed sequential results, the same under -race with GOMAXPROCS in {1,2,16} and injected yields, and a syntactic write-set scan against an allow-list.",
    "design_ref": "DESIGN.md §4 C11",
    "note": "Claimed PARTIAL: Coq kernel, no axioms, for the interleaving logic; race freedom under the Go memory model is evidence from the race detector runs, not a theorem.",
    "technique": "Coq proof (interleaving semantics over resumption programs) + race-detector stress runs + go/parser write-set scan",
}
