PROP = {
    "level": "proof",
    "legs": ["c01-sem", "c01-writer", "c13-vm", "c01-frag"],
    "timeout_quick": 600,
    "trusted_base": TB_COMMON + [
        "oracles (set membership of the compiled classes, unicode.ToLower, IsWordChar, IsECMAWordChar) are universally quantified in the theorems; for execution they are evaluated by the running Go toolchain on the runes of each case",
    ],
    "assumptions": ASSUME_COMMON + [
        "Spec.v (reference semantics: priority-ordered result lists) is the definition of 'leftmost priority-ordered backtracking search'; leg c01-sem compares it (on the harness's own elaboration of each AST, which never saw the parser, and on regexp2's exported tree) with FindRunesMatchStartingAt on every string up to a bound and every start offset",
        "Writer.v must reproduce Code.Codes word for word (leg c01-writer) and VM.v, run on the real code words, must reproduce the interpreter's result, captures, final position, error kind and stack capacity (leg c13-vm)",
        "compile_correct is proved for every tree constructor except balancing captures, for the dense writer configuration (no capture renumbering map, full program) and under tlen <= 2^31-1 and semantic fuel <= 2^31-1 (the engine's own loop counters); it says: WHEN the interpreter model returns, it returns Spec.attempt's position and captures. That it returns (enough steps, no stack-limit error) is C13's business. Outside those conditions the link Spec -> engine is the three sampled legs",
    ],
}
TEXT = {
    "text": "Theorems over the reference semantics: C01_search_is_head_of_priority_list (the executable continuation-passing search returns exactly the head of the priority-ordered result list, for every tree, state, continuation), C01_find_cps_agrees, C01_find_is_leftmost (find returns the attempt at the first position in scan order at which an attempt succeeds, and None only when every position fails; both directions, prevlen bump). C01_compile_correct_partial / _top_partial / _exec_partial: for every tree built from all node kinds except balancing captures, every text, every start position, the interpreter model (VM.v, real finite stacks, any stack limit) run on the program the writer model emits ends at Stop with exactly the position and captures of Spec.attempt, or with group 0 unset when Spec.attempt fails (invariant: the frames a node leaves on the backtracking stack denote the tail of its priority-ordered result list). The reference semantics, the writer model and the interpreter model are each tied to the code on every run: ~160k (pattern,input,offset) cases against the engine, ~3k programs compared word for word, ~15-50k interpreter runs on the real code words.",
    "design_ref": "DESIGN.md §4 C01",
    "note": "Coq kernel, no axioms. Partial: compile_correct (interpreter ∘ writer = reference semantics) excludes balancing captures, sparse capture maps and the quick program, and does not claim termination of the interpreter; those parts of the link are sampled by legs c01-sem / c01-writer / c13-vm. Fragment of the property (non-nullable quantified bodies, no balancing groups) is the generator's fragment.",
    "technique": "Coq proof over executable reference semantics + three differential correspondence legs via extraction",
}
