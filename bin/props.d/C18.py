PROP = {
    "level": "proof",
    "legs": ["c18-stamps", "c18-spellings", "c18-harvest", "c18-equiv"],
    "timeout_quick": 300,
    "trusted_base": TB_COMMON + [
        "token abstraction of the pattern text (Model/Options.v gtok) and the harness printer; the exported-tree walker that reads node Options back (RightToLeft bit masked; IgnoreCase compared on back-reference nodes only, because RegexNode.reduce clears it elsewhere)",
        "for the per-instance check: equality of the compiled programs (Code.Codes/Strings/Sets/TrackCount/Capsize/Anchors) of two spellings implies equal behaviour on all inputs (the interpreter reads nothing else of the pattern)",
    ],
    "assumptions": ASSUME_COMMON + [
        "modelled: parser.go pushOptions/popOptions/popKeepOptions/scanOptions, the option handling of countCaptures (incl. x-mode '#' comments and the n bit) and of scanRegex/scanGroupOpen, over the token abstraction; both passes",
        "not modelled: the RightToLeft bit flipped inside lookarounds; the effect of each option on node creation (checked per instance by leg c18-spellings: equal exported trees and programs, plus bounded-exhaustive inputs); the wrapping spelling on the full parser model is proved for the option machine only (C18_wrapping_group), for the leading spelling also on the full parse (C18_leading_group_same_parse) and on the pattern-text parser model Model/Parser.v (C18_parser_leading_group_same_parse)",
    ],
}
TEXT = {
    "text": "Over the option stack machine of both parser passes (Model/Options.v), for every token list: a leading (?O) stamps the rest exactly as compiling with O0|O (C18_leading_group, also on the full parser model: C18_leading_group_same_parse), (?O: ts ) stamps ts the same way and restores the previous options after its ')' (C18_wrapping_group), the ')' of any group restores options and stack whatever (?-O)/(?O) settings its body contains (C18_scope_restores), and the pre-scan computes the same option word as the main pass at every token the main pass reaches (C18_passes_agree). Tied to the code by the option stamps read back from syntax.Parse's tree, and checked per instance: all spellings of generated and harvested patterns x 32 option subsets give equal trees, equal programs and equal results on bounded-exhaustive inputs. On the pattern-text parser model (Model/Parser.v, tied to syntax.Parse by leg c10-parse; both passes, every scanner, the mandatory reducers), for every option word, pattern text and non-empty option string cs: C18_parser_leading_group_exact (parse o (\"(?cs)\"+p) is the parse of p from the initial state whose root Capture, Alternate and first Concatenate were made under o while the options of \"(?cs)\" are in force), C18_parser_leading_group_same_parse (same error code, same capture table, same tree up to the Options field of exactly these three nodes as they survive the reducers; RightToLeft equal), C18_parser_initial_node_options_only, C18_parser_inline_word_letters; witnesses: the trees are not literally equal, \"(?)a\" is an error, the wrapped spelling \"(?cs:p)\" fails for p ending in an x-mode comment (no general proof for the wrapped spelling on this model).",
    "design_ref": "DESIGN.md §4 C18",
    "note": "Coq kernel; no axioms. No defect found for this property.",
    "technique": "Coq proof (frame lemma for the option stack) over executable model + differential correspondence + per-instance program equality",
}
