PROP = {
    "level": "proof",
    "legs": ["c07-iter"],
    "trusted_base": TB_COMMON + [
        "the anchored single-position matcher is abstract in the theorems (any function satisfying `forward`); for execution the harness ships the implementation's own per-position attempt table (pattern wrapped as \\G(?:P), or (?:P)\\G right-to-left, through FindRunesMatchStartingAt)",
    ],
    "assumptions": ASSUME_COMMON + [
        "modelled: runner.go scan (start position, previousMatchLength==0 bump, far-end stop, scan order), regexp.go run / FindRunesMatch / FindRunesMatchStartingAt / FindNextMatch / FindAllRunesIndex / findAllRunesIndex / FindAllStringIndex (as fixed in /repo eb87fbc), how Match.textpos is used",
        "hypothesis `forward` (an attempt at position p yields a match beginning at p and extending in scan direction inside the text) is a hypothesis of every theorem; it is checked on every sampled attempt table by leg c07-iter, not proved for the interpreter (that is C01/C15's compile-correctness)",
        "search acceleration (findFirstChar skipping, MinRequiredLength cut-off, string prefilter candidate) is abstracted away: the model scans every position; that acceleration does not move a match is C03's statement, sampled here by comparing the real (accelerated) sequence with the model's naive scan over the attempt table",
        "patterns containing \\G: theorems cover them (the matcher takes the \\G origin as an argument); the model leg and the fresh-search observable are restricted to \\G-free patterns because the public API cannot run an attempt with an independent \\G origin; their ordering/bound/find-all observables are still checked directly",
    ],
}
TEXT = {
    "text": "Theorems over Model/Iter.v for EVERY anchored matcher satisfying `forward`, both directions, every start and every n: C07_next_advances (the next match is well-formed, begins at or beyond the previous advancing edge, start indexes strictly increase left-to-right / end positions strictly decrease right-to-left, an empty match is never followed by the same empty match), C07_iteration_bound_and_order (the FindNextMatch loop with fuel len+2 never runs out of fuel, yields at most len+1 matches, every consecutive pair ordered), C07_next_is_fresh_search (+ C07_fresh_search_is_starting_at for \\G-free matchers), C07_find_all_is_filtered_iteration and C07_find_all_from_is_filtered_iteration (FindAllRunesIndex / the FindAllStringIndex loop = first n of the iteration minus empty matches sitting on the advancing edge of their predecessor, nil when empty or n=0). Tied to the code by leg c07-iter: direct observables on the real FindNextMatch sequences plus model-vs-implementation comparison on the implementation's own attempt tables.",
    "design_ref": "DESIGN.md §4 C07, §3.8 (Entry)",
    "note": "Coq kernel; no axioms. Two genuine defects found by this property's reading were fixed in /repo eb87fbc (right-to-left find-all never filtered adjacent empty matches; find-all returned a non-nil empty slice / preallocated n slots) and the fixed code is what is modelled; their witnesses stay in the leg's deterministic corpus.",
    "technique": "Coq proof (induction on fuel / on the match chain, measure = distance of the start edge to the far end) over an executable model parametrised by an abstract matcher + differential correspondence via extraction",
}
