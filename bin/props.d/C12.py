PROP = {
    "level": "proof",
    "legs": ["c12-hist", "c12-index", "c12-errexit"],
    "timeout_quick": 600,
    "timeout_thorough": 7200,
    "trusted_base": TB_COMMON + [
        "hook /repo/verif_pool.go (build tag verif, add-only): VerifPoolPeek, VerifOnScan (installed through the existing findFirstChar hook point), VerifScan, VerifCacheKeys, VerifRune/ByteBufPeek, VerifRune/ByteClassSizes, VerifRune/BytePoolIndex, VerifStringStart, VerifMsCandidate",
        "oracles of Model/Pool.v (record env): the interpreter e_interp (one match computation as a function of the view), prefilter/startAt conversion, NewReplacerData, the Replace/Split output folds, UTF-8 decoding; in the correspondence leg they are rows computed by the real library on freshly compiled Regexps",
    ],
    "assumptions": ASSUME_COMMON + [
        "modelled: Runner fields, scan header, initMatch, tidyMatch, Match.reset, ensureStorage/growTrack (with the re-check of /repo 0ad14dc), getRunner/putRunner, decodeString[WithStart], bufferpool.go get/put/poolIndex, replacerDataCache get/add, and the pool/cache/buffer protocol of MatchString, MatchRunes, FindStringMatch[StartingAt], FindRunesMatch[StartingAt], FindNextMatch, FindAllStringIndex, FindAllRunesIndex, Replace, ReplaceFunc, Split",
        "hypothesis (env_wf/interp_wf): one match computation reads only the fields listed in Model/Pool.v's view (everything scan/initMatch/putRunner re-initialise) and pushes at most 4*TrackCount slots between two ensureStorage checks -- to be discharged by the interpreter model (VM lemmas reads_below_top, matches_read_bound, C13 capacity lemma); until then it is validated by leg c12-hist (every attempt starts on reset stacks; results equal fresh results)",
        "hypothesis (cfg_wf): both programs of a Regexp have the same TrackCount (checked on every Regexp of every history through the hook)",
        "time is an input: whether a computation times out is part of its trace; sync.Pool is modelled as a multiset whose Get returns any element or a new object, plus arbitrary drops (GC)",
        "not modelled: regexp_codegen engines (executeQuick/findFirstChar overrides), a zero-value Regexp (getRunner's lazy initCaches), user code re-entering the library from a ReplaceFunc evaluator",
    ],
}
TEXT = {
    "text": "Theorem C12_history_independent: for every finite history of calls on any number of Regexps sharing the global pools, any pool answers and any interleaved garbage collections, every call of the model returns its fresh result (induction over the history; entry points are programs over atomic pool/cache actions related by a simulation that ignores which legal runner/buffer/cache answer they receive). Supporting theorems: runner_ok_preserved (all outcomes incl. stack limit, timeout, index fault), init_match_resets, call_independent_of_runner, stack_capacity_transparent (growTrack/ensureStorage), buffers_transparent, size_class_selection, cache_coherent_preserved, lru_capacity, cache_transparent. The model is tied to the code by histories of up to 40/400 calls on 6 shared Regexps: every step equals the same call on a freshly compiled Regexp, every pooled runner satisfies runner_ok, and the model replayed on the same history reproduces results and pool/cache bookkeeping read through the hook.",
    "design_ref": "DESIGN.md §4 C12, §3.8 Pool",
    "note": "Coq kernel; no axioms. The interpreter is abstract (explicit hypotheses env_wf). Found and (by the lead, /repo 0ad14dc) repaired while building: a growth of the backtracking stack capped by MaxBacktrackingStackSize was accepted although it left < 4*TrackCount free, so `(?:ab?)*c` with limit 65 on \"ab\"x13+\"c\" returned true on a fresh Regexp and ErrBacktrackingStackLimit on every later call; kept as a regression case of leg c12-hist and as Example C12_old_ensure_storage_was_history_dependent.",
    "technique": "Coq proof (simulation over resumption programs, induction over histories) + differential correspondence via extraction + direct history-vs-fresh comparison on the real library",
}
