PROP = {
    "level": "proof",
    "legs": ["c04-facts", "c04-analysis"],
    "trusted_base": TB_COMMON + [],
    "assumptions": ASSUME_COMMON + [],
}
TEXT = {"text": "wip", "design_ref": "DESIGN.md §4 C04", "note": "wip", "technique": "wip"}
