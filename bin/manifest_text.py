HOOK_COMMITS = []
NOT_APPLICABLE = [
    {"property_id": p, "reason": "check under construction in this build round (see DESIGN.md §10 staging); will be claimed once its theorem file and correspondence leg are committed"}
    for p in ["C01","C02","C03","C04","C05","C06","C07","C08","C09","C10","C11","C12","C13","C14","C15","C16","C17","C18","C20"]
]
TEXT = {
 "C19": {
  "text": "Theorem C19_unescape_escape: for every string of valid Unicode scalars and every IsPrint oracle, the model's Unescape(Escape s) = s (induction over the string, no bound on length); C19_meta_table_ok re-checks the metacharacter table generated from escape.go. The model is tied to the code by 40k+ differential cases per run (Escape and Unescape outputs, including malformed escapes), and the literal-pattern half is sampled against the real compiler.",
  "design_ref": "DESIGN.md §4 C19",
  "note": "Coq kernel; no axioms; oracle hypothesis meta_not_word checked at run time; the statement 'Escape(s) compiles to a literal under every option set' is sampled (leg c19-literal), not proved.",
  "technique": "Coq proof (induction) over executable model + differential correspondence via extraction",
 },
}
