HOOK_COMMITS = ['ef609ce', '7110088', 'd1dc178', 'af3bff4', '854d330', '3bc5d99', 'de2fe24', '9cea780', 'e1698dc']
ALL = ["C%02d" % i for i in range(1, 21)]
def not_applicable(claimed):
    return [{"property_id": p, "reason": "check under construction in this build round (see DESIGN.md §10 staging); will be claimed once its theorem file and correspondence leg are committed"}
            for p in ALL if p not in claimed]
