import subprocess
def _hook_commits():
    # every commit of /repo whose subject starts with "verif:" (hooks are add-only files under the build tag verif,
    # plus the constant-false rewrite gates); oldest first
    out = subprocess.check_output(["git", "-C", "/repo", "log", "--reverse", "--format=%h %s"], text=True)
    return [l.split()[0] for l in out.splitlines() if l.split(" ", 1)[1].startswith("verif:")]
HOOK_COMMITS = _hook_commits()
ALL = ["C%02d" % i for i in range(1, 21)]
def not_applicable(claimed):
    return [{"property_id": p, "reason": "check under construction in this build round (see DESIGN.md §10 staging); will be claimed once its theorem file and correspondence leg are committed"}
            for p in ALL if p not in claimed]
