# Per-property configuration of bin/check: one file per property under bin/props.d/Cxx.py
# defining PROP (check configuration) and TEXT (manifest wording).
import glob, os, runpy

TB_COMMON = [
    "Coq 8.16.1 kernel (coqc, full .vo build; vm_compute used, native_compute not used)",
    "Print Assumptions under every property theorem must report 'Closed under the global context' (no axioms)",
    "translator /verif/tools/gen (go/parser) regenerates coq/Gen/*.v from /repo on every run",
    "extraction with ExtrOcamlBasic only (bool, option, unit, list, prod, sumbool, sumor, andb, orb mapped to OCaml); Z/N/positive/nat stay Coq datatypes; OCaml 4.13.1 + /verif/ocaml/main.ml glue",
    "Go correspondence harness /verif/harness (generators, encoders, differ) built with -tags verif against /repo's working tree",
]
ASSUME_COMMON = [
    "theorems are about the hand-written Gallina model in /verif/coq/Model; the tie to /repo is the generated tables plus the sampled correspondence legs of this run",
]

PROPS, TEXT = {}, {}
_here = os.path.dirname(os.path.abspath(__file__))
for _f in sorted(glob.glob(os.path.join(_here, "props.d", "C*.py"))):
    _ns = runpy.run_path(_f, {"TB_COMMON": TB_COMMON, "ASSUME_COMMON": ASSUME_COMMON})
    _id = os.path.basename(_f)[:-3]
    PROPS[_id] = _ns["PROP"]
    TEXT[_id] = _ns["TEXT"]
