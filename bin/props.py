# Per-property configuration of bin/check.
TB_COMMON = [
    "Coq 8.16.1 kernel (coqc, full .vo build; vm_compute used, native_compute not used)",
    "Print Assumptions under every property theorem must report 'Closed under the global context' (no axioms)",
    "translator /verif/tools/gen (go/parser) regenerates coq/Gen/*.v from /repo on every run",
    "extraction with ExtrOcamlBasic only (bool, option, unit, list, prod, sumbool, sumor, andb, orb mapped to OCaml); Z/N/positive/nat stay Coq datatypes; OCaml 4.13.1 + /verif/ocaml/main.ml glue",
    "Go correspondence harness /verif/harness (generators, encoders, differ) built with -tags verif against /repo's working tree",
]
ASSUME_COMMON = [
    "theorems are about the hand-written Gallina model in /verif/coq/Model; the tie to /repo is the generated tables plus the sampled correspondence legs of this run",
]

PROPS = {
    "C19": {
        "level": "proof",
        "legs": ["c19-escape", "c19-literal"],
        "trusted_base": TB_COMMON + ["oracles unicode.IsPrint and syntax.IsWordChar: universally quantified in the theorem; the single hypothesis (metacharacters are not word characters) is checked against the running Go toolchain by leg c19-escape"],
        "assumptions": ASSUME_COMMON + [
            "modelled: syntax/escape.go Escape/escape/Unescape and parser.go scanCharEscape/scanHex/scanHexUntilBrace/scanOctal/scanControl under the zero-option parser Unescape uses",
            "not modelled: the literal-run scanner of the full pattern parser; the 'Escape(s) compiles to a literal' half is exercised by leg c19-literal (sampled), not proved",
        ],
    },
}
