(* C19 — Escape and Unescape are inverse and Escape yields a literal.
   This file only states the property theorems; proofs are in Proofs/EscapeProofs.v. *)
From Verif Require Import Base.Prelude Gen.EscapeGen Model.Escape Proofs.EscapeProofs.
From Verif Require Import Gen.ParseLitGen Model.Tree Model.Spec Model.ParseLit Proofs.ParseLitProofs Proofs.ParseLitSem.

(* Full statement: for EVERY string of valid Unicode scalars (what a valid UTF-8 string decodes to),
   whatever unicode.IsPrint says about each rune, Unescape (Escape s) = s.
   The only oracle fact used: none of the metacharacters is a word character
   (checked against the running Go toolchain by leg c19-escape on every run). *)
Theorem C19_unescape_escape :
  forall (is_print is_word_char : Z -> bool),
    (forall c, In c meta -> is_word_char c = false) ->
    forall s, Forall (fun r => valid_rune r /\ no_surrogate r) s ->
              unescape is_word_char (escape is_print s) = Ok s.
Proof. exact unescape_escape. Qed.
Print Assumptions C19_unescape_escape.

(* The metacharacter table generated from syntax/escape.go never collides with an escape letter
   or an octal digit (otherwise "\n" etc. would be re-read as a control character). *)
Theorem C19_meta_table_ok : forallb meta_char_ok meta = true /\ zmem 92 meta = true.
Proof. split; [exact meta_ok | exact backslash_in_meta]. Qed.
Print Assumptions C19_meta_table_ok.

(* Non-vacuity: a concrete string with a metacharacter, whitespace, a control, a non-printable BMP
   rune (U+0378), and astral runes (one printable, one not) satisfies the hypotheses and round-trips. *)
Example C19_witness :
  let is_print := fun r => (32 <=? r) && (r <? 127) || (r =? 128512) in
  let is_word := fun r => (48 <=? r) && (r <=? 57) || (65 <=? r) && (r <=? 90) || (97 <=? r) && (r <=? 122) || (r =? 95) in
  let s := [97; 46; 32; 10; 7; 27; 888; 128512; 917505; 92; 35] in
  escape is_print s =
    [97; 92; 46; 92; 32; 92; 110; 92; 97; 92; 120; 49; 98; 92; 117; 48; 51; 55; 56; 128512;
     917505; 92; 92; 92; 35]
  /\ unescape is_word (escape is_print s) = Ok s.
Proof. vm_compute. split; reflexivity. Qed.


(* ==========================================================================================
   "Escape yields a literal", on the model of the pattern parser (Model/ParseLit.v: countCaptures +
   scanRegex + scanBackslash/scanBasicBackslash/scanCharEscape + reduceConcatenation, tied to
   syntax.Parse by leg c19-parse on every run; tables generated from parser.go in Gen/ParseLitGen.v).

   (b1) For EVERY string s of valid runes, every IsPrint / IsWordChar / case oracle and every option
   set without IgnoreCase and RightToLeft -- so: default, IgnorePatternWhitespace, ECMAScript, RE2,
   Unicode, Multiline, Singleline, ExplicitCapture and all their combinations -- Parse(Escape(s))
   succeeds and its tree is Capture0 over exactly the literal s (Empty / One c / Multi s).
   Oracle facts used: the metacharacters are not word characters; and, only under
   IgnorePatternWhitespace, IsPrint is false on TAB LF VT FF CR (both checked against the running
   Go toolchain by the legs).  IgnoreCase: see C19_escape_ignorecase_refuted (expected: the pattern
   then matches case-insensitively).  RightToLeft is outside the parser model (sampled by c19-literal). *)
Theorem C19_escape_parses_to_literal :
  forall (is_print is_word_char : Z -> bool) (to_lower : Z -> Z)
         (is_cased participates ci_single : Z -> bool) (ci_set_id : Z -> Z),
    (forall c, In c meta -> is_word_char c = false) ->
    forall opts,
      useI opts = false -> useRTL opts = false ->
      (useX opts = true -> forall c, 9 <= c <= 13 -> is_print c = false) ->
      forall s, Forall valid_rune s ->
        parse_lit is_word_char to_lower is_cased participates ci_single ci_set_id opts (escape is_print s)
        = Ok (PTree (PRoot opts (lit_body (clear_I opts) s))).
Proof.
  intros ip iw tl ic pa cs ci Hm o HI HR HX s Hv.
  exact (escape_parses_to_literal ip iw tl ic pa cs ci Hm o HI HX HR s Hv).
Qed.
Print Assumptions C19_escape_parses_to_literal.

(* (b2) The same for \A Escape(s) \z : the tree is Capture0(Concat [Beginning; literal s; End]). *)
Theorem C19_anchored_escape_parses :
  forall (is_print is_word_char : Z -> bool) (to_lower : Z -> Z)
         (is_cased participates ci_single : Z -> bool) (ci_set_id : Z -> Z),
    (forall c, In c meta -> is_word_char c = false) ->
    forall opts,
      useI opts = false -> useRTL opts = false ->
      (useX opts = true -> forall c, 9 <= c <= 13 -> is_print c = false) ->
      forall s, Forall valid_rune s ->
        parse_lit is_word_char to_lower is_cased participates ci_single ci_set_id opts
                  ([92; 65] ++ escape is_print s ++ [92; 122])
        = Ok (PTree (PRoot opts (anchored_body (clear_I opts) s))).
Proof.
  intros ip iw tl ic pa cs ci Hm o HI HR HX s Hv.
  exact (anchored_escape_parses ip iw tl ic pa cs ci Hm o HI HX HR s Hv).
Qed.
Print Assumptions C19_anchored_escape_parses.

(* (b3) ... and that tree, read by the reference semantics (Model/Spec.v), matches a text t exactly
   when t = s: the search from offset 0 returns the match [0, |s|) if t = s and no match otherwise,
   for every environment (text, oracles) and every fuel >= 3. Together with (b2) and
   C19_unescape_escape this is the whole property on the models. *)
Theorem C19_escape_matches_only_s :
  forall (is_print is_word_char : Z -> bool) (to_lower : Z -> Z)
         (is_cased participates ci_single : Z -> bool) (ci_set_id : Z -> Z),
    (forall c, In c meta -> is_word_char c = false) ->
    forall opts,
      useI opts = false -> useRTL opts = false ->
      (useX opts = true -> forall c, 9 <= c <= 13 -> is_print c = false) ->
      forall s, Forall valid_rune s ->
      exists t,
        parse_lit is_word_char to_lower is_cased participates ci_single ci_set_id opts
                  ([92; 65] ++ escape is_print s ++ [92; 122]) = Ok (PTree t) /\
        forall (e : env) (f : nat),
          (txt e = s ->
             find e (S (S (S f))) (node_of_ptree t) false 0 (-1) =
             Ok (Some {| pos := zlen s; caps := cap_push 0 (span 0 (zlen s)) [] |})) /\
          (txt e <> s -> find e (S (S (S f))) (node_of_ptree t) false 0 (-1) = Ok None).
Proof.
  intros ip iw tl ic pa cs ci Hm o HI HR HX s Hv.
  exists (PRoot o (anchored_body (clear_I o) s)). split.
  - exact (anchored_escape_parses ip iw tl ic pa cs ci Hm o HI HX HR s Hv).
  - intros e f. exact (anchored_find e (clear_I o) (clear_I_not_ci o) (clear_I_not_rtl o HR) f o s).
Qed.
Print Assumptions C19_escape_matches_only_s.

(* The parser fragment is total: on every pattern (runes >= 0, as `range` over a string yields) and
   every option set the model returns a tree, "outside the fragment" or a syntax error -- never a
   Go run-time fault (Crash) and never runs out of fuel: each round of scanRegex's outer loop
   consumes a rune (C10 for this fragment). *)
Theorem C19_parse_lit_total :
  forall (is_word_char : Z -> bool) (to_lower : Z -> Z)
         (is_cased participates ci_single : Z -> bool) (ci_set_id : Z -> Z) opts p,
    Forall (fun c => 0 <= c) p ->
    (exists r, parse_lit is_word_char to_lower is_cased participates ci_single ci_set_id opts p = Ok r) \/
    (exists code, parse_lit is_word_char to_lower is_cased participates ci_single ci_set_id opts p = Err code).
Proof.
  intros iw tl ic pa cs ci o p Hp.
  pose proof (parse_lit_total iw tl ic pa cs ci o p Hp) as F.
  destruct (parse_lit iw tl ic pa cs ci o p) as [r|c|w|]; cbn in F; try contradiction; eauto.
Qed.
Print Assumptions C19_parse_lit_total.

(* Obligations on the tables generated from parser.go (category table, classifier thresholds) against
   the metacharacters generated from escape.go: every rune that ends a run of ordinary characters is
   escaped by Escape (specials; in x-mode also blanks and '#'), no metacharacter starts another escape,
   and a stopper that is not special is a blank (what makes scanRegex's loop advance). *)
Theorem C19_category_table_ok :
  (forall c, is_special c = true -> zmem c meta = true) /\
  (forall c, is_stopper_x c = true -> zmem c meta = true \/ 9 <= c <= 13) /\
  (forall c, is_stopper_x c = true -> is_special c = false -> is_space c = true \/ c = 35) /\
  forallb (fun c => first_ok c && negb ((c =? 120) || (c =? 117)) && (0 <=? c)) meta = true /\
  pl_bounds_ok = true.
Proof.
  split; [exact special_in_meta|]. split; [exact stopper_x_in_meta|].
  split; [exact stopper_not_special_is_blank|]. split; [exact meta_first_ok | exact pl_bounds_ok_true].
Qed.
Print Assumptions C19_category_table_ok.

(* Under IgnoreCase the statement (b1) is false, as it should be: Escape("a") = "a" parses to a
   case-insensitive set, not to the literal. (Not a defect: Escape promises a literal up to the
   matching options in force.) *)
Theorem C19_escape_ignorecase_refuted :
  exists (is_print is_word_char : Z -> bool) (to_lower : Z -> Z)
         (is_cased participates ci_single : Z -> bool) (ci_set_id : Z -> Z) s,
    (forall c, In c meta -> is_word_char c = false) /\ Forall valid_rune s /\
    parse_lit is_word_char to_lower is_cased participates ci_single ci_set_id PL_IgnoreCase (escape is_print s)
    <> Ok (PTree (PRoot PL_IgnoreCase (lit_body (clear_I PL_IgnoreCase) s))).
Proof.
  exists (fun r => (32 <=? r) && (r <? 127)), (fun r => (97 <=? r) && (r <=? 122)), (fun r => r),
         (fun r => (97 <=? r) && (r <=? 122)), (fun _ => true), (fun _ => false), (fun r => r), [97].
  split.
  - intros c Hc. vm_compute in Hc.
    repeat (destruct Hc as [Hc|Hc]; [subst c; reflexivity|]). contradiction.
  - split; [constructor; [unfold valid_rune; lia | constructor]|].
    vm_compute. discriminate.
Qed.
Print Assumptions C19_escape_ignorecase_refuted.

(* Non-vacuity and model sanity (vm_compute): concrete oracles; the witness string has a
   metacharacter, blanks, controls, a non-printable BMP rune and astral runes. *)
Definition c19_print (r : Z) : bool := (32 <=? r) && (r <? 127) || (r =? 128512).
Definition c19_word (r : Z) : bool :=
  (48 <=? r) && (r <=? 57) || (65 <=? r) && (r <=? 90) || (97 <=? r) && (r <=? 122) || (r =? 95).
Definition c19_parse (o : Z) (p : list Z) : res pres :=
  parse_lit c19_word (fun r => r) (fun _ => false) (fun _ => true) (fun _ => false) (fun r => r) o p.
Definition c19_s : list Z := [97; 46; 32; 10; 7; 27; 888; 128512; 917505; 92; 35; 123].

Example C19_parse_witness_default :
  c19_parse 0 (escape c19_print c19_s) = Ok (PTree (PRoot 0 (BSingle (PnMulti 0 c19_s)))).
Proof. vm_compute. reflexivity. Qed.
Example C19_parse_witness_xmode_ecma_re2 :
  c19_parse PL_IgnorePatternWhitespace (escape c19_print c19_s) = Ok (PTree (PRoot 32 (BSingle (PnMulti 32 c19_s)))) /\
  c19_parse PL_ECMAScript (escape c19_print c19_s) = Ok (PTree (PRoot 256 (BSingle (PnMulti 256 c19_s)))) /\
  c19_parse (PL_RE2 + PL_IgnorePatternWhitespace) (escape c19_print c19_s) = Ok (PTree (PRoot 544 (BSingle (PnMulti 544 c19_s)))).
Proof. vm_compute. repeat split. Qed.
(* the unescaped text is NOT parsed to the literal (the escaping matters), blanks vanish in x-mode *)
Example C19_parse_unescaped_differs :
  c19_parse 0 [97; 46] = Ok POutside /\
  c19_parse PL_IgnorePatternWhitespace [97; 32; 98; 35; 99] = Ok (PTree (PRoot 32 (BSingle (PnMulti 32 [97; 98])))).
Proof. vm_compute. split; reflexivity. Qed.
(* escapes, errors, ECMAScript readings: \x41\u0042\103 ; \q ; \x{4g} ; \x4 ; \1 ; \k<0> ; \d\d *)
Example C19_parse_escape_forms :
  c19_parse 0 [92; 120; 52; 49; 92; 117; 48; 48; 52; 50; 92; 49; 48; 51] = Ok (PTree (PRoot 0 (BSingle (PnMulti 0 [65; 66; 67])))) /\
  c19_parse 0 [92; 113] = Err E_UnrecognizedEscape /\
  c19_parse PL_ECMAScript [92; 113] = Ok (PTree (PRoot 256 (BSingle (PnOne 256 113)))) /\
  c19_parse 0 [92; 120; 123; 52; 103; 125] = Err E_MissingBrace /\
  c19_parse PL_ECMAScript [92; 120; 123; 52; 103; 125] = Ok (PTree (PRoot 256 (BSingle (PnMulti 256 [120; 123; 52; 103; 125])))) /\
  c19_parse 0 [92; 120; 52] = Err E_TooFewHex /\
  c19_parse 0 [92; 49] = Err E_UndefinedBackRef /\
  c19_parse 0 [92; 107; 60; 48; 62] = Ok (PTree (PRoot 0 (BSingle (PnRef 0 0)))) /\
  c19_parse 0 [92; 100; 92; 100] = Ok (PTree (PRoot 0 (BSingle (PnSetLoop 0 (-100) 2)))) /\
  c19_parse 0 [92] = Err E_IllegalEndEscape.
Proof. vm_compute. repeat split. Qed.
(* the reference semantics on the anchored literal tree: matches s, rejects a near miss *)
Example C19_sem_witness :
  let root := node_of_ptree (PRoot 0 (anchored_body 0 [97; 46])) in
  let env_of := fun t => {| txt := t; tstart := 0; ecma := false; endz_strict := false; set_in := fun _ _ => false;
                            lower := fun r => r; is_word := c19_word; is_eword := c19_word |} in
  find (env_of [97; 46]) 5 root false 0 (-1) = Ok (Some {| pos := 2; caps := [(0, [(0, 2)])] |}) /\
  find (env_of [97; 98]) 5 root false 0 (-1) = Ok None /\
  find (env_of [97; 46; 46]) 5 root false 0 (-1) = Ok None.
Proof. vm_compute. repeat split. Qed.
