(* C19 — Escape and Unescape are inverse and Escape yields a literal.
   This file only states the property theorems; proofs are in Proofs/EscapeProofs.v. *)
From Verif Require Import Base.Prelude Gen.EscapeGen Model.Escape Proofs.EscapeProofs.

(* Full statement: for EVERY string of valid Unicode scalars (what a valid UTF-8 string decodes to),
   whatever unicode.IsPrint says about each rune, Unescape (Escape s) = s.
   The only oracle fact used: none of the metacharacters is a word character
   (checked against the running Go toolchain by leg c19-escape on every run). *)
Theorem C19_unescape_escape :
  forall (is_print is_word_char : Z -> bool),
    (forall c, In c meta -> is_word_char c = false) ->
    forall s, Forall (fun r => valid_rune r /\ no_surrogate r) s ->
              unescape is_word_char (escape is_print s) = Ok s.
Proof. exact unescape_escape. Qed.
Print Assumptions C19_unescape_escape.

(* The metacharacter table generated from syntax/escape.go never collides with an escape letter
   or an octal digit (otherwise "\n" etc. would be re-read as a control character). *)
Theorem C19_meta_table_ok : forallb meta_char_ok meta = true /\ zmem 92 meta = true.
Proof. split; [exact meta_ok | exact backslash_in_meta]. Qed.
Print Assumptions C19_meta_table_ok.

(* Non-vacuity: a concrete string with a metacharacter, whitespace, a control, a non-printable BMP
   rune (U+0378), and astral runes (one printable, one not) satisfies the hypotheses and round-trips. *)
Example C19_witness :
  let is_print := fun r => (32 <=? r) && (r <? 127) || (r =? 128512) in
  let is_word := fun r => (48 <=? r) && (r <=? 57) || (65 <=? r) && (r <=? 90) || (97 <=? r) && (r <=? 122) || (r =? 95) in
  let s := [97; 46; 32; 10; 7; 27; 888; 128512; 917505; 92; 35] in
  escape is_print s =
    [97; 92; 46; 92; 32; 92; 110; 92; 97; 92; 120; 49; 98; 92; 117; 48; 51; 55; 56; 128512;
     917505; 92; 92; 92; 35]
  /\ unescape is_word (escape is_print s) = Ok s.
Proof. vm_compute. split; reflexivity. Qed.
