(* C13 — the backtracking stack limit is honoured and otherwise invisible.
   This file only states the property theorems; proofs are in Proofs/VMLimitProofs.v (capacity
   invariant) and Proofs/VMLimitSimProofs.v (lock-step simulation between two limits).
   The theorems are about Model/VM.v, the word-for-word model of runner.go's interpreter
   (initMatch, ensureStorage with the re-check after growTrack, growTrack, goTo, backtrack and all
   opcodes), for EVERY program (not only compiled ones), every input, every limit, every fuel.

   Status of the property text:
     "the backtracking stack it allocates never exceeds L slots"      full   (C13_track_never_exceeds_limit)
     "raising L never turns a success into an error"                  full   (C13_raise_limit_monotone)
     "a success under L is exactly the unlimited result"              full   (C13_limit_transparent)
     "either the unlimited result or ErrBacktrackingStackLimit;
      it never panics"                                                partial:
        C13_limit_trichotomy_partial (unconditional, every program) leaves a third alternative,
        Crash C_track = a push beyond the allocated stack on the limited side.
        C13_limit_dichotomy_partial excludes it by the capacity argument of DESIGN Appendix A
        (C13_compiled_push_weight: the writer's code has total push weight <= 4*TrackCount;
        C13_step_keeps_capacity / C13_step_no_overflow: free >= weight of the code from pc on is
        invariant and no push overflows), under ONE hypothesis that is not proved here: every code
        position the UNLIMITED run reaches is an instruction boundary (control-flow safety of the
        engine without a limit: C10's frame discipline of the two stacks).
        UPDATE (end of this file): the hypothesis is discharged for every program the writer emits --
        C13_limit_dichotomy_compiled (via a verified bytecode verifier: C13_limit_dichotomy_typed,
        C13_every_compiled_program_is_accepted); C13_limit_dichotomy_partial remains the statement for
        ARBITRARY programs.
     "the Regexp stays fully usable afterwards" is C12's runner_ok_preserved, not restated here. *)
From Verif Require Import Base.Prelude Model.Tree Model.Spec Model.VM Model.Writer Gen.RunnerGen
  Proofs.VMLimitProofs Proofs.VMLimitSimProofs Proofs.VMCapacityProofs.
From Verif Require Import Gen.CodeGen Gen.EffectGen Proofs.VMEffectProofs.

(* The invariant  tcap <= L (when L >= 0),  |track| <= tcap,  |stack| <= scap  holds in the state
   initMatch builds, is preserved by every opcode step that continues or stops, and therefore
   holds in the state every successful search returns: the allocated backtracking stack never
   exceeds the limit. *)
Theorem C13_track_never_exceeds_limit :
  forall e p limit,
    (forall t, cap_ok limit (init_vm p limit t)) /\
    (forall s s', step e p limit s = Ok (Next s') \/ step e p limit s = Ok (Done s') ->
                  cap_ok limit s -> cap_ok limit s') /\
    (forall fuel rtl start prevlen s',
        vm_find e p limit fuel rtl start prevlen = Ok (Some s') ->
        (0 <= limit -> tcap s' <= limit) /\ zlen (track s') <= tcap s').
Proof. exact vml_track_never_exceeds_limit. Qed.
Print Assumptions C13_track_never_exceeds_limit.

(* A search that succeeds (match or no match) under ANY limit L returns exactly what the unlimited
   search returns: same found/not found, and every field of the final interpreter state (text
   position, capture arrays, stacks' contents) equal except the allocated track length. *)
Theorem C13_limit_transparent :
  forall e p L fuel rtl start prevlen r,
    vm_find e p L fuel rtl start prevlen = Ok r ->
    exists r', vm_find e p (-1) fuel rtl start prevlen = Ok r' /\ same_result r r'.
Proof. exact vml_limit_transparent. Qed.
Print Assumptions C13_limit_transparent.

(* For every limit the search is ErrBacktrackingStackLimit, or agrees with the unlimited search
   in every outcome (result, error code, crash reason, fuel exhaustion) — or, the alternative this
   theorem does not exclude, a push ran beyond the allocated stack on the limited side. *)
Theorem C13_limit_trichotomy_partial :
  forall e p L fuel rtl start prevlen,
    let r1 := vm_find e p L fuel rtl start prevlen in
    let r2 := vm_find e p (-1) fuel rtl start prevlen in
    r1 = Err E_StackLimit \/ r1 = Crash C_track \/
    match r1, r2 with
    | Ok a, Ok b => same_result a b
    | Err c, Err c' => c = c'
    | Crash w, Crash w' => w = w'
    | Fuel, Fuel => True
    | _, _ => False
    end.
Proof. exact vml_limit_trichotomy. Qed.
Print Assumptions C13_limit_trichotomy_partial.

(* Raising the limit (or removing it) never turns a success into an error, and the result is the same. *)
Theorem C13_raise_limit_monotone :
  forall e p L L' fuel rtl start prevlen r,
    0 <= L -> (L <= L' \/ L' < 0) ->
    vm_find e p L fuel rtl start prevlen = Ok r ->
    exists r', vm_find e p L' fuel rtl start prevlen = Ok r' /\ same_result r r'.
Proof. exact vml_raise_limit_monotone. Qed.
Print Assumptions C13_raise_limit_monotone.

(* The one-step fact everything above is lifted from: related states (all fields equal, track
   lengths equal or the smaller limit has capped the first) step to related outcomes, unless the
   limited side reports the limit or pushes beyond its allocated stack. *)
Theorem C13_step_simulation :
  forall e p L L', lim_le L L' ->
  forall s1 s2, simrel L s1 s2 -> res_rel (out_rel L) (step e p L s1) (step e p L' s2).
Proof. exact step_sim. Qed.
Print Assumptions C13_step_simulation.

(* ---- the capacity argument (DESIGN Appendix A) ---- *)

(* Static half.  Weight of an instruction = a bound on the net number of backtracking-stack slots one
   execution of it (forward, Back or Back2) adds: 4 if counted by opcodeBacktracks (Goto: 0),
   1 for Nullmark, 0 otherwise.  For EVERY tree and writer configuration, the code the writer emits
   decodes into instructions of total weight <= 4 * TrackCount (TrackCount as computed by the
   counting pass on that code). *)
Theorem C13_compiled_push_weight :
  forall c root,
    let code := fst (compile c root) in
    cp_need code 0 <= 4 * track_count code.
Proof. exact cp_compile_weight. Qed.
Print Assumptions C13_compiled_push_weight.

(* Dynamic half, one step, any program with total weight <= 4*TrackCount (G_ensure_factor is the
   generated ensureStorage factor): at an instruction boundary, free >= need(pc) is preserved ... *)
Theorem C13_step_keeps_capacity :
  forall e p L, cp_need (codes p) 0 <= trackcount p * G_ensure_factor ->
  forall s w o, cp_boundary (codes p) (pc s) w -> cp_inv p s -> step e p L s = Ok o -> cp_out_inv p o.
Proof. exact cp_step_inv. Qed.
Print Assumptions C13_step_keeps_capacity.

(* ... and the step under limit L is ErrBacktrackingStackLimit or related to the step under the more
   permissive limit: the Crash C_track alternative of C13_step_simulation is gone. *)
Theorem C13_step_no_overflow :
  forall e p L L', lim_le L L' ->
  forall s1 s2 w, cp_boundary (codes p) (pc s1) w -> cp_inv p s1 -> simrel L s1 s2 ->
                  res_rel0 (out_rel L) (step e p L s1) (step e p L' s2).
Proof. intros e p L L' HL s1 s2 w. exact (cp_step_sim e p L L' HL s1 s2 w). Qed.
Print Assumptions C13_step_no_overflow.

(* The first sentence of C13 for a program of weight <= 4*TrackCount (every compiled program:
   cp_compiled_weight), under the control-flow hypothesis on the UNLIMITED run. *)
Theorem C13_limit_dichotomy_partial :
  forall e p L fuel rtl start prevlen,
    cp_need (codes p) 0 <= trackcount p * G_ensure_factor ->
    (forall s, cp_reach e p (-1) s -> exists w, cp_boundary (codes p) (pc s) w) ->
    let r1 := vm_find e p L fuel rtl start prevlen in
    let r2 := vm_find e p (-1) fuel rtl start prevlen in
    r1 = Err E_StackLimit \/
    match r1, r2 with
    | Ok a, Ok b => same_result a b
    | Err c, Err c' => c = c'
    | Crash w, Crash w' => w = w'
    | Fuel, Fuel => True
    | _, _ => False
    end.
Proof. exact cp_limit_dichotomy_unl. Qed.
Print Assumptions C13_limit_dichotomy_partial.

(* ---- non-vacuity: the program Writer.compile produces for  a*b  (root capture 0), on "aab" ---- *)
Definition c13_root : node :=
  NCapture 0 0 (-1) (NConcat 0 [NCharLoop COne LGreedy 0 97 0 INF; NChar COne 0 98]).
Definition c13_prog : program :=
  let cc := compile {| capmap := None; quick := None |} c13_root in
  {| codes := fst cc; strings := snd cc; trackcount := track_count (fst cc); capsize := 1 |}.
Definition c13_env : env :=
  {| txt := [97; 97; 98]; tstart := 0; ecma := false; endz_strict := false; set_in := fun _ _ => false;
     lower := fun x => x; is_word := fun _ => false; is_eword := fun _ => false |}.

Example C13_witness_program :
  codes c13_prog = [23; 11; 31; 3; 97; 2147483647; 9; 98; 32; 0; -1; 40] /\ trackcount c13_prog = 4.
Proof. vm_compute. split; reflexivity. Qed.

(* limit 0 and limit 15 (< 4*trackcount): ErrBacktrackingStackLimit at the first check *)
Example C13_witness_limit_0 : vm_find c13_env c13_prog 0 10 false 0 (-1) = Err E_StackLimit.
Proof. vm_compute. reflexivity. Qed.
Example C13_witness_limit_15 : vm_find c13_env c13_prog 15 10 false 0 (-1) = Err E_StackLimit.
Proof. vm_compute. reflexivity. Qed.

(* limits 16, 64 and none: the same match [0,3), allocated track 16 / 64 / 64 *)
Example C13_witness_limit_16_64_none :
  let obs := fun r => match r with
                      | Ok (Some s) => Some (tp s, mcaps s, tcap s)
                      | _ => None
                      end in
  obs (vm_find c13_env c13_prog 16 10 false 0 (-1)) = Some (3, [[0; 3]], 16) /\
  obs (vm_find c13_env c13_prog 64 10 false 0 (-1)) = Some (3, [[0; 3]], 64) /\
  obs (vm_find c13_env c13_prog (-1) 10 false 0 (-1)) = Some (3, [[0; 3]], 64).
Proof. vm_compute. repeat split; reflexivity. Qed.

(* the example program decodes into 6 instructions of total weight 16 = 4 * TrackCount *)
Example C13_witness_weight :
  cp_dec (codes c13_prog) = [(0, 23); (2, 31); (3, 3); (6, 9); (8, 32); (11, 40)] /\
  cp_need (codes c13_prog) 0 = 16 /\ trackcount c13_prog * G_ensure_factor = 16.
Proof. vm_compute. repeat split; reflexivity. Qed.

(* ---- the dichotomy for programs compiled from supported trees (corollary of C01's compile_correct2) ----
   C13_limit_dichotomy_partial above needs control-flow safety of EVERY state the unlimited engine can reach
   from any state at code position 0.  For the program the writer emits for a supported2 tree the unlimited
   run of every attempt is known (C01_compile_correct2_top_partial), and the dichotomy follows for the whole
   scan, stack capacities carried from attempt to attempt:
     ErrBacktrackingStackLimit (only if 0 <= L), or the same result as the unlimited scan, or both out of fuel;
     in particular never a fault, and the unlimited scan itself never faults.
   What is left of the hypothesis ([_partial]): CompileTotal.path_ok on the unbounded path of each start
   position (instruction boundaries, grouping stack two words below its initial size) -- decidable per
   instance (CompileLimit.mon_steps); enough reference fuel at every start position. *)
From Verif Require Import Proofs.SpecBoundsProofs Proofs.CompileDefs Proofs.CompileBalDefs
  Proofs.CompileTotal Proofs.CompileLimit Proofs.CompileLimitTop.

Theorem C13_dichotomy_for_supported_partial :
  forall (e : env) (p : program), 0 <= trackcount p -> track_count (codes p) <= trackcount p -> tlen e <= INF ->
  forall fuel o body,
  let root := NCapture o 0 (-1) body in
  codes p = fst (compile cfg0 root) -> strings p = snd (compile cfg0 root) ->
  supported2 root = true -> groups_ok2 (capsize p) root -> Z.of_nat fuel <= INF ->
  (forall t, 0 <= t <= tlen e -> exists r, attempt e fuel root t = Ok r) ->
  (forall t, 0 <= t <= tlen e -> path_ok e p (a0 p t)) ->
  forall L vfuel rtl start prevlen, 0 <= start <= tlen e ->
    let r1 := vm_find e p L vfuel rtl start prevlen in
    let r2 := vm_find e p (-1) vfuel rtl start prevlen in
    (r1 = Err E_StackLimit /\ 0 <= L) \/
    match r1, r2 with
    | Ok a, Ok b => same_result a b
    | Fuel, Fuel => True
    | _, _ => False
    end.
Proof. exact compile_find_dichotomy_partial. Qed.
Print Assumptions C13_dichotomy_for_supported_partial.

(* the same for ANY program whose unbounded attempt paths are known (no compiler involved) *)
Theorem C13_dichotomy_along_known_paths :
  forall (e : env) (p : program), 0 <= trackcount p ->
  cp_need (codes p) 0 <= trackcount p * G_ensure_factor ->
  forall L w0 vfuel rtl start prevlen, code_at p 0 = Some w0 -> all_paths e p -> 0 <= start <= tlen e ->
  scan_out L (vm_find e p L vfuel rtl start prevlen) (vm_find e p (-1) vfuel rtl start prevlen).
Proof. intros e p Htc Hw L w0 vfuel rtl start prevlen. exact (lim_find e p Htc Hw L w0 vfuel rtl start prevlen). Qed.
Print Assumptions C13_dichotomy_along_known_paths.

(* ---- the dichotomy WITHOUT a control-flow hypothesis, for every program the static verifier accepts ----
   CompileCfSafe.tyck_auto p is a decidable check of the program alone (a bytecode verifier: a shape of the
   grouping stack for every instruction boundary, every instruction consistent with it).  Its soundness
   (cf_sound: a frame-typing invariant preserved by every opcode in the three modes Forward / Back / Back2)
   gives control-flow safety of every run from a fresh state, hence, with the capacity argument above:
   under any limit the scan is ErrBacktrackingStackLimit or agrees with the unlimited scan in every outcome.
   Every input, every fuel, no compile_correct.  For compiled programs the weight hypothesis is the theorem
   C13_compiled_push_weight.  Leg c01-frag: the verifier accepts 100% of the real programs of the corpus
   (full and quick); that it accepts EVERY program the writer emits is not proved here. *)
From Verif Require Import Proofs.CompileCfSafe Proofs.CompileTyped.

Theorem C13_limit_dichotomy_typed :
  forall e p L fuel rtl start prevlen,
    cp_need (codes p) 0 <= trackcount p * G_ensure_factor ->
    tyck_auto p = true ->
    let r1 := vm_find e p L fuel rtl start prevlen in
    let r2 := vm_find e p (-1) fuel rtl start prevlen in
    r1 = Err E_StackLimit \/
    match r1, r2 with
    | Ok a, Ok b => same_result a b
    | Err c, Err c' => c = c'
    | Crash w, Crash w' => w = w'
    | Fuel, Fuel => True
    | _, _ => False
    end.
Proof. exact typed_limit_dichotomy. Qed.
Print Assumptions C13_limit_dichotomy_typed.

Theorem C13_limit_dichotomy_compiled_typed :
  forall c root strs cs e L fuel rtl start prevlen,
  let code := fst (compile c root) in
  let p := {| codes := code; strings := strs; trackcount := track_count code; capsize := cs |} in
  tyck_auto p = true ->
  let r1 := vm_find e p L fuel rtl start prevlen in
  let r2 := vm_find e p (-1) fuel rtl start prevlen in
  r1 = Err E_StackLimit \/
  match r1, r2 with
  | Ok a, Ok b => same_result a b
  | Err c, Err c' => c = c'
  | Crash w, Crash w' => w = w'
  | Fuel, Fuel => True
  | _, _ => False
  end.
Proof. exact typed_limit_dichotomy_compiled. Qed.
Print Assumptions C13_limit_dichotomy_compiled_typed.

(* the non-vacuity program of this file is accepted by the verifier *)
Example C13_witness_typed : tyck_auto c13_prog = true.
Proof. vm_compute. reflexivity. Qed.

(* ---- the first sentence of C13 for EVERY program the writer emits, no hypothesis ----
   Proofs/CompileTyEmit.v (compiled_tyck): every emitted program -- any tree, any writer configuration (slot map,
   quick program) -- is accepted by the verifier; with C13_compiled_push_weight and C13_limit_dichotomy_typed:
   under any limit the scan is ErrBacktrackingStackLimit or agrees with the unlimited scan in every outcome
   (result, error, crash reason, fuel exhaustion).  Every input, every fuel.  This discharges the control-flow
   hypothesis of C13_limit_dichotomy_partial for compiled programs (TrackCount as counted on the code, which
   is what syntax.Write stores). *)
From Verif Require Import Proofs.CompileTyEmit Proofs.CompileSafe.

Theorem C13_limit_dichotomy_compiled :
  forall c root strs cs e L fuel rtl start prevlen,
  let code := fst (compile c root) in
  let p := {| codes := code; strings := strs; trackcount := track_count code; capsize := cs |} in
  let r1 := vm_find e p L fuel rtl start prevlen in
  let r2 := vm_find e p (-1) fuel rtl start prevlen in
  r1 = Err E_StackLimit \/
  match r1, r2 with
  | Ok a, Ok b => same_result a b
  | Err c, Err c' => c = c'
  | Crash w, Crash w' => w = w'
  | Fuel, Fuel => True
  | _, _ => False
  end.
Proof. exact compiled_limit_dichotomy. Qed.
Print Assumptions C13_limit_dichotomy_compiled.

Theorem C13_every_compiled_program_is_accepted :
  forall c root p, codes p = fst (compile c root) -> track_count (codes p) <= trackcount p ->
  exists sh, tyck p sh = true.
Proof. exact compiled_tyck. Qed.
Print Assumptions C13_every_compiled_program_is_accepted.

(* ... and for supported trees the unlimited scan itself never faults: both scans return, or both run out of fuel *)
Theorem C13_dichotomy_for_supported :
  forall (e : env) (p : program), 0 <= trackcount p -> track_count (codes p) <= trackcount p -> tlen e <= INF ->
  forall fuel o body,
  let root := NCapture o 0 (-1) body in
  codes p = fst (compile cfg0 root) -> strings p = snd (compile cfg0 root) ->
  supported2 root = true -> groups_ok2 (capsize p) root -> Z.of_nat fuel <= INF ->
  (forall t, 0 <= t <= tlen e -> exists r, attempt e fuel root t = Ok r) ->
  forall L vfuel rtl start prevlen, 0 <= start <= tlen e ->
    let r1 := vm_find e p L vfuel rtl start prevlen in
    let r2 := vm_find e p (-1) vfuel rtl start prevlen in
    (r1 = Err E_StackLimit /\ 0 <= L) \/
    match r1, r2 with
    | Ok a, Ok b => same_result a b
    | Fuel, Fuel => True
    | _, _ => False
    end.
Proof. exact compile_find_dichotomy. Qed.
Print Assumptions C13_dichotomy_for_supported.
(* ---- translator tie: Model/VM.v against the stack-effect table tools/gen reads off runner.go ---- *)

(* Gen/EffectGen.v (regenerated from runner.go's executeDefault on every run) lists, for every case code
   (opcode | Back | Back2) and every control path of the case body,
     (track words popped, track words pushed, stack words popped, stack words pushed, exit, flags, crawl)
   with the helper arities (trackPush1 = 2 words ...) read from the helpers' bodies.  For EVERY program, limit
   and state whose code position holds a word w, the outcome of the model's step is one of the paths the
   table lists for the state's case code (eff_case_code w (mode s) = r.operator): by [eff_path_ok] the
   track / grouping stack / capture-undo stack after the step are the old ones minus the path's popped words
   plus its number of pushed words (after a cut-back to a saved height where the path calls trackto; only the
   root word replaced where the path writes runtrack[len-1]), and the step leaves through the path's exit —
   advance(k): forward mode at pc+k+1; goTo(operand i): forward mode at the i-th operand; backtrack: the frame
   head np is popped and |np| entered in Back / Back2 mode; return nil: Done.  ErrBacktrackingStackLimit only
   where a path ends in goTo or backtrack (the two callers of ensureStorage); the model's "unknown opcode"
   exactly on the case codes the source has no case for.  A source change of what an opcode pushes, pops or
   where it exits changes the table and breaks this theorem until the model is changed with it. *)
Theorem C13_step_effects_match_source_table :
  forall e p L s w,
    code_at p (pc s) = Some w ->
    let c := eff_case_code w (mode s) in
    match step e p L s with
    | Ok o => exists pt, In pt (eff_paths c) /\ eff_path_ok p pt s o
    | Err x => x = E_StackLimit /\ exists pt, In pt (eff_paths c) /\ eff_can_fail pt = true
    | Crash why => why = C_unknown_op <-> eff_is_key c = false
    | Fuel => True
    end.
Proof. exact vm_step_effect_in_table. Qed.
Print Assumptions C13_step_effects_match_source_table.

(* Coverage, both directions: the model falls into its "unknown opcode" branch exactly when the table has no
   case for the state's code (the source's default case), for every state; and every key of the table, the
   default case -1 aside, is an (opcode, entry mode) pair of the model. *)
Theorem C13_model_and_source_have_the_same_case_codes :
  (forall e p L s w, code_at p (pc s) = Some w ->
     (step e p L s = Crash C_unknown_op <-> eff_is_key (eff_case_code w (mode s)) = false)) /\
  forallb (fun k => (k =? -1) || existsb (fun op => existsb (fun m => k =? op + eff_mode_bits m) eff_all_modes) eff_all_ops)
          (map fst G_effects_x) = true.
Proof. split; [exact vm_step_unknown_iff_not_key|exact (proj1 (proj2 eff_dispatch_is_keys))]. Qed.
Print Assumptions C13_model_and_source_have_the_same_case_codes.

(* The converse at path level: every path the table lists for a case code is the path the model's step takes
   from some state (the witnesses are found by computation over a small family of candidate states in
   Proofs/VMEffectProofs.v).  With C13_step_effects_match_source_table: per case code, the control paths of the
   source and the behaviours of the model are the same set of (pops, pushes, exit, flags, crawl) tuples — a source
   edit that adds a way through a case body (say a conditional extra push) breaks this theorem. *)
Theorem C13_source_table_paths_are_model_paths :
  forall c pts pt,
    In (c, pts) G_effects_x -> c <> -1 -> In pt pts ->
    exists e p s w o, code_at p (pc s) = Some w /\ eff_case_code w (mode s) = c /\
                      step e p (-1) s = Ok o /\ eff_path_ok p pt s o.
Proof. exact vm_table_paths_are_model_paths. Qed.
Print Assumptions C13_source_table_paths_are_model_paths.

(* The net form over G_effects (the same table without flags and crawl): a successful step changes the track
   length by pushed - popped (one more word off, the frame head, when the path falls to backtrack(); no claim
   on trackto paths, popped = -1), the grouping-stack length by pushed - popped, and leaves by the exit kind. *)
Theorem C13_step_net_effects_match_source_table :
  forall e p L s w o,
    code_at p (pc s) = Some w -> step e p L s = Ok o ->
    exists t, In t (eff_paths5 (eff_case_code w (mode s))) /\ eff_net_ok p t s o.
Proof. exact vm_step_net_effect. Qed.
Print Assumptions C13_step_net_effects_match_source_table.

(* The two generated tables check each other: an opcode one of whose paths pushes track words is counted by
   opcodeBacktracks (Gen/CodeGen.v) — except Nullmark, the known uncounted pusher; every counted opcode has a
   case; and no path's net push at its own code position exceeds the weight the capacity argument above gives
   the opcode (cp_weight: 4 if counted, Goto 0, Nullmark 1, else 0). *)
Theorem C13_effect_table_agrees_with_backtrack_table :
  (forallb (fun kv => negb (existsb (fun pt => 0 <? eff_tpush pt) (snd kv)) ||
                      zmem (Z.land (fst kv) 63) opcode_backtracks_list || (Z.land (fst kv) 63 =? G_Nullmark))
           G_effects_x = true /\
   forallb (fun op => eff_is_key op) opcode_backtracks_list = true) /\
  forallb (fun kv => (fst kv =? -1) || forallb (fun pt => eff_net_push (fst kv) pt <=? cp_weight (fst kv)) (snd kv))
          G_effects_x = true.
Proof. split; [exact eff_pushers_are_counted|exact eff_net_push_le_weight]. Qed.
Print Assumptions C13_effect_table_agrees_with_backtrack_table.

(* non-vacuity: rows of the generated table, and the first step of the example program (Lazybranch at 0:
   two words pushed, advance(1)) *)
Example C13_witness_effect_rows :
  eff_paths 23 = [(0, 2, 0, 0, 1, 0, 0)] /\
  eff_paths (28 + 128) = [(1, 3, 2, 0, 2, 0, 0); (1, 0, 2, 2, 20, 0, 0)] /\
  eff_paths5 35 = [(-1, 0, 2, 0, 20)] /\ eff_paths 39 = [] /\
  (G_eff_trackPush, G_eff_trackPush1, G_eff_trackPush2, G_eff_trackPush3, G_eff_trackPushNeg1, G_eff_trackPushNeg2) = (1, 2, 3, 4, 2, 3).
Proof. vm_compute. repeat split; reflexivity. Qed.
Example C13_witness_effect_step :
  match step c13_env c13_prog (-1) (init_vm c13_prog (-1) 0) with
  | Ok (Next s') => (pc s', mode s', track s', stack s')
  | _ => (0, 0, [], [])
  end = (2, 0, [0; 0], []).
Proof. vm_compute. reflexivity. Qed.
