(* C03 — search acceleration never loses, adds or moves a match.
   Only statements here; proofs are in Proofs/ScanProofs.v and Proofs/ScanBumpProofs.v,
   the model of runner.go's scan loop is Model/Scan.v.

   What is proved:
   * C03_scan_finder_sound: the scan loop (runner.go:116-228) over ANY candidate finder, minimum
     length and matcher satisfying (H1)-(H3) returns exactly what the accelerator-free loop returns,
     both directions, every start, every previousMatchLength; the fuel n+2 is never exhausted.
   * per-accelerator discharge of the hypotheses, proved: the anchor part of findFirstCharDefault
     (C03_default_anchor_jump, from the C04 anchor facts as hypotheses) and the bump-along shortcut
     (C03_bump_sound, C03_bump_discharges_H3, on the reference semantics).
   * NOT proved here: (H1) for the Boyer-Moore scan, the first-character loop and the optimized
     finders (leading string(s), fixed-distance char/string/sets, literal-after-loop, landmark chain,
     trailing fixed-length end), (H2) for MinRequiredLength, and the raw-string prefilters.  These are
     checked on the implementation at every position by harness leg c03-accel (candidate finder vs
     table of successful attempts) and replayed through this model by leg c03-scanmodel. *)
From Verif Require Import Base.Prelude Model.Tree Model.Spec Model.Scan
  Proofs.ScanProofs Proofs.ScanBumpProofs.

(* ---- the generic theorem ------------------------------------------------------------------
   sc_H1_true : finder p = (true,q)  -> q at-or-beyond p, in the text, no match in [p,q)
   sc_H1_false: finder p = (false,q) -> q at-or-beyond p, in the text, no match in [p,q]
                (weakest useful form: after a failed finder the loop does exactly what it does
                 after a failed attempt at q; "no match from p to the far end", which is what
                 findFirstCharDefault's give-up paths establish, implies it: C03_H1_false_far_end)
   sc_H2      : no match at a position with fewer than min_required characters ahead
   sc_H3      : exec p = (None,q) -> q at-or-beyond p, in the text, no match in [p,q] *)
Theorem C03_scan_finder_sound :
  forall (R : Type) (n : Z) (rtl : bool) (min_required : Z)
         (finder : Z -> bool * Z) (exec : Z -> option R * Z),
    sc_H1_true R n rtl finder exec ->
    sc_H1_false R n rtl finder exec ->
    sc_H2 R n rtl min_required exec ->
    sc_H3 R n rtl exec ->
    forall start prevlen, sc_in_text n start ->
    exists r, scan n rtl min_required finder exec start prevlen = Ok r
           /\ naive_scan n rtl exec start prevlen = Ok r.
Proof. exact sc_scan_finder_sound. Qed.
Print Assumptions C03_scan_finder_sound.

Theorem C03_H1_false_far_end :
  forall R n rtl finder (exec : Z -> option R * Z),
    (forall p q, sc_in_text n p -> finder p = (false, q) ->
       sc_ord rtl p q /\ sc_in_text n q /\
       (forall x, sc_ord rtl p x -> sc_in_text n x -> sc_fails R exec x)) ->
    sc_H1_false R n rtl finder exec.
Proof. exact sc_H1_false_of_far_end. Qed.
Print Assumptions C03_H1_false_far_end.

(* what the accelerator-free loop returns: the first successful attempt in scan order *)
Theorem C03_naive_scan_is_first_success :
  forall (R : Type) (n : Z) (rtl : bool) (exec : Z -> option R * Z) fuel p r,
    sc_in_text n p -> naive_loop n rtl exec fuel p = Ok r ->
    match r with
    | Some m => exists x, sc_ord rtl p x /\ sc_in_text n x /\ fst (exec x) = Some m
                          /\ forall y, sc_ord rtl p y -> sc_before rtl y x -> sc_fails R exec y
    | None => forall x, sc_ord rtl p x -> sc_in_text n x -> sc_fails R exec x
    end.
Proof. exact sc_naive_loop_spec. Qed.
Print Assumptions C03_naive_scan_is_first_success.

(* Spec.find (the property's reference) is this accelerator-free loop over Spec.attempt *)
Theorem C03_find_is_naive_scan :
  forall (e : env) (fuel : nat) (root : node) (rtl : bool) (bumpq : Z -> Z) start prevlen,
    (forall x, 0 <= x <= tlen e -> exists r, attempt e fuel root x = Ok r) ->
    0 <= start <= tlen e ->
    find e fuel root rtl start prevlen
    = naive_scan (tlen e) rtl (bp_exec e fuel root bumpq) start prevlen.
Proof. exact bp_find_naive_scan. Qed.
Print Assumptions C03_find_is_naive_scan.

(* ---- the anchor jumps of findFirstCharDefault (runner.go:1382-1412) satisfy (H1) ---------- *)
Theorem C03_default_anchor_jump :
  forall (R : Type) (text : list Z) (rtl : bool) (anchors ts : Z) (bm : option (Z -> bool))
         (rest : Z -> bool * Z) (exec : Z -> option R * Z),
    let n := a_n text in
    let succeeds := fun x => fst (exec x) <> None in
    (abit anchors ANCH_BEGINNING = true -> forall x, sc_in_text n x -> succeeds x -> x = 0) ->
    (abit anchors ANCH_START = true -> forall x, sc_in_text n x -> succeeds x -> x = ts) ->
    (abit anchors ANCH_ENDZ = true -> forall x, sc_in_text n x -> succeeds x ->
       x = n \/ (x = n - 1 /\ a_char text x = 10)) ->
    (abit anchors ANCH_END = true -> forall x, sc_in_text n x -> succeeds x -> x = n) ->
    (forall is_match, bm = Some is_match -> forall x, sc_in_text n x -> succeeds x -> is_match x = true) ->
    sc_H1_true R n rtl rest exec ->
    sc_H1_false R n rtl rest exec ->
    sc_H1_true R n rtl (ffc_default text rtl anchors ts bm rest) exec /\
    sc_H1_false R n rtl (ffc_default text rtl anchors ts bm rest) exec.
Proof. exact sc_anchor_H1. Qed.
Print Assumptions C03_default_anchor_jump.

(* ---- the bump-along shortcut ----------------------------------------------------------------
   Shapes (Proofs/ScanBumpProofs.v): the concatenation [loop{m,INF}; UpdateBumpalong; rest...] with a
   left-to-right single-character loop,
     bp_shape_g: greedy or atomic loop, under any nesting of Atomic groups and of concatenations
                 whose first child leads to it (what tree.go:340-347 walks);
     bp_shape_a: any loop kind including lazy, under Atomic groups only.
   [rest] is arbitrary: in the reference semantics nothing but the root capture (group 0, which no
   back-reference can name) and captures AROUND the loop (excluded by the shape) can observe where
   the attempt started.  Same fuel for both attempts.
   NOT covered, and false: a LAZY loop inside an Atomic group that is followed by more pattern
   (C03_bump_lazy_committing_atomic_counterexample below) - syntax/tree.go inserted the marker there
   (genuine defect, see known_findings.txt / the C03 report). *)
Theorem C03_bump_sound :
  forall (e : env) (k : ckind) (c ol : Z), is_rtl ol = false ->
  forall fuel o body p,
    bp_shape_g k c ol body \/ bp_shape_a k c ol body ->
    attempt e fuel (NCapture o 0 (-1) body) p = Ok None ->
    forall p', p < p' <= p + bp_run e k c ol p ->
    attempt e fuel (NCapture o 0 (-1) body) p' = Ok None.
Proof. exact bp_bump_sound. Qed.
Print Assumptions C03_bump_sound.

(* hence (H3) for the matcher with the shortcut, whatever position in [p, p+run] it leaves *)
Theorem C03_bump_discharges_H3 :
  forall (e : env) (fuel : nat) (root : node) (k : ckind) (c ol : Z), is_rtl ol = false ->
  forall o body bumpq,
    root = NCapture o 0 (-1) body ->
    bp_shape_g k c ol body \/ bp_shape_a k c ol body ->
    (forall p, p <= bumpq p <= p + bp_run e k c ol p) ->
    sc_H3 st (tlen e) false (bp_exec e fuel root bumpq).
Proof. exact bp_H3. Qed.
Print Assumptions C03_bump_discharges_H3.

(* ======================================= Examples ======================================= *)

(* text "xcxxc" (n = 5), the matcher needs 'c' (99) at the position; finder = "first position at or
   after p holding c", giving up at the far end; min_required = 1. *)
Definition ex_text : list Z := [120; 99; 120; 120; 99].
Definition ex_exec (p : Z) : option Z * Z :=
  (if (0 <=? p) && (p <? 5) && (nth (Z.to_nat p) ex_text 0 =? 99) then Some p else None, p).
Fixpoint ex_first_c (fuel : nat) (p : Z) : bool * Z :=
  match fuel with
  | O => (false, 5)
  | S f => if 5 <=? p then (false, 5)
           else if nth (Z.to_nat p) ex_text 0 =? 99 then (true, p) else ex_first_c f (p + 1)
  end.
Definition ex_finder (p : Z) : bool * Z := ex_first_c 6 p.

Example C03_hypotheses_met :
  sc_chk_H1 Z 5 false ex_finder ex_exec = true /\
  sc_chk_H2 Z 5 false 1 ex_exec = true /\
  sc_chk_H3 Z 5 false ex_exec = true /\
  scan 5 false 1 ex_finder ex_exec 0 (-1) = Ok (Some 1) /\
  scan 5 false 1 ex_finder ex_exec 2 3 = Ok (Some 4) /\
  scan 5 false 1 ex_finder ex_exec 4 0 = Ok None /\
  naive_scan 5 false ex_exec 2 3 = Ok (Some 4).
Proof. vm_compute. repeat split; reflexivity. Qed.

(* ... so the theorem applies to it *)
Example C03_theorem_applies :
  forall start prevlen, sc_in_text 5 start ->
  exists r, scan 5 false 1 ex_finder ex_exec start prevlen = Ok r
         /\ naive_scan 5 false ex_exec start prevlen = Ok r.
Proof.
  assert (H : sc_chk_H1 Z 5 false ex_finder ex_exec = true) by (vm_compute; reflexivity).
  apply sc_chk_H1_ok in H. destruct H as [H1t H1f].
  apply C03_scan_finder_sound; [exact H1t | exact H1f | |].
  - apply sc_chk_H2_ok. vm_compute. reflexivity.
  - apply sc_chk_H3_ok. vm_compute. reflexivity.
Qed.

(* right-to-left: text "cxxcx", finder = "nearest position at or before p whose previous character
   is c" modelled directly on the table; matcher needs c just before the position *)
Definition ex_exec_rtl (p : Z) : option Z * Z :=
  (if (1 <=? p) && (p <=? 5) && (nth (Z.to_nat (p - 1)) [99; 120; 120; 99; 120] 0 =? 99) then Some p else None, p).
Definition ex_finder_rtl (p : Z) : bool * Z :=
  if 4 <=? p then (true, 4) else if 1 <=? p then (true, 1) else (false, 0).
Example C03_hypotheses_met_rtl :
  sc_chk_H1 Z 5 true ex_finder_rtl ex_exec_rtl = true /\
  sc_chk_H2 Z 5 true 1 ex_exec_rtl = true /\
  sc_chk_H3 Z 5 true ex_exec_rtl = true /\
  scan 5 true 1 ex_finder_rtl ex_exec_rtl 5 (-1) = Ok (Some 4) /\
  scan 5 true 1 ex_finder_rtl ex_exec_rtl 4 0 = Ok (Some 1) /\
  naive_scan 5 true ex_exec_rtl 4 0 = Ok (Some 1) /\
  scan 5 true 1 ex_finder_rtl ex_exec_rtl 1 0 = Ok None.
Proof. vm_compute. repeat split; reflexivity. Qed.

(* The hypotheses are not vacuous: a finder that skips a matching position ("last c") moves the
   match; a finder that gives up too early loses it; a finder that walks backwards after giving up
   adds a match BEFORE the start; a finder that leaves Runtextpos outside the text never terminates
   (fuel exhausted; in Go: index out of range / endless loop). *)
Example C03_violating_finder_moves_match :
  let bad := fun p : Z => (true, 4) in
  sc_chk_H1 Z 5 false bad ex_exec = false /\
  scan 5 false 0 bad ex_exec 0 (-1) = Ok (Some 4) /\
  naive_scan 5 false ex_exec 0 (-1) = Ok (Some 1).
Proof. vm_compute. repeat split; reflexivity. Qed.

Example C03_violating_finder_loses_match :
  let bad := fun p : Z => if p <=? 1 then (true, 1) else (false, 5) in
  sc_chk_H1 Z 5 false bad ex_exec = false /\
  scan 5 false 0 bad ex_exec 2 (-1) = Ok None /\
  naive_scan 5 false ex_exec 2 (-1) = Ok (Some 4).
Proof. vm_compute. repeat split; reflexivity. Qed.

Example C03_violating_finder_adds_match_before_start :
  let bad := fun p : Z => if p =? 1 then (true, 1) else (false, 0) in
  sc_chk_H1 Z 5 false bad (fun p => (if p =? 1 then Some p else None, p)) = false /\
  scan 5 false 0 bad (fun p => (if p =? 1 then Some p else None, p)) 3 (-1) = Ok (Some 1) /\
  naive_scan 5 false (fun p => (if p =? 1 then Some p else None, p)) 3 (-1) = Ok None.
Proof. vm_compute. repeat split; reflexivity. Qed.

Example C03_violating_finder_runs_away :
  let bad := fun p : Z => (false, p + 7) in
  scan 5 false 0 bad ex_exec 0 (-1) = Fuel /\
  naive_scan 5 false ex_exec 0 (-1) = Ok (Some 1).
Proof. vm_compute. repeat split; reflexivity. Qed.

(* (H2) and (H3) matter too: a too-large minimum length loses the last match; an attempt that
   leaves Runtextpos beyond a matching position skips it. *)
Example C03_violating_min_length :
  sc_chk_H2 Z 5 false 2 ex_exec = false /\
  scan 5 false 2 naive_finder ex_exec 2 (-1) = Ok None /\
  naive_scan 5 false ex_exec 2 (-1) = Ok (Some 4).
Proof. vm_compute. repeat split; reflexivity. Qed.

(* This table is what runner.go produced for (?>a+?b?)c on "aac" before the fix to
   syntax/tree.go: the failed attempt at 0 left Runtextpos = 1 and position 1 matches "ac". *)
Example C03_violating_bumpalong :
  let ex := fun p : Z => if p =? 0 then (None, 1) else if p =? 1 then (Some 1, 3) else (None, p) in
  sc_chk_H3 Z 3 false ex = false /\
  scan 3 false 0 naive_finder ex 0 (-1) = Ok None /\
  naive_scan 3 false ex 0 (-1) = Ok (Some 1).
Proof. vm_compute. repeat split; reflexivity. Qed.

(* ---- bump-along on concrete trees ---- *)
Definition ex_env (t : list Z) : env :=
  {| txt := t; tstart := 0; ecma := false; endz_strict := false;
     set_in := fun _ _ => false; lower := fun x => x;
     is_word := fun _ => false; is_eword := fun _ => false |}.

(* a*b as the parser emits it: Capture0(Concat[Oneloop a{0,INF}; UpdateBumpalong; One b]) on "aaac":
   the attempt at 0 fails, the run is 3, and (by C03_bump_sound) so do the attempts at 1, 2, 3. *)
Definition ex_root_ab : node :=
  NCapture 0 0 (-1) (NConcat 0 [NCharLoop COne LGreedy 0 97 0 INF; NBump; NChar COne 0 98]).
Example C03_bump_witness :
  let e := ex_env [97; 97; 97; 99] in
  bp_shape_g COne 97 0 (NConcat 0 [NCharLoop COne LGreedy 0 97 0 INF; NBump; NChar COne 0 98]) /\
  attempt e 10 ex_root_ab 0 = Ok None /\
  bp_run e COne 97 0 0 = 3 /\
  (forall p', 0 < p' <= 3 -> attempt e 10 ex_root_ab p' = Ok None) /\
  attempt (ex_env [97; 97; 97; 98]) 10 ex_root_ab 0
    = Ok (Some {| pos := 4; caps := [(0, [(0, 4)])] |}).
Proof.
  cbv zeta. split; [|split; [|split; [|split]]].
  - apply (BSG_core COne 97 0 LGreedy 0 0 [NChar COne 0 98]). discriminate.
  - vm_compute. reflexivity.
  - vm_compute. reflexivity.
  - intros p' Hp'.
    apply (C03_bump_sound (ex_env [97; 97; 97; 99]) COne 97 0 eq_refl 10 0 _ 0).
    + left. apply (BSG_core COne 97 0 LGreedy 0 0 [NChar COne 0 98]). discriminate.
    + vm_compute. reflexivity.
    + replace (bp_run (ex_env [97; 97; 97; 99]) COne 97 0 0) with 3 by (vm_compute; reflexivity). lia.
  - vm_compute. reflexivity.
Qed.

(* (?>a+?b?)c as tree.go built it before the fix: the marker sits after a LAZY loop inside an atomic
   group that is followed by 'c'.  On "aac" the attempt at 0 fails (the group commits to "a"), the
   run from 0 is 2, but the attempt at 1 succeeds: the statement of C03_bump_sound is false for this
   shape, and it is in neither bp_shape_g nor bp_shape_a. *)
Definition ex_root_lazy : node :=
  NCapture 0 0 (-1)
    (NConcat 0 [NAtomic (NConcat 0 [NCharLoop COne LLazy 0 97 1 INF; NBump; NCharLoop COne LAtomic 0 98 0 1]);
                NChar COne 0 99]).
Example C03_bump_lazy_committing_atomic_counterexample :
  let e := ex_env [97; 97; 99] in
  attempt e 10 ex_root_lazy 0 = Ok None /\
  bp_run e COne 97 0 0 = 2 /\
  attempt e 10 ex_root_lazy 1 = Ok (Some {| pos := 3; caps := [(0, [(1, 2)])] |}).
Proof. vm_compute. repeat split; reflexivity. Qed.
