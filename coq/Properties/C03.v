(* C03 — search acceleration never loses, adds or moves a match.
   Only statements here; proofs are in Proofs/ScanProofs.v and Proofs/ScanBumpProofs.v,
   the model of runner.go's scan loop is Model/Scan.v.

   What is proved:
   * C03_scan_finder_sound: the scan loop (runner.go:116-228) over ANY candidate finder, minimum
     length and matcher satisfying (H1)-(H3) returns exactly what the accelerator-free loop returns,
     both directions, every start, every previousMatchLength; the fuel n+2 is never exhausted.
   * per-accelerator discharge of the hypotheses, proved: the anchor part of findFirstCharDefault
     (C03_default_anchor_jump, from the C04 anchor facts as hypotheses) and the bump-along shortcut
     (C03_bump_sound, C03_bump_discharges_H3, on the reference semantics).
   * (H1) for the optimized finders of runner.go:1468-1945 (Model/Finder.v, tied to the code at every
     position by leg c03-finder): second half of this file, each from the compile-time fact it relies on.
   * the Boyer-Moore prefix machine (syntax/prefix.go newBmPrefix / Scan / IsMatch; Model/BM.v, tied to the
     code - tables and every index of every small text - by leg c03-bm): last part of this file.  Scan returns
     the FIRST occurrence in scan direction or -1 (C03_bm_scan_sound: sound and complete, both directions,
     case-insensitive and unicode rows included), from table invariants proved of newBmPrefix's construction;
     this discharges the two Boyer-Moore hypotheses of C03_finder_default (C03_finder_default_with_bm) and
     composes with C04 end to end (C03_mode_bm_sound_partial).
   * NOT proved here: (H1) for the raw-string prefilters (C02's business).  The accelerators are also checked on
     the implementation at every position by harness leg c03-accel (candidate finder vs table of successful
     attempts) and replayed through this model by leg c03-scanmodel. *)
From Verif Require Import Base.Prelude Base.Utf8 Model.Tree Model.Spec Model.Scan Model.Finder Model.Analysis
  Proofs.ScanProofs Proofs.ScanBumpProofs Proofs.FinderProofs Proofs.FinderCompose.

(* ---- the generic theorem ------------------------------------------------------------------
   sc_H1_true : finder p = (true,q)  -> q at-or-beyond p, in the text, no match in [p,q)
   sc_H1_false: finder p = (false,q) -> q at-or-beyond p, in the text, no match in [p,q]
                (weakest useful form: after a failed finder the loop does exactly what it does
                 after a failed attempt at q; "no match from p to the far end", which is what
                 findFirstCharDefault's give-up paths establish, implies it: C03_H1_false_far_end)
   sc_H2      : no match at a position with fewer than min_required characters ahead
   sc_H3      : exec p = (None,q) -> q at-or-beyond p, in the text, no match in [p,q] *)
Theorem C03_scan_finder_sound :
  forall (R : Type) (n : Z) (rtl : bool) (min_required : Z)
         (finder : Z -> bool * Z) (exec : Z -> option R * Z),
    sc_H1_true R n rtl finder exec ->
    sc_H1_false R n rtl finder exec ->
    sc_H2 R n rtl min_required exec ->
    sc_H3 R n rtl exec ->
    forall start prevlen, sc_in_text n start ->
    exists r, scan n rtl min_required finder exec start prevlen = Ok r
           /\ naive_scan n rtl exec start prevlen = Ok r.
Proof. exact sc_scan_finder_sound. Qed.
Print Assumptions C03_scan_finder_sound.

Theorem C03_H1_false_far_end :
  forall R n rtl finder (exec : Z -> option R * Z),
    (forall p q, sc_in_text n p -> finder p = (false, q) ->
       sc_ord rtl p q /\ sc_in_text n q /\
       (forall x, sc_ord rtl p x -> sc_in_text n x -> sc_fails R exec x)) ->
    sc_H1_false R n rtl finder exec.
Proof. exact sc_H1_false_of_far_end. Qed.
Print Assumptions C03_H1_false_far_end.

(* what the accelerator-free loop returns: the first successful attempt in scan order *)
Theorem C03_naive_scan_is_first_success :
  forall (R : Type) (n : Z) (rtl : bool) (exec : Z -> option R * Z) fuel p r,
    sc_in_text n p -> naive_loop n rtl exec fuel p = Ok r ->
    match r with
    | Some m => exists x, sc_ord rtl p x /\ sc_in_text n x /\ fst (exec x) = Some m
                          /\ forall y, sc_ord rtl p y -> sc_before rtl y x -> sc_fails R exec y
    | None => forall x, sc_ord rtl p x -> sc_in_text n x -> sc_fails R exec x
    end.
Proof. exact sc_naive_loop_spec. Qed.
Print Assumptions C03_naive_scan_is_first_success.

(* Spec.find (the property's reference) is this accelerator-free loop over Spec.attempt *)
Theorem C03_find_is_naive_scan :
  forall (e : env) (fuel : nat) (root : node) (rtl : bool) (bumpq : Z -> Z) start prevlen,
    (forall x, 0 <= x <= tlen e -> exists r, attempt e fuel root x = Ok r) ->
    0 <= start <= tlen e ->
    find e fuel root rtl start prevlen
    = naive_scan (tlen e) rtl (bp_exec e fuel root bumpq) start prevlen.
Proof. exact bp_find_naive_scan. Qed.
Print Assumptions C03_find_is_naive_scan.

(* ---- the anchor jumps of findFirstCharDefault (runner.go:1382-1412) satisfy (H1) ---------- *)
Theorem C03_default_anchor_jump :
  forall (R : Type) (text : list Z) (rtl : bool) (anchors ts : Z) (bm : option (Z -> bool))
         (rest : Z -> bool * Z) (exec : Z -> option R * Z),
    let n := a_n text in
    let succeeds := fun x => fst (exec x) <> None in
    (abit anchors ANCH_BEGINNING = true -> forall x, sc_in_text n x -> succeeds x -> x = 0) ->
    (abit anchors ANCH_START = true -> forall x, sc_in_text n x -> succeeds x -> x = ts) ->
    (abit anchors ANCH_ENDZ = true -> forall x, sc_in_text n x -> succeeds x ->
       x = n \/ (x = n - 1 /\ a_char text x = 10)) ->
    (abit anchors ANCH_END = true -> forall x, sc_in_text n x -> succeeds x -> x = n) ->
    (forall is_match, bm = Some is_match -> forall x, sc_in_text n x -> succeeds x -> is_match x = true) ->
    sc_H1_true R n rtl rest exec ->
    sc_H1_false R n rtl rest exec ->
    sc_H1_true R n rtl (ffc_default text rtl anchors ts bm rest) exec /\
    sc_H1_false R n rtl (ffc_default text rtl anchors ts bm rest) exec.
Proof. exact sc_anchor_H1. Qed.
Print Assumptions C03_default_anchor_jump.

(* ---- the bump-along shortcut ----------------------------------------------------------------
   Shapes (Proofs/ScanBumpProofs.v): the concatenation [loop{m,INF}; UpdateBumpalong; rest...] with a
   left-to-right single-character loop,
     bp_shape_g: greedy or atomic loop, under any nesting of Atomic groups and of concatenations
                 whose first child leads to it (what tree.go:340-347 walks);
     bp_shape_a: any loop kind including lazy, under Atomic groups only.
   [rest] is arbitrary: in the reference semantics nothing but the root capture (group 0, which no
   back-reference can name) and captures AROUND the loop (excluded by the shape) can observe where
   the attempt started.  Same fuel for both attempts.
   NOT covered, and false: a LAZY loop inside an Atomic group that is followed by more pattern
   (C03_bump_lazy_committing_atomic_counterexample below) - syntax/tree.go inserted the marker there
   (genuine defect, see known_findings.txt / the C03 report). *)
Theorem C03_bump_sound :
  forall (e : env) (k : ckind) (c ol : Z), is_rtl ol = false ->
  forall fuel o body p,
    bp_shape_g k c ol body \/ bp_shape_a k c ol body ->
    attempt e fuel (NCapture o 0 (-1) body) p = Ok None ->
    forall p', p < p' <= p + bp_run e k c ol p ->
    attempt e fuel (NCapture o 0 (-1) body) p' = Ok None.
Proof. exact bp_bump_sound. Qed.
Print Assumptions C03_bump_sound.

(* hence (H3) for the matcher with the shortcut, whatever position in [p, p+run] it leaves *)
Theorem C03_bump_discharges_H3 :
  forall (e : env) (fuel : nat) (root : node) (k : ckind) (c ol : Z), is_rtl ol = false ->
  forall o body bumpq,
    root = NCapture o 0 (-1) body ->
    bp_shape_g k c ol body \/ bp_shape_a k c ol body ->
    (forall p, p <= bumpq p <= p + bp_run e k c ol p) ->
    sc_H3 st (tlen e) false (bp_exec e fuel root bumpq).
Proof. exact bp_H3. Qed.
Print Assumptions C03_bump_discharges_H3.

(* ======================================= Examples ======================================= *)

(* text "xcxxc" (n = 5), the matcher needs 'c' (99) at the position; finder = "first position at or
   after p holding c", giving up at the far end; min_required = 1. *)
Definition ex_text : list Z := [120; 99; 120; 120; 99].
Definition ex_exec (p : Z) : option Z * Z :=
  (if (0 <=? p) && (p <? 5) && (nth (Z.to_nat p) ex_text 0 =? 99) then Some p else None, p).
Fixpoint ex_first_c (fuel : nat) (p : Z) : bool * Z :=
  match fuel with
  | O => (false, 5)
  | S f => if 5 <=? p then (false, 5)
           else if nth (Z.to_nat p) ex_text 0 =? 99 then (true, p) else ex_first_c f (p + 1)
  end.
Definition ex_finder (p : Z) : bool * Z := ex_first_c 6 p.

Example C03_hypotheses_met :
  sc_chk_H1 Z 5 false ex_finder ex_exec = true /\
  sc_chk_H2 Z 5 false 1 ex_exec = true /\
  sc_chk_H3 Z 5 false ex_exec = true /\
  scan 5 false 1 ex_finder ex_exec 0 (-1) = Ok (Some 1) /\
  scan 5 false 1 ex_finder ex_exec 2 3 = Ok (Some 4) /\
  scan 5 false 1 ex_finder ex_exec 4 0 = Ok None /\
  naive_scan 5 false ex_exec 2 3 = Ok (Some 4).
Proof. vm_compute. repeat split; reflexivity. Qed.

(* ... so the theorem applies to it *)
Example C03_theorem_applies :
  forall start prevlen, sc_in_text 5 start ->
  exists r, scan 5 false 1 ex_finder ex_exec start prevlen = Ok r
         /\ naive_scan 5 false ex_exec start prevlen = Ok r.
Proof.
  assert (H : sc_chk_H1 Z 5 false ex_finder ex_exec = true) by (vm_compute; reflexivity).
  apply sc_chk_H1_ok in H. destruct H as [H1t H1f].
  apply C03_scan_finder_sound; [exact H1t | exact H1f | |].
  - apply sc_chk_H2_ok. vm_compute. reflexivity.
  - apply sc_chk_H3_ok. vm_compute. reflexivity.
Qed.

(* right-to-left: text "cxxcx", finder = "nearest position at or before p whose previous character
   is c" modelled directly on the table; matcher needs c just before the position *)
Definition ex_exec_rtl (p : Z) : option Z * Z :=
  (if (1 <=? p) && (p <=? 5) && (nth (Z.to_nat (p - 1)) [99; 120; 120; 99; 120] 0 =? 99) then Some p else None, p).
Definition ex_finder_rtl (p : Z) : bool * Z :=
  if 4 <=? p then (true, 4) else if 1 <=? p then (true, 1) else (false, 0).
Example C03_hypotheses_met_rtl :
  sc_chk_H1 Z 5 true ex_finder_rtl ex_exec_rtl = true /\
  sc_chk_H2 Z 5 true 1 ex_exec_rtl = true /\
  sc_chk_H3 Z 5 true ex_exec_rtl = true /\
  scan 5 true 1 ex_finder_rtl ex_exec_rtl 5 (-1) = Ok (Some 4) /\
  scan 5 true 1 ex_finder_rtl ex_exec_rtl 4 0 = Ok (Some 1) /\
  naive_scan 5 true ex_exec_rtl 4 0 = Ok (Some 1) /\
  scan 5 true 1 ex_finder_rtl ex_exec_rtl 1 0 = Ok None.
Proof. vm_compute. repeat split; reflexivity. Qed.

(* The hypotheses are not vacuous: a finder that skips a matching position ("last c") moves the
   match; a finder that gives up too early loses it; a finder that walks backwards after giving up
   adds a match BEFORE the start; a finder that leaves Runtextpos outside the text never terminates
   (fuel exhausted; in Go: index out of range / endless loop). *)
Example C03_violating_finder_moves_match :
  let bad := fun p : Z => (true, 4) in
  sc_chk_H1 Z 5 false bad ex_exec = false /\
  scan 5 false 0 bad ex_exec 0 (-1) = Ok (Some 4) /\
  naive_scan 5 false ex_exec 0 (-1) = Ok (Some 1).
Proof. vm_compute. repeat split; reflexivity. Qed.

Example C03_violating_finder_loses_match :
  let bad := fun p : Z => if p <=? 1 then (true, 1) else (false, 5) in
  sc_chk_H1 Z 5 false bad ex_exec = false /\
  scan 5 false 0 bad ex_exec 2 (-1) = Ok None /\
  naive_scan 5 false ex_exec 2 (-1) = Ok (Some 4).
Proof. vm_compute. repeat split; reflexivity. Qed.

Example C03_violating_finder_adds_match_before_start :
  let bad := fun p : Z => if p =? 1 then (true, 1) else (false, 0) in
  sc_chk_H1 Z 5 false bad (fun p => (if p =? 1 then Some p else None, p)) = false /\
  scan 5 false 0 bad (fun p => (if p =? 1 then Some p else None, p)) 3 (-1) = Ok (Some 1) /\
  naive_scan 5 false (fun p => (if p =? 1 then Some p else None, p)) 3 (-1) = Ok None.
Proof. vm_compute. repeat split; reflexivity. Qed.

Example C03_violating_finder_runs_away :
  let bad := fun p : Z => (false, p + 7) in
  scan 5 false 0 bad ex_exec 0 (-1) = Fuel /\
  naive_scan 5 false ex_exec 0 (-1) = Ok (Some 1).
Proof. vm_compute. repeat split; reflexivity. Qed.

(* (H2) and (H3) matter too: a too-large minimum length loses the last match; an attempt that
   leaves Runtextpos beyond a matching position skips it. *)
Example C03_violating_min_length :
  sc_chk_H2 Z 5 false 2 ex_exec = false /\
  scan 5 false 2 naive_finder ex_exec 2 (-1) = Ok None /\
  naive_scan 5 false ex_exec 2 (-1) = Ok (Some 4).
Proof. vm_compute. repeat split; reflexivity. Qed.

(* This table is what runner.go produced for (?>a+?b?)c on "aac" before the fix to
   syntax/tree.go: the failed attempt at 0 left Runtextpos = 1 and position 1 matches "ac". *)
Example C03_violating_bumpalong :
  let ex := fun p : Z => if p =? 0 then (None, 1) else if p =? 1 then (Some 1, 3) else (None, p) in
  sc_chk_H3 Z 3 false ex = false /\
  scan 3 false 0 naive_finder ex 0 (-1) = Ok None /\
  naive_scan 3 false ex 0 (-1) = Ok (Some 1).
Proof. vm_compute. repeat split; reflexivity. Qed.

(* ---- bump-along on concrete trees ---- *)
Definition ex_env (t : list Z) : env :=
  {| txt := t; tstart := 0; ecma := false; endz_strict := false;
     set_in := fun _ _ => false; lower := fun x => x;
     is_word := fun _ => false; is_eword := fun _ => false |}.

(* a*b as the parser emits it: Capture0(Concat[Oneloop a{0,INF}; UpdateBumpalong; One b]) on "aaac":
   the attempt at 0 fails, the run is 3, and (by C03_bump_sound) so do the attempts at 1, 2, 3. *)
Definition ex_root_ab : node :=
  NCapture 0 0 (-1) (NConcat 0 [NCharLoop COne LGreedy 0 97 0 INF; NBump; NChar COne 0 98]).
Example C03_bump_witness :
  let e := ex_env [97; 97; 97; 99] in
  bp_shape_g COne 97 0 (NConcat 0 [NCharLoop COne LGreedy 0 97 0 INF; NBump; NChar COne 0 98]) /\
  attempt e 10 ex_root_ab 0 = Ok None /\
  bp_run e COne 97 0 0 = 3 /\
  (forall p', 0 < p' <= 3 -> attempt e 10 ex_root_ab p' = Ok None) /\
  attempt (ex_env [97; 97; 97; 98]) 10 ex_root_ab 0
    = Ok (Some {| pos := 4; caps := [(0, [(0, 4)])] |}).
Proof.
  cbv zeta. split; [|split; [|split; [|split]]].
  - apply (BSG_core COne 97 0 LGreedy 0 0 [NChar COne 0 98]). discriminate.
  - vm_compute. reflexivity.
  - vm_compute. reflexivity.
  - intros p' Hp'.
    apply (C03_bump_sound (ex_env [97; 97; 97; 99]) COne 97 0 eq_refl 10 0 _ 0).
    + left. apply (BSG_core COne 97 0 LGreedy 0 0 [NChar COne 0 98]). discriminate.
    + vm_compute. reflexivity.
    + replace (bp_run (ex_env [97; 97; 97; 99]) COne 97 0 0) with 3 by (vm_compute; reflexivity). lia.
  - vm_compute. reflexivity.
Qed.

(* (?>a+?b?)c as tree.go built it before the fix: the marker sits after a LAZY loop inside an atomic
   group that is followed by 'c'.  On "aac" the attempt at 0 fails (the group commits to "a"), the
   run from 0 is 2, but the attempt at 1 succeeds: the statement of C03_bump_sound is false for this
   shape, and it is in neither bp_shape_g nor bp_shape_a. *)
Definition ex_root_lazy : node :=
  NCapture 0 0 (-1)
    (NConcat 0 [NAtomic (NConcat 0 [NCharLoop COne LLazy 0 97 1 INF; NBump; NCharLoop COne LAtomic 0 98 0 1]);
                NChar COne 0 99]).
Example C03_bump_lazy_committing_atomic_counterexample :
  let e := ex_env [97; 97; 99] in
  attempt e 10 ex_root_lazy 0 = Ok None /\
  bp_run e COne 97 0 0 = 2 /\
  attempt e 10 ex_root_lazy 1 = Ok (Some {| pos := 3; caps := [(0, [(1, 2)])] |}).
Proof. vm_compute. repeat split; reflexivity. Qed.


(* =========================================================================================
   The optimized candidate finders (runner.go:1468-1945; model: Model/Finder.v, proofs:
   Proofs/FinderProofs.v).

   For a matcher [exec] over [text] (n = zlen text), [fd_succeeds exec q] = the attempt at q matches.
   A finder F : position -> res (found, Runtextpos) is SOUND for the matcher ([fd_sound]) when at every
   position p of the text it answers Ok (found, q), never Crash / Fuel, with p <= q <= n, no successful
   attempt in [p, q), and no successful attempt in [p, n] at all when found = false.  Each theorem
   below has the form   FACT about the matcher  ->  the finder of that mode is sound;
   C03_finder_sound_H1 turns soundness into the two (H1) hypotheses of C03_scan_finder_sound and
   C03_finder_scan_sound concludes "scan with this finder = accelerator-free scan".
   The facts are what the analysis publishes in FindOptimizations:
     fd_minlen_fact m          a match at q needs m runes ahead: m <= n - q          (C04_min_len_sound)
     fd_trailing_end_fact L    every match starts at n - L                 (C04_trailing_fixed_length_sound)
     fd_prefix_fact eqc P      the text at q starts with P, runes compared by eqc (exact, ASCII fold,
                               or "x = c or ToLower x = c", whichever the finder uses)
     fd_prefixes_fact eqc Ps   ... starts with one of Ps
     fd_fdchar_fact c d        text[q+d] = c
     fd_fdstring_fact s d      the text at q+d starts with s
     fd_fds_fact sets          for every set s of the list, text[q + s.Distance] is in s (as
                               charInFixedDistanceSet computes membership)
   ========================================================================================= *)

Theorem C03_finder_sound_H1 :
  forall (R : Type) (text : list Z) (exec : Z -> option R * Z) (F : Z -> res (bool * Z)),
    fd_sound R text exec F ->
    sc_H1_true R (zlen text) false (fd_total F) exec /\ sc_H1_false R (zlen text) false (fd_total F) exec.
Proof. exact fd_sound_H1. Qed.
Print Assumptions C03_finder_sound_H1.

Theorem C03_finder_scan_sound :
  forall (R : Type) (text : list Z) (exec : Z -> option R * Z) (minreq : Z) (F : Z -> res (bool * Z)),
    fd_sound R text exec F ->
    fd_minlen_fact R text exec minreq ->
    sc_H3 R (zlen text) false exec ->
    forall start prevlen, 0 <= start <= zlen text ->
    exists r, scan (zlen text) false minreq (fd_total F) exec start prevlen = Ok r
           /\ naive_scan (zlen text) false exec start prevlen = Ok r.
Proof. exact fd_scan_sound. Qed.
Print Assumptions C03_finder_scan_sound.

(* TrailingAnchor_FixedLength_LeftToRight_End: runner.go:1531 findTrailingFixedLengthEnd *)
Theorem C03_finder_trailing_end :
  forall (R : Type) (text : list Z) (exec : Z -> option R * Z) (L : Z), 0 <= L ->
    fd_trailing_end_fact R text exec L ->
    fd_sound R text exec (fun p => fd_find_trailing_fixed_length_end text p L).
Proof. exact fd_trailing_end_sound. Qed.
Print Assumptions C03_finder_trailing_end.

(* LeadingString_LeftToRight / LeadingString_OrdinalIgnoreCase_LeftToRight: runner.go:1541
   findLeadingStringLeftToRight.  [fd_leading_eqc lower ic P] is the comparison the finder uses:
   equality; under ignoreCase foldASCII x = foldASCII c when P is all ASCII, else x = c or ToLower x = c. *)
Theorem C03_finder_leading_string :
  forall (R : Type) (text : list Z) (exec : Z -> option R * Z) (lower : Z -> Z) (minreq : Z),
    fd_minlen_fact R text exec minreq ->
    forall (P : list Z) (ic : bool),
    fd_prefix_fact R text exec (fd_leading_eqc lower ic P) P ->
    fd_sound R text exec (fun p => fd_find_leading_string text lower minreq p P ic).
Proof. exact fd_leading_string_sound. Qed.
Print Assumptions C03_finder_leading_string.

(* LeadingStrings_LeftToRight / LeadingStrings_OrdinalIgnoreCase_LeftToRight: runner.go:1571
   findLeadingStringsLeftToRight, both the position-by-position loop and the first-rune search.
   Side conditions on the published data: at least one prefix, no empty prefix, and (for the
   first-rune search) LeadingPrefixFirstRunes contains the first rune of every prefix - which is what
   leadingPrefixFirstRunes computes (C03_leading_prefix_first_runes_cover). *)
Theorem C03_finder_leading_strings :
  forall (R : Type) (text : list Z) (exec : Z -> option R * Z) (lower : Z -> Z) (minreq : Z),
    fd_minlen_fact R text exec minreq ->
    forall (Ps : list (list Z)) (firsts : list Z) (ic : bool),
    Ps <> [] -> Forall (fun P => P <> []) Ps ->
    (ic = false -> fd_first_runes_ok Ps firsts) ->
    fd_prefixes_fact R text exec (fd_strings_eqc lower ic) Ps ->
    fd_sound R text exec (fun p => fd_find_leading_strings text lower minreq p Ps firsts ic).
Proof. exact fd_leading_strings_sound. Qed.
Print Assumptions C03_finder_leading_strings.

Theorem C03_leading_prefix_first_runes_cover :
  forall Ps, fd_first_runes_ok Ps (fd_leading_prefix_first_runes Ps).
Proof. exact fd_leading_prefix_first_runes_ok. Qed.
Print Assumptions C03_leading_prefix_first_runes_cover.

(* FixedDistanceChar_LeftToRight: runner.go:1634 findFixedDistanceCharLeftToRight *)
Theorem C03_finder_fixed_distance_char :
  forall (R : Type) (text : list Z) (exec : Z -> option R * Z) (minreq : Z),
    fd_minlen_fact R text exec minreq ->
    forall ch d, 0 <= d -> fd_fdchar_fact R text exec ch d ->
    fd_sound R text exec (fun p => fd_find_fixed_distance_char text minreq p ch d).
Proof. exact fd_fixed_distance_char_sound. Qed.
Print Assumptions C03_finder_fixed_distance_char.

(* FixedDistanceString_LeftToRight: runner.go:1658 findFixedDistanceStringLeftToRight *)
Theorem C03_finder_fixed_distance_string :
  forall (R : Type) (text : list Z) (exec : Z -> option R * Z) (minreq : Z),
    fd_minlen_fact R text exec minreq ->
    forall (lit : list Z) d, 0 <= d -> fd_fdstring_fact R text exec lit d ->
    fd_sound R text exec (fun p => fd_find_fixed_distance_string text minreq p lit d).
Proof. exact fd_fixed_distance_string_sound. Qed.
Print Assumptions C03_finder_fixed_distance_string.

(* FixedDistanceSets_LeftToRight and LeadingSet_LeftToRight: runner.go:1686
   findFixedDistanceSetsLeftToRight with indexOfSet / fixedDistanceSetsMatchAt / charInFixedDistanceSet.
   The primary set (sets[0]) must have a non-nil Set and a non-negative distance. *)
Theorem C03_finder_fixed_distance_sets :
  forall (R : Type) (text : list Z) (exec : Z -> option R * Z) (minreq : Z),
    fd_minlen_fact R text exec minreq ->
    forall (set_in : Z -> Z -> bool) (sets : list fdset) (primary : fdset) (rest : list fdset) (id : Z),
    sets = primary :: rest -> fs_set primary = Some id -> 0 <= fs_distance primary ->
    fd_fds_fact R text exec set_in sets ->
    fd_sound R text exec (fun p => fd_find_fixed_distance_sets text set_in minreq p sets).
Proof. exact fd_fixed_distance_sets_sound. Qed.
Print Assumptions C03_finder_fixed_distance_sets.

(* ---- non-vacuity: concrete matchers for which the facts hold and the finders skip positions ---- *)

(* text "xabcabd" (n = 7); the matcher wants "abc" followed by one more rune: it succeeds at 1 only *)
Definition fx_text : list Z := [120; 97; 98; 99; 97; 98; 100].
Definition fx_exec (p : Z) : option Z * Z := (if p =? 1 then Some p else None, p).
Definition fx_low (x : Z) : Z := if (65 <=? x) && (x <=? 90) then x + 32 else x.

(* leading string "abc": from 0 the finder jumps to 1, from 2 it gives up (no later occurrence) *)
Example C03_finder_leading_string_witness :
  fd_find_leading_string fx_text fx_low 4 0 [97; 98; 99] false = Ok (true, 1) /\
  fd_find_leading_string fx_text fx_low 4 2 [97; 98; 99] false = Ok (false, 7) /\
  sc_chk_H1 Z 7 false (fd_total (fun p => fd_find_leading_string fx_text fx_low 4 p [97; 98; 99] false)) fx_exec = true /\
  scan 7 false 4 (fd_total (fun p => fd_find_leading_string fx_text fx_low 4 p [97; 98; 99] false)) fx_exec 0 (-1) = Ok (Some 1) /\
  naive_scan 7 false fx_exec 0 (-1) = Ok (Some 1).
Proof. vm_compute. repeat split; reflexivity. Qed.

(* ... and the theorem applies: the facts hold for this matcher *)
Example C03_finder_leading_string_applies :
  fd_sound Z fx_text fx_exec (fun p => fd_find_leading_string fx_text fx_low 4 p [97; 98; 99] false).
Proof.
  assert (Hone : forall q, fd_succeeds Z fx_exec q -> q = 1).
  { intros q H. unfold fd_succeeds, fx_exec in H. cbn [fst] in H. destruct (q =? 1) eqn:E; [lia | contradiction]. }
  apply C03_finder_leading_string.
  - intros q Hq Hs. rewrite (Hone q Hs). vm_compute. discriminate.
  - intros q Hq Hs. rewrite (Hone q Hs). vm_compute. reflexivity.
Qed.

(* ignore-case leading string "abc" on "xABcabd": ASCII folding finds the occurrence at 1 *)
Example C03_finder_leading_string_ic_witness :
  fd_find_leading_string [120; 65; 66; 99; 97; 98; 100] fx_low 4 0 [97; 98; 99] true = Ok (true, 1) /\
  sc_chk_H1 Z 7 false (fd_total (fun p => fd_find_leading_string [120; 65; 66; 99; 97; 98; 100] fx_low 4 p [97; 98; 99] true)) fx_exec = true.
Proof. vm_compute. repeat split; reflexivity. Qed.

(* A WRONG fact: the finder is told "abd" although the matcher matches "abc?" at 1: the match is lost
   (the finder proposes 4, where the attempt fails, then gives up) *)
Example C03_finder_wrong_prefix_loses_match :
  let bad := fd_total (fun p => fd_find_leading_string fx_text fx_low 3 p [97; 98; 100] false) in
  bad 0 = (true, 4) /\
  sc_chk_H1 Z 7 false bad fx_exec = false /\
  scan 7 false 3 bad fx_exec 0 (-1) = Ok None /\
  naive_scan 7 false fx_exec 0 (-1) = Ok (Some 1).
Proof. vm_compute. repeat split; reflexivity. Qed.

(* leading strings {"abc","abd"} with first runes [a]: first-rune search; from 2 the next candidate is 4
   (where the attempt of this matcher fails): the finder may stop at a non-match, never skip a match *)
Example C03_finder_leading_strings_witness :
  let F := fun ic firsts p => fd_find_leading_strings fx_text fx_low 4 p [[97; 98; 99]; [97; 98; 100]] firsts ic in
  F false [97] 0 = Ok (true, 1) /\ F false [97] 2 = Ok (false, 7) /\
  F false [] 0 = Ok (true, 1) /\ F true [97] 0 = Ok (true, 1) /\
  fd_find_leading_strings fx_text fx_low 3 2 [[97; 98; 99]; [97; 98; 100]] [97] false = Ok (true, 4) /\
  fd_leading_prefix_first_runes [[97; 98; 99]; [97; 98; 100]; [120]] = [97; 120] /\
  sc_chk_H1 Z 7 false (fd_total (F false [97])) fx_exec = true /\
  sc_chk_H1 Z 7 false (fd_total (F true [97])) fx_exec = true.
Proof. vm_compute. repeat split; reflexivity. Qed.

(* A first-rune list that misses a prefix's first rune loses the match at 1 *)
Example C03_finder_wrong_first_runes_loses_match :
  let bad := fd_total (fun p => fd_find_leading_strings fx_text fx_low 4 p [[97; 98; 99]; [120; 98]] [120] false) in
  bad 1 = (false, 7) /\ sc_chk_H1 Z 7 false bad fx_exec = false /\
  scan 7 false 4 bad fx_exec 1 (-1) = Ok None /\ naive_scan 7 false fx_exec 1 (-1) = Ok (Some 1).
Proof. vm_compute. repeat split; reflexivity. Qed.

(* fixed-distance char: 'c' at distance 2 *)
Example C03_finder_fixed_distance_char_witness :
  fd_find_fixed_distance_char fx_text 4 0 99 2 = Ok (true, 1) /\
  fd_find_fixed_distance_char fx_text 4 2 99 2 = Ok (false, 7) /\
  sc_chk_H1 Z 7 false (fd_total (fun p => fd_find_fixed_distance_char fx_text 4 p 99 2)) fx_exec = true.
Proof. vm_compute. repeat split; reflexivity. Qed.

(* an off-by-one distance loses the match *)
Example C03_finder_wrong_distance_loses_match :
  let bad := fd_total (fun p => fd_find_fixed_distance_char fx_text 4 p 99 1) in
  bad 0 = (true, 2) /\ sc_chk_H1 Z 7 false bad fx_exec = false /\
  scan 7 false 4 bad fx_exec 0 (-1) = Ok None /\ naive_scan 7 false fx_exec 0 (-1) = Ok (Some 1).
Proof. vm_compute. repeat split; reflexivity. Qed.

(* fixed-distance string "bc" at distance 1 *)
Example C03_finder_fixed_distance_string_witness :
  fd_find_fixed_distance_string fx_text 4 0 [98; 99] 1 = Ok (true, 1) /\
  fd_find_fixed_distance_string fx_text 4 2 [98; 99] 1 = Ok (false, 7) /\
  sc_chk_H1 Z 7 false (fd_total (fun p => fd_find_fixed_distance_string fx_text 4 p [98; 99] 1)) fx_exec = true.
Proof. vm_compute. repeat split; reflexivity. Qed.

(* fixed-distance sets: primary [cd] (enumerated) at distance 2, secondary [a-b] (range) at distance 0,
   and a general set (id 0 = "is a lower-case letter") at distance 3.  From 0 the primary set first hits
   'c' at 3 -> start 1, all sets agree.  From 2 the only later hit of the primary set is 'd' at 6 -> start 4,
   beyond the latest possible start 7 - 4 = 3: the finder gives up.  With minimum length 3 the candidate 4
   is in range: the first two sets accept it, the third (distance 3 = beyond the end) rejects it. *)
Definition fx_sets : list fdset :=
  [ {| fs_set := Some 1; fs_chars := [99; 100]; fs_negated := false; fs_range := None; fs_distance := 2 |};
    {| fs_set := Some 2; fs_chars := []; fs_negated := false; fs_range := Some (97, 98); fs_distance := 0 |};
    {| fs_set := Some 0; fs_chars := []; fs_negated := false; fs_range := None; fs_distance := 3 |} ].
Definition fx_set_in (id x : Z) : bool := (id =? 0) && (97 <=? x) && (x <=? 122).
Example C03_finder_fixed_distance_sets_witness :
  fd_find_fixed_distance_sets fx_text fx_set_in 4 0 fx_sets = Ok (true, 1) /\
  fd_find_fixed_distance_sets fx_text fx_set_in 4 2 fx_sets = Ok (false, 7) /\
  fd_find_fixed_distance_sets fx_text fx_set_in 3 2 (firstn 2 fx_sets) = Ok (true, 4) /\
  fd_find_fixed_distance_sets fx_text fx_set_in 3 2 fx_sets = Ok (false, 7) /\
  sc_chk_H1 Z 7 false (fd_total (fun p => fd_find_fixed_distance_sets fx_text fx_set_in 4 p fx_sets)) fx_exec = true.
Proof. vm_compute. repeat split; reflexivity. Qed.

(* a negated primary set [^c] at distance 2 is wrong for this matcher: position 1 is skipped *)
Example C03_finder_wrong_set_loses_match :
  let bad := fd_total (fun p => fd_find_fixed_distance_sets fx_text fx_set_in 4 p
               [ {| fs_set := Some 1; fs_chars := [99]; fs_negated := true; fs_range := None; fs_distance := 2 |} ]) in
  bad 1 = (true, 2) /\ sc_chk_H1 Z 7 false bad fx_exec = false /\
  scan 7 false 4 bad fx_exec 1 (-1) = Ok None /\ naive_scan 7 false fx_exec 1 (-1) = Ok (Some 1).
Proof. vm_compute. repeat split; reflexivity. Qed.

(* trailing fixed-length end: a matcher that only matches 3 runes before the end *)
Example C03_finder_trailing_end_witness :
  let ex := fun p : Z => (if p =? 4 then Some p else None, p) in
  fd_find_trailing_fixed_length_end fx_text 0 3 = Ok (true, 4) /\
  fd_find_trailing_fixed_length_end fx_text 5 3 = Ok (false, 7) /\
  sc_chk_H1 Z 7 false (fd_total (fun p => fd_find_trailing_fixed_length_end fx_text p 3)) ex = true /\
  scan 7 false 3 (fd_total (fun p => fd_find_trailing_fixed_length_end fx_text p 3)) ex 0 (-1) = Ok (Some 4).
Proof. vm_compute. repeat split; reflexivity. Qed.

(* a wrong fixed length (2 instead of 3) moves the candidate past the match *)
Example C03_finder_wrong_fixed_length_loses_match :
  let ex := fun p : Z => (if p =? 4 then Some p else None, p) in
  let bad := fd_total (fun p => fd_find_trailing_fixed_length_end fx_text p 2) in
  bad 0 = (true, 5) /\ sc_chk_H1 Z 7 false bad ex = false /\
  scan 7 false 2 bad ex 0 (-1) = Ok None /\ naive_scan 7 false ex 0 (-1) = Ok (Some 4).
Proof. vm_compute. repeat split; reflexivity. Qed.

(* ---- literal after a leading loop, landmark chain, first-character loop ------------------------
   Further facts:
     fd_lal_fact l S           a match at q runs over runes of the loop set S up to some k >= q where the
                               literal of l stands (string - exact or ignore-case as the finder compares -,
                               one of a few runes, or one rune)
     fd_chain_fact S A rest    a match at q runs over runes of S up to s, then over leading whitespace of
                               an alternative a of the first landmark A up to c where a stands
                               ([fd_alt_match_at a c e]: required whitespace just before c, the literal or
                               MinRepeat..MaxRepeat set runes in [c,e), required whitespace at e), and the
                               remaining landmarks stand in order at or after e ([fd_chain_rest])
     fd_fc_fact rtl test       the rune ahead of a match position (behind it, right-to-left) passes test
   [fd_alts_wf] / [fd_chain_wf]: MinRepeat of every alternative is >= 0. *)

(* LiteralAfterLoop_LeftToRight: runner.go:1716 findLiteralAfterLoopLeftToRight + indexOfLiteralAfterLoop *)
Theorem C03_finder_literal_after_loop :
  forall (R : Type) (text : list Z) (exec : Z -> option R * Z) (lower : Z -> Z) (minreq : Z),
    fd_minlen_fact R text exec minreq ->
    forall (set_in : Z -> Z -> bool) (l : fdlal) (ls : Z),
    lal_loop_set l = Some ls ->
    fd_lal_fact R text exec lower set_in l ls ->
    fd_sound R text exec (fun p => fd_find_literal_after_loop text set_in lower minreq p (Some l)).
Proof. exact fd_literal_after_loop_sound. Qed.
Print Assumptions C03_finder_literal_after_loop.

(* RequiredLandmarkChain_LeftToRight: runner.go:1744 findRequiredLandmarkChainLeftToRight with
   findNextRequiredLandmarkRunes, requiredLandmarkAlternativeMatch, requiredLandmarkMinWidth and
   requiredLandmarkLeadingWhitespace, as repaired by /repo commits 573b074, 563c473, 5218d84 (before them
   the statement is false: DESIGN 12.4). *)
Theorem C03_finder_landmark_chain :
  forall (R : Type) (text : list Z) (exec : Z -> option R * Z) (minreq : Z),
    fd_minlen_fact R text exec minreq ->
    forall (set_in : Z -> Z -> bool) (c : fdchain) (ls : Z) (first_alts : list fdalt) (rest : list (list fdalt)),
    lc_loop_set c = Some ls -> lc_landmarks c = first_alts :: rest ->
    fd_alts_wf first_alts -> fd_chain_wf rest ->
    fd_chain_fact R text exec set_in ls first_alts rest ->
    fd_sound R text exec (fun p => fd_find_landmark_chain text set_in minreq p (Some c)).
Proof. exact fd_landmark_chain_sound. Qed.
Print Assumptions C03_finder_landmark_chain.

(* findFirstCharOptimized (runner.go:1497): the dispatch.  [fd_mode_fact o] is the fact of o's FindMode
   (with the side conditions above), [fd_mode_handled o] says the mode is one the dispatcher serves; the
   second conjunct: it then always answers handled = true. *)
Theorem C03_finder_optimized_dispatch :
  forall (R : Type) (text : list Z) (exec : Z -> option R * Z) (set_in : Z -> Z -> bool) (lower : Z -> Z) (o : fdopts),
    fd_mode_handled o = true ->
    fd_minlen_fact R text exec (fo_minreq o) ->
    fd_mode_fact R text exec set_in lower o ->
    fd_sound R text exec (fd_optimized_finder text set_in lower o) /\
    (forall p r, fd_find_first_char_optimized text set_in lower o p = Ok r -> fst (fst r) = true).
Proof. exact fd_optimized_sound. Qed.
Print Assumptions C03_finder_optimized_dispatch.

Theorem C03_should_use_implies_handled :
  forall o, fd_should_use_optimized o = true -> fd_mode_handled o = true.
Proof. exact fd_should_use_handled. Qed.
Print Assumptions C03_should_use_implies_handled.

(* the first-character loop of findFirstCharDefault (runner.go:1438-1465), both directions *)
Theorem C03_finder_first_char_loop :
  forall (R : Type) (text : list Z) (exec : Z -> option R * Z) (set_in : Z -> Z -> bool) (rtl : bool) (fc : option fdfc),
    (forall f, fc = Some f -> fd_fc_fact R text exec rtl (fd_fc_test set_in f)) ->
    sc_H1_true R (zlen text) rtl (fd_total (fd_first_char_loop text set_in rtl fc)) exec /\
    sc_H1_false R (zlen text) rtl (fd_total (fd_first_char_loop text set_in rtl fc)) exec.
Proof. exact fd_first_char_loop_H1. Qed.
Print Assumptions C03_finder_first_char_loop.

(* findFirstCharDefault below the Boyer-Moore branch (runner.go:1432-1465) *)
Theorem C03_finder_default_below_bm :
  forall (R : Type) (text : list Z) (exec : Z -> option R * Z) (set_in : Z -> Z -> bool) (lower : Z -> Z)
         (rtl : bool) (o : option fdopts) (fc : option fdfc),
    (forall o', o = Some o' -> fd_should_use_optimized o' = true ->
       rtl = false /\ fd_minlen_fact R text exec (fo_minreq o') /\ fd_mode_fact R text exec set_in lower o') ->
    ((forall o', o = Some o' -> fd_should_use_optimized o' = false) ->
       forall f, fc = Some f -> fd_fc_fact R text exec rtl (fd_fc_test set_in f)) ->
    sc_H1_true R (zlen text) rtl (fd_total (fd_ffc_nobm text set_in lower rtl o fc)) exec /\
    sc_H1_false R (zlen text) rtl (fd_total (fd_ffc_nobm text set_in lower rtl o fc)) exec.
Proof. exact fd_ffc_nobm_H1. Qed.
Print Assumptions C03_finder_default_below_bm.

(* ALL of findFirstCharDefault (runner.go:1386-1466): anchor jumps, Boyer-Moore branch, optimized finders,
   first-character loop.  The Boyer-Moore machine is specified, not modelled: [bm] / [bm_scan] are its
   answers and the fifth / sixth hypotheses say what is assumed of them. *)
Theorem C03_finder_default :
  forall (R : Type) (text : list Z) (exec : Z -> option R * Z) (set_in : Z -> Z -> bool) (lower : Z -> Z)
         (rtl : bool) (anchors ts : Z) (bm : option (Z -> bool)) (bm_scan : option (Z -> Z))
         (o : option fdopts) (fc : option fdfc),
    let n := zlen text in
    let succeeds := fun x => fst (exec x) <> None in
    (abit anchors ANCH_BEGINNING = true -> forall x, sc_in_text n x -> succeeds x -> x = 0) ->
    (abit anchors ANCH_START = true -> forall x, sc_in_text n x -> succeeds x -> x = ts) ->
    (abit anchors ANCH_ENDZ = true -> forall x, sc_in_text n x -> succeeds x ->
       x = n \/ (x = n - 1 /\ nth (Z.to_nat x) text 0 = 10)) ->
    (abit anchors ANCH_END = true -> forall x, sc_in_text n x -> succeeds x -> x = n) ->
    (forall is_match, bm = Some is_match -> forall x, sc_in_text n x -> succeeds x -> is_match x = true) ->
    (forall scan, bm_scan = Some scan -> fd_bm_scan_fact R text exec rtl scan) ->
    (bm_scan = None ->
       sc_H1_true R n rtl (fd_total (fd_ffc_nobm text set_in lower rtl o fc)) exec /\
       sc_H1_false R n rtl (fd_total (fd_ffc_nobm text set_in lower rtl o fc)) exec) ->
    sc_H1_true R n rtl (fd_total (fd_find_first_char_default text set_in lower rtl anchors ts bm bm_scan o fc)) exec /\
    sc_H1_false R n rtl (fd_total (fd_find_first_char_default text set_in lower rtl anchors ts bm bm_scan o fc)) exec.
Proof. exact fd_default_H1. Qed.
Print Assumptions C03_finder_default.

(* ... and in the scan loop: with (H1) from C03_finder_default, (H2) for MinRequiredLength and (H3) *)
Theorem C03_finder_default_scan_sound :
  forall (R : Type) (text : list Z) (exec : Z -> option R * Z) (set_in : Z -> Z -> bool) (lower : Z -> Z)
         (rtl : bool) (anchors ts : Z) (bm : option (Z -> bool)) (bm_scan : option (Z -> Z))
         (o : option fdopts) (fc : option fdfc) (minreq : Z),
    let n := zlen text in
    let F := fd_total (fd_find_first_char_default text set_in lower rtl anchors ts bm bm_scan o fc) in
    sc_H1_true R n rtl F exec -> sc_H1_false R n rtl F exec ->
    sc_H2 R n rtl minreq exec -> sc_H3 R n rtl exec ->
    forall start prevlen, 0 <= start <= n ->
    exists r, scan n rtl minreq F exec start prevlen = Ok r /\ naive_scan n rtl exec start prevlen = Ok r.
Proof. exact fd_default_scan_sound. Qed.
Print Assumptions C03_finder_default_scan_sound.

(* the facts in the form an analysis proof produces them: rune by rune / plain Set membership *)
Theorem C03_prefix_fact_pointwise :
  forall (R : Type) (text : list Z) (exec : Z -> option R * Z) eqc P,
    (forall q, 0 <= q <= zlen text -> fd_succeeds R exec q ->
       q + zlen P <= zlen text /\
       forall j, 0 <= j < zlen P -> eqc (nth (Z.to_nat (q + j)) text 0) (nth (Z.to_nat j) P 0) = true) ->
    fd_prefix_fact R text exec eqc P.
Proof. exact fd_prefix_fact_pointwise. Qed.
Print Assumptions C03_prefix_fact_pointwise.

Theorem C03_fds_fact_of_sets :
  forall (R : Type) (text : list Z) (exec : Z -> option R * Z) set_in sets,
    (forall s, In s sets -> fd_fds_abbrev_ok set_in s) ->
    (forall q, 0 <= q <= zlen text -> fd_succeeds R exec q -> forall s id, In s sets -> fs_set s = Some id ->
       0 <= q + fs_distance s < zlen text /\ set_in id (nth (Z.to_nat (q + fs_distance s)) text 0) = true) ->
    fd_fds_fact R text exec set_in sets.
Proof. exact fd_fds_fact_of_sets. Qed.
Print Assumptions C03_fds_fact_of_sets.

(* ---- non-vacuity for these finders ---- *)

(* [ab]*cd on "xabcdab": the matcher succeeds at 1, 2 and 3 (loop runs "ab", "b", ""); literal "cd" after the
   loop set {a,b} (set id 0).  From 0 the literal is found at 3 and the walk back over {a,b} stops at 1. *)
Definition fy_text : list Z := [120; 97; 98; 99; 100; 97; 98].
Definition fy_set_in (id x : Z) : bool := (id =? 0) && ((x =? 97) || (x =? 98)).
Definition fy_exec (p : Z) : option Z * Z := (if (1 <=? p) && (p <=? 3) then Some p else None, p).
Definition fy_lal (s : list Z) (ic : bool) (ch : Z) (chs : list Z) : option fdlal :=
  Some {| lal_string := s; lal_string_ic := ic; lal_char := ch; lal_chars := chs; lal_loop_set := Some 0 |}.
Example C03_finder_literal_after_loop_witness :
  let F := fun l p => fd_find_literal_after_loop fy_text fy_set_in fx_low 2 p l in
  F (fy_lal [99; 100] false 0 []) 0 = Ok (true, 1) /\          (* string "cd" *)
  F (fy_lal [99; 100] false 0 []) 4 = Ok (false, 7) /\
  F (fy_lal [] false 99 []) 0 = Ok (true, 1) /\                (* rune 'c' *)
  F (fy_lal [] false 0 [99; 122]) 0 = Ok (true, 1) /\          (* one of "cz" *)
  fd_find_literal_after_loop [120; 97; 98; 67; 68] fy_set_in fx_low 2 0 (fy_lal [99; 100] true 0 []) = Ok (true, 1) /\
  sc_chk_H1 Z 7 false (fd_total (F (fy_lal [99; 100] false 0 []))) fy_exec = true /\
  scan 7 false 2 (fd_total (F (fy_lal [99; 100] false 0 []))) fy_exec 0 (-1) = Ok (Some 1).
Proof. vm_compute. repeat split; reflexivity. Qed.

(* the fact holds for this matcher, so the theorem applies *)
Example C03_finder_literal_after_loop_applies :
  fd_sound Z fy_text fy_exec
    (fun p => fd_find_literal_after_loop fy_text fy_set_in fx_low 2 p (fy_lal [99; 100] false 0 [])).
Proof.
  assert (Hs : forall q, fd_succeeds Z fy_exec q -> 1 <= q <= 3).
  { intros q H. unfold fd_succeeds, fy_exec in H. cbn [fst] in H.
    destruct ((1 <=? q) && (q <=? 3)) eqn:E; [lia | contradiction]. }
  apply (C03_finder_literal_after_loop Z fy_text fy_exec fx_low 2) with (ls := 0); [|reflexivity|].
  - intros q Hq H. specialize (Hs q H). change (zlen fy_text) with 7. lia.
  - intros q Hq H. specialize (Hs q H). exists 3. change (zlen fy_text) with 7. split; [lia|]. split.
    + intros i Hi. assert (Hc : i = 1 \/ i = 2) by lia. destruct Hc as [->| ->]; reflexivity.
    + vm_compute. reflexivity.
Qed.

(* a loop set that is too small ({a} instead of {a,b}) makes the walk back stop early: the match at 1 is lost *)
Example C03_finder_wrong_loop_set_moves_match :
  let bad := fd_total (fun p => fd_find_literal_after_loop fy_text (fun id x => (id =? 0) && (x =? 97)) fx_low 2 p
                                  (fy_lal [99; 100] false 0 [])) in
  bad 0 = (true, 3) /\ sc_chk_H1 Z 7 false bad fy_exec = false /\
  scan 7 false 2 bad fy_exec 0 (-1) = Ok (Some 3) /\ naive_scan 7 false fy_exec 0 (-1) = Ok (Some 1).
Proof. vm_compute. repeat split; reflexivity. Qed.

(* landmark chain for [ab]+(?:\s+=|:)[ab]+; : loop set {a,b} (id 0), first landmark "=" with required leading
   whitespace (set 1 = {space}) or ":", second landmark ";".  Text "x a  =b;" : the chain is found with the
   first core at 5 ('='), stepped back over the whitespace to 3 and over the loop set to 2.  The matcher of
   this example succeeds at 2 only. *)
Definition fz_text : list Z := [120; 32; 97; 32; 32; 61; 98; 59].
Definition fz_set_in (id x : Z) : bool :=
  ((id =? 0) && ((x =? 97) || (x =? 98))) || ((id =? 1) && (x =? 32)).
Definition fz_alt (lit : list Z) (ws : option Z) (req : bool) : fdalt :=
  {| la_literal := lit; la_set := None; la_lead_ws := ws; la_trail_ws := None; la_min := 1; la_max := 1;
     la_req_before := req; la_req_after := false |}.
Definition fz_chain : option fdchain :=
  Some {| lc_loop_set := Some 0;
          lc_landmarks := [[fz_alt [61] (Some 1) true; fz_alt [58] None false]; [fz_alt [59] None false]] |}.
Definition fz_exec (p : Z) : option Z * Z := (if p =? 2 then Some p else None, p).
Example C03_finder_landmark_chain_witness :
  let F := fun p => fd_find_landmark_chain fz_text fz_set_in 4 p fz_chain in
  F 0 = Ok (true, 2) /\ F 3 = Ok (true, 3) /\ F 6 = Ok (false, 8) /\
  fd_find_landmark_chain [120; 32; 97; 32; 32; 61; 98; 120] fz_set_in 4 0 fz_chain = Ok (false, 8) /\  (* no ';' *)
  sc_chk_H1 Z 8 false (fd_total F) fz_exec = true /\
  scan 8 false 4 (fd_total F) fz_exec 0 (-1) = Ok (Some 2).
Proof. vm_compute. repeat split; reflexivity. Qed.

(* landmarks in the wrong order (";" before "=") : the chain is never found and the match is lost *)
Example C03_finder_wrong_landmark_order_loses_match :
  let bad := fd_total (fun p => fd_find_landmark_chain fz_text fz_set_in 4 p
      (Some {| lc_loop_set := Some 0;
               lc_landmarks := [[fz_alt [59] None false]; [fz_alt [61] (Some 1) true; fz_alt [58] None false]] |})) in
  bad 0 = (false, 8) /\ sc_chk_H1 Z 8 false bad fz_exec = false /\
  scan 8 false 4 bad fz_exec 0 (-1) = Ok None /\ naive_scan 8 false fz_exec 0 (-1) = Ok (Some 2).
Proof. vm_compute. repeat split; reflexivity. Qed.

(* first-character loop, both directions: set {a,b}; left-to-right from 0 on "x a  =b;" stops at 2,
   right-to-left from 8 stops at 7 (the rune before 7 is 'b') *)
Example C03_finder_first_char_loop_witness :
  let fc := Some {| fc_singleton := None; fc_set := 0 |} in
  fd_first_char_loop fz_text fz_set_in false fc 0 = Ok (true, 2) /\
  fd_first_char_loop fz_text fz_set_in false fc 7 = Ok (false, 8) /\
  fd_first_char_loop fz_text fz_set_in true fc 8 = Ok (true, 7) /\
  fd_first_char_loop fz_text fz_set_in true fc 2 = Ok (false, 0) /\
  fd_first_char_loop fz_text fz_set_in false (Some {| fc_singleton := Some 61; fc_set := 0 |}) 0 = Ok (true, 5) /\
  sc_chk_H1 Z 8 false (fd_total (fd_first_char_loop fz_text fz_set_in false fc)) fz_exec = true.
Proof. vm_compute. repeat split; reflexivity. Qed.

(* the dispatcher and findFirstCharDefault on the same data: mode 23 is served by the landmark-chain finder
   (shouldUse = true); with Code.Anchors = Beginning the anchor part answers instead *)
Definition fz_opts : fdopts :=
  {| fo_mode := FM_RequiredLandmarkChain_LeftToRight; fo_minreq := 4; fo_prefix := []; fo_prefixes := [];
     fo_first_runes := []; fo_fdl_c := 0; fo_fdl_s := []; fo_fdl_distance := 0; fo_sets := []; fo_lal := None;
     fo_chain := fz_chain |}.
Example C03_finder_default_witness :
  fd_should_use_optimized fz_opts = true /\
  fd_find_first_char_optimized fz_text fz_set_in fx_low fz_opts 0 = Ok (true, true, 2) /\
  fd_find_first_char_default fz_text fz_set_in fx_low false 0 0 None None (Some fz_opts) None 0 = Ok (true, 2) /\
  fd_verif_find_first_char fz_text fz_set_in fx_low false 0 0 None None (Some fz_opts) None 5 = Ok (true, false, 5) /\
  fd_find_first_char_default fz_text fz_set_in fx_low false ANCH_BEGINNING 0 None None (Some fz_opts) None 3 = Ok (false, 8) /\
  fd_find_first_char_default fz_text fz_set_in fx_low false 0 0 None (Some (fun p => if p <=? 2 then 2 else -1)) None None 3
    = Ok (false, 8).
Proof. vm_compute. repeat split; reflexivity. Qed.


(* =========================================================================================
   End to end, on a tree, for the modes whose fact C04 proves for the analysis (Model/Analysis.v):
       the analysis publishes the mode  =>  scanning with that mode's finder returns what Spec.find returns.
   One attempt of the matcher is Spec.attempt ([bp_exec e fuel root bumpq], C03_find_is_naive_scan);
   hypotheses common to all four: the tree is well-shaped (C04's shape_ok / no_ci_lit / look_ok), the
   attempts have enough fuel, and (H3) for the matcher - which holds trivially without the bump-along
   shortcut (C03_H3_without_bumpalong) and by C03_bump_discharges_H3 with it.
   [facts false lu root] is the published FindOptimizations record (MinRequiredLength, anchors, mode,
   LeadingPrefix); [fc_opts_of_facts] reads it as the runner does ([]rune(LeadingPrefix) = runes_of).
   For the modes whose fact C04 does not prove (fixed-distance sets / char / string, leading strings,
   ignore-case prefix, literal after loop, landmark chain, first-character set) the per-finder
   theorems above carry the fact as their explicit hypothesis (fd_fds_fact, fd_lal_fact, ...).
   ========================================================================================= *)

Theorem C03_H3_without_bumpalong :
  forall (e : env) (fuel : nat) (root : node) (bumpq : Z -> Z),
    (forall p, bumpq p = p) -> forall rtl, sc_H3 st (tlen e) rtl (bp_exec e fuel root bumpq).
Proof. exact fc_H3_id. Qed.
Print Assumptions C03_H3_without_bumpalong.

(* MinRequiredLength alone (FindMode NoSearch, no FcPrefix / Boyer-Moore prefix / anchor bit): runner.go:170-180,
   both directions *)
Theorem C03_mode_min_length_sound :
  forall (e : env) (fuel : nat) (root : node) (bumpq : Z -> Z) (rtl : bool),
    shape_ok rtl root = true ->
    (forall x, 0 <= x <= tlen e -> exists r, attempt e fuel root x = Ok r) ->
    sc_H3 st (tlen e) rtl (bp_exec e fuel root bumpq) ->
    forall start prevlen, 0 <= start <= tlen e ->
    exists r, find e fuel root rtl start prevlen = Ok r /\
      scan (tlen e) rtl (min_len root)
           (fd_total (fd_find_first_char_default (txt e) (set_in e) (lower e) rtl 0 (tstart e) None None None None))
           (bp_exec e fuel root bumpq) start prevlen = Ok r.
Proof. exact fc_min_length_cut_sound. Qed.
Print Assumptions C03_mode_min_length_sound.

(* Code.Anchors names a leading \A, \G, \Z or \z (left-to-right) / trailing one (right-to-left):
   the anchor jumps of findFirstCharDefault, whatever FindOptimizations and FcPrefix hold *)
Theorem C03_mode_anchor_sound :
  forall (e : env) (fuel : nat) (root : node) (bumpq : Z -> Z) (rtl : bool),
    shape_ok rtl root = true ->
    (forall x, 0 <= x <= tlen e -> exists r, attempt e fuel root x = Ok r) ->
    sc_H3 st (tlen e) rtl (bp_exec e fuel root bumpq) ->
    forall (a : anchor) (o : option fdopts) (fc : option fdfc),
    get_anchors root = anchor_bit a ->
    a = ABeginning \/ a = AStart \/ a = AEndZ \/ a = AEnd ->
    forall start prevlen, 0 <= start <= tlen e ->
    exists r, find e fuel root rtl start prevlen = Ok r /\
      scan (tlen e) rtl (min_len root)
           (fd_total (fd_find_first_char_default (txt e) (set_in e) (lower e) rtl (get_anchors root) (tstart e)
                        None None o fc))
           (bp_exec e fuel root bumpq) start prevlen = Ok r.
Proof. exact fc_mode_anchor_sound. Qed.
Print Assumptions C03_mode_anchor_sound.

(* TrailingAnchor_FixedLength_LeftToRight_End: trailing \z and min length = max length *)
Theorem C03_mode_trailing_end_sound :
  forall (e : env) (fuel : nat) (root : node) (bumpq : Z -> Z) (later_useful : bool),
    shape_ok false root = true -> no_ci_lit root = true -> look_ok root = true ->
    (forall x, 0 <= x <= tlen e -> exists r, attempt e fuel root x = Ok r) ->
    sc_H3 st (tlen e) false (bp_exec e fuel root bumpq) ->
    f_mode (facts false later_useful root) = FM_TrailingAnchor_FixedLength_LeftToRight_End ->
    forall start prevlen, 0 <= start <= tlen e ->
    exists r, find e fuel root false start prevlen = Ok r /\
      scan (tlen e) false (f_min (facts false later_useful root))
           (fd_total (fd_optimized_finder (txt e) (set_in e) (lower e) (fc_opts_of_facts (facts false later_useful root))))
           (bp_exec e fuel root bumpq) start prevlen = Ok r.
Proof. exact fc_mode_trailing_end_sound. Qed.
Print Assumptions C03_mode_trailing_end_sound.

(* LeadingString_LeftToRight: the published LeadingPrefix is a BYTE string (C04_find_prefix_sound); when it
   is the UTF-8 encoding of valid runes P (so []rune(LeadingPrefix) = P) and the text holds valid runes, the
   leading-string finder is sound.  (The prefix of an alternation can be cut inside a multi-byte rune;
   then the hypothesis fails, []rune gives U+FFFD and the theorem says nothing - runner.go serves this mode
   through the Boyer-Moore prefix of getPrefix, not through this finder.) *)
Theorem C03_mode_leading_string_sound :
  forall (e : env) (fuel : nat) (root : node) (bumpq : Z -> Z) (later_useful : bool),
    shape_ok false root = true -> no_ci_lit root = true -> look_ok root = true ->
    (forall x, 0 <= x <= tlen e -> exists r, attempt e fuel root x = Ok r) ->
    sc_H3 st (tlen e) false (bp_exec e fuel root bumpq) ->
    forall P : list Z,
    f_mode (facts false later_useful root) = FM_LeadingString_LeftToRight ->
    forallb valid_rune P = true -> forallb valid_rune (txt e) = true ->
    f_prefix (facts false later_useful root) = encode_string P ->
    forall start prevlen, 0 <= start <= tlen e ->
    exists r, find e fuel root false start prevlen = Ok r /\
      scan (tlen e) false (f_min (facts false later_useful root))
           (fd_total (fd_optimized_finder (txt e) (set_in e) (lower e) (fc_opts_of_facts (facts false later_useful root))))
           (bp_exec e fuel root bumpq) start prevlen = Ok r.
Proof. exact fc_mode_leading_string_sound. Qed.
Print Assumptions C03_mode_leading_string_sound.

(* ---- witnesses on concrete trees ---- *)

(* ab\z on "xabab": the analysis publishes mode 9 with length 2; the finder jumps from 0 to 3; same match *)
Definition ex_root_abz : node := NCapture 0 0 (-1) (NConcat 0 [NMulti 0 [97; 98]; NAnchor AEnd]).
Example C03_mode_trailing_end_witness :
  let e := ex_env [120; 97; 98; 97; 98] in
  let f := facts false false ex_root_abz in
  shape_ok false ex_root_abz = true /\ no_ci_lit ex_root_abz = true /\ look_ok ex_root_abz = true /\
  f_mode f = FM_TrailingAnchor_FixedLength_LeftToRight_End /\ f_min f = 2 /\
  fd_optimized_finder (txt e) (set_in e) (lower e) (fc_opts_of_facts f) 0 = Ok (true, 3) /\
  find e 10 ex_root_abz false 0 (-1) = Ok (Some {| pos := 5; caps := [(0, [(3, 2)])] |}) /\
  scan 5 false 2 (fd_total (fd_optimized_finder (txt e) (set_in e) (lower e) (fc_opts_of_facts f)))
       (bp_exec e 10 ex_root_abz (fun p => p)) 0 (-1) = Ok (Some {| pos := 5; caps := [(0, [(3, 2)])] |}).
Proof. vm_compute. repeat split; reflexivity. Qed.

(* abc[a-z] as the tree "abc" + set on "xxabcd": mode 11, prefix "abc" = encode_string [97;98;99]; finder jumps to 2 *)
Definition ex_root_abcw : node := NCapture 0 0 (-1) (NConcat 0 [NMulti 0 [97; 98; 99]; NChar CSet 0 0]).
Example C03_mode_leading_string_witness :
  let e := {| txt := [120; 120; 97; 98; 99; 100]; tstart := 0; ecma := false; endz_strict := false;
              set_in := fun _ x => (97 <=? x) && (x <=? 122); lower := fun x => x;
              is_word := fun _ => false; is_eword := fun _ => false |} in
  let f := facts false false ex_root_abcw in
  f_mode f = FM_LeadingString_LeftToRight /\ f_min f = 4 /\ f_prefix f = encode_string [97; 98; 99] /\
  runes_of (f_prefix f) = [97; 98; 99] /\
  fd_optimized_finder (txt e) (set_in e) (lower e) (fc_opts_of_facts f) 0 = Ok (true, 2) /\
  fd_optimized_finder (txt e) (set_in e) (lower e) (fc_opts_of_facts f) 3 = Ok (false, 6) /\
  find e 10 ex_root_abcw false 0 (-1) = Ok (Some {| pos := 6; caps := [(0, [(2, 4)])] |}) /\
  scan 6 false 4 (fd_total (fd_optimized_finder (txt e) (set_in e) (lower e) (fc_opts_of_facts f)))
       (bp_exec e 10 ex_root_abcw (fun p => p)) 0 (-1) = Ok (Some {| pos := 6; caps := [(0, [(2, 4)])] |}).
Proof. vm_compute. repeat split; reflexivity. Qed.

(* \Aab on "abab" searched from 2: Code.Anchors = Beginning, the finder gives up at once; same (no) match *)
Definition ex_root_Aab : node := NCapture 0 0 (-1) (NConcat 0 [NAnchor ABeginning; NMulti 0 [97; 98]]).
Example C03_mode_anchor_witness :
  let e := ex_env [97; 98; 97; 98] in
  get_anchors ex_root_Aab = anchor_bit ABeginning /\
  fd_find_first_char_default (txt e) (set_in e) (lower e) false (get_anchors ex_root_Aab) 0 None None None None 2 = Ok (false, 4) /\
  find e 10 ex_root_Aab false 2 (-1) = Ok None /\
  scan 4 false 2 (fd_total (fd_find_first_char_default (txt e) (set_in e) (lower e) false (get_anchors ex_root_Aab) 0 None None None None))
       (bp_exec e 10 ex_root_Aab (fun p => p)) 2 (-1) = Ok None /\
  find e 10 ex_root_Aab false 0 (-1) = Ok (Some {| pos := 2; caps := [(0, [(0, 2)])] |}).
Proof. vm_compute. repeat split; reflexivity. Qed.


(* =========================================================================================
   End to end, second part (Proofs/ComposeFinder.v): the modes whose fact C04 proves for the analyses of
   Model/Analysis2.v (C04_fixed_distance_sets_sound, C04_fixed_distance_char/string_sound,
   C04_literal_after_loop_sound, C04_prefixes_sound, C04_ci_prefix_sound, C04_landmark_chain_sound,
   C04_first_chars_prefix_sound) composed with the finder theorems above:
       the published DATA is the analysis function's output  =>  scanning with the finder of that mode in
       front returns what Spec.find (the accelerator-free scan) returns.
   The mode decision itself (the ladder of optimizations.go) is not modelled: [g] is ANY FindOptimizations
   record with that mode whose data fields are the analysis' output, MinRequiredLength = f_min (facts ...).
   Common hypotheses as in the first part (shape_ok / no_ci_lit / look_ok, attempts have fuel, (H3)).
   Residual hypotheses, stated where they are needed:
     tie      forall id x, set_in e id x = char_in cat_in (set_cls sets id) x  -- the semantics' class oracle
              answers as the C16 model's CharIn on the exported class table (with forallb cls_good_b sets);
              the finder's CharIn oracle for a PUBLISHED (possibly merged) set is char_in of its structure
              ([cf_set_in]), for tree sets it is the semantics' own oracle;
     text     runes in 0..0x10FFFF (sets, char, string, first chars) / valid scalars (literal after loop);
              tlen e < INF;
     lower    ToLower on the ASCII upper-case letters: lower e u = u + 32 for 65 <= u <= 90 (ignore-case modes);
     utf8     a case-sensitive LiteralAfterLoop.String is valid UTF-8 (always true of a real pattern);
     data     LeadingPrefixes is non-empty (the ladder selects the mode only then).
   [cf_fdsets] / [cf_lal] / [cf_chain] translate the analysis' records (class structures, tree set ids)
   into the records the runner reads (set ids).
   ========================================================================================= *)
From Verif Require Import Model.CharClass Model.Analysis2 Proofs.ComposeFinder.

(* FixedDistanceSets_LeftToRight / LeadingSet_LeftToRight: L = any non-empty selection (the quality sort and
   the truncation only select and reorder) of the sets findFixedDistanceSets computes *)
Theorem C03_mode_fixed_distance_sets_sound_e2e :
  forall (e : env) (fuel : nat) (root : node) (bumpq : Z -> Z) (later_useful : bool),
    shape_ok false root = true -> no_ci_lit root = true -> look_ok root = true ->
    (forall x, 0 <= x <= tlen e -> exists r, attempt e fuel root x = Ok r) ->
    sc_H3 st (tlen e) false (bp_exec e fuel root bumpq) ->
    forall (cat_in : Z -> Z -> bool) (sets : list cls),
    forallb cls_good_b sets = true ->
    (forall id x, set_in e id x = char_in cat_in (set_cls sets id) x) ->
    (forall i, 0 <= char_at e i <= 1114111) -> tlen e < INF -> lits_ok root = true ->
    forall (thorough : bool) (L : list Analysis2.fdset) (g : fdopts),
    L <> [] -> (forall f0, In f0 L -> In f0 (find_fixed_distance_sets cat_in sets thorough root)) ->
    fo_mode g = FM_LeadingSet_LeftToRight \/ fo_mode g = FM_FixedDistanceSets_LeftToRight ->
    fo_minreq g = f_min (facts false later_useful root) -> fo_sets g = cf_fdsets L ->
    forall start prevlen, 0 <= start <= tlen e ->
    exists r, find e fuel root false start prevlen = Ok r /\
      scan (tlen e) false (f_min (facts false later_useful root))
           (fd_total (fd_optimized_finder (txt e) (cf_set_in cat_in L) (lower e) g))
           (bp_exec e fuel root bumpq) start prevlen = Ok r.
Proof. exact cf_mode_fixed_distance_sets_sound. Qed.
Print Assumptions C03_mode_fixed_distance_sets_sound_e2e.

(* FixedDistanceChar_LeftToRight: a published set whose Chars is one valid, non-negated rune *)
Theorem C03_mode_fixed_distance_char_sound_e2e :
  forall (e : env) (fuel : nat) (root : node) (bumpq : Z -> Z) (later_useful : bool),
    shape_ok false root = true -> no_ci_lit root = true -> look_ok root = true ->
    (forall x, 0 <= x <= tlen e -> exists r, attempt e fuel root x = Ok r) ->
    sc_H3 st (tlen e) false (bp_exec e fuel root bumpq) ->
    forall (cat_in : Z -> Z -> bool) (sets : list cls),
    forallb cls_good_b sets = true ->
    (forall id x, set_in e id x = char_in cat_in (set_cls sets id) x) ->
    (forall i, 0 <= char_at e i <= 1114111) -> tlen e < INF -> lits_ok root = true ->
    forall (thorough : bool) (f0 : Analysis2.fdset) (c : Z) (g : fdopts),
    In f0 (find_fixed_distance_sets cat_in sets thorough root) -> fds_single f0 = Some c ->
    fo_mode g = FM_FixedDistanceChar_LeftToRight -> fo_minreq g = f_min (facts false later_useful root) ->
    fo_fdl_c g = c -> fo_fdl_distance g = fs_dist f0 ->
    forall (set_in' : Z -> Z -> bool) start prevlen, 0 <= start <= tlen e ->
    exists r, find e fuel root false start prevlen = Ok r /\
      scan (tlen e) false (f_min (facts false later_useful root))
           (fd_total (fd_optimized_finder (txt e) set_in' (lower e) g))
           (bp_exec e fuel root bumpq) start prevlen = Ok r.
Proof. exact cf_mode_fixed_distance_char_sound. Qed.
Print Assumptions C03_mode_fixed_distance_char_sound_e2e.

(* FixedDistanceString_LeftToRight: the string findFixedDistanceString extracts from the published sets *)
Theorem C03_mode_fixed_distance_string_sound_e2e :
  forall (e : env) (fuel : nat) (root : node) (bumpq : Z -> Z) (later_useful : bool),
    shape_ok false root = true -> no_ci_lit root = true -> look_ok root = true ->
    (forall x, 0 <= x <= tlen e -> exists r, attempt e fuel root x = Ok r) ->
    sc_H3 st (tlen e) false (bp_exec e fuel root bumpq) ->
    forall (cat_in : Z -> Z -> bool) (sets : list cls),
    forallb cls_good_b sets = true ->
    (forall id x, set_in e id x = char_in cat_in (set_cls sets id) x) ->
    (forall i, 0 <= char_at e i <= 1114111) -> tlen e < INF -> lits_ok root = true ->
    forall (thorough : bool) (str : list Z) (d0 : Z) (g : fdopts),
    find_fixed_distance_string (find_fixed_distance_sets cat_in sets thorough root) = Some (str, d0) ->
    fo_mode g = FM_FixedDistanceString_LeftToRight -> fo_minreq g = f_min (facts false later_useful root) ->
    fo_fdl_s g = str -> fo_fdl_distance g = d0 ->
    forall (set_in' : Z -> Z -> bool) start prevlen, 0 <= start <= tlen e ->
    exists r, find e fuel root false start prevlen = Ok r /\
      scan (tlen e) false (f_min (facts false later_useful root))
           (fd_total (fd_optimized_finder (txt e) set_in' (lower e) g))
           (bp_exec e fuel root bumpq) start prevlen = Ok r.
Proof. exact cf_mode_fixed_distance_string_sound. Qed.
Print Assumptions C03_mode_fixed_distance_string_sound_e2e.

(* LiteralAfterLoop_LeftToRight: the record findLiteralFollowingLeadingLoop publishes *)
Theorem C03_mode_literal_after_loop_sound_e2e :
  forall (e : env) (fuel : nat) (root : node) (bumpq : Z -> Z) (later_useful : bool),
    shape_ok false root = true -> no_ci_lit root = true -> look_ok root = true ->
    (forall x, 0 <= x <= tlen e -> exists r, attempt e fuel root x = Ok r) ->
    sc_H3 st (tlen e) false (bp_exec e fuel root bumpq) ->
    forall (cat_in : Z -> Z -> bool) (sets : list cls),
    forallb cls_good_b sets = true ->
    (forall id x, set_in e id x = char_in cat_in (set_cls sets id) x) ->
    tlen e < INF ->
    forall (part_cc : Z -> bool) (L : lal) (g : fdopts),
    find_lit_after_loop cat_in part_cc sets root = Ok (Some L) ->
    (forall b, lal_what L = LalString b false -> valid_utf8 b = true) ->
    (forall u, 65 <= u <= 90 -> lower e u = u + 32) ->
    forallb valid_rune (txt e) = true ->
    fo_mode g = FM_LiteralAfterLoop_LeftToRight -> fo_minreq g = f_min (facts false later_useful root) ->
    fo_lal g = Some (cf_lal L) ->
    forall start prevlen, 0 <= start <= tlen e ->
    exists r, find e fuel root false start prevlen = Ok r /\
      scan (tlen e) false (f_min (facts false later_useful root))
           (fd_total (fd_optimized_finder (txt e) (set_in e) (lower e) g))
           (bp_exec e fuel root bumpq) start prevlen = Ok r.
Proof. exact cf_mode_literal_after_loop_sound. Qed.
Print Assumptions C03_mode_literal_after_loop_sound_e2e.

(* LeadingStrings_LeftToRight (ic = false) / LeadingStrings_OrdinalIgnoreCase_LeftToRight (ic = true) *)
Theorem C03_mode_leading_strings_sound_e2e :
  forall (e : env) (fuel : nat) (root : node) (bumpq : Z -> Z) (later_useful : bool),
    shape_ok false root = true -> no_ci_lit root = true -> look_ok root = true ->
    (forall x, 0 <= x <= tlen e -> exists r, attempt e fuel root x = Ok r) ->
    sc_H3 st (tlen e) false (bp_exec e fuel root bumpq) ->
    forall (cat_in : Z -> Z -> bool) (sets : list cls),
    forallb cls_good_b sets = true ->
    (forall id x, set_in e id x = char_in cat_in (set_cls sets id) x) ->
    forall (part_cc : Z -> bool) (ic : bool) (ps : list (list Z)) (g : fdopts),
    find_prefixes cat_in part_cc sets ic root = Some ps -> ps <> [] ->
    (ic = true -> forall u, 65 <= u <= 90 -> lower e u = u + 32) ->
    fo_mode g = (if ic then FM_LeadingStrings_OrdinalIgnoreCase_LeftToRight else FM_LeadingStrings_LeftToRight) ->
    fo_minreq g = f_min (facts false later_useful root) -> fo_prefixes g = ps ->
    (ic = false -> fo_first_runes g = fd_leading_prefix_first_runes ps) ->
    forall (set_in' : Z -> Z -> bool) start prevlen, 0 <= start <= tlen e ->
    exists r, find e fuel root false start prevlen = Ok r /\
      scan (tlen e) false (f_min (facts false later_useful root))
           (fd_total (fd_optimized_finder (txt e) set_in' (lower e) g))
           (bp_exec e fuel root bumpq) start prevlen = Ok r.
Proof. exact cf_mode_leading_strings_sound. Qed.
Print Assumptions C03_mode_leading_strings_sound_e2e.

(* LeadingString_OrdinalIgnoreCase_LeftToRight: the ASCII string findPrefixOrdinalCaseInsensitive computes *)
Theorem C03_mode_leading_string_ignore_case_sound_e2e :
  forall (e : env) (fuel : nat) (root : node) (bumpq : Z -> Z) (later_useful : bool),
    shape_ok false root = true -> no_ci_lit root = true -> look_ok root = true ->
    (forall x, 0 <= x <= tlen e -> exists r, attempt e fuel root x = Ok r) ->
    sc_H3 st (tlen e) false (bp_exec e fuel root bumpq) ->
    forall (cat_in : Z -> Z -> bool) (sets : list cls),
    forallb cls_good_b sets = true ->
    (forall id x, set_in e id x = char_in cat_in (set_cls sets id) x) ->
    tlen e < INF ->
    forall (part_cc : Z -> bool) (g : fdopts),
    (forall u, 65 <= u <= 90 -> lower e u = u + 32) ->
    fo_mode g = FM_LeadingString_OrdinalIgnoreCase_LeftToRight -> fo_minreq g = f_min (facts false later_useful root) ->
    fo_prefix g = ci_prefix cat_in part_cc sets root ->
    forall (set_in' : Z -> Z -> bool) start prevlen, 0 <= start <= tlen e ->
    exists r, find e fuel root false start prevlen = Ok r /\
      scan (tlen e) false (f_min (facts false later_useful root))
           (fd_total (fd_optimized_finder (txt e) set_in' (lower e) g))
           (bp_exec e fuel root bumpq) start prevlen = Ok r.
Proof. exact cf_mode_leading_string_ic_sound. Qed.
Print Assumptions C03_mode_leading_string_ignore_case_sound_e2e.

(* RequiredLandmarkChain_LeftToRight: the chain findRequiredLandmarkChain publishes (runner code as repaired) *)
Theorem C03_mode_landmark_chain_sound_e2e :
  forall (e : env) (fuel : nat) (root : node) (bumpq : Z -> Z) (later_useful : bool),
    shape_ok false root = true -> no_ci_lit root = true -> look_ok root = true ->
    (forall x, 0 <= x <= tlen e -> exists r, attempt e fuel root x = Ok r) ->
    sc_H3 st (tlen e) false (bp_exec e fuel root bumpq) ->
    forall (cat_in : Z -> Z -> bool) (sets : list cls),
    tlen e < INF -> lits_ok root = true ->
    forall (loop : Z) (lms : list (list lm_alt)) (g : fdopts),
    find_landmark_chain cat_in sets root = Some (loop, lms) ->
    fo_mode g = FM_RequiredLandmarkChain_LeftToRight -> fo_minreq g = f_min (facts false later_useful root) ->
    fo_chain g = Some (cf_chain loop lms) ->
    forall start prevlen, 0 <= start <= tlen e ->
    exists r, find e fuel root false start prevlen = Ok r /\
      scan (tlen e) false (f_min (facts false later_useful root))
           (fd_total (fd_optimized_finder (txt e) (set_in e) (lower e) g))
           (bp_exec e fuel root bumpq) start prevlen = Ok r.
Proof. exact cf_mode_landmark_chain_sound. Qed.
Print Assumptions C03_mode_landmark_chain_sound_e2e.

(* the legacy first-character loop of findFirstCharDefault (Code.FcPrefix = getFirstCharsPrefix), BOTH directions,
   no anchor bit, no Boyer-Moore prefix, no optimized finder in use.  [fc] / [set_in'] are how the runner reads
   the record (singleton fast path or CharIn of PrefixSet): it must accept every rune the class accepts. *)
Theorem C03_mode_first_chars_sound_e2e :
  forall (e : env) (fuel : nat) (root : node) (bumpq : Z -> Z) (rtl : bool),
    shape_ok rtl root = true -> no_ci_lit root = true ->
    (forall x, 0 <= x <= tlen e -> exists r, attempt e fuel root x = Ok r) ->
    sc_H3 st (tlen e) rtl (bp_exec e fuel root bumpq) ->
    forall (cat_in : Z -> Z -> bool) (sets : list cls),
    forallb cls_good_b sets = true ->
    (forall id x, set_in e id x = char_in cat_in (set_cls sets id) x) ->
    (forall i, 0 <= char_at e i <= 1114111) -> lits_ok root = true ->
    forall (to_lower : Z -> Z) (C : cls) (ci : bool) (set_in' : Z -> Z -> bool) (fc : fdfc) (o : option fdopts),
    first_chars_prefix cat_in to_lower sets root = Ok (Some (C, ci)) ->
    (forall x, char_in cat_in C x = true -> fd_fc_test set_in' fc x = true) ->
    (forall o', o = Some o' -> fd_should_use_optimized o' = false) ->
    forall start prevlen, 0 <= start <= tlen e ->
    exists r, find e fuel root rtl start prevlen = Ok r /\
      scan (tlen e) rtl (min_len root)
           (fd_total (fd_find_first_char_default (txt e) set_in' (lower e) rtl 0 (tstart e) None None o (Some fc)))
           (bp_exec e fuel root bumpq) start prevlen = Ok r.
Proof. exact cf_mode_first_chars_sound. Qed.
Print Assumptions C03_mode_first_chars_sound_e2e.

(* ... with the canonical reading of the record: set id 0 answered by CharIn of PrefixSet *)
Theorem C03_mode_first_chars_sound_e2e_canonical :
  forall (e : env) (fuel : nat) (root : node) (bumpq : Z -> Z) (rtl : bool),
    shape_ok rtl root = true -> no_ci_lit root = true ->
    (forall x, 0 <= x <= tlen e -> exists r, attempt e fuel root x = Ok r) ->
    sc_H3 st (tlen e) rtl (bp_exec e fuel root bumpq) ->
    forall (cat_in : Z -> Z -> bool) (sets : list cls),
    forallb cls_good_b sets = true ->
    (forall id x, set_in e id x = char_in cat_in (set_cls sets id) x) ->
    (forall i, 0 <= char_at e i <= 1114111) -> lits_ok root = true ->
    forall (to_lower : Z -> Z) (C : cls) (ci : bool),
    first_chars_prefix cat_in to_lower sets root = Ok (Some (C, ci)) ->
    forall start prevlen, 0 <= start <= tlen e ->
    exists r, find e fuel root rtl start prevlen = Ok r /\
      scan (tlen e) rtl (min_len root)
           (fd_total (fd_find_first_char_default (txt e) (fun _ x => char_in cat_in C x) (lower e) rtl 0 (tstart e)
                        None None None (Some {| fc_singleton := None; fc_set := 0 |})))
           (bp_exec e fuel root bumpq) start prevlen = Ok r.
Proof. exact cf_mode_first_chars_sound_canonical. Qed.
Print Assumptions C03_mode_first_chars_sound_e2e_canonical.

(* ---- witnesses on concrete trees: the analysis publishes, the finder skips, the two scans agree ---- *)
Definition e2_sets : list cls := [ranges_cls [(98, 99)]].                       (* set 0 = [bc] *)
Definition e2_cat : Z -> Z -> bool := fun _ _ => false.
Definition e2_env (t : list Z) : env :=
  {| txt := t; tstart := 0; ecma := false; endz_strict := false;
     set_in := fun id x => char_in e2_cat (set_cls e2_sets id) x;
     lower := fun r => if (65 <=? r) && (r <=? 90) then r + 32 else r;
     is_word := fun _ => false; is_eword := fun _ => false |}.
Definition e2_opts (m minreq : Z) (P : list Z) (Ps : list (list Z)) (c : Z) (s : list Z) (d : Z)
                   (S : list Finder.fdset) (l : option fdlal) (ch : option fdchain) : fdopts :=
  {| fo_mode := m; fo_minreq := minreq; fo_prefix := P; fo_prefixes := Ps;
     fo_first_runes := fd_leading_prefix_first_runes Ps; fo_fdl_c := c; fo_fdl_s := s; fo_fdl_distance := d;
     fo_sets := S; fo_lal := l; fo_chain := ch |}.

(* a[bc]d on "xxabda": three sets at distances 0, 1, 2 (the middle one answered through CharIn of the
   published structure); from 0 the finder jumps to 2, from 3 it gives up *)
Definition e2_fixed : node := NCapture 0 0 (-1) (NConcat 0 [NChar COne 0 97; NChar CSet 0 0; NChar COne 0 100]).
Definition e2_fixed_L : list Analysis2.fdset := find_fixed_distance_sets e2_cat e2_sets false e2_fixed.
Definition e2_fixed_g : fdopts :=
  e2_opts FM_FixedDistanceSets_LeftToRight 3 [] [] 0 [] 0 (cf_fdsets e2_fixed_L) None None.
Example C03_mode_fixed_distance_sets_e2e_witness :
  let e := e2_env [120; 120; 97; 98; 100; 97] in
  let F := fd_optimized_finder (txt e) (cf_set_in e2_cat e2_fixed_L) (lower e) e2_fixed_g in
  map (fun f0 => (fs_chars f0, fs_dist f0)) e2_fixed_L = [([97], 0); ([98; 99], 1); ([100], 2)] /\
  f_min (facts false false e2_fixed) = 3 /\
  F 0 = Ok (true, 2) /\ F 3 = Ok (false, 6) /\
  find e 10 e2_fixed false 0 (-1) = Ok (Some {| pos := 5; caps := [(0, [(2, 3)])] |}) /\
  scan 6 false 3 (fd_total F) (bp_exec e 10 e2_fixed (fun p => p)) 0 (-1)
    = Ok (Some {| pos := 5; caps := [(0, [(2, 3)])] |}).
Proof. vm_compute. repeat split; reflexivity. Qed.

(* ... and every hypothesis of the theorem holds for it, so the theorem applies (all starts, all prevlen) *)
Example C03_mode_fixed_distance_sets_e2e_applies :
  let e := e2_env [120; 120; 97; 98; 100; 97] in
  forall start prevlen, 0 <= start <= 6 ->
  exists r, find e 10 e2_fixed false start prevlen = Ok r /\
    scan 6 false 3 (fd_total (fd_optimized_finder (txt e) (cf_set_in e2_cat e2_fixed_L) (lower e) e2_fixed_g))
         (bp_exec e 10 e2_fixed (fun p => p)) start prevlen = Ok r.
Proof.
  cbv zeta. intros start prevlen Hs.
  apply (C03_mode_fixed_distance_sets_sound_e2e (e2_env [120; 120; 97; 98; 100; 97]) 10 e2_fixed (fun p => p) false)
    with (cat_in := e2_cat) (sets := e2_sets) (thorough := false) (L := e2_fixed_L).
  - reflexivity.
  - reflexivity.
  - reflexivity.
  - intros x Hx. change (tlen (e2_env [120; 120; 97; 98; 100; 97])) with 6 in Hx.
    assert (Hc : x = 0 \/ x = 1 \/ x = 2 \/ x = 3 \/ x = 4 \/ x = 5 \/ x = 6) by lia.
    destruct Hc as [->|[->|[->|[->|[->|[->| ->]]]]]]; eexists; vm_compute; reflexivity.
  - apply C03_H3_without_bumpalong. reflexivity.
  - reflexivity.
  - intros id x. reflexivity.
  - intros i. unfold char_at. cbn [txt e2_env].
    destruct (Z.to_nat i) as [|[|[|[|[|[|k]]]]]]; cbn [nth]; try lia. destruct k; lia.
  - vm_compute. reflexivity.
  - reflexivity.
  - vm_compute. discriminate.
  - intros f0 H. exact H.
  - right. reflexivity.
  - vm_compute. reflexivity.
  - reflexivity.
  - exact Hs.
Qed.

(* [bc]ad : FixedDistanceString "ad" at distance 1; FixedDistanceChar 'a' at distance 1 *)
Definition e2_fdstr : node := NCapture 0 0 (-1) (NConcat 0 [NChar CSet 0 0; NMulti 0 [97; 100]]).
Example C03_mode_fixed_distance_string_e2e_witness :
  let e := e2_env [120; 98; 120; 99; 97; 100] in
  let gs := e2_opts FM_FixedDistanceString_LeftToRight 3 [] [] 0 [97; 100] 1 [] None None in
  let gc := e2_opts FM_FixedDistanceChar_LeftToRight 3 [] [] 97 [] 1 [] None None in
  find_fixed_distance_string (find_fixed_distance_sets e2_cat e2_sets false e2_fdstr) = Some ([97; 100], 1) /\
  map fds_single (find_fixed_distance_sets e2_cat e2_sets false e2_fdstr) = [None; Some 97; Some 100] /\
  f_min (facts false false e2_fdstr) = 3 /\
  fd_optimized_finder (txt e) (set_in e) (lower e) gs 0 = Ok (true, 3) /\
  fd_optimized_finder (txt e) (set_in e) (lower e) gc 0 = Ok (true, 3) /\
  find e 10 e2_fdstr false 0 (-1) = Ok (Some {| pos := 6; caps := [(0, [(3, 3)])] |}) /\
  scan 6 false 3 (fd_total (fd_optimized_finder (txt e) (set_in e) (lower e) gs)) (bp_exec e 10 e2_fdstr (fun p => p)) 0 (-1)
    = Ok (Some {| pos := 6; caps := [(0, [(3, 3)])] |}) /\
  scan 6 false 3 (fd_total (fd_optimized_finder (txt e) (set_in e) (lower e) gc)) (bp_exec e 10 e2_fdstr (fun p => p)) 0 (-1)
    = Ok (Some {| pos := 6; caps := [(0, [(3, 3)])] |}).
Proof. vm_compute. repeat split; reflexivity. Qed.

(* [bc]*d+ on "xabcbdd": literal 'd' after the loop set [bc]; the finder finds 'd' at 5 and walks back to 2 *)
Definition e2_lal : node :=
  NCapture 0 0 (-1) (NConcat 0 [NCharLoop CSet LGreedy 0 0 0 INF; NCharLoop COne LGreedy 0 100 1 INF]).
Example C03_mode_literal_after_loop_e2e_witness :
  let e := e2_env [120; 97; 98; 99; 98; 100; 100] in
  let L := {| lal_loop := 0; lal_what := LalChar 100 |} in
  let g := e2_opts FM_LiteralAfterLoop_LeftToRight 1 [] [] 0 [] 0 [] (Some (cf_lal L)) None in
  find_lit_after_loop e2_cat (fun _ => true) e2_sets e2_lal = Ok (Some L) /\
  f_min (facts false false e2_lal) = 1 /\
  fd_optimized_finder (txt e) (set_in e) (lower e) g 0 = Ok (true, 2) /\
  find e 10 e2_lal false 0 (-1) = Ok (Some {| pos := 7; caps := [(0, [(2, 5)])] |}) /\
  scan 7 false 1 (fd_total (fd_optimized_finder (txt e) (set_in e) (lower e) g)) (bp_exec e 10 e2_lal (fun p => p)) 0 (-1)
    = Ok (Some {| pos := 7; caps := [(0, [(2, 5)])] |}).
Proof. vm_compute. repeat split; reflexivity. Qed.

(* (?:ab|cd)[bc] on "xacdcab": the prefixes "ab", "cd" with first runes [a; c] *)
Definition e2_pref : node :=
  NCapture 0 0 (-1) (NConcat 0 [NAlternate 0 [NMulti 0 [97; 98]; NMulti 0 [99; 100]]; NChar CSet 0 0]).
Example C03_mode_leading_strings_e2e_witness :
  let e := e2_env [120; 97; 99; 100; 99; 97; 98] in
  let g := e2_opts FM_LeadingStrings_LeftToRight 3 [] [[97; 98]; [99; 100]] 0 [] 0 [] None None in
  find_prefixes e2_cat (fun _ => true) e2_sets false e2_pref = Some [[97; 98]; [99; 100]] /\
  fo_first_runes g = [97; 99] /\ f_min (facts false false e2_pref) = 3 /\
  fd_optimized_finder (txt e) (set_in e) (lower e) g 0 = Ok (true, 2) /\
  find e 10 e2_pref false 0 (-1) = Ok (Some {| pos := 5; caps := [(0, [(2, 3)])] |}) /\
  scan 7 false 3 (fd_total (fd_optimized_finder (txt e) (set_in e) (lower e) g)) (bp_exec e 10 e2_pref (fun p => p)) 0 (-1)
    = Ok (Some {| pos := 5; caps := [(0, [(2, 3)])] |}).
Proof. vm_compute. repeat split; reflexivity. Qed.

(* [Aa][Bb]! (what (?i)ab! parses to) on "xxAb!": the ignore-case prefix "ab!" *)
Definition e3_sets : list cls := [ranges_cls [(65, 65); (97, 97)]; ranges_cls [(66, 66); (98, 98)]].
Definition e3_part (c : Z) : bool := ((65 <=? c) && (c <=? 90)) || ((97 <=? c) && (c <=? 122)).
Definition e3_ci : node := NCapture 0 0 (-1) (NConcat 0 [NChar CSet 0 0; NChar CSet 0 1; NChar COne 0 33]).
Example C03_mode_leading_string_ignore_case_e2e_witness :
  let e := {| txt := [120; 120; 65; 98; 33]; tstart := 0; ecma := false; endz_strict := false;
              set_in := fun id x => char_in e2_cat (set_cls e3_sets id) x;
              lower := fun r => if (65 <=? r) && (r <=? 90) then r + 32 else r;
              is_word := fun _ => false; is_eword := fun _ => false |} in
  let g := e2_opts FM_LeadingString_OrdinalIgnoreCase_LeftToRight 3 [97; 98; 33] [] 0 [] 0 [] None None in
  ci_prefix e2_cat e3_part e3_sets e3_ci = [97; 98; 33] /\ f_min (facts false false e3_ci) = 3 /\
  fd_optimized_finder (txt e) (set_in e) (lower e) g 0 = Ok (true, 2) /\
  find e 10 e3_ci false 0 (-1) = Ok (Some {| pos := 5; caps := [(0, [(2, 3)])] |}) /\
  scan 5 false 3 (fd_total (fd_optimized_finder (txt e) (set_in e) (lower e) g)) (bp_exec e 10 e3_ci (fun p => p)) 0 (-1)
    = Ok (Some {| pos := 5; caps := [(0, [(2, 3)])] |}).
Proof. vm_compute. repeat split; reflexivity. Qed.

(* [bc]+a[bc]+d[bc]+ on "xbbacdb": leading loop [bc]+, landmarks 'a' then 'd' *)
Definition e2_chain : node :=
  NCapture 0 0 (-1) (NConcat 0 [NCharLoop CSet LGreedy 0 0 1 INF; NChar COne 0 97; NCharLoop CSet LGreedy 0 0 1 INF;
                                NChar COne 0 100; NCharLoop CSet LGreedy 0 0 1 INF]).
Example C03_mode_landmark_chain_e2e_witness :
  let e := e2_env [120; 98; 98; 97; 99; 100; 98] in
  match find_landmark_chain e2_cat e2_sets e2_chain with
  | Some (loop, lms) =>
      let g := e2_opts FM_RequiredLandmarkChain_LeftToRight 5 [] [] 0 [] 0 [] None (Some (cf_chain loop lms)) in
      loop = 0 /\ map (map la_lit) lms = [[[97]]; [[100]]] /\ f_min (facts false false e2_chain) = 5 /\
      fd_optimized_finder (txt e) (set_in e) (lower e) g 0 = Ok (true, 1) /\
      find e 10 e2_chain false 0 (-1) = Ok (Some {| pos := 7; caps := [(0, [(1, 6)])] |}) /\
      scan 7 false 5 (fd_total (fd_optimized_finder (txt e) (set_in e) (lower e) g)) (bp_exec e 10 e2_chain (fun p => p)) 0 (-1)
        = Ok (Some {| pos := 7; caps := [(0, [(1, 6)])] |})
  | None => False
  end.
Proof. vm_compute. repeat split; reflexivity. Qed.

(* right-to-left [^a]b (evaluation order: b first) on "xbab" from the end: FcPrefix = {b} read at p-1 *)
Definition e2_fc_rtl : node := NCapture 64 0 (-1) (NConcat 64 [NChar COne 64 98; NChar CNotone 64 97]).
Example C03_mode_first_chars_e2e_witness :
  let e := e2_env [120; 98; 97; 98; 120] in
  match first_chars_prefix e2_cat (fun r => r) [] e2_fc_rtl with
  | Ok (Some (C, ci)) =>
      let F := fd_find_first_char_default (txt e) (fun _ x => char_in e2_cat C x) (lower e) true 0 (tstart e)
                 None None None (Some {| fc_singleton := None; fc_set := 0 |}) in
      ranges C = [(98, 98)] /\ ci = false /\ min_len e2_fc_rtl = 2 /\
      F 5 = Ok (true, 4) /\ F 3 = Ok (true, 2) /\ F 1 = Ok (false, 0) /\
      find e 10 e2_fc_rtl true 5 (-1) = Ok (Some {| pos := 0; caps := [(0, [(0, 2)])] |}) /\
      scan 5 true 2 (fd_total F) (bp_exec e 10 e2_fc_rtl (fun p => p)) 5 (-1)
        = Ok (Some {| pos := 0; caps := [(0, [(0, 2)])] |})
  | _ => False
  end.
Proof. vm_compute. repeat split; reflexivity. Qed.

(* findFirstCharDefault ANSWERS at every position of the text: Ok (found, Runtextpos), never a slice / index
   fault (Crash) nor an exhausted loop (Fuel) - for every Code.Anchors, \G position, Boyer-Moore oracle and
   FcPrefix; an optimized finder in use needs the fact of its mode (the side conditions that make the published
   distances usable as indices are part of it).  Feeds C10. *)
Theorem C03_finder_default_answers_ok :
  forall (R : Type) (text : list Z) (exec : Z -> option R * Z) (set_in : Z -> Z -> bool) (lower : Z -> Z)
         (rtl : bool) (anchors ts : Z) (bm : option (Z -> bool)) (bm_scan : option (Z -> Z))
         (o : option fdopts) (fc : option fdfc),
    (forall o', o = Some o' -> fd_should_use_optimized o' = true ->
       fd_minlen_fact R text exec (fo_minreq o') /\ fd_mode_fact R text exec set_in lower o') ->
    forall p, 0 <= p <= zlen text ->
    exists r, fd_find_first_char_default text set_in lower rtl anchors ts bm bm_scan o fc p = Ok r.
Proof. exact cf_default_finder_answers_ok. Qed.
Print Assumptions C03_finder_default_answers_ok.
(* ==========================================================================================
   The Boyer-Moore prefix machine (syntax/prefix.go:412-766; Model/BM.v; proofs Proofs/BMProofs.v,
   Proofs/BMCompose.v).  The model is the code AFTER /repo d3ed698 (Scan consults the unicode rows for
   chTest <= 0xffff; with "<" the rune U+FFFF got the default advance and an occurrence was skipped:
   C03_bm_scan_before_repair_skips below).
   ========================================================================================== *)
From Verif Require Import Model.BM Proofs.BMProofs Proofs.BMCompose.

(* newBmPrefix never faults and never runs out of its own fuel on a non-empty pattern of non-negative
   runes (after lower-casing); when it answers nil some rune lies beyond U+FFFF; a machine it returns has
   sound tables *)
Theorem C03_bm_new_total :
  forall (lower : Z -> Z) (pattern : list Z) (ci rtl : bool),
    pattern <> [] -> (forall x, In x pattern -> 0 <= bm_fold lower ci x) ->
    exists r, bm_new lower pattern ci rtl = Ok r /\
      match r with
      | None => exists x, In x pattern /\ 65535 < bm_fold lower ci x
      | Some t => bm_pattern t = map (bm_fold lower ci) pattern /\ bm_rtl t = rtl /\ bm_ci t = ci /\ bmp_tab_ok t
      end.
Proof. exact bmp_new_ok. Qed.
Print Assumptions C03_bm_new_total.

(* THE TABLE INVARIANTS, proved of the construction (no side condition: a fault / nil is not Ok (Some t)).
   bmp_tab_ok t = the pattern is non-empty and
     bmp_pos_ok: positive has one entry per pattern index i, with the sign of the scan direction and
                 1 <= |positive[i]| <= distance from i to the far end of the pattern, and NO shift s with
                 1 <= s < |positive[i]| is viable, where [bmp_viable rtl i s] = "the pattern moved by s agrees
                 with itself on the tail beyond i and differs at i" (the only shifts under which an occurrence
                 can exist once the tail beyond i matched the text and i did not);
     bmp_neg_ok: for EVERY rune c >= 0 the bad-character lookup Scan performs (negativeASCII below 128, the
                 unicode row c>>8 when there is one, else the default advance) does not fault and yields a with
                 |a| = distance from the tail of the pattern to the occurrence of c nearest to the tail
                 (whole length when c does not occur): no pattern index nearer to the tail holds c. *)
Theorem C03_bm_tables_sound :
  forall (lower : Z -> Z) (pattern : list Z) (ci rtl : bool) (t : bmtab),
    bm_new lower pattern ci rtl = Ok (Some t) ->
    bm_pattern t = map (bm_fold lower ci) pattern /\ bm_rtl t = rtl /\ bm_ci t = ci /\ bmp_tab_ok t.
Proof. exact bmp_new_Some_ok. Qed.
Print Assumptions C03_bm_tables_sound.

(* SCAN IS SOUND AND COMPLETE: for every pattern newBmPrefix accepts, every text, every fuel, every window
   and index with beglimit <= index <= endlimit, an answer r of Scan is the FIRST position at-or-beyond
   index in scan direction at which the pattern occurs inside the window, and -1 means there is none.
   "occurs at k" = starts at k (left-to-right) / ends at k (right-to-left), inside the text, rune by rune
   under the fold the machine uses (unicode.ToLower on both sides when caseInsensitive).  The skip tables
   never overshoot. *)
Theorem C03_bm_scan_sound :
  forall (lower : Z -> Z) (pattern : list Z) (ci rtl : bool) (t : bmtab) (text : list Z)
         (fuel : nat) (index beglimit endlimit r : Z),
    bm_new lower pattern ci rtl = Ok (Some t) ->
    beglimit <= index <= endlimit ->
    bm_scan lower t text fuel index beglimit endlimit = Ok r ->
    let m := zlen pattern in
    let occurs := fun k => forall j, 0 <= j < m ->
        let q := if rtl then k - m + j else k + j in
        0 <= q < zlen text /\
        bm_fold lower ci (nth (Z.to_nat q) text 0) = bm_fold lower ci (nth (Z.to_nat j) pattern 0) in
    let fits := fun k => if rtl then beglimit <= k - m else k + m <= endlimit in
    (r = -1 /\ forall k, sc_ord rtl index k -> fits k -> ~ occurs k) \/
    (sc_ord rtl index r /\ fits r /\ occurs r /\
     forall k, sc_ord rtl index k -> sc_before rtl k r -> ~ occurs k).
Proof. exact bmp_scan_sound_stmt. Qed.
Print Assumptions C03_bm_scan_sound.

(* ... and it always answers: no index fault, len(text)+1 turns of the outer loop suffice, on a text of
   non-negative runes (a negative rune indexes negativeASCII out of range in Go as in the model) *)
Theorem C03_bm_scan_total :
  forall (lower : Z -> Z) (pattern : list Z) (ci rtl : bool) (t : bmtab) (text : list Z)
         (index beglimit endlimit : Z),
    bm_new lower pattern ci rtl = Ok (Some t) ->
    (forall x, In x text -> 0 <= bm_fold lower ci x) ->
    0 <= beglimit -> endlimit <= zlen text -> beglimit <= index <= endlimit ->
    exists r, bm_scan lower t text (S (length text)) index beglimit endlimit = Ok r.
Proof. exact bmp_scan_total_stmt. Qed.
Print Assumptions C03_bm_scan_total.

(* IsMatch (the anchored test, runner.go:1413) = "the pattern occurs at index, inside the window" *)
Theorem C03_bm_is_match_sound :
  forall (lower : Z -> Z) (pattern : list Z) (ci rtl : bool) (t : bmtab) (text : list Z)
         (index beglimit endlimit : Z),
    bm_new lower pattern ci rtl = Ok (Some t) ->
    0 <= beglimit -> endlimit <= zlen text ->
    exists b, bm_is_match lower t text index beglimit endlimit = Ok b /\
      (b = true <->
       (if rtl then index <= endlimit /\ beglimit <= index - zlen pattern
        else beglimit <= index /\ index + zlen pattern <= endlimit) /\
       bmp_occurs lower pattern ci rtl text index).
Proof. exact bmp_is_match_stmt. Qed.
Print Assumptions C03_bm_is_match_sound.

(* the Scan answers as findFirstCharDefault uses them (window (0, Runtextend)) satisfy [fd_bm_scan_fact],
   the sixth hypothesis of C03_finder_default, given the compile-time fact behind Code.BmPrefix *)
Theorem C03_bm_scan_fact :
  forall (lower : Z -> Z) (t : bmtab) (text : list Z) (R : Type) (exec : Z -> option R * Z),
    bmp_tab_ok t ->
    (forall i, 0 <= i < zlen text -> 0 <= bmp_tx lower t text i) ->
    bmp_prefix_fact lower t text R exec ->
    fd_bm_scan_fact R text exec (bm_rtl t) (bm_scan_fn lower t text).
Proof. exact bmp_scan_fact. Qed.
Print Assumptions C03_bm_scan_fact.

(* ALL of findFirstCharDefault with the MODELLED machine in place of the oracles: C03_finder_default
   without its two Boyer-Moore hypotheses.  What remains is the compile-time fact "every successful
   attempt starts (left-to-right) / ends (right-to-left) with the literal", both directions, any
   caseInsensitive flag. *)
Theorem C03_finder_default_with_bm :
  forall (lower : Z -> Z) (R : Type) (text : list Z) (exec : Z -> option R * Z) (set_in : Z -> Z -> bool)
         (pattern : list Z) (ci rtl : bool) (t : bmtab)
         (anchors ts : Z) (o : option fdopts) (fc : option fdfc),
    let n := zlen text in
    let succeeds := fun x => fst (exec x) <> None in
    (abit anchors ANCH_BEGINNING = true -> forall x, sc_in_text n x -> succeeds x -> x = 0) ->
    (abit anchors ANCH_START = true -> forall x, sc_in_text n x -> succeeds x -> x = ts) ->
    (abit anchors ANCH_ENDZ = true -> forall x, sc_in_text n x -> succeeds x ->
       x = n \/ (x = n - 1 /\ nth (Z.to_nat x) text 0 = 10)) ->
    (abit anchors ANCH_END = true -> forall x, sc_in_text n x -> succeeds x -> x = n) ->
    bm_new lower pattern ci rtl = Ok (Some t) ->
    (forall x, In x text -> 0 <= bm_fold lower ci x) ->
    (forall x, sc_in_text n x -> succeeds x -> bmp_occurs lower pattern ci rtl text x) ->
    sc_H1_true R n rtl (fd_total (fd_find_first_char_default text set_in lower rtl anchors ts
                          (Some (bm_is_match_fn lower t text)) (Some (bm_scan_fn lower t text)) o fc)) exec /\
    sc_H1_false R n rtl (fd_total (fd_find_first_char_default text set_in lower rtl anchors ts
                           (Some (bm_is_match_fn lower t text)) (Some (bm_scan_fn lower t text)) o fc)) exec.
Proof. exact bmp_finder_default_with_bm. Qed.
Print Assumptions C03_finder_default_with_bm.

(* END TO END on a tree, over Spec.find: the analysis publishes a Boyer-Moore prefix (C04: getPrefix),
   newBmPrefix builds the machine, and the scan loop with findFirstCharDefault - Scan when Code.Anchors has
   none of the four anchor bits, the anchor jumps followed by IsMatch when it has one - returns what the
   reference search returns, whatever FindOptimizations / FcPrefix hold.  The anchor facts come from
   Code.Anchors (C04_anchors_sound), the prefix fact from C04_bm_prefix_sound_partial.
   PARTIAL: left-to-right patterns and a case-sensitive prefix only - exactly what
   C04_bm_prefix_sound_partial covers.  Missing for the rest: the analysis-side fact for
   [bm_prefix_dir true] ("the text before a successful right-to-left attempt ends with the literal's
   tail") and for the CaseInsensitive flag (never set on a real tree); relative to that fact both are
   covered by C03_finder_default_with_bm. *)
Theorem C03_mode_bm_sound_partial :
  forall (e : env) (fuel : nat) (root : node) (bumpq : Z -> Z),
    shape_ok false root = true ->
    (forall x, 0 <= x <= tlen e -> exists r, attempt e fuel root x = Ok r) ->
    sc_H3 st (tlen e) false (bp_exec e fuel root bumpq) ->
    forall (str : list Z) (t : bmtab) (o : option fdopts) (fc : option fdfc),
    bm_prefix root = Some (str, false) ->
    bm_new (lower e) str false false = Ok (Some t) ->
    (forall x, In x (txt e) -> 0 <= x) ->
    forall start prevlen, 0 <= start <= tlen e ->
    exists r, find e fuel root false start prevlen = Ok r /\
      scan (tlen e) false (min_len root)
           (fd_total (fd_find_first_char_default (txt e) (set_in e) (lower e) false (get_anchors root) (tstart e)
                        (Some (bm_is_match_fn (lower e) t (txt e))) (Some (bm_scan_fn (lower e) t (txt e))) o fc))
           (bp_exec e fuel root bumpq) start prevlen = Ok r.
Proof. exact bmc_mode_bm_sound. Qed.
Print Assumptions C03_mode_bm_sound_partial.

(* ---- non-vacuity ---- *)
Definition bx_id (x : Z) : Z := x.
Definition bx_low (x : Z) : Z := if (65 <=? x) && (x <=? 90) then x + 32 else x.
Definition bx_tab (lower : Z -> Z) (p : list Z) (ci rtl : bool) : bmtab :=
  match bm_new lower p ci rtl with
  | Ok (Some t) => t
  | _ => {| bm_pattern := []; bm_positive := []; bm_negascii := []; bm_has_uni := false; bm_uni := fun _ => None;
            bm_low := 0; bm_high := 0; bm_rtl := rtl; bm_ci := ci |}
  end.
Definition bx_with_positive (t : bmtab) (pos : list Z) : bmtab :=
  {| bm_pattern := bm_pattern t; bm_positive := pos; bm_negascii := bm_negascii t; bm_has_uni := bm_has_uni t;
     bm_uni := bm_uni t; bm_low := bm_low t; bm_high := bm_high t; bm_rtl := bm_rtl t; bm_ci := bm_ci t |}.

(* "abcab": the tables; positive[2] = 3 is the good-suffix shift (tail "ab" matched, 'c' rejected) *)
Example C03_bm_tables_witness :
  let t := bx_tab bx_id [97; 98; 99; 97; 98] false false in
  bm_new bx_id [97; 98; 99; 97; 98] false false = Ok (Some t) /\
  bm_positive t = [1; 1; 3; 1; 1] /\ zlen (bm_negascii t) = 128 /\ bm_has_uni t = false /\
  bm_low t = 97 /\ bm_high t = 99 /\
  map (bm_neg_lookup t) [97; 98; 99; 120; 233] = [Ok (Some 1); Ok (Some 0); Ok (Some 2); Ok (Some 5); Ok None] /\
  bm_positive (bx_tab bx_id [98; 97; 98; 97; 98] false false) = [1; 2; 1; 4; 1] /\
  bm_positive (bx_tab bx_id [97; 98; 97; 98] false true) = [-1; -1; -2; -1].
Proof. vm_compute. repeat split; reflexivity. Qed.

(* periodic pattern where the good-suffix shift matters: "abcab" in "xxbabcab".  At the first alignment the tail
   "ab" matches and 'b' is rejected where 'c' is wanted; the bad-character rule alone would move by -2 (ignored),
   positive[2] = 3 moves exactly onto the occurrence at 3.  A table with positive[2] = 4 (one too many) LOSES it. *)
Example C03_bm_scan_periodic_witness :
  let t := bx_tab bx_id [97; 98; 99; 97; 98] false false in
  let text := [120; 120; 98; 97; 98; 99; 97; 98] in
  bm_scan bx_id t text 9 0 0 8 = Ok 3 /\
  bm_scan bx_id (bx_with_positive t [1; 1; 4; 1; 1]) text 9 0 0 8 = Ok (-1) /\
  bm_scan bx_id t text 9 4 0 8 = Ok (-1) /\
  bm_is_match bx_id t text 3 0 8 = Ok true /\ bm_is_match bx_id t text 0 0 8 = Ok false /\
  bm_scan_fn bx_id t text 0 = 3 /\ bm_is_match_fn bx_id t text 3 = true.
Proof. vm_compute. repeat split; reflexivity. Qed.

(* right-to-left: "abab" in "abababx"; positions are END positions and the scan goes downwards *)
Example C03_bm_scan_rtl_witness :
  let t := bx_tab bx_id [97; 98; 97; 98] false true in
  let text := [97; 98; 97; 98; 97; 98; 120] in
  bm_scan bx_id t text 8 7 0 7 = Ok 6 /\ bm_scan bx_id t text 8 5 0 7 = Ok 4 /\
  bm_scan bx_id t text 8 3 0 7 = Ok (-1) /\ bm_is_match bx_id t text 6 0 7 = Ok true /\
  bm_is_match bx_id t text 5 0 7 = Ok false.
Proof. vm_compute. repeat split; reflexivity. Qed.

(* case-insensitive: the pattern is lower-cased by the constructor, the text rune by rune in Scan; without the
   lower-casing of the text (lower := identity in Scan) the occurrence "aBc" is missed *)
Example C03_bm_scan_ci_witness :
  let t := bx_tab bx_low [65; 98; 67] true false in
  bm_pattern t = [97; 98; 99] /\
  bm_scan bx_low t [120; 97; 66; 99; 120] 6 0 0 5 = Ok 1 /\
  bm_scan bx_id t [120; 97; 66; 99; 120] 6 0 0 5 = Ok (-1).
Proof. vm_compute. repeat split; reflexivity. Qed.

(* unicode rows: "éa" makes negativeASCII the 256-entry row 0; "āa" (U+0101) allocates row 1 only;
   a rune of an absent row / beyond U+FFFF gets the default advance (None) *)
Example C03_bm_scan_unicode_witness :
  let t4 := bx_tab bx_id [233; 97] false false in
  let t5 := bx_tab bx_id [257; 97] false false in
  zlen (bm_negascii t4) = 256 /\ bm_has_uni t4 = true /\
  map (bm_neg_lookup t4) [233; 234; 300] = [Ok (Some 1); Ok (Some 2); Ok None] /\
  zlen (bm_negascii t5) = 128 /\
  map (bm_neg_lookup t5) [257; 258; 233; 70000] = [Ok (Some 1); Ok (Some 2); Ok None; Ok None] /\
  bm_scan bx_id t4 [97; 233; 233; 97] 5 0 0 4 = Ok 2 /\
  bm_scan bx_id t5 [97; 257; 258; 257; 97] 6 0 0 5 = Ok 3.
Proof. vm_compute. repeat split; reflexivity. Qed.

(* the constructor's other answers: nil for an astral rune, a fault for the empty pattern / a negative rune *)
Example C03_bm_new_nil_and_faults :
  bm_new bx_id [97; 128512; 98] false false = Ok None /\
  bm_new bx_id [] false false = Crash 1 /\ bm_new bx_id [-1] false true = Crash 1.
Proof. vm_compute. repeat split; reflexivity. Qed.

(* NEGATIVE: Scan as it was before /repo d3ed698 ("chTest < 0xffff").  newBmPrefix records advance 1 for U+FFFF in
   "￿b", the old lookup answered "no entry" for that rune, Scan advanced by the whole length and skipped the
   occurrence at 1 of "x￿b" (real engine: MustCompile("￿b").FindRunesMatch("x￿b") == nil; right-to-left
   "b￿" on "b￿y" through the string API).  With the repaired lookup both are found. *)
Example C03_bm_scan_before_repair_skips :
  let t := bx_tab bx_id [65535; 98] false false in
  let u := bx_tab bx_id [98; 65535] false true in
  bm_neg_lookup t 65535 = Ok (Some 1) /\ bm_neg_lookup_old t 65535 = Ok None /\
  bm_scan bx_id t [120; 65535; 98] 4 0 0 3 = Ok 1 /\
  bm_scan_gen bx_id t [120; 65535; 98] (bm_neg_lookup_old t) 4 0 0 3 = Ok (-1) /\
  bm_scan bx_id u [98; 65535; 121] 4 3 0 3 = Ok 2 /\
  bm_scan_gen bx_id u [98; 65535; 121] (bm_neg_lookup_old u) 4 3 0 3 = Ok (-1).
Proof. vm_compute. repeat split; reflexivity. Qed.

(* end to end: abc[a-z] on "xxabcd".  getPrefix publishes "abc", newBmPrefix accepts it, findFirstCharDefault's
   Boyer-Moore branch jumps from 0 to 2 and gives up from 3 on; the scan loop with it = Spec.find *)
Example C03_mode_bm_witness :
  let e := {| txt := [120; 120; 97; 98; 99; 100]; tstart := 0; ecma := false; endz_strict := false;
              set_in := fun _ x => (97 <=? x) && (x <=? 122); lower := fun x => x;
              is_word := fun _ => false; is_eword := fun _ => false |} in
  let t := bx_tab (lower e) [97; 98; 99] false false in
  let F := fd_find_first_char_default (txt e) (set_in e) (lower e) false (get_anchors ex_root_abcw) (tstart e)
             (Some (bm_is_match_fn (lower e) t (txt e))) (Some (bm_scan_fn (lower e) t (txt e))) None None in
  shape_ok false ex_root_abcw = true /\
  bm_prefix ex_root_abcw = Some ([97; 98; 99], false) /\ bm_new (lower e) [97; 98; 99] false false = Ok (Some t) /\
  get_anchors ex_root_abcw = 0 /\
  F 0 = Ok (true, 2) /\ F 2 = Ok (true, 2) /\ F 3 = Ok (false, 6) /\
  find e 10 ex_root_abcw false 0 (-1) = Ok (Some {| pos := 6; caps := [(0, [(2, 4)])] |}) /\
  scan 6 false (min_len ex_root_abcw) (fd_total F) (bp_exec e 10 ex_root_abcw (fun p => p)) 0 (-1)
    = Ok (Some {| pos := 6; caps := [(0, [(2, 4)])] |}).
Proof. vm_compute. repeat split; reflexivity. Qed.
