(* C02 — every entry point reports the same matches: the bool-only entry points run a "quick"
   program from which unobservable captures are removed.
   This file only states the property theorems; proofs are in Proofs/EraseProofs.v.
   [observed g t]: group g is read inside t (back-reference, back-reference conditional, either side
   of a balancing capture).  [erase keep t]: every plain capture (?<g>...) with keep g = false becomes a
   non-capturing group. *)
From Verif Require Import Base.Prelude Model.Tree Model.Spec Model.VM Model.Writer Proofs.EraseProofs
  Proofs.EraseLinkProofs.

(* Spec level: if no erased group is observed in the tree, the leftmost priority-ordered search on
   the erased tree succeeds exactly when it does on the original, ends at the same text position,
   and records the same capture stack for every kept group — in particular group 0 (the match
   span) when keep 0 = true; it reports "no match" exactly when the original does (and runs out of
   fuel exactly when the original does).  All trees, inputs, directions, start offsets. *)
Theorem C02_erasing_unobserved_captures_preserves_matches :
  forall e keep fuel root rtl start prevlen,
  (forall g, keep g = false -> observed g root = false) ->
  let r1 := find e fuel root rtl start prevlen in
  let r2 := find e fuel (erase keep root) rtl start prevlen in
  (forall s1, r1 = Ok (Some s1) ->
     exists s2, r2 = Ok (Some s2) /\ pos s1 = pos s2 /\
                forall g, keep g = true -> cap_get g (caps s1) = cap_get g (caps s2)) /\
  (forall s2, r2 = Ok (Some s2) ->
     exists s1, r1 = Ok (Some s1) /\ pos s1 = pos s2 /\
                forall g, keep g = true -> cap_get g (caps s1) = cap_get g (caps s2)) /\
  (r1 = Ok None <-> r2 = Ok None) /\
  (r1 = Fuel <-> r2 = Fuel).
Proof. exact erase_find. Qed.
Print Assumptions C02_erasing_unobserved_captures_preserves_matches.

(* ... and the same at the level of whole result lists of any node from any two states that agree
   on the position and on the kept groups: same length, pairwise agreeing. *)
Theorem C02_erasing_unobserved_captures_preserves_result_lists :
  forall e keep fuel t s1 s2,
  (forall g, keep g = false -> observed g t = false) -> agree keep s1 s2 ->
  rrel (Forall2 (agree keep)) (sem e fuel t s1) (sem e fuel (erase keep t) s2).
Proof. exact erase_unobserved_obs. Qed.
Print Assumptions C02_erasing_unobserved_captures_preserves_result_lists.

(* Writer level: the quick program (code words and string table) is exactly the full program of
   the erased tree, where a plain capture of g is kept iff the writer's own test says so.
   Side condition: the slot map never maps a group to -1 (the Go writer builds it as
   caps[Capnumlist[i]] = i); it is needed — see EraseProofs.erase_compile_needs_bal_ok, and
   EraseProofs.erase_compile for the weakest tree-local form [bal_ok cm t = true]. *)
Theorem C02_quick_program_is_program_of_erased_tree :
  forall cm q t,
  capmap_ok cm ->
  compile {| capmap := cm; quick := Some q |} t =
  compile {| capmap := cm; quick := None |}
          (erase (fun g => emit_capture {| capmap := cm; quick := Some q |} g (-1)) t).
Proof. exact erase_compile_capmap_ok. Qed.
Print Assumptions C02_quick_program_is_program_of_erased_tree.

(* The two levels joined: whenever syntax.Write produces a quick program (captureSlotsInUse of the
   full program says some slot is unused), that program is the full program of a tree [erase keep root]
   whose search gives the same answers as the original's: same success / failure, same final
   position, same capture stacks for every kept group, and the groups of slot 0 (the match) are kept.
   [reads g t] (<= observed g t): g is the target of a back-reference, of a back-reference
   conditional, or the popped side of a balancing capture.
   Side conditions (invariants of the Go parser/writer): every balancing capture's popped group has
   a slot (bal_ok; follows from capmap_ok), every group the tree reads has a non-negative slot. *)
Theorem C02_quick_program_sound :
  forall cm capsize root prog,
  bal_ok cm root = true ->
  (forall g, reads g root = true -> 0 <= map_capnum {| capmap := cm; quick := None |} g) ->
  write_quick cm capsize root = Some prog ->
  exists keep,
    prog = fst (write_full cm (erase keep root)) /\
    (forall g, map_capnum {| capmap := cm; quick := None |} g = 0 -> keep g = true) /\
    forall e fuel rtl start prevlen,
      let r1 := find e fuel root rtl start prevlen in
      let r2 := find e fuel (erase keep root) rtl start prevlen in
      (forall s1, r1 = Ok (Some s1) -> exists s2, r2 = Ok (Some s2) /\ agree keep s1 s2) /\
      (forall s2, r2 = Ok (Some s2) -> exists s1, r1 = Ok (Some s1) /\ agree keep s1 s2) /\
      (r1 = Ok None <-> r2 = Ok None) /\
      (r1 = Fuel <-> r2 = Fuel).
Proof. exact write_quick_sound_spelled. Qed.
Print Assumptions C02_quick_program_sound.

(* Non-vacuity.  (a)(b)\1 on "aba": group 1 is referenced, group 2 is not.  The in-use vector
   computed from the full program keeps slots 0 and 1; erasing turns (b) into (?:b); both trees
   match [0,3) with the same groups 0 and 1; the quick program is the program of the erased tree
   and is 4 words shorter than the full one. *)
Example C02_witness :
  let e := {| txt := [97; 98; 97]; tstart := 0; ecma := false; endz_strict := false;
              set_in := fun _ _ => false; lower := fun x => x;
              is_word := fun _ => true; is_eword := fun _ => true |} in
  let root := NCapture 0 0 (-1)
                (NConcat 0 [NCapture 0 1 (-1) (NChar COne 0 97); NCapture 0 2 (-1) (NChar COne 0 98);
                            NRef 0 1]) in
  let q := slots_in_use (fst (write_full None root)) 3 in
  let keep := fun g => emit_capture {| capmap := None; quick := Some q |} g (-1) in
  let quickprog := [23; 16; 31; 31; 9; 97; 32; 1; -1; 9; 98; 13; 1; 32; 0; -1; 40] in
  q = [true; true; false] /\
  map (fun g => observed g root) [0; 1; 2] = [false; true; false] /\
  erase keep root =
    NCapture 0 0 (-1)
      (NConcat 0 [NCapture 0 1 (-1) (NChar COne 0 97); NGroup (NChar COne 0 98); NRef 0 1]) /\
  find e 20 root false 0 (-1) =
    Ok (Some {| pos := 3; caps := [(1, [(0, 1)]); (2, [(1, 1)]); (0, [(0, 3)])] |}) /\
  find e 20 (erase keep root) false 0 (-1) =
    Ok (Some {| pos := 3; caps := [(1, [(0, 1)]); (0, [(0, 3)])] |}) /\
  write_full None root =
    ([23; 20; 31; 31; 9; 97; 32; 1; -1; 31; 9; 98; 32; 2; -1; 13; 1; 32; 0; -1; 40], []) /\
  write_quick None 3 root = Some quickprog /\
  compile {| capmap := None; quick := None |} (erase keep root) = (quickprog, []).
Proof. vm_compute. repeat split; reflexivity. Qed.
