(* C02 — every entry point reports the same matches: the bool-only entry points run a "quick"
   program from which unobservable captures are removed.
   This file only states the property theorems; proofs are in Proofs/EraseProofs.v.
   [observed g t]: group g is read inside t (back-reference, back-reference conditional, either side
   of a balancing capture).  [erase keep t]: every plain capture (?<g>...) with keep g = false becomes a
   non-capturing group. *)
From Verif Require Import Base.Prelude Model.Tree Model.Spec Model.VM Model.Writer Proofs.EraseProofs
  Proofs.EraseLinkProofs.

(* Spec level: if no erased group is observed in the tree, the leftmost priority-ordered search on
   the erased tree succeeds exactly when it does on the original, ends at the same text position,
   and records the same capture stack for every kept group — in particular group 0 (the match
   span) when keep 0 = true; it reports "no match" exactly when the original does (and runs out of
   fuel exactly when the original does).  All trees, inputs, directions, start offsets. *)
Theorem C02_erasing_unobserved_captures_preserves_matches :
  forall e keep fuel root rtl start prevlen,
  (forall g, keep g = false -> observed g root = false) ->
  let r1 := find e fuel root rtl start prevlen in
  let r2 := find e fuel (erase keep root) rtl start prevlen in
  (forall s1, r1 = Ok (Some s1) ->
     exists s2, r2 = Ok (Some s2) /\ pos s1 = pos s2 /\
                forall g, keep g = true -> cap_get g (caps s1) = cap_get g (caps s2)) /\
  (forall s2, r2 = Ok (Some s2) ->
     exists s1, r1 = Ok (Some s1) /\ pos s1 = pos s2 /\
                forall g, keep g = true -> cap_get g (caps s1) = cap_get g (caps s2)) /\
  (r1 = Ok None <-> r2 = Ok None) /\
  (r1 = Fuel <-> r2 = Fuel).
Proof. exact erase_find. Qed.
Print Assumptions C02_erasing_unobserved_captures_preserves_matches.

(* ... and the same at the level of whole result lists of any node from any two states that agree
   on the position and on the kept groups: same length, pairwise agreeing. *)
Theorem C02_erasing_unobserved_captures_preserves_result_lists :
  forall e keep fuel t s1 s2,
  (forall g, keep g = false -> observed g t = false) -> agree keep s1 s2 ->
  rrel (Forall2 (agree keep)) (sem e fuel t s1) (sem e fuel (erase keep t) s2).
Proof. exact erase_unobserved_obs. Qed.
Print Assumptions C02_erasing_unobserved_captures_preserves_result_lists.

(* Writer level: the quick program (code words and string table) is exactly the full program of
   the erased tree, where a plain capture of g is kept iff the writer's own test says so.
   Side condition: the slot map never maps a group to -1 (the Go writer builds it as
   caps[Capnumlist[i]] = i); it is needed — see EraseProofs.erase_compile_needs_bal_ok, and
   EraseProofs.erase_compile for the weakest tree-local form [bal_ok cm t = true]. *)
Theorem C02_quick_program_is_program_of_erased_tree :
  forall cm q t,
  capmap_ok cm ->
  compile {| capmap := cm; quick := Some q |} t =
  compile {| capmap := cm; quick := None |}
          (erase (fun g => emit_capture {| capmap := cm; quick := Some q |} g (-1)) t).
Proof. exact erase_compile_capmap_ok. Qed.
Print Assumptions C02_quick_program_is_program_of_erased_tree.

(* The two levels joined: whenever syntax.Write produces a quick program (captureSlotsInUse of the
   full program says some slot is unused), that program is the full program of a tree [erase keep root]
   whose search gives the same answers as the original's: same success / failure, same final
   position, same capture stacks for every kept group, and the groups of slot 0 (the match) are kept.
   [reads g t] (<= observed g t): g is the target of a back-reference, of a back-reference
   conditional, or the popped side of a balancing capture.
   Side conditions (invariants of the Go parser/writer): every balancing capture's popped group has
   a slot (bal_ok; follows from capmap_ok), every group the tree reads has a non-negative slot. *)
Theorem C02_quick_program_sound :
  forall cm capsize root prog,
  bal_ok cm root = true ->
  (forall g, reads g root = true -> 0 <= map_capnum {| capmap := cm; quick := None |} g) ->
  write_quick cm capsize root = Some prog ->
  exists keep,
    prog = fst (write_full cm (erase keep root)) /\
    (forall g, map_capnum {| capmap := cm; quick := None |} g = 0 -> keep g = true) /\
    forall e fuel rtl start prevlen,
      let r1 := find e fuel root rtl start prevlen in
      let r2 := find e fuel (erase keep root) rtl start prevlen in
      (forall s1, r1 = Ok (Some s1) -> exists s2, r2 = Ok (Some s2) /\ agree keep s1 s2) /\
      (forall s2, r2 = Ok (Some s2) -> exists s1, r1 = Ok (Some s1) /\ agree keep s1 s2) /\
      (r1 = Ok None <-> r2 = Ok None) /\
      (r1 = Fuel <-> r2 = Fuel).
Proof. exact write_quick_sound_spelled. Qed.
Print Assumptions C02_quick_program_sound.

(* Non-vacuity.  (a)(b)\1 on "aba": group 1 is referenced, group 2 is not.  The in-use vector
   computed from the full program keeps slots 0 and 1; erasing turns (b) into (?:b); both trees
   match [0,3) with the same groups 0 and 1; the quick program is the program of the erased tree
   and is 4 words shorter than the full one. *)
Example C02_witness :
  let e := {| txt := [97; 98; 97]; tstart := 0; ecma := false; endz_strict := false;
              set_in := fun _ _ => false; lower := fun x => x;
              is_word := fun _ => true; is_eword := fun _ => true |} in
  let root := NCapture 0 0 (-1)
                (NConcat 0 [NCapture 0 1 (-1) (NChar COne 0 97); NCapture 0 2 (-1) (NChar COne 0 98);
                            NRef 0 1]) in
  let q := slots_in_use (fst (write_full None root)) 3 in
  let keep := fun g => emit_capture {| capmap := None; quick := Some q |} g (-1) in
  let quickprog := [23; 16; 31; 31; 9; 97; 32; 1; -1; 9; 98; 13; 1; 32; 0; -1; 40] in
  q = [true; true; false] /\
  map (fun g => observed g root) [0; 1; 2] = [false; true; false] /\
  erase keep root =
    NCapture 0 0 (-1)
      (NConcat 0 [NCapture 0 1 (-1) (NChar COne 0 97); NGroup (NChar COne 0 98); NRef 0 1]) /\
  find e 20 root false 0 (-1) =
    Ok (Some {| pos := 3; caps := [(1, [(0, 1)]); (2, [(1, 1)]); (0, [(0, 3)])] |}) /\
  find e 20 (erase keep root) false 0 (-1) =
    Ok (Some {| pos := 3; caps := [(1, [(0, 1)]); (0, [(0, 3)])] |}) /\
  write_full None root =
    ([23; 20; 31; 31; 9; 97; 32; 1; -1; 31; 9; 98; 32; 2; -1; 13; 1; 32; 0; -1; 40], []) /\
  write_quick None 3 root = Some quickprog /\
  compile {| capmap := None; quick := None |} (erase keep root) = (quickprog, []).
Proof. vm_compute. repeat split; reflexivity. Qed.

(* ================================================================================================
   The string entry points (stringprefixfilter.go, regexp.go) — Model/Entry.v.
   Proofs: Proofs/EntryBase.v, EntryFilter.v, EntryProofs.v, EntryExamples.v.
   Leg c02-filter compares Model/Entry.v with the implementation on every run (filter choice, every
   filter answer on all short byte strings incl. invalid UTF-8, the glue of each entry point).

   b : byte string; runes_of b = []rune(b) (invalid bytes decode to U+FFFD one byte at a time);
   boundary b k = byte offset of rune k.  Rune positions are nat.
   ================================================================================================ *)
From Verif Require Import Base.Utf8 Gen.CodeGen Model.Offsets Model.Entry Proofs.Utf8Proofs
  Proofs.EntryBase Proofs.EntryFilter Proofs.EntryProofs Proofs.EntryBoundary Proofs.EntryExamples.

(* (iii) byte-level search agrees with the rune-level fact.
   Self-synchronisation: a decoded rune other than U+FFFD stands in the string as its own UTF-8
   encoding, at the byte offset of its rune position (U+FFFD may stand for an invalid byte instead —
   this is why literals containing U+FFFD are refused). *)
Theorem C02_decoded_rune_is_its_encoding :
  forall (s : list Z) (k : nat) (c : Z) (w : nat),
    nth_error (decode s) k = Some (c, w) -> c <> rune_error ->
    valid_rune c = true /\ Z.of_nat w = rune_len c /\
    skipn (boundary s k) s = encode c ++ skipn (boundary s (S k)) s.
Proof. exact enb_rune_bytes. Qed.
Print Assumptions C02_decoded_rune_is_its_encoding.

(* A literal fact in C04's form ("the re-encoded text from rune q on starts with the bytes P", cf.
   C04_find_prefix_sound) for a literal without U+FFFD is a byte occurrence of P in the RAW string
   at the byte offset of q: what strings.Index looks for. *)
Theorem C02_literal_fact_is_raw_byte_occurrence :
  forall (b : list Z) (q : nat) (P : list Z),
    en_contains_rune P rune_error = false ->
    (exists rest, encode_string (skipn q (runes_of b)) = P ++ rest) ->
    en_has_prefix (skipn (boundary b q) b) P = true.
Proof. exact enf_lit_bytes. Qed.
Print Assumptions C02_literal_fact_is_raw_byte_occurrence.

(* ... and the ordinal-ignore-case fact for an ASCII literal is what IndexStringIgnoreCaseASCII compares *)
Theorem C02_ignore_case_fact_is_raw_byte_occurrence :
  forall (b : list Z) (P : list Z) (q : nat),
    Forall (fun x => 0 <= x < 128) P ->
    en_equal_fold_prefix (skipn q (runes_of b)) P = true ->
    en_equal_fold_prefix (skipn (boundary b q) b) P = true.
Proof. exact enf_ci_bytes. Qed.
Print Assumptions C02_ignore_case_fact_is_raw_byte_occurrence.

(* utf8.DecodeLastRuneInString on the prefix ending at a rune boundary steps back exactly one rune of
   the FORWARD decoding, also through invalid bytes (stringFixedDistanceCandidateStart relies on it) *)
Theorem C02_backward_decoding_follows_forward_boundaries :
  forall (b : list Z) (k : nat) (c : Z) (w : nat),
    nth_error (decode b) k = Some (c, w) ->
    snd (en_decode_last_rune (firstn (boundary b (S k)) b)) = Z.of_nat w.
Proof. exact enf_dlr_step. Qed.
Print Assumptions C02_backward_decoding_follows_forward_boundaries.

(* (i)+(ii) Every filter closure is SOUND and TRANSPARENT.  [enf_ok f]: what the constructor
   guarantees about the needle (no U+FFFD, ASCII where required, distance >= 0, ...); [enf_fact f r q]:
   the compile-time fact f was built from holds at rune position q.  Called at the byte offset of rune
   k0 the closure always answers (no fault, the loops terminate within len+1 turns), and
   - "no candidate" : no position q >= k0 satisfies the fact,
   - candidate c     : every position q >= k0 satisfying the fact starts at byte c or later.
   All seven closures: Index / IgnoreCase prefix, prefix list (fallback and ASCII string set),
   fixed-distance set / char / string, literal after loop. *)
Theorem C02_prefilter_sound_and_transparent :
  forall f : en_filter, enf_ok f ->
  forall (b : list Z) (k0 : nat), (k0 <= length (decode b))%nat ->
    exists c ok, en_run_filter f b (Z.of_nat (boundary b k0)) = Ok (c, ok) /\
      (ok = false -> forall q, (k0 <= q <= length (decode b))%nat -> ~ enf_fact f (runes_of b) q) /\
      (ok = true -> forall q, (k0 <= q <= length (decode b))%nat -> enf_fact f (runes_of b) q ->
                    c <= Z.of_nat (boundary b q)).
Proof. exact enf_filter_sound. Qed.
Print Assumptions C02_prefilter_sound_and_transparent.

(* newStringPrefixFilter builds a filter only for a left-to-right program WITHOUT a Start (\G)
   instruction, the filter satisfies enf_ok, and the facts published in the FindOptimizations record
   (enp_code_fact, by FindMode: leading prefix / prefixes, ordinal-ignore-case prefix(es),
   fixed-distance set / char / string, literal after loop, and MinRequiredLength) are the fact of
   the filter it chose. *)
Theorem C02_constructor_guarantees :
  forall (c : en_code) (f : en_filter),
    en_new_filter c = Ok (Some f) ->
    cd_rtl c = false /\
    en_has_opcode (S (length (cd_codes c))) (cd_codes c) G_Start = Ok false /\
    enf_ok f /\
    exists o, cd_opts c = Some o /\ forall r q, enp_code_fact o r q -> enf_fact f r q.
Proof. exact enp_constructor. Qed.
Print Assumptions C02_constructor_guarantees.

(* (ii) a candidate answered by a filter the constructor built is the byte offset of a rune at or after
   the start: the defensive validation of findStringPrefixCandidate (candidate < startAt, > len, not
   on a boundary -> fall back to startAt) never fires, and the unvalidated use in MatchString /
   matchStringAt decodes the candidate to a rune index. *)
Theorem C02_candidate_is_rune_boundary_at_or_after_start :
  forall (c : en_code) (f : en_filter),
    en_new_filter c = Ok (Some f) ->
    forall (b : list Z) (k0 : nat) (cand : Z), (k0 <= length (decode b))%nat ->
      en_run_filter f b (Z.of_nat (boundary b k0)) = Ok (cand, true) ->
      exists k', (k0 <= k' <= length (decode b))%nat /\ cand = Z.of_nat (boundary b k').
Proof. exact enf_constructor_candidates_on_boundaries. Qed.
Print Assumptions C02_candidate_is_rune_boundary_at_or_after_start.

(* findStringPrefixCandidate (the filter call + its validation) from the byte offset of rune k:
   "no candidate" implies the engine finds nothing from k; otherwise the candidate is the byte offset
   of a rune k' >= k from which the engine finds exactly what it finds from k.
   [enp_flt_hyp]: right-to-left (filter ignored), or no filter, or a filter with enf_ok, its fact at
   every match start, and an engine that is start independent (enp_start_indep). *)
Theorem C02_candidate_sound_and_transparent :
  forall (M : Type) (m_index : M -> Z) (search : list Z -> Z -> option M) (rtl : bool) (flt : option en_filter)
         (b : list Z) (k : nat),
    enp_in_range M m_index search -> enp_flt_hyp M m_index search rtl flt -> (k <= length (decode b))%nat ->
    (en_prefix_candidate rtl flt b (Z.of_nat (boundary b k)) = Ok (0, false) /\
     search (runes_of b) (Z.of_nat k) = None) \/
    (exists k', (k <= k' <= length (decode b))%nat /\
       en_prefix_candidate rtl flt b (Z.of_nat (boundary b k)) = Ok (Z.of_nat (boundary b k'), true) /\
       search (runes_of b) (Z.of_nat k') = search (runes_of b) (Z.of_nat k)).
Proof. exact enp_prefix_candidate_sound. Qed.
Print Assumptions C02_candidate_sound_and_transparent.

(* HEADLINE.  For every program data the constructor accepts or refuses (flt is whatever it returns),
   an abstract engine [search] (Runner.scan on a fresh scan; C01/C03 are about it) with
     enp_in_range      a match found from s starts in [s, len];
     enp_quick_agrees  the bool-only program answers "is there a match" (C02_quick_program_sound);
     start independence, required ONLY when the program has no Start instruction (the constructor's
                       \G exclusion; C02_start_anchor_exclusion_needed shows it cannot be dropped);
     the published facts at every match start, required only when a filter was built;
   every string entry point equals the rune entry point on the decoded input:
   FindStringMatch = FindRunesMatch; FindStringMatchStartingAt at the byte offset of rune k =
   FindRunesMatchStartingAt k; a negative start means the default start in both; a start past the end /
   inside a rune is the documented error; MatchString = MatchRunes.
   (The Match's byte indices are the image of the rune indices under the index map: C08.) *)
Theorem C02_string_entry_equals_rune_entry :
  forall (M : Type) (m_index : M -> Z) (search : list Z -> Z -> option M) (search_quick : list Z -> Z -> bool)
         (c : en_code) (flt : option en_filter),
    en_new_filter c = Ok flt ->
    enp_in_range M m_index search ->
    enp_quick_agrees M search search_quick ->
    (en_has_opcode (S (length (cd_codes c))) (cd_codes c) G_Start = Ok false -> enp_start_indep M m_index search) ->
    (forall o f, cd_opts c = Some o -> flt = Some f ->
       forall b q, enp_starts M m_index search (runes_of b) q -> enp_code_fact o (runes_of b) q) ->
    forall b : list Z,
      let rtl := cd_rtl c in
      let r := runes_of b in
      en_find_string_match M search rtl flt b = en_find_runes_match M search rtl r /\
      (forall k, (k <= length r)%nat ->
         en_find_string_match_starting_at M search rtl flt b (Z.of_nat (boundary b k)) =
         en_find_runes_match_starting_at M search rtl r (Z.of_nat k)) /\
      (forall i, i < 0 ->
         en_find_string_match_starting_at M search rtl flt b i = en_find_runes_match_starting_at M search rtl r i) /\
      (forall i, zlen b < i -> en_find_string_match_starting_at M search rtl flt b i = Err ERR_START_TOO_LARGE) /\
      (forall i, 0 <= i <= zlen b -> en_is_boundary b i = false ->
         en_find_string_match_starting_at M search rtl flt b i = Err ERR_START_NOT_BOUNDARY) /\
      en_match_string search_quick rtl flt b = en_match_runes search_quick rtl r.
Proof. exact enp_string_entry_equals_rune_entry. Qed.
Print Assumptions C02_string_entry_equals_rune_entry.

(* FindAllStringIndex up to its first scan: the rune slice is the decoded input and the first scan
   starts where it finds what a scan from the default start (0, or the end when right-to-left) finds;
   "return nil" exactly when that scan finds nothing.  The rest of the iteration depends only on
   that match (C07). *)
Theorem C02_find_all_string_first_scan :
  forall (M : Type) (m_index : M -> Z) (search : list Z -> Z -> option M) (rtl : bool) (flt : option en_filter)
         (b : list Z),
    enp_in_range M m_index search -> enp_flt_hyp M m_index search rtl flt ->
    (en_find_all_string_start rtl flt b = Ok None /\
     search (runes_of b) (Z.of_nat (enp_default_start rtl b)) = None) \/
    (exists k', (k' <= length (decode b))%nat /\
       en_find_all_string_start rtl flt b = Ok (Some (runes_of b, Z.of_nat k')) /\
       search (runes_of b) (Z.of_nat k') = search (runes_of b) (Z.of_nat (enp_default_start rtl b))).
Proof. exact enp_find_all_string_start. Qed.
Print Assumptions C02_find_all_string_first_scan.

(* Where the two engine hypotheses come from: ANY scan "attempt at s, s+1, ..., len, first success"
   whose single attempts do not read the scan start (the only channel is Runtextstart, read by the
   Start instruction alone) is in range and start independent.  The accelerator-free scan has this
   shape (Model/Scan.naive_scan) and C03 proves the accelerated scan equal to it. *)
Theorem C02_scan_of_start_blind_attempts_is_start_independent :
  forall (M : Type) (m_index : M -> Z) (attempt : list Z -> nat -> option M),
    (forall r q m, attempt r q = Some m -> m_index m = Z.of_nat q) ->
    enp_in_range M m_index (enp_scan M attempt) /\ enp_start_indep M m_index (enp_scan M attempt).
Proof. exact enp_scan_engine. Qed.
Print Assumptions C02_scan_of_start_blind_attempts_is_start_independent.

(* Each exclusion of the constructor is needed.
   \G: the engine of (?=\G)abc (a match only AT the scan start) is in range and satisfies the fact of
   the prefix filter "abc" at every match start, the filter satisfies enf_ok — only start
   independence fails — and on "xabc" FindStringMatch = match at 1, FindRunesMatch = no match. *)
Theorem C02_start_anchor_exclusion_needed :
  enp_in_range Z enx_index enx_search_G /\
  enf_ok (FPrefix enx_abc false 3) /\
  (forall b q, enp_starts Z enx_index enx_search_G (runes_of b) q -> enf_fact (FPrefix enx_abc false 3) (runes_of b) q) /\
  ~ enp_start_indep Z enx_index enx_search_G /\
  let b := [120; 97; 98; 99] in
  en_find_string_match Z enx_search_G false enx_flt_abc b = Ok (Some 1) /\
  en_find_runes_match Z enx_search_G false (runes_of b) = Ok None.
Proof. exact enx_start_indep_needed. Qed.
Print Assumptions C02_start_anchor_exclusion_needed.

(* U+FFFD: the engine of \x{fffd} satisfies every engine hypothesis and the literal fact EF BF BD; the
   filter searching those bytes (enf_ok fails: the needle contains U+FFFD) rejects "\xff", which
   decodes to U+FFFD and matches. *)
Theorem C02_fffd_guard_needed :
  enp_in_range Z enx_index (enx_scan enx_p_fffd) /\
  enp_start_indep Z enx_index (enx_scan enx_p_fffd) /\
  (forall b q, enp_starts Z enx_index (enx_scan enx_p_fffd) (runes_of b) q ->
               enf_fact (FPrefix enx_fffd_bytes false 1) (runes_of b) q) /\
  ~ enf_ok (FPrefix enx_fffd_bytes false 1) /\
  let b := [255] in
  en_find_string_match Z (enx_scan enx_p_fffd) false (Some (FPrefix enx_fffd_bytes false 1)) b = Ok None /\
  en_find_runes_match Z (enx_scan enx_p_fffd) false (runes_of b) = Ok (Some 0).
Proof. exact enx_fffd_guard_needed. Qed.
Print Assumptions C02_fffd_guard_needed.

(* Non-vacuity.  The constructor refuses a program with a Start instruction, a literal containing
   U+FFFD, a right-to-left program ... *)
Example C02_constructor_declines :
  en_new_filter {| cd_rtl := false; cd_codes := [23; 6; 19; 12; 0; 40]; cd_opts := cd_opts enx_code_abc |} = Ok None /\
  en_new_filter {| cd_rtl := false; cd_codes := [23; 5; 12; 0; 40];
                   cd_opts := Some {| fo_mode := MODE_LeadingString_LeftToRight; fo_min := 2; fo_prefix := 97 :: enx_fffd_bytes;
                                      fo_prefixes := []; fo_lit_s := []; fo_lit_c := 0; fo_lit_dist := 0; fo_sets := [];
                                      fo_lal := None |} |} = Ok None /\
  en_new_filter {| cd_rtl := true; cd_codes := cd_codes enx_code_abc; cd_opts := cd_opts enx_code_abc |} = Ok None.
Proof. vm_compute. repeat split; reflexivity. Qed.

(* ... and all hypotheses of the headline theorem hold together for the pattern abc (program
   Lazybranch; Multi "abc"; Stop, mode LeadingString_LeftToRight, prefix "abc", minimum 3) with the
   engine "first position where abc stands" ... *)
Example C02_entry_hypotheses_met :
  en_new_filter enx_code_abc = Ok enx_flt_abc /\
  enp_in_range Z enx_index (enx_scan enx_p_abc) /\
  enp_quick_agrees Z (enx_scan enx_p_abc) (enx_quick enx_p_abc) /\
  (en_has_opcode (S (length (cd_codes enx_code_abc))) (cd_codes enx_code_abc) G_Start = Ok false ->
   enp_start_indep Z enx_index (enx_scan enx_p_abc)) /\
  (forall o f, cd_opts enx_code_abc = Some o -> enx_flt_abc = Some f ->
     forall b q, enp_starts Z enx_index (enx_scan enx_p_abc) (runes_of b) q -> enp_code_fact o (runes_of b) q).
Proof. exact enx_abc_hypotheses. Qed.

(* ... where on "xéabc" the filter answers byte 3 (= rune 2), both entry points report the match at
   rune 2, byte 2 (inside é) is refused and byte 4 finds nothing. *)
Example C02_entry_witness :
  let b := [120; 195; 169; 97; 98; 99] in
  en_run_filter (FPrefix enx_abc false 3) b 0 = Ok (3, true) /\
  en_find_string_match Z (enx_scan enx_p_abc) false enx_flt_abc b = Ok (Some 2) /\
  en_find_runes_match Z (enx_scan enx_p_abc) false (runes_of b) = Ok (Some 2) /\
  en_match_string (enx_quick enx_p_abc) false enx_flt_abc b = Ok true /\
  en_find_string_match_starting_at Z (enx_scan enx_p_abc) false enx_flt_abc b 2 = Err ERR_START_NOT_BOUNDARY /\
  en_find_string_match_starting_at Z (enx_scan enx_p_abc) false enx_flt_abc b 4 = Ok None.
Proof. vm_compute. repeat split; reflexivity. Qed.

(* ================================================================================================
   Composition: the abstract engine of the headline instantiated by the REFERENCE SEMANTICS
   (Model/Spec.v: find = leftmost priority-ordered search; C01, C03 are about it), left-to-right.
   Proofs: Proofs/ComposeEntry.v.

     ce_env e0 r ts        the oracles of e0 on the text r with \G bound to ts
     ce_search e0 fuel_of root r s
                           FindRunesMatchStartingAt(r, s): Spec.find on a fresh scan (prevlen = -1) with
                           \G = s and fuel fuel_of r; "out of fuel" is no answer
     ce_index m            Match.RuneIndex: the start of the capture of group 0
     ce_search_quick ... keep root   the same search on [erase keep root], reporting only success
     ce_no_start t         the tree contains no \G (NAnchor AStart), anywhere
     ce_terminates e0 fuel_of root   RESIDUAL HYPOTHESIS: with fuel fuel_of r every single attempt
                           inside r returns (Spec.attempt is fuel-indexed; its termination is the accepted
                           residual hypothesis of the project).  Needed for start independence only:
                           without it a scan from s may die of fuel exhaustion at a position before s'
                           (answer: none) while the scan from s' succeeds.

   Right-to-left is NOT covered: for a right-to-left engine a match found from s lies at or before s, so
   the headline's hypothesis enp_in_range (s <= index) is the wrong shape for it (the headline itself only
   uses it on the filter path, which right-to-left programs never take); the theorems below are stated
   for cd_rtl c = false and trees with shape_ok false.
   ================================================================================================ *)
From Verif Require Import Model.Analysis Proofs.SpecBoundsProofs Proofs.ComposeEntry.

(* A tree without \G is evaluated without reading the scan start: two environments that agree on
   everything but [tstart] give the same result lists for every node, fuel and state, hence the same
   attempts and the same scans, in both directions.  No hypothesis. *)
Theorem C02_attempt_does_not_read_start :
  forall (e e' : env) (t : node),
    txt e' = txt e /\ ecma e' = ecma e /\ endz_strict e' = endz_strict e /\ set_in e' = set_in e /\
    lower e' = lower e /\ is_word e' = is_word e /\ is_eword e' = is_eword e ->
    ce_no_start t = true ->
    forall fuel,
      (forall s, sem e' fuel t s = sem e fuel t s) /\
      (forall p, attempt e' fuel t p = attempt e fuel t p) /\
      (forall rtl start prevlen, find e' fuel t rtl start prevlen = find e fuel t rtl start prevlen).
Proof. exact ce_sem_start_indep. Qed.
Print Assumptions C02_attempt_does_not_read_start.

(* Program <-> tree: Code.HasOpcode(Start) on the program the writer emits (any configuration: full or
   quick, any slot map) answers without fault, and says true exactly when the tree contains \G.  In
   particular the test the constructor makes ("no Start instruction") means "no \G in the tree".
   No hypothesis. *)
Theorem C02_has_opcode_start_is_tree_has_start_anchor :
  forall (cfg : wcfg) (root : node),
    en_has_opcode (S (length (fst (compile cfg root)))) (fst (compile cfg root)) G_Start =
    Ok (negb (ce_no_start root)).
Proof. exact ce_has_opcode_start. Qed.
Print Assumptions C02_has_opcode_start_is_tree_has_start_anchor.

Theorem C02_no_start_opcode_means_no_start_anchor :
  forall (cfg : wcfg) (root : node),
    en_has_opcode (S (length (fst (compile cfg root)))) (fst (compile cfg root)) G_Start = Ok false ->
    ce_no_start root = true.
Proof. exact ce_no_opcode_start_no_anchor. Qed.
Print Assumptions C02_no_start_opcode_means_no_start_anchor.

(* enp_in_range for the reference engine: a match found from s starts in [s, len].  Tree side
   conditions: left-to-right and well-shaped outside lookarounds (shape_ok false: C04's hypothesis on
   trees), nothing in the body writes group 0 (C08's).  No termination hypothesis. *)
Theorem C02_spec_search_in_range :
  forall (e0 : env) (fuel_of : list Z -> nat) (o : Z) (body : node),
    shape_ok false (NCapture o 0 (-1) body) = true -> no_group0 body ->
    enp_in_range st ce_index (ce_search e0 fuel_of (NCapture o 0 (-1) body)).
Proof. exact ce_in_range. Qed.
Print Assumptions C02_spec_search_in_range.

(* enp_start_indep for the reference engine of a tree without \G.  Hypothetical: ce_terminates. *)
Theorem C02_spec_search_start_independent :
  forall (e0 : env) (fuel_of : list Z -> nat) (o : Z) (body : node),
    shape_ok false (NCapture o 0 (-1) body) = true -> no_group0 body ->
    ce_no_start (NCapture o 0 (-1) body) = true ->
    ce_terminates e0 fuel_of (NCapture o 0 (-1) body) ->
    enp_start_indep st ce_index (ce_search e0 fuel_of (NCapture o 0 (-1) body)).
Proof. exact ce_start_indep. Qed.
Print Assumptions C02_spec_search_start_independent.

(* enp_quick_agrees for the reference engine: whenever syntax.Write produces a quick program it is the
   full program of [erase keep root] and the search on that tree answers "is there a match" exactly as
   the search on the original does (also when fuel runs out: both say no).  Side conditions: those of
   C02_quick_program_sound.  No termination hypothesis. *)
Theorem C02_spec_search_quick_agrees :
  forall (e0 : env) (fuel_of : list Z -> nat) cm capsize root prog,
    bal_ok cm root = true ->
    (forall g, reads g root = true -> 0 <= map_capnum {| capmap := cm; quick := None |} g) ->
    write_quick cm capsize root = Some prog ->
    exists keep,
      prog = fst (write_full cm (erase keep root)) /\
      (forall g, map_capnum {| capmap := cm; quick := None |} g = 0 -> keep g = true) /\
      enp_quick_agrees st (ce_search e0 fuel_of root) (ce_search_quick e0 fuel_of keep root).
Proof. exact ce_quick_agrees. Qed.
Print Assumptions C02_spec_search_quick_agrees.

(* ... and for any keep that erases only unobserved groups (C02_erasing_unobserved_captures_preserves_matches) *)
Theorem C02_spec_search_quick_agrees_for_unobserved :
  forall (e0 : env) (fuel_of : list Z -> nat) keep root,
    (forall g, keep g = false -> observed g root = false) ->
    enp_quick_agrees st (ce_search e0 fuel_of root) (ce_search_quick e0 fuel_of keep root).
Proof. exact ce_quick_agrees_of_keep. Qed.
Print Assumptions C02_spec_search_quick_agrees_for_unobserved.

(* HEADLINE FOR TREES.  The program is the one the writer emits for root = (capture 0 of body), left to
   right; the engine is the reference search on that tree.  enp_in_range and start independence are no
   longer hypotheses: the first is proved, the second follows from the constructor's own test (no Start
   opcode in the emitted program = no \G in the tree).  What stays hypothetical:
     - ce_terminates (residual termination of Spec.attempt);
     - the published facts at match starts (C04's business), only when a filter was built;
     - enp_quick_agrees for the bool-only search (discharged by the next theorem);
     - the tree side conditions shape_ok false root / no_group0 body.
   Conclusion: exactly that of C02_string_entry_equals_rune_entry with M := st, rtl := false. *)
Theorem C02_string_entry_equals_rune_entry_for_trees :
  forall (e0 : env) (fuel_of : list Z -> nat) (search_quick : list Z -> Z -> bool)
         (c : en_code) (flt : option en_filter) (cfg : wcfg) (o : Z) (body : node),
    let root := NCapture o 0 (-1) body in
    let search := ce_search e0 fuel_of root in
    cd_rtl c = false ->
    cd_codes c = fst (compile cfg root) ->
    en_new_filter c = Ok flt ->
    shape_ok false root = true ->
    no_group0 body ->
    ce_terminates e0 fuel_of root ->
    enp_quick_agrees st search search_quick ->
    (forall o' f, cd_opts c = Some o' -> flt = Some f ->
       forall b q, enp_starts st ce_index search (runes_of b) q -> enp_code_fact o' (runes_of b) q) ->
    forall b : list Z,
      let r := runes_of b in
      en_find_string_match st search false flt b = en_find_runes_match st search false r /\
      (forall k, (k <= length r)%nat ->
         en_find_string_match_starting_at st search false flt b (Z.of_nat (boundary b k)) =
         en_find_runes_match_starting_at st search false r (Z.of_nat k)) /\
      (forall i, i < 0 ->
         en_find_string_match_starting_at st search false flt b i = en_find_runes_match_starting_at st search false r i) /\
      (forall i, zlen b < i -> en_find_string_match_starting_at st search false flt b i = Err ERR_START_TOO_LARGE) /\
      (forall i, 0 <= i <= zlen b -> en_is_boundary b i = false ->
         en_find_string_match_starting_at st search false flt b i = Err ERR_START_NOT_BOUNDARY) /\
      en_match_string search_quick false flt b = en_match_runes search_quick false r.
Proof. exact ce_string_entry_for_trees. Qed.
Print Assumptions C02_string_entry_equals_rune_entry_for_trees.

(* ... with the bool-only search instantiated too: whenever syntax.Write produces a quick program (side
   conditions of C02_quick_program_sound) it is the program of [erase keep root], and MatchString /
   MatchRunes run the reference search on that tree. *)
Theorem C02_string_entry_equals_rune_entry_for_trees_with_quick_program :
  forall (e0 : env) (fuel_of : list Z -> nat)
         (c : en_code) (flt : option en_filter) (cfg : wcfg) (o : Z) (body : node)
         (cm : option (list (Z * Z))) (capsize : Z) (prog : list Z),
    let root := NCapture o 0 (-1) body in
    let search := ce_search e0 fuel_of root in
    cd_rtl c = false ->
    cd_codes c = fst (compile cfg root) ->
    en_new_filter c = Ok flt ->
    shape_ok false root = true ->
    no_group0 body ->
    ce_terminates e0 fuel_of root ->
    bal_ok cm root = true ->
    (forall g, reads g root = true -> 0 <= map_capnum {| capmap := cm; quick := None |} g) ->
    write_quick cm capsize root = Some prog ->
    (forall o' f, cd_opts c = Some o' -> flt = Some f ->
       forall b q, enp_starts st ce_index search (runes_of b) q -> enp_code_fact o' (runes_of b) q) ->
    exists keep,
      prog = fst (write_full cm (erase keep root)) /\
      forall b : list Z,
        let r := runes_of b in
        let search_quick := ce_search_quick e0 fuel_of keep root in
        en_find_string_match st search false flt b = en_find_runes_match st search false r /\
        (forall k, (k <= length r)%nat ->
           en_find_string_match_starting_at st search false flt b (Z.of_nat (boundary b k)) =
           en_find_runes_match_starting_at st search false r (Z.of_nat k)) /\
        (forall i, i < 0 ->
           en_find_string_match_starting_at st search false flt b i = en_find_runes_match_starting_at st search false r i) /\
        (forall i, zlen b < i -> en_find_string_match_starting_at st search false flt b i = Err ERR_START_TOO_LARGE) /\
        (forall i, 0 <= i <= zlen b -> en_is_boundary b i = false ->
           en_find_string_match_starting_at st search false flt b i = Err ERR_START_NOT_BOUNDARY) /\
        en_match_string search_quick false flt b = en_match_runes search_quick false r.
Proof. exact ce_string_entry_for_trees_quick. Qed.
Print Assumptions C02_string_entry_equals_rune_entry_for_trees_with_quick_program.

(* The \G exclusion is needed at this level too.  \Gabc under the root capture: well shaped, group 0
   untouched, every attempt terminates with fuel 4 — only ce_no_start fails; the emitted program
   Lazybranch; Setmark; Start; Multi; Capturemark 0; Stop has the Start opcode; and the reference
   engine is not start independent: on "xabc" nothing from 0, the match [1,4) from 1. *)
Example C02_tree_start_anchor_exclusion_needed :
  shape_ok false ce_x_G = true /\ no_group0 ce_x_G_body /\ ce_terminates ce_x_env ce_x_fuel ce_x_G /\
  ce_no_start ce_x_G = false /\
  fst (compile ce_x_cfg ce_x_G) = [23; 9; 31; 19; 12; 0; 32; 0; -1; 40] /\
  en_has_opcode (S (length (fst (compile ce_x_cfg ce_x_G)))) (fst (compile ce_x_cfg ce_x_G)) G_Start = Ok true /\
  ce_search ce_x_env ce_x_fuel ce_x_G [120; 97; 98; 99] 0 = None /\
  ce_search ce_x_env ce_x_fuel ce_x_G [120; 97; 98; 99] 1 = Some {| pos := 4; caps := [(0, [(1, 3)])] |} /\
  ~ enp_start_indep st ce_index (ce_search ce_x_env ce_x_fuel ce_x_G).
Proof. exact ce_x_G_start_indep_fails. Qed.

(* Non-vacuity: every hypothesis of C02_string_entry_equals_rune_entry_for_trees holds together for the
   pattern abc (tree Capture 0 (Multi "abc"), compiled codes, mode LeadingString_LeftToRight, filter
   prefix "abc", fuel 4), including termination and the published facts at every match start ... *)
Example C02_tree_entry_hypotheses_met :
  let search := ce_search ce_x_env ce_x_fuel ce_x_abc in
  cd_rtl ce_x_code_abc = false /\
  cd_codes ce_x_code_abc = fst (compile ce_x_cfg ce_x_abc) /\
  en_new_filter ce_x_code_abc = Ok enx_flt_abc /\
  shape_ok false ce_x_abc = true /\
  no_group0 ce_x_abc_body /\
  ce_terminates ce_x_env ce_x_fuel ce_x_abc /\
  enp_quick_agrees st search (ce_search_quick ce_x_env ce_x_fuel (fun _ => true) ce_x_abc) /\
  (forall o' f, cd_opts ce_x_code_abc = Some o' -> enx_flt_abc = Some f ->
     forall b q, enp_starts st ce_index search (runes_of b) q -> enp_code_fact o' (runes_of b) q).
Proof. exact ce_x_abc_hypotheses. Qed.

(* ... and on "xéabc" both entry points report the match at rune 2. *)
Example C02_tree_entry_witness :
  let b := [120; 195; 169; 97; 98; 99] in
  let search := ce_search ce_x_env ce_x_fuel ce_x_abc in
  ce_no_start ce_x_abc = true /\
  cd_codes ce_x_code_abc = [23; 8; 31; 12; 0; 32; 0; -1; 40] /\
  en_has_opcode (S (length (cd_codes ce_x_code_abc))) (cd_codes ce_x_code_abc) G_Start = Ok false /\
  en_find_string_match st search false enx_flt_abc b =
    Ok (Some {| pos := 5; caps := [(0, [(2, 3)])] |}) /\
  en_find_runes_match st search false (runes_of b) = Ok (Some {| pos := 5; caps := [(0, [(2, 3)])] |}) /\
  en_match_string (ce_search_quick ce_x_env ce_x_fuel (fun _ => true) ce_x_abc) false enx_flt_abc b = Ok true.
Proof. exact ce_x_abc_witness. Qed.
