(* C06 — RE2-mode adapter agrees with Go's regexp package.
   Statements only; proofs are in Proofs/CompatProofs.v.

   What is proved: everything the adapter (compat/regexp.go) and regexp2's find-all / next-match
   code add AROUND a single-match function equals what Go's standard library adds around ITS
   single-match function — [Go.all_matches_loop] in Model/Iter.v is a transcription of
   regexp.Regexp.allMatches (go1.25.0) and of its callers — for EVERY n : Z and for EVERY
   single-match function M, under the explicit hypothesis [bridge]:

       at every rune boundary i,  M (off i) = regexp2's fresh search from rune i, as byte pairs.

   regexp2's next-match is tied to that fresh search by C07 (next_is_fresh_search).
   What is NOT proved (hence the suffix _partial on the summary theorem): that the two ENGINES
   agree, i.e. that [bridge] holds for Go's doExecute on the RE2-common fragment.  That link is
   sampled on every run by leg c06-compat (stdlib = adapter = this model fed with the stdlib's own
   single-match table) and is KNOWN to fail for \b / \B next to non-ASCII word characters
   (known finding re2-boundary-nonascii) and for a literal U+FFFD against an invalid byte through
   the string prefilter (known finding re2-fffd-literal-prefilter).
   Other hypotheses: [forward] (C07's hypothesis on the matcher), [no_G] (no \G in the common
   syntax), group 0 = the match and 1+numSubexp groups, [off] strictly increasing from 0 to len(s),
   Go's step width = distance to the next rune boundary (0 at the end), and for the string entry
   points [cand_ok]: the string prefilter's candidate does not change the first match (C03). *)
From Verif Require Import Base.Prelude Model.Iter Proofs.IterProofs Proofs.CompatProofs.

(* [hyps] (Proofs/CompatProofs.v) collects the hypotheses listed above. *)

(* FindAllStringSubmatchIndex / FindAllSubmatchIndex (and, element-wise, FindAllString,
   FindAllStringSubmatch, FindAllSubmatch, which read the same delivered matches): the adapter's
   forEachStringMatch equals Go's allMatches, including nil-vs-non-nil, for every n *)
Theorem C06_compat_find_all_eq_go :
  forall len attempt off M width end_ num_subexp,
    hyps len attempt off M width end_ num_subexp ->
  forall cand n, cand_ok len attempt cand ->
    compat_find_all_string_submatch_index false len attempt off (dflt_fuel len) (dflt_fuel len) cand n
    = Go.find_all_submatch_index M width end_ num_subexp (Go.dflt_fuel end_) n.
Proof. exact h_find_all_submatch. Qed.
Print Assumptions C06_compat_find_all_eq_go.

(* FindAllIndex / FindAll: through regexp2.FindAllRunesIndex and the rune->byte table *)
Theorem C06_compat_find_all_index_eq_go :
  forall len attempt off M width end_ num_subexp,
    hyps len attempt off M width end_ num_subexp ->
  forall n,
    compat_find_all_index false len attempt off (dflt_fuel len) (dflt_fuel len) n
    = Go.find_all_index M width end_ num_subexp (Go.dflt_fuel end_) n.
Proof. exact h_find_all_index. Qed.
Print Assumptions C06_compat_find_all_index_eq_go.

(* FindAllStringIndex: through regexp2.FindAllStringIndex (prefilter candidate, byte mapper = off) *)
Theorem C06_compat_find_all_string_index_eq_go :
  forall len attempt off M width end_ num_subexp,
    hyps len attempt off M width end_ num_subexp ->
  forall cand n, cand_ok len attempt cand ->
    compat_find_all_string_index false len attempt (dflt_fuel len) (dflt_fuel len) cand off n
    = Go.find_all_index M width end_ num_subexp (Go.dflt_fuel end_) n.
Proof. exact h_find_all_string_index. Qed.
Print Assumptions C06_compat_find_all_string_index_eq_go.

(* the single-match methods: Find(String)SubmatchIndex and Find(String)Index, nil on no match *)
Theorem C06_compat_find_eq_go :
  forall len attempt off M width end_ num_subexp,
    hyps len attempt off M width end_ num_subexp ->
  forall cand, cand_ok len attempt cand ->
    compat_find_string_submatch_index false len attempt off (dflt_fuel len) cand = Ok (Go.find_submatch_index M num_subexp) /\
    compat_find_string_index false len attempt off (dflt_fuel len) cand = Ok (Go.find_index M).
Proof. exact h_find_single. Qed.
Print Assumptions C06_compat_find_eq_go.

(* compat_shapes: matchIndexes yields one pair per group; (−1,−1) exactly for a group without a
   capture, the byte offsets of its last capture otherwise (never −1 since offsets are >= 0) *)
Theorem C06_compat_shapes :
  forall off, (forall i, 0 <= off i) ->
  forall m,
    length (match_indexes off m) = (2 * length (m_groups m))%nat /\
    forall k g, nth_error (m_groups m) k = Some g ->
      let a := nth (2 * k) (match_indexes off m) 0 in
      let b := nth (2 * k + 1) (match_indexes off m) 0 in
      match g with
      | None => a = -1 /\ b = -1
      | Some (i, l) => a = off i /\ b = off (i + l) /\ a <> -1
      end.
Proof. exact match_indexes_shape. Qed.
Print Assumptions C06_compat_shapes.

(* Summary, honestly named: the adapter agrees with Go UP TO the single-match oracle.  The four
   equalities above for every n; what is missing for the full C06 statement is a proof of [bridge]
   for Go's engine (sampled, see header; refuted on the real engines for \b next to non-ASCII word
   characters — witness \b on "é\xffa": adapter [[0 0] [2 2] [3 3] [4 4]], Go [[3 3] [4 4]] — which
   the model cannot express because neither engine is modelled here). *)
Theorem C06_adapter_eq_go_partial :
  forall len attempt off M width end_ num_subexp,
    hyps len attempt off M width end_ num_subexp ->
  forall cand n, cand_ok len attempt cand ->
    compat_find_all_string_submatch_index false len attempt off (dflt_fuel len) (dflt_fuel len) cand n
      = Go.find_all_submatch_index M width end_ num_subexp (Go.dflt_fuel end_) n /\
    compat_find_all_index false len attempt off (dflt_fuel len) (dflt_fuel len) n
      = Go.find_all_index M width end_ num_subexp (Go.dflt_fuel end_) n /\
    compat_find_all_string_index false len attempt (dflt_fuel len) (dflt_fuel len) cand off n
      = Go.find_all_index M width end_ num_subexp (Go.dflt_fuel end_) n.
Proof. exact h_summary. Qed.
Print Assumptions C06_adapter_eq_go_partial.

(* ---------------- non-vacuity ---------------- *)
(* a* on "bé" + one invalid byte + "a"... kept small: text "aé" (runes a, é; bytes 0,1,3), pattern a*
   as the matcher ex6; M is defined FROM the matcher by the bridge equation at rune boundaries. *)
Definition ex6_attempt (_ p : Z) : option mt :=
  if p =? 0 then Some (MkM 0 1 1 [Some (0, 1)]) else
  if (p =? 1) || (p =? 2) then Some (MkM p 0 p [Some (p, 0)]) else None.
Definition ex6_off (i : Z) : Z := if i <=? 0 then i else if i =? 1 then 1 else i + 1.   (* 0,1,3 *)
Definition ex6_width (pos : Z) : Z := if pos =? 0 then 1 else if pos =? 1 then 2 else 0.
Definition ex6_M (pos : Z) : option (list Z) :=
  if pos =? 0 then Some [0; 1] else if pos =? 1 then Some [1; 1] else if pos =? 3 then Some [3; 3] else None.

Example C06_witness_hyps : hyps 2 ex6_attempt ex6_off ex6_M ex6_width 3 0 /\ cand_ok 2 ex6_attempt (Some 0).
Proof.
  assert (forall p, 0 <= p <= 2 -> p = 0 \/ p = 1 \/ p = 2) as Hc by (intros; lia).
  split; [unfold hyps; refine (conj _ (conj _ (conj _ (conj _ (conj _ (conj _ (conj _ (conj _ (conj _ _)))))))))|].
  - lia.
  - intros ts p m Hp H. destruct (Hc p Hp) as [->|[->| ->]]; vm_compute in H; inversion H; subst; vm_compute; intuition discriminate.
  - intros ts ts' p. reflexivity.
  - intros ts p m Hp H. destruct (Hc p Hp) as [->|[->| ->]]; vm_compute in H; inversion H; subst; (split; [eexists; reflexivity | reflexivity]).
  - reflexivity.
  - intros i j Hi Hij Hj. assert ((i = 0 /\ j = 1) \/ (i = 0 /\ j = 2) \/ (i = 1 /\ j = 2)) as [[-> ->]|[[-> ->]|[-> ->]]] by lia; vm_compute; reflexivity.
  - reflexivity.
  - intros i Hi. assert (i = 0 \/ i = 1) as [->| ->] by lia; reflexivity.
  - vm_compute. discriminate.
  - intros i Hi. destruct (Hc i Hi) as [->|[->| ->]]; vm_compute; reflexivity.
  - vm_compute. split; [split; discriminate | reflexivity].
Qed.

Example C06_witness_values :
  compat_find_all_string_submatch_index false 2 ex6_attempt ex6_off (dflt_fuel 2) (dflt_fuel 2) (Some 0) (-1)
    = Ok (Some [[0; 1]; [3; 3]]) /\
  Go.find_all_submatch_index ex6_M ex6_width 3 0 (Go.dflt_fuel 3) (-1) = Ok (Some [[0; 1]; [3; 3]]) /\
  Go.find_all_submatch_index ex6_M ex6_width 3 0 (Go.dflt_fuel 3) 1 = Ok (Some [[0; 1]]) /\
  Go.find_all_submatch_index ex6_M ex6_width 3 0 (Go.dflt_fuel 3) 0 = Ok None /\
  compat_find_all_index false 2 ex6_attempt ex6_off (dflt_fuel 2) (dflt_fuel 2) 5 = Ok (Some [(0, 1); (3, 3)]).
Proof. vm_compute. repeat split. Qed.
