(* C01 — the reference search: leftmost, priority-ordered backtracking.
   This file only states the property theorems; proofs are in Proofs/SpecProofs.v.
   [sem] is the priority-ordered list of ALL ways a node can match; [semk]/[findk] is the
   executable continuation-passing search that the extracted model runs. *)
From Verif Require Import Base.Prelude Model.Tree Model.Spec Proofs.SpecProofs.
From Verif Require Import Base.Prelude Model.Tree Model.Spec Model.VM Model.Writer
  Proofs.SpecBoundsProofs Proofs.VMU Proofs.VMUOps2 Proofs.CompileBase Proofs.CompileDefs Proofs.CompileProofs
  Proofs.CompileExec.

(* The executable search returns exactly the first success of the continuation over the
   priority-ordered list of results (for every node, state, continuation, and every fuel for which
   the list-valued semantics terminates). *)
Theorem C01_search_is_head_of_priority_list :
  forall e fuel t s l, sem e fuel t s = Ok l ->
  forall k, semk e fuel t s k = first_some k l.
Proof. exact semk_sem. Qed.
Print Assumptions C01_search_is_head_of_priority_list.

(* Whenever the list-valued scan gives an answer, the continuation-passing scan gives the same one. *)
Theorem C01_find_cps_agrees :
  forall e fuel root rtl start prevlen r,
    find e fuel root rtl start prevlen = Ok r -> findk e fuel root rtl start prevlen = Ok r.
Proof. exact findk_find. Qed.
Print Assumptions C01_find_cps_agrees.

(* The scan is leftmost in scan order.  The first candidate p0 is [start], or one further
   (start+1 left-to-right, start-1 right-to-left) after an empty previous match (prevlen = 0);
   there is no candidate at all when prevlen = 0 and start is the far end.
   (1) A match is the result of [attempt] (the head of the priority list) at a candidate p between
       p0 and the far end, and [attempt] answered "no match" at every candidate strictly before p.
   (2) No match (for a start offset inside the text): [attempt] answered "no match" at every
       candidate from p0 to the far end. *)
Theorem C01_find_is_leftmost :
  forall e fuel root (rtl : bool) (start prevlen : Z),
  let p0 := if prevlen =? 0 then (if rtl then start - 1 else start + 1) else start in
  (forall s, find e fuel root rtl start prevlen = Ok (Some s) ->
     ~ (prevlen = 0 /\ start = (if rtl then 0 else tlen e)) /\
     exists p,
       (if rtl then p <= p0 /\ (p = p0 \/ 0 <= p) else p0 <= p /\ (p = p0 \/ p <= tlen e)) /\
       attempt e fuel root p = Ok (Some s) /\
       forall q, (if rtl then p < q <= p0 else p0 <= q < p) -> attempt e fuel root q = Ok None)
  /\
  (0 <= start <= tlen e ->
   find e fuel root rtl start prevlen = Ok None ->
   forall q, (if rtl then 0 <= q <= p0 else p0 <= q <= tlen e) -> attempt e fuel root q = Ok None).
Proof.
  exact (fun e fuel root rtl start prevlen =>
           conj (fun s => spec_find_leftmost_some e fuel root rtl start prevlen s)
                (spec_find_leftmost_none e fuel root rtl start prevlen)).
Qed.
Print Assumptions C01_find_is_leftmost.

(* Non-vacuity.  Text "aba".
   (b+)a      : the attempt at 0 fails, the scan moves on and matches [1,3) with group 1 = [1,2).
   (a|ab)(?:b??)a : two ways to match at 0 (group 1 = "a" or "ab"), in that priority order; find and
                findk both return the first.
   right-to-left  a([^c]*?)  from the end: matches [2,3), group 1 empty at 2; after an empty previous
                match at offset 0 there is no candidate left. *)
Example C01_witness :
  let e := {| txt := [97; 98; 97]; tstart := 0; ecma := false; endz_strict := false;
              set_in := fun _ _ => false; lower := fun x => x;
              is_word := fun _ => true; is_eword := fun _ => true |} in
  let r1 := NCapture 0 0 (-1)
              (NConcat 0 [NCapture 0 1 (-1) (NCharLoop COne LGreedy 0 98 1 INF); NChar COne 0 97]) in
  let m1 := Ok (Some {| pos := 3; caps := [(1, [(1, 1)]); (0, [(1, 2)])] |}) in
  let r2 := NCapture 0 0 (-1)
              (NConcat 0 [NCapture 0 1 (-1) (NAlternate 0 [NChar COne 0 97; NMulti 0 [97; 98]]);
                          NLoop true 0 0 1 (NChar COne 0 98); NChar COne 0 97]) in
  let m2 := Ok (Some {| pos := 3; caps := [(1, [(0, 1)]); (0, [(0, 3)])] |}) in
  let r3 := NCapture 64 0 (-1)
              (NConcat 64 [NChar COne 64 97; NCapture 64 1 (-1) (NCharLoop CNotone LLazy 64 99 0 INF)]) in
  let m3 := Ok (Some {| pos := 2; caps := [(1, [(2, 0)]); (0, [(2, 1)])] |}) in
  (find e 20 r1 false 0 (-1) = m1 /\ findk e 20 r1 false 0 (-1) = m1 /\
   attempt e 20 r1 0 = Ok None /\ attempt e 20 r1 1 = m1)
  /\
  (sem e 20 r2 {| pos := 0; caps := [] |} =
     Ok [{| pos := 3; caps := [(1, [(0, 1)]); (0, [(0, 3)])] |};
         {| pos := 3; caps := [(1, [(0, 2)]); (0, [(0, 3)])] |}] /\
   find e 20 r2 false 0 (-1) = m2 /\ findk e 20 r2 false 0 (-1) = m2)
  /\
  (find e 20 r3 true 3 (-1) = m3 /\ findk e 20 r3 true 3 (-1) = m3 /\
   find e 20 r3 true 0 0 = Ok None /\ findk e 20 r3 true 0 0 = Ok None).
Proof. vm_compute. repeat split; reflexivity. Qed.

(* ===================== interpreter ∘ writer = reference semantics ===================== *)
(* Link (3) of the C01 chain, for the constructor set CompileDefs.supported (everything except balancing
   captures; see the header of Proofs/CompileProofs.v): running the emitted fragment delivers exactly the
   reference semantics' results, in priority order, and then fails back with all stacks restored. *)
Theorem C01_compile_correct_partial :
  forall (e : env) (p : program), 0 <= trackcount p -> tlen e <= INF ->
  forall fuel t s res,
    Z.of_nat fuel <= INF ->
    sem e fuel t s = Ok res -> supported t = true -> st_ok e s -> groups_ok (capsize p) t ->
    forall a tbl T S C M,
      has_code p a (fst (emit cfg0 t a tbl)) -> (exists w, code_at p (a + csize cfg0 t) = Some w) ->
      track_ok p T -> caps_rel p (caps s) M -> tbl_ok p (snd (emit cfg0 t a tbl)) ->
      leadsg e p (a + csize cfg0 t) T S S C M (mkr a 0 (pos s) T S C M) res.
Proof. exact compile_correct_partial. Qed.
Print Assumptions C01_compile_correct_partial.

(* The whole program: one attempt of the interpreter (unbounded stacks) ends at the final Stop with the
   position and captures of Spec.attempt, or with group 0 unset when the attempt fails. *)
Theorem C01_compile_correct_top_partial :
  forall (e : env) (p : program), 0 <= trackcount p -> tlen e <= INF ->
  forall fuel o body t0 r,
  let root := NCapture o 0 (-1) body in
  let M0 := repeat [] (Z.to_nat (capsize p)) in
  let stop := 2 + csize cfg0 root in
  codes p = fst (compile cfg0 root) -> strings p = snd (compile cfg0 root) ->
  supported root = true -> groups_ok (capsize p) root -> 0 <= t0 <= tlen e ->
  Z.of_nat fuel <= INF ->
  attempt e fuel root t0 = Ok r ->
  code_at p stop = Some Stop /\
  exists t T S C M,
    usteps e p (mk 0 0 t0 [] [] [] M0) (mk stop 0 t T S C M) /\
    ustep e p (mk stop 0 t T S C M) = Ok (Done (mk stop 0 t T S C M)) /\
    match r with
    | Some q => t = pos q /\ caps_rel p (caps q) M /\ matched0 (mk stop 0 t T S C M) = true
    | None => M = M0 /\ T = [] /\ S = [] /\ C = [] /\ matched0 (mk stop 0 t T S C M) = false
    end.
Proof. exact compile_correct_top_partial. Qed.
Print Assumptions C01_compile_correct_top_partial.

(* The same for the interpreter with its real finite stacks and any backtracking-stack limit L:
   whenever VM.exec_at returns a state, it is the final Stop state carrying the position and captures
   of Spec.attempt (what is NOT claimed: that exec_at returns, i.e. enough interpreter fuel, no
   ErrBacktrackingStackLimit, no capacity fault -- the last is C13's capacity theorem). *)
Theorem C01_compile_correct_exec_partial :
  forall (e : env) (p : program), 0 <= trackcount p -> tlen e <= INF ->
  forall L fuel vfuel o body t0 r s',
  let root := NCapture o 0 (-1) body in
  let M0 := repeat [] (Z.to_nat (capsize p)) in
  let stop := 2 + csize cfg0 root in
  codes p = fst (compile cfg0 root) -> strings p = snd (compile cfg0 root) ->
  supported root = true -> groups_ok (capsize p) root -> 0 <= t0 <= tlen e ->
  Z.of_nat fuel <= INF ->
  attempt e fuel root t0 = Ok r ->
  exec_at e p L vfuel t0 = Ok s' ->
  pc s' = stop /\ mode s' = 0 /\
  match r with
  | Some q => tp s' = pos q /\ caps_rel p (caps q) (mcaps s') /\ matched0 s' = true
  | None => mcaps s' = M0 /\ matched0 s' = false
  end.
Proof. exact compile_correct_exec_partial. Qed.
Print Assumptions C01_compile_correct_exec_partial.

(* non-vacuity: Proofs/CompileProofs.v cc_demo, cc_demo2, cc_demo3 (vm_compute) *)
Example C01_compile_witness := cc_demo2.

(* ===================== ... with balancing captures (every constructor of Tree.node) ===================== *)
From Verif Require Import Proofs.CompileBalDen Proofs.CompileBalBase Proofs.CompileBalDefs Proofs.CompileBal.

(* The constructor set CompileBalDefs.supported2 = supported without "u = -1" on captures: (?<g-u>...) and
   (?<-u>...) are covered.  The interpreter's capture arrays then contain balanceMatch's marker pairs; the
   relation [caps_rel2] says each array DENOTES the reference capture stack (Proofs/CompileBalDen.v: isMatched,
   matchIndex, matchLength read exactly the newest live capture).  New side condition (groups_ok2): the popped
   group u is a slot, the pushed group g is a slot or -1.  The uncapture/crawl discipline is part of the
   invariant leadsg2, not a hypothesis. *)
Theorem C01_compile_correct2_partial :
  forall (e : env) (p : program), 0 <= trackcount p -> tlen e <= INF ->
  forall fuel t s res,
    Z.of_nat fuel <= INF ->
    sem e fuel t s = Ok res -> supported2 t = true -> st_ok e s -> groups_ok2 (capsize p) t ->
    forall a tbl T S C M,
      has_code p a (fst (emit cfg0 t a tbl)) -> (exists w, code_at p (a + csize cfg0 t) = Some w) ->
      track_ok p T -> caps_rel2 p (caps s) M -> tbl_ok p (snd (emit cfg0 t a tbl)) ->
      leadsg2 e p (a + csize cfg0 t) T S S C M (mkr a 0 (pos s) T S C M) res.
Proof. exact compile_correct2_partial. Qed.
Print Assumptions C01_compile_correct2_partial.

Theorem C01_compile_correct2_top_partial :
  forall (e : env) (p : program), 0 <= trackcount p -> tlen e <= INF ->
  forall fuel o body t0 r,
  let root := NCapture o 0 (-1) body in
  let M0 := repeat [] (Z.to_nat (capsize p)) in
  let stop := 2 + csize cfg0 root in
  codes p = fst (compile cfg0 root) -> strings p = snd (compile cfg0 root) ->
  supported2 root = true -> groups_ok2 (capsize p) root -> 0 <= t0 <= tlen e ->
  Z.of_nat fuel <= INF ->
  attempt e fuel root t0 = Ok r ->
  code_at p stop = Some Stop /\
  exists t T S C M,
    usteps e p (mk 0 0 t0 [] [] [] M0) (mk stop 0 t T S C M) /\
    ustep e p (mk stop 0 t T S C M) = Ok (Done (mk stop 0 t T S C M)) /\
    match r with
    | Some q => t = pos q /\ caps_rel2 p (caps q) M /\ matched0 (mk stop 0 t T S C M) = true
    | None => M = M0 /\ T = [] /\ S = [] /\ C = [] /\ matched0 (mk stop 0 t T S C M) = false
    end.
Proof. exact compile_correct2_top_partial. Qed.
Print Assumptions C01_compile_correct2_top_partial.

Theorem C01_compile_correct2_exec_partial :
  forall (e : env) (p : program), 0 <= trackcount p -> tlen e <= INF ->
  forall L fuel vfuel o body t0 r s',
  let root := NCapture o 0 (-1) body in
  let M0 := repeat [] (Z.to_nat (capsize p)) in
  let stop := 2 + csize cfg0 root in
  codes p = fst (compile cfg0 root) -> strings p = snd (compile cfg0 root) ->
  supported2 root = true -> groups_ok2 (capsize p) root -> 0 <= t0 <= tlen e ->
  Z.of_nat fuel <= INF ->
  attempt e fuel root t0 = Ok r ->
  exec_at e p L vfuel t0 = Ok s' ->
  pc s' = stop /\ mode s' = 0 /\
  match r with
  | Some q => tp s' = pos q /\ caps_rel2 p (caps q) (mcaps s') /\ matched0 s' = true
  | None => mcaps s' = M0 /\ matched0 s' = false
  end.
Proof. exact compile_correct2_exec_partial. Qed.
Print Assumptions C01_compile_correct2_exec_partial.

(* what caps_rel2 means: per slot an array of pairs that denotes the reference stack, and the
   interpreter's three readers answer from that stack; without markers it is caps_rel *)
Theorem C01_caps_rel2_reads :
  forall (e : env) (p : program) c M g, caps_rel2 p c M -> 0 <= g < capsize p -> sb_caps_ok e c ->
  vm_is_matched g M = Some (is_matched g c) /\
  forall i len rest, cap_get g c = (i, len) :: rest ->
    vm_match_index g M = Some i /\ vm_match_length g M = Some len.
Proof. exact bd_caps_rel_reads. Qed.
Print Assumptions C01_caps_rel2_reads.

Theorem C01_caps_rel2_of_plain :
  forall (e : env) (p : program) c M, sb_caps_ok e c -> caps_rel p c M -> caps_rel2 p c M.
Proof. exact bd_caps_rel_of_plain. Qed.
Print Assumptions C01_caps_rel2_of_plain.

(* non-vacuity: a^n b^n with (?<2-1>b) and (?<-2>), Proofs/CompileBal.v *)
Example C01_compile2_witness := c2_demo.

(* ===================== ... for every writer configuration ===================== *)
From Verif Require Import Proofs.EraseProofs Proofs.EraseLinkProofs Proofs.CompileCapmap Proofs.CompileQuick.

(* Sparse capture maps (writer.caps / mapCapnum): the code emitted under a slot map is the cfg0 code of the
   tree with its group numbers renamed through the map (cmap_compile), and the reference semantics commutes
   with a renaming that is injective on the groups that occur (cmap_sem).  Hence compile_correct2 holds with
   the capture relation read THROUGH the map: slot [map g] denotes group g's reference capture stack.
   Side conditions: cm_good (distinct keys, distinct values, no value -1: what writer.go builds),
   the whole-match group 0 lives in slot 0, every group number of the tree is a key of the map (ren_ok),
   every mapped group is a slot (groups_ok2 of the renamed tree). *)
Theorem C01_compile_correct_capmap_exec_partial :
  forall (e : env) (p : program) (cm : option (list (Z * Z))),
  let c := {| capmap := cm; quick := None |} in
  0 <= trackcount p -> tlen e <= INF ->
  forall L fuel vfuel o body t0 r s',
  let root := NCapture o 0 (-1) body in
  let M0 := repeat [] (Z.to_nat (capsize p)) in
  let stop := 2 + csize c root in
  codes p = fst (compile c root) -> strings p = snd (compile c root) ->
  supported2 root = true -> cm_good cm = true -> map_capnum c 0 = 0 ->
  ren_ok (cm_G cm) root -> groups_ok2 (capsize p) (ren c root) ->
  0 <= t0 <= tlen e -> Z.of_nat fuel <= INF ->
  attempt e fuel root t0 = Ok r ->
  exec_at e p L vfuel t0 = Ok s' ->
  pc s' = stop /\ mode s' = 0 /\
  match r with
  | Some q => tp s' = pos q /\ caps_rel_map p cm (caps q) (mcaps s') /\ matched0 s' = true
  | None => mcaps s' = M0 /\ matched0 s' = false
  end.
Proof. exact compile_correct_capmap_exec_partial. Qed.
Print Assumptions C01_compile_correct_capmap_exec_partial.

(* The quick program (quickCaptureSlots): C02's "the quick program is the full program of the capture-erased
   tree, whose search agrees on position and kept groups" composed with the theorem above.  Whenever the
   interpreter returns from the quick program it is at the final Stop, at the position of Spec.attempt on the
   ORIGINAL tree, and the slot of every kept group -- group 0 in particular -- denotes that group's reference
   capture stack; when Spec.attempt fails group 0 is unset. *)
Theorem C01_compile_correct_quick_exec_partial :
  forall (e : env) (p : program) (cm : option (list (Z * Z))) (q : list bool),
  let cq := quick_cfg cm q in
  let cf := full_cfg cm in
  let keep := quick_keep cm q in
  0 <= trackcount p -> tlen e <= INF ->
  forall L fuel vfuel o body t0 r s',
  let root := NCapture o 0 (-1) body in
  let M0 := repeat [] (Z.to_nat (capsize p)) in
  let stop := 2 + csize cq root in
  codes p = fst (compile cq root) -> strings p = snd (compile cq root) ->
  supported2 root = true -> cm_good cm = true -> map_capnum cf 0 = 0 ->
  keep 0 = true -> unobs keep root ->
  ren_ok (cm_G cm) root -> groups_ok2 (capsize p) (ren cf root) ->
  0 <= t0 <= tlen e -> Z.of_nat fuel <= INF ->
  attempt e fuel root t0 = Ok r ->
  exec_at e p L vfuel t0 = Ok s' ->
  pc s' = stop /\ mode s' = 0 /\
  match r with
  | Some q0 => tp s' = pos q0 /\ caps_rel_quick p cm q (caps q0) (mcaps s') /\ matched0 s' = true
  | None => mcaps s' = M0 /\ matched0 s' = false
  end.
Proof. exact compile_correct_quick_exec_partial. Qed.
Print Assumptions C01_compile_correct_quick_exec_partial.

(* ... for the quick program syntax.Write really produces (q = captureSlotsInUse of the full program):
   "group 0 is kept" and "no erased group is read" are then theorems of C02. *)
Theorem C01_compile_correct_write_quick_exec_partial :
  forall (e : env) (p : program) cm csz, 0 <= trackcount p -> tlen e <= INF ->
  forall L fuel vfuel o body t0 r s' prog,
  let root := NCapture o 0 (-1) body in
  let qv := slots_in_use (fst (write_full cm root)) csz in
  let M0 := repeat [] (Z.to_nat (capsize p)) in
  write_quick cm csz root = Some prog ->
  codes p = prog -> strings p = snd (compile (quick_cfg cm qv) root) ->
  supported2 root = true -> cm_good cm = true -> map_capnum (full_cfg cm) 0 = 0 ->
  (forall g, reads g root = true -> 0 <= map_capnum (full_cfg cm) g) ->
  ren_ok (cm_G cm) root -> groups_ok2 (capsize p) (ren (full_cfg cm) root) ->
  0 <= t0 <= tlen e -> Z.of_nat fuel <= INF ->
  attempt e fuel root t0 = Ok r ->
  exec_at e p L vfuel t0 = Ok s' ->
  pc s' = 2 + csize (quick_cfg cm qv) root /\ mode s' = 0 /\
  match r with
  | Some q0 => tp s' = pos q0 /\ caps_rel_quick p cm qv (caps q0) (mcaps s') /\ matched0 s' = true
  | None => mcaps s' = M0 /\ matched0 s' = false
  end.
Proof. exact compile_correct_write_quick_exec_partial. Qed.
Print Assumptions C01_compile_correct_write_quick_exec_partial.

Example C01_capmap_witness := cmap_demo.
Example C01_quick_witness := cquick_demo.

(* ===================== totality: the interpreter does return ===================== *)
From Verif Require Import Proofs.VMCapacityProofs Proofs.CompileTotal Proofs.CompileLimit Proofs.CompileLimitTop.

(* The missing half of C01_compile_correct2_exec_partial.  n = the number of interpreter steps of the attempt.
   Under any limit L and any interpreter fuel, one execute() call is ErrBacktrackingStackLimit (only if
   0 <= L), or returns (only if n < 1000*vfuel; the state is then the one of C01_compile_correct2_exec_partial),
   or runs out of fuel (only if 1000*vfuel <= n); it never faults; without a limit and with n < 1000*vfuel it
   does return.
   [_partial]: the hypothesis [path_ok] -- every state of the UNBOUNDED path is at an instruction boundary and
   its grouping stack is two words below max (8*TrackCount) 32 -- is NOT derived from compile_correct2_top
   (whose statement exposes the path but not the shape of its frames).  It is decidable on each instance:
   C01_exec_total_checked takes a successful run of the monitor CompileLimit.mon_steps instead. *)
Theorem C01_exec_total_partial :
  forall (e : env) (p : program), 0 <= trackcount p -> track_count (codes p) <= trackcount p -> tlen e <= INF ->
  forall fuel o body t0 r,
  let root := NCapture o 0 (-1) body in
  codes p = fst (compile cfg0 root) -> strings p = snd (compile cfg0 root) ->
  supported2 root = true -> groups_ok2 (capsize p) root -> 0 <= t0 <= tlen e -> Z.of_nat fuel <= INF ->
  attempt e fuel root t0 = Ok r ->
  path_ok e p (a0 p t0) ->
  exists n : nat, forall L vfuel,
    let x := exec_at e p L vfuel t0 in
    ((x = Err E_StackLimit /\ 0 <= L) \/
     ((n < 1000 * vfuel)%nat /\ exists s', x = Ok s') \/
     ((1000 * vfuel <= n)%nat /\ x = Fuel)) /\
    (L < 0 -> (n < 1000 * vfuel)%nat -> exists s', x = Ok s').
Proof. exact compile_exec_total_partial. Qed.
Print Assumptions C01_exec_total_partial.

Theorem C01_exec_total_checked :
  forall (e : env) (p : program), 0 <= trackcount p -> track_count (codes p) <= trackcount p -> tlen e <= INF ->
  forall fuel o body t0 r k n,
  let root := NCapture o 0 (-1) body in
  codes p = fst (compile cfg0 root) -> strings p = snd (compile cfg0 root) ->
  supported2 root = true -> groups_ok2 (capsize p) root -> 0 <= t0 <= tlen e -> Z.of_nat fuel <= INF ->
  attempt e fuel root t0 = Ok r ->
  mon_steps e p k (a0 p t0) = Some n ->
  forall L vfuel,
    let x := exec_at e p L vfuel t0 in
    (x = Err E_StackLimit /\ 0 <= L) \/
    ((n < 1000 * vfuel)%nat /\ exists s', x = Ok s') \/
    ((1000 * vfuel <= n)%nat /\ x = Fuel).
Proof. exact compile_exec_total_checked. Qed.
Print Assumptions C01_exec_total_checked.

(* the engine-independent core: ANY program, any unbounded path with path_ok; the real interpreter without a
   limit follows it (CompileTotal.tot_step: the converse of VMUBridge.step_is_ustep) *)
Theorem C01_real_interpreter_follows_unbounded_path :
  forall (e : env) (p : program), 0 <= trackcount p ->
  cp_need (codes p) 0 <= trackcount p * Gen.RunnerGen.G_ensure_factor ->
  forall L0, L0 < 0 ->
  forall t n sd sd' w0, code_at p 0 = Some w0 ->
  let a := mk 0 0 t [] [] [] (repeat [] (Z.to_nat (capsize p))) in
  path_ok e p a -> ustepsN e p n a sd -> ustep e p sd = Ok (Done sd') ->
  forall vfuel,
    ((n < 1000 * vfuel)%nat -> exists s', exec_at e p L0 vfuel t = Ok s' /\ norm s' = sd' /\ tinv p s') /\
    ((1000 * vfuel <= n)%nat -> exec_at e p L0 vfuel t = Fuel).
Proof. exact exec_total. Qed.
Print Assumptions C01_real_interpreter_follows_unbounded_path.

Example C01_total_witness := clt_demo.

(* ... with the path hypothesis replaced by a STATIC check of the program (no input, no run):
   CompileCfSafe.tyck_auto, a decidable frame-shape verifier, proved sound (cf_sound: it implies path_ok for
   every input and start position).  Leg c01-frag evaluates it on every real program of the corpus. *)
From Verif Require Import Proofs.CompileCfSafe.

Theorem C01_static_check_implies_path_ok :
  forall (e : env) (p : program), tyck_auto p = true -> forall t, path_ok e p (a0 p t).
Proof. exact cf_sound. Qed.
Print Assumptions C01_static_check_implies_path_ok.

Theorem C01_exec_total_typed :
  forall (e : env) (p : program), 0 <= trackcount p -> track_count (codes p) <= trackcount p -> tlen e <= INF ->
  forall fuel o body t0 r,
  let root := NCapture o 0 (-1) body in
  codes p = fst (compile cfg0 root) -> strings p = snd (compile cfg0 root) ->
  supported2 root = true -> groups_ok2 (capsize p) root -> 0 <= t0 <= tlen e -> Z.of_nat fuel <= INF ->
  attempt e fuel root t0 = Ok r ->
  tyck_auto p = true ->
  exists n : nat, forall L vfuel,
    let x := exec_at e p L vfuel t0 in
    ((x = Err E_StackLimit /\ 0 <= L) \/
     ((n < 1000 * vfuel)%nat /\ exists s', x = Ok s') \/
     ((1000 * vfuel <= n)%nat /\ x = Fuel)) /\
    (L < 0 -> (n < 1000 * vfuel)%nat -> exists s', x = Ok s').
Proof. exact compile_exec_total_typed. Qed.
Print Assumptions C01_exec_total_typed.

(* ===================== totality, unconditionally ===================== *)
(* Every program the writer emits is accepted by the verifier (Proofs/CompileTyEmit.v compiled_tyck: a shape
   function defined by recursion on the tree, every emitted instruction consistent with it, depth of the grouping
   stack <= 2 * TrackCount), so path_ok needs no hypothesis: the interpreter with its real finite stacks, run on
   the program of a supported2 tree, under any limit L and any interpreter fuel,
     - never faults,
     - returns when 1000*vfuel exceeds the number n of steps of the attempt (and L < 0),
     - under a limit returns that same state (C01_compile_correct2_exec_partial: Spec.attempt's answer) or
       ErrBacktrackingStackLimit (only if 0 <= L).
   What is left of "_partial" in the C01 chain: reference fuel / text length <= 2^31-1, NAlternate non-empty and
   0 <= m <= n in single-character loops (the parser builds nothing else); writer configuration cfg0 here (the
   slot-map and quick-program theorems above reduce the other configurations to it for the "when it returns" half). *)
From Verif Require Import Proofs.CompileTyEmit Proofs.CompileSafe.

Theorem C01_every_compiled_program_is_control_flow_safe :
  forall c root p, codes p = fst (compile c root) -> track_count (codes p) <= trackcount p ->
  forall e t, path_ok e p (a0 p t).
Proof. exact compiled_path_ok. Qed.
Print Assumptions C01_every_compiled_program_is_control_flow_safe.

Theorem C01_exec_total :
  forall (e : env) (p : program), 0 <= trackcount p -> track_count (codes p) <= trackcount p -> tlen e <= INF ->
  forall fuel o body t0 r,
  let root := NCapture o 0 (-1) body in
  codes p = fst (compile cfg0 root) -> strings p = snd (compile cfg0 root) ->
  supported2 root = true -> groups_ok2 (capsize p) root -> 0 <= t0 <= tlen e -> Z.of_nat fuel <= INF ->
  attempt e fuel root t0 = Ok r ->
  exists n : nat, forall L vfuel,
    let x := exec_at e p L vfuel t0 in
    ((x = Err E_StackLimit /\ 0 <= L) \/
     ((n < 1000 * vfuel)%nat /\ exists s', x = Ok s') \/
     ((1000 * vfuel <= n)%nat /\ x = Fuel)) /\
    (L < 0 -> (n < 1000 * vfuel)%nat -> exists s', x = Ok s').
Proof. exact compile_exec_total. Qed.
Print Assumptions C01_exec_total.

(* ===================== termination of the reference search ===================== *)
(* Every theorem above that mentions [sem]/[attempt]/[find] is conditional on "... = Ok r": it says what the
   answer is WHEN the fuel suffices.  Proofs/SpecTermProofs.v proves that enough fuel always exists and gives it.
   The fuel of [sem] is a DEPTH (every recursive call gets fuel-1, a loop spends one unit per iteration), so
     term_fuel e t = 1 + max over the children;  a loop {m,n} adds  Z.to_nat m + tlen e + 2:
   past its minimum every further iteration must move (the empty-iteration rule of [iter]) and, when the body
   runs in ONE direction, it moves towards the end of the text, so there are at most m + tlen + 2 iterations.
   Side condition  term_ok t  (boolean, decidable): the body of every NLoop of t -- inside lookarounds too --
   has all its consuming nodes (outside nested lookarounds / conditions) in one direction, and single-character
   loops have 0 <= m.  Leg c01-frag evaluates it on every tree exported from the implementation (all satisfy it:
   the parser flips RightToLeft only at a lookaround).
   Analysis.shape_ok is NOT enough: it is silent inside lookarounds (C01_shape_ok_termination_refuted). *)
From Verif Require Import Model.Analysis Proofs.SpecTermProofs Proofs.ComposeTerm.

Theorem C01_sem_terminates :
  forall (e : env) t s, term_ok t = true -> st_ok e s ->
  forall fuel, (term_fuel e t <= fuel)%nat -> exists l, sem e fuel t s = Ok l.
Proof. exact spec_sem_total. Qed.
Print Assumptions C01_sem_terminates.

(* ... and the answer does not depend on the fuel from there on *)
Theorem C01_sem_terminates_stable :
  forall (e : env) t s, term_ok t = true -> st_ok e s ->
  exists l, forall fuel, (term_fuel e t <= fuel)%nat -> sem e fuel t s = Ok l.
Proof. exact spec_sem_total_stable. Qed.
Print Assumptions C01_sem_terminates_stable.

Theorem C01_attempt_terminates :
  forall (e : env) root p, term_ok root = true -> 0 <= p <= tlen e ->
  forall fuel, (term_fuel e root <= fuel)%nat ->
  exists r, attempt e fuel root p = Ok r /\ attemptk e fuel root p = Ok r.
Proof. exact spec_attempt_total. Qed.
Print Assumptions C01_attempt_terminates.

Theorem C01_find_terminates :
  forall (e : env) root (rtl : bool) start prevlen, term_ok root = true -> 0 <= start <= tlen e ->
  forall fuel, (term_fuel e root <= fuel)%nat ->
  exists r, find e fuel root rtl start prevlen = Ok r /\ findk e fuel root rtl start prevlen = Ok r.
Proof. exact spec_find_total. Qed.
Print Assumptions C01_find_terminates.

(* Without ANY side condition (every tree, every state, every offset) the search still terminates, because [iter]
   also counts: a loop ends when its counter reaches  limit <= INF.  The fuel term_fuel_any does not depend on the
   text, but is of the order of 2^31 per unbounded loop -- outside the range  Z.of_nat fuel <= INF  that the
   compile theorems ask for; that is why the theorems below use term_ok / term_fuel. *)
Theorem C01_find_terminates_on_every_tree :
  forall (e : env) root (rtl : bool) start prevlen fuel, (term_fuel_any root <= fuel)%nat ->
  exists r, find e fuel root rtl start prevlen = Ok r /\ findk e fuel root rtl start prevlen = Ok r.
Proof. exact spec_find_total_any. Qed.
Print Assumptions C01_find_terminates_on_every_tree.

Theorem C01_sem_terminates_on_every_tree :
  forall (e : env) t fuel, (term_fuel_any t <= fuel)%nat -> forall s, exists l, sem e fuel t s = Ok l.
Proof. exact spec_sem_total_any. Qed.
Print Assumptions C01_sem_terminates_on_every_tree.

(* shape_ok admits a tree whose search needs more fuel than INF: under a lookahead, a loop whose body moves right
   and sets group 1 when it is unset, moves left and pops it when it is set ((?(1) <rtl a>(?<-1>) | <ltr a>(?<1>))* );
   on "a" two states alternate for ever and only the counter reaching 2^31-1 stops the loop *)
Theorem C01_shape_ok_termination_refuted :
  shape_ok false tm_osc_tree = true /\ shape_ok true tm_osc_tree = true /\ term_ok tm_osc_tree = false /\
  (forall fuel, Z.of_nat fuel <= INF -> sem (tm_demo_env [97]) fuel tm_osc_tree tm_osc_s0 = Fuel) /\
  (exists fuel l, sem (tm_demo_env [97]) fuel tm_osc_tree tm_osc_s0 = Ok l).
Proof.
  exact (conj (proj1 tm_osc_shape) (conj (proj1 (proj2 tm_osc_shape))
          (conj (proj2 (proj2 (proj2 (proj2 tm_osc_shape))))
             (conj tm_osc_needs_more_than_INF tm_osc_terminates_eventually)))).
Qed.
Print Assumptions C01_shape_ok_termination_refuted.

(* old predicate => new predicate where the old one speaks: a shape_ok tree without lookarounds / expression
   conditionals is term_ok; and a shape_ok tree is one-directional outside its lookarounds *)
Theorem C01_shape_ok_implies_term_ok :
  forall (d : bool) t, shape_ok d t = true -> tm_look_free t = true -> term_ok t = true.
Proof. exact tm_shape_term_ok. Qed.
Print Assumptions C01_shape_ok_implies_term_ok.

Theorem C01_shape_ok_implies_dir_ok :
  forall (d : bool) t, shape_ok d t = true -> tm_dir_ok d t = true.
Proof. exact tm_shape_dir_ok. Qed.
Print Assumptions C01_shape_ok_implies_dir_ok.

(* C01_exec_total + C01_compile_correct2_exec_partial WITHOUT the hypothesis "attempt e fuel root t0 = Ok r":
   for the program of a supported2 tree with one-directional loop bodies whose reference fuel is inside the
   counter range, the reference attempt answers r, and there is an interpreter fuel from which on, under EVERY
   stack limit L, one execute() call is ErrBacktrackingStackLimit (only if 0 <= L) or returns the final Stop
   state carrying r -- never Crash, never out of fuel; without a limit it returns. *)
Theorem C01_exec_total_terminating :
  forall (e : env) (p : program), 0 <= trackcount p -> track_count (codes p) <= trackcount p -> tlen e <= INF ->
  forall o body t0,
  let root := NCapture o 0 (-1) body in
  let M0 := repeat [] (Z.to_nat (capsize p)) in
  let stop := 2 + csize cfg0 root in
  codes p = fst (compile cfg0 root) -> strings p = snd (compile cfg0 root) ->
  supported2 root = true -> groups_ok2 (capsize p) root -> 0 <= t0 <= tlen e ->
  term_ok root = true -> Z.of_nat (term_fuel e root) <= INF ->
  exists r, attempt e (term_fuel e root) root t0 = Ok r /\
  exists vfuel0 : nat, forall L vfuel, (vfuel0 <= vfuel)%nat ->
    let x := exec_at e p L vfuel t0 in
    ((x = Err E_StackLimit /\ 0 <= L) \/
     (exists s', x = Ok s' /\ pc s' = stop /\ mode s' = 0 /\
        match r with
        | Some q => tp s' = pos q /\ caps_rel2 p (caps q) (mcaps s') /\ matched0 s' = true
        | None => mcaps s' = M0 /\ matched0 s' = false
        end)) /\
    (L < 0 -> exists s', x = Ok s').
Proof. exact ct_exec_total_terminating. Qed.
Print Assumptions C01_exec_total_terminating.

(* the counter-range hypothesis read separately on the tree and on the text: the text length enters term_fuel
   additively (leg c01-frag reports term_fuel_n 0 t, the bound for the empty text, for every exported tree) *)
Theorem C01_term_fuel_in_range :
  forall (e : env) t, Z.of_nat (term_fuel_n 0 t) + tlen e <= INF -> Z.of_nat (term_fuel e t) <= INF.
Proof. exact tm_fuel_in_range. Qed.
Print Assumptions C01_term_fuel_in_range.

(* non-vacuity (vm_compute): the bound on the nullable loop ( a* )* / "aab" (fuel 6, Fuel with 3 less), on the
   counted loop (?:ab){2,3} / "ababab" (fuel 11), on a right-to-left lazy loop inside a lookbehind (fuel 8);
   the a^n b^n program with balancing groups meets term_ok with fuel 10 *)
Example C01_term_witness_values := tm_ex_fuel_values.
Example C01_term_witness_nullable := tm_ex_star_star_runs.
Example C01_term_witness_counted := tm_ex_counted_runs.
Example C01_term_witness_lookbehind := tm_ex_lookbehind_runs.
Example C01_term_witness_compiled := ct_demo.

(* ===================== from the PATTERN TEXT to the match ===================== *)
(* The chain  parser (Model/Parser.v, tied to syntax.Parse by exact tree equality, leg c10-parse)  ->  writer
   (Model/Writer.v)  ->  interpreter (Model/VM.v)  against the reference search (Model/Spec.v) on the parsed tree.
   Proofs/ParserOk*.v prove OF EVERY TREE THE PARSER BUILDS the side conditions the theorems above take as hypotheses:
     supported2 (arities, 0 <= M <= N <= MaxInt32, non-empty alternations)            every option word, every oracle
     term_ok    (every loop body runs in one direction: the RightToLeft bit changes only at lookarounds)   the same
     ren_ok / groups_ok2 for the slot map built from RegexTree.Caps / Captop (every Capture / Ref / BackRefCond number,
                the popped number of a balancing group included, is a key of the capture table: the capture pre-scan
                countCaptures and the main pass agree on which parentheses capture)        every option word, oracle tie below
   and that the root is Capture 0.  [to_node sid] is the parser's RegexNode as a Tree.node through Tree.build (the decoder
   of the harness' tree export); [sid] numbers the character sets and is arbitrary.
   For every pattern text, option word (ECMAScript and RE2 included), MaintainCaptureOrder flag: if Parse succeeds with tree t and
   capture table (caps, captop), then the interpreter run on the program the writer emits for t under the slot map of
   (caps, captop), on every text and start position, never faults, returns from some interpreter fuel on (or
   ErrBacktrackingStackLimit under a limit), and what it returns is the position and the captures of Spec.attempt on t.
   What remains hypothetical ([_partial]):
     - numeric: captop < 2^31-1 (no group numbered MaxInt32, fewer than 2^31-1 groups), tlen e <= INF,
       term_fuel e root <= INF (nesting depth + loop minima + text length inside the engine's counter range);
     - oracle tie: IsWordChar is false on ! # ' ( ) - < = > ? [ \ and true on the ASCII digits 1-9;
     - the program is the written one: codes / strings = compile, Capsize = caps_size, TrackCount >= track_count;
     - C01_pattern_text_end_to_end_checked: the same without the oracle tie, from the decidable per-tree check nums_b
       (= the check nums_okb that leg c10-parse evaluates on every tree);
     - gate mask 31: the optional final rewrites of the tree are C05's subject.
   Five genuine defects were found by these proofs and fixed first (a5090c5, 4f8aca1, 2b27550, 5afce6b, c605b5f;
   known_findings); the last one was the ECMAScript [a-\d] case: the pre-scan's class scanner kept a stale "in range" flag. *)
From Verif Require Import Model.GroupMap Model.CharClass Model.Parser Proofs.GMBase Proofs.ParserOkTree Proofs.ParserOk.

Theorem C01_pattern_text_end_to_end_partial :
  forall (is_word_char : Z -> bool) (to_lower simple_fold : Z -> Z) (participates : Z -> bool)
         (cat_in : Z -> Z -> bool) (cat_name : list Z -> Z)
         (o : Z) (mco_flag : bool) (ptxt : list Z) (t : rnode) (caps : list Z) (captop : Z),
  (forall c, is_word_char c = true -> negb (zmem c [33; 35; 39; 40; 41; 45; 60; 61; 62; 63; 91; 92]) = true) ->
  (forall c, (49 <=? c) && (c <=? 57) = true -> is_word_char c = true) ->
  captop < maxint32 ->
  parse is_word_char to_lower simple_fold participates cat_in cat_name o mco_flag ptxt = Ok (PR_Tree t caps captop) ->
  forall sid : cls -> Z, exists body,
    let root := NCapture (n_o t) 0 (-1) body in
    let cm := caps_map caps captop in
    let c := {| capmap := cm; quick := None |} in
    to_node sid t = Some root /\
    forall (e : env) (p : program),
      0 <= trackcount p -> track_count (codes p) <= trackcount p -> tlen e <= INF ->
      codes p = fst (compile c root) -> strings p = snd (compile c root) -> capsize p = caps_size caps captop ->
      Z.of_nat (term_fuel e root) <= INF ->
      forall t0, 0 <= t0 <= tlen e ->
      exists r, attempt e (term_fuel e root) root t0 = Ok r /\
      exists vfuel0 : nat, forall L vfuel, (vfuel0 <= vfuel)%nat ->
        let x := exec_at e p L vfuel t0 in
        ((x = Err E_StackLimit /\ 0 <= L) \/
         (exists s', x = Ok s' /\ pc s' = 2 + csize c root /\ mode s' = 0 /\
            match r with
            | Some q => tp s' = pos q /\ caps_rel_map p cm (Spec.caps q) (mcaps s') /\ matched0 s' = true
            | None => mcaps s' = repeat [] (Z.to_nat (capsize p)) /\ matched0 s' = false
            end)) /\
        (L < 0 -> exists s', x = Ok s').
Proof. exact pattern_text_end_to_end. Qed.
Print Assumptions C01_pattern_text_end_to_end_partial.

(* without the oracle tie: the group numbers checked on the tree *)
Theorem C01_pattern_text_end_to_end_checked :
  forall (is_word_char : Z -> bool) (to_lower simple_fold : Z -> Z) (participates : Z -> bool)
         (cat_in : Z -> Z -> bool) (cat_name : list Z -> Z)
         (o : Z) (mco_flag : bool) (ptxt : list Z) (t : rnode) (caps : list Z) (captop : Z),
  captop < maxint32 ->
  parse is_word_char to_lower simple_fold participates cat_in cat_name o mco_flag ptxt = Ok (PR_Tree t caps captop) ->
  nums_b caps t = true ->
  forall sid : cls -> Z, exists body,
    to_node sid t = Some (NCapture (n_o t) 0 (-1) body) /\
    runs_as_spec caps captop (NCapture (n_o t) 0 (-1) body).
Proof. exact pattern_text_end_to_end_checked. Qed.
Print Assumptions C01_pattern_text_end_to_end_checked.

(* the side conditions themselves, on the converted tree *)
Theorem C01_parsed_tree_is_supported_and_terminating :
  forall (is_word_char : Z -> bool) (to_lower simple_fold : Z -> Z) (participates : Z -> bool)
         (cat_in : Z -> Z -> bool) (cat_name : list Z -> Z)
         (o : Z) (mco_flag : bool) (ptxt : list Z) (t : rnode) (caps : list Z) (captop : Z),
  parse is_word_char to_lower simple_fold participates cat_in cat_name o mco_flag ptxt = Ok (PR_Tree t caps captop) ->
  forall sid : cls -> Z, exists body,
    to_node sid t = Some (NCapture (n_o t) 0 (-1) body) /\
    supported2 (NCapture (n_o t) 0 (-1) body) = true /\ term_ok (NCapture (n_o t) 0 (-1) body) = true.
Proof. exact parsed_tree_supported_term. Qed.
Print Assumptions C01_parsed_tree_is_supported_and_terminating.

Theorem C01_parsed_tree_group_numbers_partial :
  forall (is_word_char : Z -> bool) (to_lower simple_fold : Z -> Z) (participates : Z -> bool)
         (cat_in : Z -> Z -> bool) (cat_name : list Z -> Z)
         (o : Z) (mco_flag : bool) (ptxt : list Z) (t : rnode) (caps : list Z) (captop : Z),
  (forall c, is_word_char c = true -> negb (zmem c [33; 35; 39; 40; 41; 45; 60; 61; 62; 63; 91; 92]) = true) ->
  (forall c, (49 <=? c) && (c <=? 57) = true -> is_word_char c = true) ->
  captop < maxint32 ->
  parse is_word_char to_lower simple_fold participates cat_in cat_name o mco_flag ptxt = Ok (PR_Tree t caps captop) ->
  forall sid : cls -> Z, exists body,
    to_node sid t = Some (NCapture (n_o t) 0 (-1) body) /\
    supported2 (NCapture (n_o t) 0 (-1) body) = true /\ term_ok (NCapture (n_o t) 0 (-1) body) = true /\
    ren_ok (fun g => zmem g caps = true) (NCapture (n_o t) 0 (-1) body).
Proof. exact parsed_tree_groups. Qed.
Print Assumptions C01_parsed_tree_group_numbers_partial.
