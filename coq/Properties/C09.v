(* C09 — Replace and Split are the fold of the match sequence.
   This file only states the property theorems; proofs are in Proofs/ReplaceProofs.v and
   Proofs/ReplaceParserProofs.v.  The model (Model/Replace.v) follows /repo INCLUDING the three C09
   fixes (right-to-left rule order, count = 0, right-to-left Split); what the code did before
   the fixes is recorded at the end as C09_unfixed_*_refuted.

   Common hypotheses (named in every statement):
     wf_matches rtl text ms    the match sequence handed to the drivers is in bounds, ordered in scan
                               direction and non-overlapping (what C07/C08 establish about the engine;
                               checked on every real sequence by legs c09-replace / c09-split);
     env_ok env n              the Regexp's capture maps fit matches with n slots (C17);
     start_ok tw startAt       startAt <= len(input) and, if >= 0, on a rune boundary. *)
From Verif Require Import Base.Prelude Gen.ReplaceGen Model.Escape Model.Replace
     Proofs.ReplaceProofs Proofs.ReplaceParserProofs.

Section Oracles.
Variable is_word_char : Z -> bool.       (* syntax.IsWordChar, arbitrary *)
Variable is_ecma_start : Z -> bool.      (* syntax.IsECMAIdentifierStartChar, arbitrary *)
Variable is_ecma_char : Z -> bool.       (* syntax.IsECMAIdentifierChar, arbitrary *)

Notation new_replacer_data := (new_replacer_data is_word_char is_ecma_start is_ecma_char).
Notation replace_string := (replace_string is_word_char is_ecma_start is_ecma_char).
Notation rep_spec := (rep_spec is_word_char is_ecma_start is_ecma_char).
Notation get_replacer_data := (get_replacer_data is_word_char is_ecma_start is_ecma_char).

(* Replace(input, replacement, startAt, count), left-to-right pattern: for EVERY replacement string
   the parser accepts, every well-formed match sequence, every count >= -1 and valid startAt, the
   result is the input with the first count matches replaced by the expansion of the replacement
   and everything else kept. *)
Theorem C09_replace_ltr_fold :
  forall env n rep d tw startAt count ms,
    env_ok env n -> -1 <= count -> start_ok tw startAt ->
    wf_matches false (runes_of tw) ms -> Forall (fun m => group_count m = n) ms ->
    new_replacer_data env rep = Ok d ->
    exists toks, toks_of d = Some toks /\
      replace_string env false rep tw startAt count ms = Ok (replace_spec false ms toks count (runes_of tw)).
Proof. exact (thm_replace_fold is_word_char is_ecma_start is_ecma_char false). Qed.

(* The same for a RightToLeft pattern (matches arrive from the end of the text; the pieces of a
   multi-rule replacement come out in rule order, the output in text order). *)
Theorem C09_replace_rtl_fold :
  forall env n rep d tw startAt count ms,
    env_ok env n -> -1 <= count -> start_ok tw startAt ->
    wf_matches true (runes_of tw) ms -> Forall (fun m => group_count m = n) ms ->
    new_replacer_data env rep = Ok d ->
    exists toks, toks_of d = Some toks /\
      replace_string env true rep tw startAt count ms = Ok (replace_spec true ms toks count (runes_of tw)).
Proof. exact (thm_replace_fold is_word_char is_ecma_start is_ecma_char true). Qed.

(* A replacement string the parser rejects makes Replace return that error, whatever the rest. *)
Theorem C09_replace_parse_error :
  forall env rtl rep c tw startAt count ms,
    new_replacer_data env rep = Err c -> replace_string env rtl rep tw startAt count ms = Err c.
Proof. exact (thm_replace_parse_error is_word_char is_ecma_start is_ecma_char). Qed.

(* ReplaceFunc, both directions, ANY evaluator: the same fold with the evaluator's strings. *)
Theorem C09_replace_func_fold :
  forall rtl f tw startAt count ms,
    -1 <= count -> start_ok tw startAt -> wf_matches rtl (runes_of tw) ms ->
    replace rtl (ByEval f) tw startAt count ms = Ok (replace_spec_f rtl ms f count (runes_of tw)).
Proof. exact (thm_replace_func_fold). Qed.

(* ReplaceFunc with an evaluator that computes the expansion of a replacement = Replace with it. *)
Theorem C09_replace_func_eq_replace :
  forall rtl d toks n f tw startAt count ms,
    -1 <= count -> start_ok tw startAt ->
    wf_matches rtl (runes_of tw) ms -> Forall (fun m => group_count m = n) ms ->
    data_ok d n -> toks_of d = Some toks ->
    (forall m, In m ms -> f m = expand toks m (runes_of tw)) ->
    replace rtl (ByEval f) tw startAt count ms = replace rtl (ByData d) tw startAt count ms.
Proof. exact (thm_replace_func_eq_replace). Qed.

(* Replacing with "$&" is the identity, both directions, every count and valid startAt. *)
Theorem C09_replace_amp_identity :
  forall env n rtl tw startAt count ms,
    env_ok env n -> -1 <= count -> start_ok tw startAt ->
    wf_matches rtl (runes_of tw) ms -> Forall group0_ok ms ->
    replace_string env rtl [36; 38] tw startAt count ms = Ok (runes_of tw).
Proof. exact (thm_replace_amp_identity is_word_char is_ecma_start is_ecma_char). Qed.

(* count and startAt: count < -1 and bad startAt give the documented errors (in this order),
   count = 0 returns the input unchanged, no match returns the input unchanged. *)
Theorem C09_replace_count_startat :
  forall rtl r tw startAt count ms,
    (count < -1 -> replace rtl r tw startAt count ms = Err E_CountTooSmall) /\
    (count = 0 -> replace rtl r tw startAt count ms = Ok (runes_of tw)) /\
    (-1 <= count -> count <> 0 -> byte_len tw < startAt ->
       replace rtl r tw startAt count ms = Err E_StartTooLarge) /\
    (-1 <= count -> count <> 0 -> 0 <= startAt -> startAt <= byte_len tw -> ~ is_boundary tw startAt ->
       replace rtl r tw startAt count ms = Err E_StartNotBoundary) /\
    (-1 <= count -> startAt <= byte_len tw -> (0 <= startAt -> is_boundary tw startAt) -> ms = [] ->
       replace rtl r tw startAt count ms = Ok (runes_of tw)).
Proof. exact replace_count_startat. Qed.

(* Expansion of one match: replacementImpl (and replacementImplRTL, whose pieces are emitted
   reversed by the caller) computes [expand]; [expand] reads $n / ${name} as the last capture of the
   slot the number maps to, $+ as the last slot, $` $' $_ as prefix / suffix / whole input. *)
Theorem C09_expand_refs :
  forall d toks text m,
    wf_match (zlen text) m -> data_ok d (group_count m) -> toks_of d = Some toks ->
    (forall buf, replacement_impl d text m buf = Ok (buf ++ expand toks m text)) /\
    (forall al, exists pieces, replacement_impl_rtl d text m al = Ok (al ++ pieces) /\
                               concat (rev pieces) = expand toks m text).
Proof. exact (thm_expand_refs). Qed.

Theorem C09_expand_meaning :
  forall m text,
    (forall s, expand [TLit s] m text = s) /\
    (forall k caps i l, znth (m_groups m) k = Some caps -> last_opt caps = Some (i, l) ->
                        expand [TGroup k] m text = zslice text i (i + l)) /\
    (forall k caps, znth (m_groups m) k = Some caps -> caps = [] -> expand [TGroup k] m text = []) /\
    (m_groups m <> [] -> expand [TLast] m text = expand [TGroup (group_count m - 1)] m text) /\
    expand [TLeft] m text = firstn (Z.to_nat (m_index m)) text /\
    expand [TRight] m text = skipn (Z.to_nat (m_index m + m_length m)) text /\
    expand [TWhole] m text = text /\
    (forall a b, expand (a ++ b) m text = expand a m text ++ expand b m text).
Proof. exact (thm_expand_meaning). Qed.

(* The replacement-string parser against the declarative $-grammar (Model/Replace.v, rep_spec):
   every accepted replacement is a parse according to the grammar — $$, $& $` $' $+ $_, $n with
   the longest-number rule (all digits; in ECMAScript mode the longest digit prefix that names a
   group), ${n}, ${name}; every other '$' is literal — and its rule list reads back as the
   compiled items.  In ECMAScript mode this includes "${" followed by a name that cannot be
   scanned (a backslash that starts no \u escape: "${n\", "${\x}"): since /repo 273146b that '$'
   is a literal '$' like every other unrecognised form (no form of the grammar has a backslash in
   the name, so RS_literal applies).  PARTIAL: in ECMAScript mode replacements containing "\u"
   (no_u_escape: a backslash immediately followed by 'u', the escapes inside ${name}) are
   modelled and exercised by leg c09-parse but not described by the grammar. *)
Theorem C09_replacement_parser_spec_partial :
  forall env n rep d,
    env_ok env n -> new_replacer_data env rep = Ok d ->
    (use_e env = true -> no_u_escape rep) ->
    exists items, rep_spec env rep items /\ toks_of d = Some (compile_items env items []).
Proof. exact (thm_parser_spec_partial is_word_char is_ecma_start is_ecma_char). Qed.

(* Full (every mode, every replacement): accepted replacements only refer to existing literal
   strings and to capture slots of the Regexp's matches. *)
Theorem C09_replacer_data_ok :
  forall env n rep d,
    env_ok env n -> new_replacer_data env rep = Ok d ->
    data_ok d n /\ exists toks, toks_of d = Some toks.
Proof. exact (thm_replacer_data_ok is_word_char is_ecma_start is_ecma_char). Qed.

(* The explicit panics of replacerdata.go are unreachable (the replacement parser only builds
   One/Multi/Ref children under a Concatenate node), no index fault occurs in the parser, and the
   model's fuel suffices: for EVERY environment and string the result is data or a parse error. *)
Theorem C09_replacer_data_no_panic :
  forall env rep, match new_replacer_data env rep with
                  | Ok _ | Err _ => True
                  | Crash _ | Fuel => False
                  end.
Proof. exact (thm_no_panic is_word_char is_ecma_start is_ecma_char). Qed.

(* getReplacerData returns the parse of its argument for every coherent cache state and keeps the
   cache coherent (LRU with eviction). *)
Theorem C09_cache_transparent :
  forall env should_cache max_size rep c,
    cache_coherent is_word_char is_ecma_start is_ecma_char env c ->
    fst (get_replacer_data env should_cache max_size rep c) = new_replacer_data env rep /\
    cache_coherent is_word_char is_ecma_start is_ecma_char env (snd (get_replacer_data env should_cache max_size rep c)).
Proof. exact (fun env sc ms rep c H => get_replacer_data_transparent is_word_char is_ecma_start is_ecma_char env sc ms rep c H). Qed.

(* The grammar is unambiguous: a replacement string has at most one parse, so together with
   C09_replacement_parser_spec_partial the grammar DETERMINES the rule list of every accepted
   replacement. *)
Theorem C09_replacement_grammar_unambiguous :
  forall env s i1 i2, rep_spec env s i1 -> rep_spec env s i2 -> i1 = i2.
Proof. exact (rep_spec_functional is_word_char is_ecma_start is_ecma_char). Qed.

(* The only error the parser reports, in every mode: "capture group number out of range" (a digit
   run above MaxInt32 after $ or ${).  Since /repo 273146b a malformed ECMAScript ${name} (invalid
   name, bad \u or \u{...} escape: ErrInvalidECMAGroupName, ErrTooFewHex, ErrInvalidHex,
   ErrMissingBrace raised inside scanCapname) is no error any more: scanDollar swallows it and
   copies the '$' literally. *)
Theorem C09_parser_error_codes :
  forall env rep c,
    new_replacer_data env rep = Err c ->
    c = E_CapOutOfRange.
Proof. exact (thm_error_codes is_word_char is_ecma_start is_ecma_char). Qed.

End Oracles.
(* the theorems of the section, now quantified over the three oracles *)
Print Assumptions C09_replace_ltr_fold.
Print Assumptions C09_replace_rtl_fold.
Print Assumptions C09_replace_parse_error.
Print Assumptions C09_replace_func_fold.
Print Assumptions C09_replace_func_eq_replace.
Print Assumptions C09_replace_amp_identity.
Print Assumptions C09_replace_count_startat.
Print Assumptions C09_expand_refs.
Print Assumptions C09_expand_meaning.
Print Assumptions C09_replacement_parser_spec_partial.
Print Assumptions C09_replacer_data_ok.
Print Assumptions C09_replacer_data_no_panic.
Print Assumptions C09_cache_transparent.
Print Assumptions C09_replacement_grammar_unambiguous.
Print Assumptions C09_parser_error_codes.

(* Split, both directions: equals the specification fold (text between successive matches
   interleaved with the groups 1..n of each match; right-to-left = the same walk from the end,
   reversed as a whole, as .NET does). *)
Theorem C09_split_spec_eq :
  forall rtl tw count ms,
    -1 <= count -> wf_matches rtl (runes_of tw) ms ->
    split rtl tw count ms = Ok (split_spec rtl ms count (runes_of tw)).
Proof. exact split_spec_eq. Qed.
Print Assumptions C09_split_spec_eq.

(* The pieces at positions 0, k+1, 2(k+1), … (k = number of groups) interleaved with the texts of the
   processed matches (in text order) rebuild the input. *)
Theorem C09_split_rejoin :
  forall rtl ms count text k,
    count <> 0 -> wf_matches rtl text ms -> Forall (fun m => length (m_groups m) = S k) ms ->
    interleave (every_kth k (split_spec rtl ms count text))
               (map (matched_text text) (text_order rtl (split_processed count ms))) = text.
Proof. exact split_rejoin. Qed.
Print Assumptions C09_split_rejoin.

(* Split's count: < -1 is an error, 0 gives no pieces, 1 gives the input, -1 processes every match. *)
Theorem C09_split_count :
  forall rtl tw ms,
    (forall count, count < -1 -> split rtl tw count ms = Err E_CountTooSmall) /\
    split rtl tw 0 ms = Ok [] /\
    split rtl tw 1 ms = Ok [runes_of tw] /\
    (zlen ms <= maxint -> split_processed (-1) ms = ms).
Proof. exact (thm_split_count). Qed.
Print Assumptions C09_split_count.

(* replace.go and syntax/replacerdata.go declare the special rule numbers twice: they agree. *)
Theorem C09_special_rule_numbers_agree :
  r_replaceSpecials = s_replaceSpecials /\ r_replaceLeftPortion = s_replaceLeftPortion /\
  r_replaceRightPortion = s_replaceRightPortion /\ r_replaceLastGroup = s_replaceLastGroup /\
  r_replaceWholeString = s_replaceWholeString.
Proof. exact consts_agree. Qed.
Print Assumptions C09_special_rule_numbers_agree.

(* ---------------------------------------------------------------------------------------------
   What the code did BEFORE the three fixes (docs/patches/C09-replace-split.patch; /repo commits
   "RTL Replace rule order", "count==0 returns input", "RTL Split"): the pre-fix loops, kept in the
   model as *_unfixed, violate the statements above on these witnesses. *)


(* witnesses (Proofs/ReplaceParserProofs.v): w_a1b2 = "a1b2"; w_rtl_ms = the matches of \d RightToLeft on
   it, [1@3; 1@1]; w_angle = the rules of "<$&>".
   `\d` RightToLeft, "<$&>" on "a1b2": the unfixed driver gives "a>1<b>2<", the fold "a<1>b<2>" *)
Theorem C09_unfixed_replace_rtl_refuted :
  replace_rtl_unfixed w_angle w_a1b2 (-1) w_rtl_ms = Ok [97; 62; 49; 60; 98; 62; 50; 60] /\
  replace_spec true w_rtl_ms [TLit [60]; TGroup 0; TLit [62]] (-1) (runes_of w_a1b2)
    = [97; 60; 49; 62; 98; 60; 50; 62] /\
  replace true (ByData w_angle) w_a1b2 (-1) (-1) w_rtl_ms = Ok [97; 60; 49; 62; 98; 60; 50; 62].
Proof. exact (thm_unfixed_replace_rtl). Qed.
Print Assumptions C09_unfixed_replace_rtl_refuted.

(* Split on a RightToLeft pattern with two matches: the unfixed loop slices [4:1] — a panic *)
Theorem C09_unfixed_split_rtl_refuted :
  split_unfixed w_a1b2 (-1) w_rtl_ms = Crash C_slice /\
  split true w_a1b2 (-1) w_rtl_ms = Ok [[97]; [98]; []].
Proof. exact (thm_unfixed_split_rtl). Qed.
Print Assumptions C09_unfixed_split_rtl_refuted.

(* count = 0 returned "" instead of the input *)
Theorem C09_unfixed_replace_count0_refuted :
  replace_count0_unfixed = Ok [] /\
  replace false (ByData w_angle) w_a1b2 (-1) 0 [] = Ok (runes_of w_a1b2) /\ runes_of w_a1b2 <> [].
Proof. exact (thm_unfixed_count0). Qed.
Print Assumptions C09_unfixed_replace_count0_refuted.

(* ---------------------------------------------------------------------------------------------
   Non-vacuity witnesses (vm_compute on the executable model). *)

Definition ex_word (r : Z) : bool :=
  (48 <=? r) && (r <=? 57) || (65 <=? r) && (r <=? 90) || (97 <=? r) && (r <=? 122) || (r =? 95).
(* pattern (a)(b)? : dense numbering, 3 slots *)
Definition ex_env : penv := mkEnv 0 None 3 None.
(* "xaby", one match "ab" at 1 with groups a@1, b@2 *)
Definition ex_tw : list (Z * Z) := [(120, 1); (97, 1); (98, 1); (121, 1)].
Definition ex_ms : list mtch := [mkM 1 2 [[(1, 2)]; [(1, 1)]; [(2, 1)]]].

(* "[$1|$2|$3|${1}|${2|$1a|$10|$+|$_|$`|$'|$$|$]" -> "x[a|b|$3|a|${2|aa|$10|b|xaby|x|y|$|$]y" (as the real code) *)
Example C09_witness_replace :
  let rep := [91; 36; 49; 124; 36; 50; 124; 36; 51; 124; 36; 123; 49; 125; 124; 36; 123; 50; 124; 36; 49; 97; 124;
              36; 49; 48; 124; 36; 43; 124; 36; 95; 124; 36; 96; 124; 36; 39; 124; 36; 36; 124; 36; 93] in
  replace_string ex_word ex_word ex_word ex_env false rep ex_tw (-1) (-1) ex_ms
  = Ok [120; 91; 97; 124; 98; 124; 36; 51; 124; 97; 124; 36; 123; 50; 124; 97; 97; 124; 36; 49; 48; 124; 98; 124;
        120; 97; 98; 121; 124; 120; 124; 121; 124; 36; 124; 36; 93; 121].
Proof. vm_compute. reflexivity. Qed.

(* the hypotheses of the fold theorems hold for this witness *)
Example C09_witness_hyps :
  env_ok ex_env 3 /\ wf_matches false (runes_of ex_tw) ex_ms /\ Forall (fun m => group_count m = 3) ex_ms /\
  Forall group0_ok ex_ms /\ start_ok ex_tw (-1) /\ start_ok ex_tw 2.
Proof.
  repeat split; try (cbn; lia); try (repeat constructor; cbn; lia).
  - repeat constructor; cbn; try lia; try discriminate; repeat constructor; cbn; lia.
  - constructor; [|constructor]. eexists _, _. split; reflexivity.
  - intros _. exists 2%nat. split; [cbn; lia|reflexivity].
Qed.

(* $10 with 3 slots: literal in .NET mode, group 1 followed by '0' in ECMAScript mode; with 11 slots group 10 *)
Example C09_witness_ambiguous :
  new_replacer_data ex_word ex_word ex_word ex_env [36; 49; 48] = Ok (mkRD [[36; 49; 48]] [0]) /\
  new_replacer_data ex_word ex_word ex_word (mkEnv 256 None 3 None) [36; 49; 48] = Ok (mkRD [[48]] [-6; 0]) /\
  new_replacer_data ex_word ex_word ex_word (mkEnv 0 None 11 None) [36; 49; 48] = Ok (mkRD [] [-15]) /\
  new_replacer_data ex_word ex_word ex_word ex_env [36; 57; 57; 57; 57; 57; 57; 57; 57; 57; 57; 57] = Err E_CapOutOfRange.
Proof. vm_compute. repeat split; reflexivity. Qed.

(* Split: (\d)(x)? on "a1xb2c" -> [a 1 x b 2 "" c]; RightToLeft (.NET layout) [a "" 2 b x 1 c] *)
Example C09_witness_split :
  let tw := [(97, 1); (49, 1); (120, 1); (98, 1); (50, 1); (99, 1)] in
  let m1 := mkM 1 2 [[(1, 2)]; [(1, 1)]; [(2, 1)]] in
  let m2 := mkM 4 1 [[(4, 1)]; [(4, 1)]; []] in
  split false tw (-1) [m1; m2] = Ok [[97]; [49]; [120]; [98]; [50]; []; [99]] /\
  split true tw (-1) [m2; m1] = Ok [[97]; [120]; [49]; [98]; []; [50]; [99]] /\
  wf_matches false (runes_of tw) [m1; m2] /\ wf_matches true (runes_of tw) [m2; m1].
Proof.
  cbv zeta. split; [vm_compute; reflexivity|]. split; [vm_compute; reflexivity|].
  split; (split; [repeat constructor; cbn; try lia; try discriminate|cbn; lia]).
Qed.
