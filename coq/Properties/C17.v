(* C17 — group numbers and names form one consistent map.
   Only statements; proofs are in Proofs/GM*.v and Proofs/GroupMapProofs.v, over Model/GroupMap.v.

   The model follows /repo's working tree, which carries small fixes found with this property
   (see known_findings.txt / the evidence notes):
     - Match.populateOtherGroups named Groups()[i] by GroupNameFromNumber(i): wrong when numbers are sparse;
     - Match.GroupByNumber(n) used n as a slot index when n is not a group number (sparse numbers);
     - GroupNumberFromName("") = 0 and overflow on long digit strings when there is no name table;
     - parser.scanGroupOpen left ignoreNextParen set after a condition that is not a plain "(":
       "(?(?=a)(a)|c)(d)" numbered (d) as 1 and left slot 2 orphaned (pre-scan and main pass disagreed);
     - 2b27550: under MaintainCaptureOrder/RE2 the main pass read "(?<2>" as group NUMBER 2 although the
       pre-scan had filed it as the NAME "2"; now both passes file the digits as a name.

   [parse f o ts] = (t, mks, its): the table the capture pre-scan builds, the pre-scan's decision per
   token, and the node the main pass creates per token.  The theorems are for EVERY token list [ts]
   satisfying [ts_ok_unguarded lim ts]:
     lexical  a TNamed name does not start with a digit (the scanner reads such a name as a number); the
              number of a TNumbered token is not negative (it is read off a digit string);
     size     explicit numbers < lim, and lim and the pattern length stay away from 2^31-1, where
              noteCaptureSlot saturates captop (parser.go:209-215).
   Modelling limit: [TNumbered n] stands for the canonical decimal spelling of n.  Since /repo 5afce6b a
   spelling with a leading zero ("(?<02>") is rejected under MaintainCaptureOrder; it is outside the token
   language (the printer of the harness never spells a number with a leading zero).

   Two statements — those about the NAME of an unnamed group — need in addition the
     guard    under MaintainCaptureOrder/RE2 (not ECMAScript, where "(?<2>" is an error) no explicit numbers
   ([ts_ok lim mco ecma ts]).  This is the known finding [mco_digit_names]: "(?<2>a)(b)" makes "2" the name of
   group 1 while the unnamed group 2 is also called "2".  They are named _partial, and C17_*_refuted shows that
   they are false without the guard: C17_table_well_formed_partial (the strong [wf_tree]), hence
   C17_maps_consistent when fed with it (the name <-> number round trips).  Everything else is unguarded; the
   other _partial names are kept as corollaries of the unguarded theorems. *)
From Verif Require Import Base.Prelude Model.GroupMap Proofs.GMBase Proofs.GroupMapProofs.

(* ---------- the table Parse hands on is well formed (everything below rests on it) ---------- *)
(* unguarded: the numbers are well formed ([wf_caps]: increasing, 0 first, dense or listed in Capnumlist),
   Caplist has one entry per group, and that entry is a key of Capnames which holds the group's number — or
   it is the group's numeral while that numeral is (also) the name of another group ([names_entry_weak]) *)
Theorem C17_table_well_formed : forall lim f o ts t mks its,
  ts_ok_unguarded lim ts -> parse f o ts = Ok (t, mks, its) ->
  wf_weak (mode_ecma o) t.
Proof. exact parse_wf_weak. Qed.
Print Assumptions C17_table_well_formed.

(* with the guard: every entry of Caplist is a key of Capnames holding exactly that group's number *)
Theorem C17_table_well_formed_partial : forall lim f o ts t mks its,
  ts_ok lim (mode_mco f o) (mode_ecma o) ts -> parse f o ts = Ok (t, mks, its) ->
  wf_tree (mode_ecma o) t.
Proof. exact parse_wf. Qed.
Print Assumptions C17_table_well_formed_partial.

(* the three notions *)
Theorem C17_wf_implications : forall ecma t,
  (wf_tree ecma t -> wf_weak ecma t) /\ (wf_weak ecma t -> wf_caps t).
Proof. intros ecma t. split; [apply wf_tree_weak|apply ww_caps]. Qed.
Print Assumptions C17_wf_implications.

(* ---------- numbering_rule ---------- *)
(* default mode: unnamed groups are 1..u in order of their "("; an explicitly numbered group is
   filed under its number; the distinct names, in order of first appearance, get the successive
   numbers from u+1 on that are not explicit numbers; nothing else is a group number. *)
Theorem C17_numbering_rule_default : forall lim o ts t mks,
  ts_ok_unguarded lim ts ->
  prescan false false o ts = Ok (t, mks) ->
  let u := Z.of_nat (length (autos mks)) in
  autos mks = map (fun i => 1 + Z.of_nat i) (seq 0 (length (autos mks)))
  /\ exists ks,
       chain (0 :: autos mks ++ pnums mks) (u + 1) ks
       /\ (forall k, In k (t_caps t) <-> k = 0 \/ In k (autos mks) \/ In k (pnums mks) \/ In k ks)
       /\ match t_capnames t with
          | Some m => Forall2 (fun s k => aget s m = Some k) (new_names [] (pnames mks)) ks
          | None => new_names [] (pnames mks) = []
          end.
Proof. exact numbering_default. Qed.
Print Assumptions C17_numbering_rule_default.

(* MaintainCaptureOrder / ECMAScript / RE2: pure pattern order — every capturing "(" and every
   name not seen before gets the next number; a repeated name keeps its (single) entry.  "(?<2>" counts
   as the name "2" (its mark is PName "2"): unguarded. *)
Theorem C17_numbering_rule_ordered : forall lim ecma o ts t mks,
  ts_ok_unguarded lim ts ->
  prescan true ecma o ts = Ok (t, mks) ->
  mco_rule (fun s => match t_capnames t with Some m => aget s m | None => None end) 1 [] mks.
Proof. exact numbering_ordered. Qed.
Print Assumptions C17_numbering_rule_ordered.

Corollary C17_numbering_rule_ordered_partial : forall lim ecma o ts t mks,
  ts_ok lim true ecma ts ->
  prescan true ecma o ts = Ok (t, mks) ->
  mco_rule (fun s => match t_capnames t with Some m => aget s m | None => None end) 1 [] mks.
Proof. intros lim ecma o ts t mks H. apply (numbering_ordered lim), (ts_ok_weaken _ _ _ _ H). Qed.
Print Assumptions C17_numbering_rule_ordered_partial.

(* ---------- prescan_agrees_with_parse ---------- *)
(* token by token: the main pass creates a capture node exactly where the pre-scan reserved a
   number, and with that number (also across (?n)/(?x) switches, x-mode comments, conditionals, and —
   since /repo 2b27550 — explicit numbers under MaintainCaptureOrder/RE2): unguarded *)
Theorem C17_prescan_agrees_with_parse : forall lim f o ts t mks its,
  ts_ok_unguarded lim ts -> parse f o ts = Ok (t, mks, its) ->
  Forall2 (agrees t) mks its.
Proof. exact parse_agrees. Qed.
Print Assumptions C17_prescan_agrees_with_parse.

Corollary C17_prescan_agrees_with_parse_partial : forall lim f o ts t mks its,
  ts_ok lim (mode_mco f o) (mode_ecma o) ts -> parse f o ts = Ok (t, mks, its) ->
  Forall2 (agrees t) mks its.
Proof. intros lim f o ts t mks its H. apply (parse_agrees lim), (ts_ok_weaken _ _ _ _ H). Qed.
Print Assumptions C17_prescan_agrees_with_parse_partial.

(* ---------- dense_map_bijective (writer remap + Regexp.caps) ---------- *)
(* needs the numbers only ([wf_caps], which C17_table_well_formed gives without the guard) *)
Theorem C17_dense_map_bijective : forall t, wf_caps t ->
  let r := compile_maps t in
  (forall k i, group_by_number r k = Some i -> In k (t_caps t) /\ 0 <= i < r_capsize r)
  /\ (forall k, In k (t_caps t) -> exists i, group_by_number r k = Some i)
  /\ (forall i, 0 <= i < r_capsize r -> exists k, In k (t_caps t) /\ group_by_number r k = Some i)
  /\ (forall k1 k2 i1 i2, group_by_number r k1 = Some i1 -> group_by_number r k2 = Some i2 -> k1 < k2 -> i1 < i2)
  /\ get_group_numbers r = Ok (t_caps t).
Proof. exact dense_map_bijective. Qed.
Print Assumptions C17_dense_map_bijective.

(* ---------- maps_consistent ---------- *)
(* GetGroupNames[i] names GetGroupNumbers[i]; number -> name -> number and name -> number -> name are
   identities (ECMAScript's unnamed groups have the empty name, as documented); GroupByName is
   GroupByNumber of the looked-up number; Groups()[i] is slot i and carries GetGroupNames[i].
   Needs the strong [wf_tree], i.e. the guard (C17_table_well_formed_partial): the third, fourth and sixth
   conjunct are false for "(?<2>a)(b)" under MaintainCaptureOrder (C17_name_number_roundtrip_refuted). *)
Theorem C17_maps_consistent : forall ecma t, wf_tree ecma t ->
  let r := compile_maps t in
  let nums := t_caps t in
  let names := get_group_names r in
  length names = length nums
  /\ (forall i k, nth_error nums i = Some k -> group_name_from_number r k = nth i names [])
  /\ (forall k, In k nums -> let s := group_name_from_number r k in
                              (ecma = true /\ s = []) \/ (s <> [] /\ group_number_from_name r s = k))
  /\ (forall s, In s names -> s <> [] ->
        In (group_number_from_name r s) nums /\ group_name_from_number r (group_number_from_name r s) = s)
  /\ (forall s, group_by_name r s =
                if group_number_from_name r s <? 0 then None else group_by_number r (group_number_from_name r s))
  /\ (forall i k s, nth_error nums i = Some k -> nth_error names i = Some s -> s <> [] ->
        group_by_name r s = Some (Z.of_nat i) /\ group_by_number r k = Some (Z.of_nat i))
  /\ groups_names ecma r = names
  /\ (ecma = false -> forall s, In s names -> s <> []).
Proof. exact maps_consistent. Qed.
Print Assumptions C17_maps_consistent.

(* what is left of it without the guard (weak well-formedness + C17_names_point_to_groups): the lists
   have one length, GroupNameFromNumber reads the list, Groups() carries the list, names are not empty, and
   the name listed for group k is known to GroupNumberFromName and leads to a group — to k itself, unless
   the name is the numeral of k *)
Theorem C17_maps_consistent_unguarded : forall ecma t, wf_weak ecma t -> vals_ok t ->
  let r := compile_maps t in
  let nums := t_caps t in
  let names := get_group_names r in
  length names = length nums
  /\ (forall i k, nth_error nums i = Some k -> group_name_from_number r k = nth i names [])
  /\ (forall i k s, nth_error nums i = Some k -> nth_error names i = Some s ->
        (ecma = true /\ s = [])
        \/ (s <> [] /\ In (group_number_from_name r s) nums
                    /\ (group_number_from_name r s = k \/ s = itoa k)))
  /\ (forall s, group_by_name r s =
                if group_number_from_name r s <? 0 then None else group_by_number r (group_number_from_name r s))
  /\ groups_names ecma r = names
  /\ (ecma = false -> forall s, In s names -> s <> []).
Proof. exact maps_consistent_weak. Qed.
Print Assumptions C17_maps_consistent_unguarded.

(* ---------- refs_use_same_map ---------- *)
(* every number held by Capnames is a group number (unguarded: also the number a digit name holds) ... *)
Theorem C17_names_point_to_groups : forall lim f o ts t mks its,
  ts_ok_unguarded lim ts -> parse f o ts = Ok (t, mks, its) -> vals_ok t.
Proof. exact parse_vals. Qed.
Print Assumptions C17_names_point_to_groups.

Corollary C17_names_point_to_groups_partial : forall lim f o ts t mks its,
  ts_ok lim (mode_mco f o) (mode_ecma o) ts -> parse f o ts = Ok (t, mks, its) -> vals_ok t.
Proof. intros lim f o ts t mks its H. apply (parse_vals lim), (ts_ok_weaken _ _ _ _ H). Qed.
Print Assumptions C17_names_point_to_groups_partial.

(* ... so "$n"/"${n}", "${name}" and the slot a node with number k is compiled to (mapCapnum: groups,
   "\n", "\k<name>", "(?(n)") all go through the one number -> slot map.  Needs the numbers only. *)
Theorem C17_refs_use_same_map : forall t, wf_caps t -> vals_ok t ->
  let r := compile_maps t in
  (forall n, dollar_num r n = group_by_number r n)
  /\ (forall s, dollar_name r s = match r_capnames r with Some _ => group_by_name r s | None => None end)
  /\ (forall k i, group_by_number r k = Some i -> map_capnum r k = i).
Proof. exact refs_use_same_map. Qed.
Print Assumptions C17_refs_use_same_map.

(* ---------- the former refutation: proved instead ---------- *)

(* (?<2>a)(b)(?<n>c) *)
Definition c17_wit : list gtok := [TNumbered 2; TLit 0; TClose; TOpen; TLit 1; TClose; TNamed [110]; TLit 2; TClose].

Definition C17_prescan_agrees_full : Prop := forall lim f o ts t mks its,
  ts_ok_unguarded lim ts -> parse f o ts = Ok (t, mks, its) -> Forall2 (agrees t) mks its.

(* refuted until /repo 2b27550 (C17_prescan_agrees_refuted, witness c17_wit); now it holds *)
Theorem C17_prescan_agrees_full_holds : C17_prescan_agrees_full.
Proof. exact parse_agrees. Qed.
Print Assumptions C17_prescan_agrees_full_holds.

(* ---------- what is still false without the guard: MaintainCaptureOrder with a digit name ---------- *)

Definition C17_name_number_roundtrip_full : Prop := forall lim f o ts t mks its,
  ts_ok_unguarded lim ts -> parse f o ts = Ok (t, mks, its) ->
  forall k, In k (t_caps t) ->
    let r := compile_maps t in let s := group_name_from_number r k in
    (mode_ecma o = true /\ s = []) \/ (s <> [] /\ group_number_from_name r s = k).

Definition C17_table_well_formed_full : Prop := forall lim f o ts t mks its,
  ts_ok_unguarded lim ts -> parse f o ts = Ok (t, mks, its) -> wf_tree (mode_ecma o) t.

Lemma c17_wit_ok : ts_ok_unguarded 100 c17_wit.
Proof.
  unfold ts_ok_unguarded, c17_wit. split; [|split; [|split]].
  - repeat (apply Forall_cons; [cbn; try exact I; try reflexivity; lia|]); apply Forall_nil.
  - repeat (apply Forall_cons; [cbn; try exact I; try reflexivity; lia|]); apply Forall_nil.
  - unfold maxint32. lia.
  - cbn. unfold maxint32. lia.
Qed.

Definition c17_wit_res := Eval vm_compute in parse true 0 c17_wit.
Lemma c17_wit_parse : parse true 0 c17_wit = c17_wit_res.
Proof. vm_compute. reflexivity. Qed.

(* on the old counter-example the two passes agree: "(?<2>" is the NAME "2" (slot 1) in both *)
Example C17_prescan_agrees_on_old_witness :
  match c17_wit_res with Ok (t, mks, its) => Forall2 (agrees t) mks its | _ => False end.
Proof.
  vm_compute. repeat (constructor; try (eexists; split; [reflexivity|]; eexists; split; reflexivity)).
Qed.

(* GetGroupNames is still [0 2 2 n]: number 2 is called "2", but the name "2" means number 1 *)
Theorem C17_name_number_roundtrip_refuted : ~ C17_name_number_roundtrip_full.
Proof.
  intros H. pose proof (H 100 true 0 c17_wit _ _ _ c17_wit_ok c17_wit_parse 2) as F.
  assert (Hin : In 2 [0; 1; 2; 3]) by (cbn; auto).
  specialize (F Hin). vm_compute in F. destruct F as [[E _]|[_ E]]; discriminate.
Qed.
Print Assumptions C17_name_number_roundtrip_refuted.

(* hence the strong well-formedness needs the guard too *)
Theorem C17_table_well_formed_refuted : ~ C17_table_well_formed_full.
Proof.
  intros H. apply C17_name_number_roundtrip_refuted.
  intros lim f o ts t mks its Hok Hp k Hk.
  destruct (maps_consistent _ _ (H lim f o ts t mks its Hok Hp)) as [_ [_ [H3 _]]]. now apply H3.
Qed.
Print Assumptions C17_table_well_formed_refuted.

(* the weak statement on the witness: the entry of the unnamed group 2 is its numeral "2", a key of
   Capnames that holds 1 *)
Example C17_witness_weak_entry :
  match c17_wit_res with
  | Ok (t, _, _) => get_group_names (compile_maps t) = [[48]; [50]; [50]; [110]]
                    /\ group_number_from_name (compile_maps t) [50] = 1
                    /\ group_name_from_number (compile_maps t) 2 = [50]
  | _ => False
  end.
Proof. vm_compute. repeat split; reflexivity. Qed.

(* ---------- non-vacuity ---------- *)

(* (a)(?<n>b)(?<5>c): sparse numbers, a name, the dense remap, every lookup *)
Example C17_witness_sparse :
  let ts := [TOpen; TLit 0; TClose; TNamed [110]; TLit 1; TClose; TNumbered 5; TLit 2; TClose] in
  ts_ok 100 false false ts
  /\ exists t mks its, parse false 0 ts = Ok (t, mks, its)
     /\ t_caps t = [0; 1; 2; 5]
     /\ mks = [PAuto 1; PNone; PNone; PName [110]; PNone; PNone; PNum 5; PNone; PNone]
     /\ its = [ICapture 1; INone; IClose; ICapture 2; INone; IClose; ICapture 5; INone; IClose]
     /\ get_group_names (compile_maps t) = [[48]; [49]; [110]; [53]]
     /\ get_group_numbers (compile_maps t) = Ok [0; 1; 2; 5]
     /\ map (group_by_number (compile_maps t)) [0; 1; 2; 3; 4; 5; 6] = [Some 0; Some 1; Some 2; None; None; Some 3; None]
     /\ group_by_name (compile_maps t) [110] = Some 2
     /\ groups_names false (compile_maps t) = [[48]; [49]; [110]; [53]]
     /\ dollar_num (compile_maps t) 5 = Some 3 /\ dollar_name (compile_maps t) [110] = Some 2.
Proof.
  cbn zeta. split.
  - unfold ts_ok. split; [|split; [|split; [|split]]].
    + repeat (apply Forall_cons; [cbn; try exact I; try reflexivity; lia|]); apply Forall_nil.
    + repeat (apply Forall_cons; [cbn; try exact I; try reflexivity; lia|]); apply Forall_nil.
    + discriminate.
    + unfold maxint32. lia.
    + cbn. unfold maxint32. lia.
  - eexists _, _, _. split; [vm_compute; reflexivity|]. vm_compute. repeat split; reflexivity.
Qed.

(* MaintainCaptureOrder: (?n)(a)(?<x>b)(?-n)(c)(?<x>d) -> x is 1, (c) is 2, the second x reuses 1 *)
Example C17_witness_ordered :
  let ts := [TOptSet [OBit 4]; TOpen; TLit 0; TClose; TNamed [120]; TLit 1; TClose; TOptSet [OMinus; OBit 4];
             TOpen; TLit 2; TClose; TNamed [120]; TLit 3; TClose] in
  ts_ok 100 true false ts
  /\ exists t mks its, parse true 0 ts = Ok (t, mks, its)
     /\ its = [INone; IGroup; INone; IClose; ICapture 1; INone; IClose; INone; ICapture 2; INone; IClose; ICapture 1; INone; IClose]
     /\ get_group_names (compile_maps t) = [[48]; [120]; [50]].
Proof.
  cbn zeta. split.
  - unfold ts_ok. split; [|split; [|split; [|split]]].
    + repeat (apply Forall_cons; [cbn; try exact I; try reflexivity; lia|]); apply Forall_nil.
    + repeat (apply Forall_cons; [cbn; try exact I; try reflexivity; lia|]); apply Forall_nil.
    + intros _ _. repeat (apply Forall_cons; [cbn; try exact I; try reflexivity; lia|]); apply Forall_nil.
    + unfold maxint32. lia.
    + cbn. unfold maxint32. lia.
  - eexists _, _, _. split; [vm_compute; reflexivity|]. vm_compute. split; reflexivity.
Qed.

(* the conditional whose condition is a lookahead: after the fix the pre-scan and the main pass agree *)
Example C17_witness_conditional :
  (* (?(?=a)(a)|c)(d) *)
  let ts := [TCondHead; TGroup GAheadPos; TLit 0; TClose; TOpen; TLit 0; TClose; TLit 1000; TLit 2; TClose; TOpen; TLit 3; TClose] in
  exists t mks its, parse false 0 ts = Ok (t, mks, its)
    /\ its = [IGroup; IGroup; INone; IClose; ICapture 1; INone; IClose; INone; INone; IClose; ICapture 2; INone; IClose]
    /\ mks = [PNone; PNone; PNone; PNone; PAuto 1; PNone; PNone; PNone; PNone; PNone; PAuto 2; PNone; PNone].
Proof. cbn zeta. eexists _, _, _. split; [vm_compute; reflexivity|]. split; reflexivity. Qed.

(* MaintainCaptureOrder with explicit numbers, satisfying the unguarded hypotheses:
   (?<2>a)(b)(?<2>c)(?<n>d) -> "2" is 1, (b) is 2, the second "2" reuses 1, n is 3 *)
Example C17_witness_ordered_digits :
  let ts := [TNumbered 2; TLit 0; TClose; TOpen; TLit 1; TClose; TNumbered 2; TLit 2; TClose; TNamed [110]; TLit 3; TClose] in
  ts_ok_unguarded 100 ts
  /\ exists t mks its, parse true 0 ts = Ok (t, mks, its)
     /\ mks = [PName [50]; PNone; PNone; PAuto 2; PNone; PNone; PName [50]; PNone; PNone; PName [110]; PNone; PNone]
     /\ its = [ICapture 1; INone; IClose; ICapture 2; INone; IClose; ICapture 1; INone; IClose; ICapture 3; INone; IClose]
     /\ t_caps t = [0; 1; 2; 3].
Proof.
  cbn zeta. split.
  - unfold ts_ok_unguarded. split; [|split; [|split]].
    + repeat (apply Forall_cons; [cbn; try exact I; try reflexivity; lia|]); apply Forall_nil.
    + repeat (apply Forall_cons; [cbn; try exact I; try reflexivity; lia|]); apply Forall_nil.
    + unfold maxint32. lia.
    + cbn. unfold maxint32. lia.
  - eexists _, _, _. split; [vm_compute; reflexivity|]. vm_compute. repeat split; reflexivity.
Qed.

(* MaintainCaptureOrder used to reject (a)(?<n>b)(?<5>c) (second half of the old finding); since /repo 2b27550 it
   is accepted, "5" being the name of the third group *)
Example C17_witness_mco_accepts :
  exists t mks, parse true 0 [TOpen; TLit 0; TClose; TNamed [110]; TLit 1; TClose; TNumbered 5; TLit 2; TClose]
    = Ok (t, mks, [ICapture 1; INone; IClose; ICapture 2; INone; IClose; ICapture 3; INone; IClose]).
Proof. eexists _, _. vm_compute. reflexivity. Qed.
