(* C16 — character-class membership is exact set algebra.  (placeholder until the proofs land) *)
From Verif Require Import Base.Prelude Model.CharClass.

Theorem C16_placeholder : max_rune = 1114111.
Proof. reflexivity. Qed.
Print Assumptions C16_placeholder.
