(* C16 — character-class membership is exact set algebra.
   This file only states the property theorems; proofs are in Proofs/CharClass*.v.

   Vocabulary (Proofs/CharClassRanges.v, Proofs/CharClassProofs.v, Proofs/CharClassElab.v):
     mem rs ch          plain membership of ch in a list of ranges (no ordering assumed)
     plain_in c ch      set algebra on the representation of a class:
                        (negate XOR (ch in some range OR some category accepts ch)) AND NOT (ch in the subtracted class)
     canonical c        at every subtraction level the ranges are sorted, disjoint, non-adjacent, non-empty
     bitmaps_ok c       every ASCII bitmap present is the one prepareASCIIBitmap computes
     wf_ranges rs       every range satisfies 0 <= first <= last <= 0x10FFFF
     valid_rune ch      0 <= ch <= 0x10FFFF
     sem o s / denote   the set algebra a bracket expression s means under options o
     elab s o           the CharSet the parser builds for s (scanCharSet + the node's case conversion).
                        Since /repo commit dd13520 scanCharSet folds case (addLowercase, addCaseEquivalences)
                        BEFORE it restores the negate flag and canonicalizes; the model follows that order
                        (scan_char_set takes fuel and returns res).  elab_old is the order before the fix.
   cat_in (unicode.Is per category name, IsSpace, IsWordChar), simple_fold, to_lower are universally
   quantified oracles. *)
From Verif Require Import Base.Prelude Model.CharClass Model.FoldD
  Proofs.CharClassRanges Proofs.CharClassProofs Proofs.CharClassOverlap Proofs.CharClassElab
  Proofs.CharClassFold Proofs.CharClassFoldThm Proofs.CharClassCi Proofs.CharClassCi2 Proofs.CharClassCi3 Proofs.CharClassCi4 Proofs.CharClassCi5 Proofs.CharClassCi6 Gen.CharClassGen Proofs.CharClassGenCheck.

(* ------------------------------------------------------------------------------------------------
   lookup_paths_agree: on a canonical class every lookup path is plain membership, for EVERY rune
   (also negative ones and ones above U+10FFFF): CharIn (ASCII bitmap fast path when there is one,
   including the subtracted class's own bitmap), charInSlow, CharIn after prepareASCIIBitmap, the
   bitmap bit itself, the <=4-range linear scan with early exit and the binary search. *)
Theorem C16_lookup_paths_agree :
  forall (cat_in : Z -> Z -> bool) (c : cls) (ch : Z),
    canonical c -> bitmaps_ok cat_in c ->
    char_in cat_in c ch = plain_in cat_in c ch /\
    char_in_slow cat_in c ch = plain_in cat_in c ch /\
    char_in cat_in (prepare_ascii_bitmap cat_in c) ch = plain_in cat_in c ch /\
    (match ascii c with
     | Some bm => 0 <= ch < 128 -> bitmap_test bm ch = plain_in cat_in c ch
     | None => True
     end) /\
    linear_scan (ranges c) ch = mem (ranges c) ch /\
    binary_scan (ranges c) ch = mem (ranges c) ch.
Proof. exact lookup_paths_agree. Qed.
Print Assumptions C16_lookup_paths_agree.

(* the binary search never runs out of the fuel the model gives it *)
Theorem C16_bsearch_fuel_stable :
  forall p rs ch fuel, sorted_from p rs -> (length rs <= fuel)%nat ->
    bsearch fuel rs ch 0 (zlen rs) = bsearch (length rs) rs ch 0 (zlen rs).
Proof. exact bsearch_fuel_stable. Qed.
Print Assumptions C16_bsearch_fuel_stable.

(* ------------------------------------------------------------------------------------------------
   canonicalize_preserves.  Full statement: canonicalize never changes what a class matches, for
   arbitrary (unsorted, overlapping, abutting) well-formed range lists, whatever categories, negation
   and subtraction the class has. *)
Definition C16_canonicalize_preserves_full : Prop :=
  forall (cat_in : Z -> Z -> bool) (c : cls) (ch : Z),
    wf_ranges (ranges c) -> plain_in cat_in (canonicalize cat_in c) ch = plain_in cat_in c ch.

(* Refuted for runes outside 0..0x10FFFF (reachable through []rune inputs): the negated normal forms
   at charclass.go:863-922 and makeAnything are equivalences on valid runes only.
   Witness [\x00-\x60b-\x{10FFFF}] and rune 0x110000 (known finding rune_out_of_range). *)
Theorem C16_canonicalize_preserves_refuted : ~ C16_canonicalize_preserves_full.
Proof.
  intros H. specialize (H (fun _ _ => false) (ranges_cls [(0, 96); (98, 1114111)]) 1114112).
  assert (W : wf_ranges (ranges (ranges_cls [(0, 96); (98, 1114111)]))) by (cbn [ranges ranges_cls]; solve_wf).
  specialize (H W). vm_compute in H. discriminate.
Qed.
Print Assumptions C16_canonicalize_preserves_refuted.

(* Partial: every valid rune.  Covers the merge loop and the three special normal forms (single
   negated gap, "everything", "all but one character with categories"). *)
Theorem C16_canonicalize_preserves_partial :
  forall (cat_in : Z -> Z -> bool) (c : cls) (ch : Z),
    wf_ranges (ranges c) -> valid_rune ch ->
    plain_in cat_in (canonicalize cat_in c) ch = plain_in cat_in c ch.
Proof. exact canonicalize_plain_in. Qed.
Print Assumptions C16_canonicalize_preserves_partial.

(* canonical_sorted: the output ranges are sorted, disjoint, non-adjacent, non-empty and still
   inside [0, 0x10FFFF]; subtraction and bitmap are untouched. *)
Theorem C16_canonical_sorted :
  forall (cat_in : Z -> Z -> bool) (c : cls),
    wf_ranges (ranges c) ->
    canonical_ranges (ranges (canonicalize cat_in c)) /\ wf_ranges (ranges (canonicalize cat_in c)) /\
    sub (canonicalize cat_in c) = sub c /\ ascii (canonicalize cat_in c) = ascii c.
Proof.
  intros cat_in c H. destruct (canonicalize_canonical_ranges cat_in c H) as [A B].
  destruct (canonicalize_sub cat_in c) as [C D]. auto.
Qed.
Print Assumptions C16_canonical_sorted.

(* ------------------------------------------------------------------------------------------------
   the add* mutators are unions (valid runes; any_inv: the anything flag is only set together with
   the range [0, 0x10FFFF], which every producer in charclass.go guarantees). *)
Theorem C16_add_range_union :
  forall (cat_in : Z -> Z -> bool) (c : cls) (lo hi ch : Z),
    neg c = false -> wf_ranges (ranges c) -> 0 <= lo -> lo <= hi -> hi <= max_rune -> valid_rune ch ->
    plain_in cat_in (add_range cat_in c lo hi) ch =
    (body cat_in c ch || ((lo <=? ch) && (ch <=? hi))) && negb (sub_in cat_in c ch).
Proof. exact add_range_union. Qed.
Print Assumptions C16_add_range_union.

Theorem C16_add_set_union :
  forall (cat_in : Z -> Z -> bool) (c s : cls) (ch : Z),
    neg c = false -> any_inv c -> any_inv s -> wf_ranges (ranges c) -> wf_ranges (ranges s) -> valid_rune ch ->
    plain_in cat_in (add_set cat_in c s) ch =
    (body cat_in c ch || body cat_in s ch) && negb (sub_in cat_in c ch).
Proof. exact add_set_union. Qed.
Print Assumptions C16_add_set_union.

Theorem C16_add_categories_union :
  forall (cat_in : Z -> Z -> bool) (c : cls) (l : list (bool * Z)) (ch : Z),
    neg c = false -> any_inv c -> valid_rune ch ->
    plain_in cat_in (add_categories c l) ch =
    (body cat_in c ch || cats_in cat_in l ch) && negb (sub_in cat_in c ch).
Proof. exact add_categories_union. Qed.
Print Assumptions C16_add_categories_union.

(* "X and not-X => anything" *)
Theorem C16_add_categories_clash :
  forall (cat_in : Z -> Z -> bool) (c : cls) (ng : bool) (name ch : Z),
    neg c = false -> sub c = None -> any_inv c -> valid_rune ch -> In (ng, name) (cats c) ->
    plain_in cat_in (add_categories c [(negb ng, name)]) ch = true.
Proof. exact add_categories_clash. Qed.
Print Assumptions C16_add_categories_clash.

(* ------------------------------------------------------------------------------------------------
   singleton_reduction (tree.go reduceSet): a Set node rewritten to One / Notone matches the same
   runes as the class did, for every rune. *)
Theorem C16_singleton_reduction :
  forall (cat_in : Z -> Z -> bool) (c : cls) (r : reduced),
    bitmaps_ok cat_in c -> reduce_set c = Ok r ->
    forall ch, reduced_in cat_in r ch = char_in cat_in c ch.
Proof. exact reduce_set_sound. Qed.
Print Assumptions C16_singleton_reduction.

(* ------------------------------------------------------------------------------------------------
   may_overlap_sound: MayOverlap = false means no rune at all is in both classes.  The only facts
   about Unicode used (space_facts, behind knownDistinctSets; checked against the running Go toolchain
   on all code points by leg c16-class-0): white space and the ECMAScript \s characters are neither
   decimal digits nor word characters. *)
Theorem C16_may_overlap_sound :
  forall (cat_in : Z -> Z -> bool) (a b : cls),
    space_facts cat_in ->
    canonical a -> canonical b -> bitmaps_ok cat_in a -> bitmaps_ok cat_in b ->
    may_overlap cat_in a b = false ->
    forall ch, ~ (char_in cat_in a ch = true /\ char_in cat_in b ch = true).
Proof. exact may_overlap_sound_plain. Qed.
Print Assumptions C16_may_overlap_sound.

(* ------------------------------------------------------------------------------------------------
   char_in_denote.  Full statement: for every bracket expression (characters, ranges, \d\s\w\D\S\W,
   \p{..}/\P{..}, POSIX names, negation, nested subtraction), every option set and EVERY rune, CharIn
   on the class the parser builds = set algebra on the expression. *)
Definition C16_char_in_denote_full : Prop :=
  forall (cat_in : Z -> Z -> bool) (simple_fold to_lower : Z -> Z) (fuel : nat) (s : csyn) (o : opts) (c : cls) (ch : Z),
    wf_syn s -> elab cat_in simple_fold to_lower fuel s o = Ok c ->
    char_in cat_in c ch = denote cat_in simple_fold fuel (sem o s) ch.

(* Refuted twice on the faithful model (both listed in known_findings.txt):
   (1) rune_out_of_range: [\x00-\x60b-\x{10FFFF}] accepts the invalid rune 0x110000;
   (2) ci_negated_case_category: (?i)[\P{Lu}] accepts 'A' (addCategory widens a negated cased-letter
       category to the UNION of three negated categories = everything). *)
Theorem C16_char_in_denote_refuted : ~ C16_char_in_denote_full.
Proof.
  intros H.
  specialize (H (fun _ _ => false) (fun x => x) (fun x => x) 8%nat
                (CSyn false [IRange 0 96; IRange 98 1114111] None) (Opts false false false)).
  specialize (H (Cls [(97, 97)] [] None true false None) 1114112).
  assert (W : wf_syn (CSyn false [IRange 0 96; IRange 98 1114111] None)).
  { cbn [wf_syn]. split; [|exact I]. repeat (apply Forall_cons; [unfold wf_item, max_rune; lia|]). apply Forall_nil. }
  specialize (H W eq_refl). vm_compute in H. discriminate.
Qed.
Print Assumptions C16_char_in_denote_refuted.

Theorem C16_char_in_denote_refuted_ci_negated_case_category :
  exists (cat_in : Z -> Z -> bool) (simple_fold to_lower : Z -> Z) (s : csyn) (c : cls),
    let o := Opts true false false in
    wf_syn s /\ elab cat_in simple_fold to_lower 8 s o = Ok c /\
    char_in cat_in c 65 = true /\ denote cat_in simple_fold 8 (sem o s) 65 = false.
Proof.
  (* Lu = A-Z, Ll = a-z, fold swaps them *)
  exists (fun name ch => if name =? cat_Lu then (65 <=? ch) && (ch <=? 90)
                         else if name =? cat_Ll then (97 <=? ch) && (ch <=? 122) else false).
  exists (fun x => if (65 <=? x) && (x <=? 90) then x + 32 else if (97 <=? x) && (x <=? 122) then x - 32 else x).
  exists (fun x => if (65 <=? x) && (x <=? 90) then x + 32 else x).
  exists (CSyn false [IProp true cat_Lu] None).
  eexists. cbn zeta. split; [cbn [wf_syn]; split; [apply Forall_cons; [exact I|apply Forall_nil]|exact I]|].
  split; [vm_compute; reflexivity|]. split; vm_compute; reflexivity.
Qed.
Print Assumptions C16_char_in_denote_refuted_ci_negated_case_category.

(* Partial (1), proved in full generality for the case-sensitive option sets (none, ECMAScript, RE2
   and their shorthand/POSIX tables) and every valid rune.  Partial (2) below covers IgnoreCase.
   What is missing for the full statement is exactly what the refutations above show (invalid runes,
   negated cased-letter categories under IgnoreCase) plus, under IgnoreCase, members and runes outside
   the generated table (where lcTable / ToLower and SimpleFold disagree, e.g. U+0130, U+00D7, U+1E9E). *)
Theorem C16_char_in_denote_partial :
  forall (cat_in : Z -> Z -> bool) (simple_fold to_lower : Z -> Z) (fuel : nat) (s : csyn) (o : opts) (c : cls) (ch : Z),
    o_ci o = false -> wf_syn s -> valid_rune ch ->
    elab cat_in simple_fold to_lower fuel s o = Ok c ->
    char_in cat_in c ch = denote cat_in simple_fold fuel (sem o s) ch.
Proof. intros. eapply char_in_denote_cs; eauto. Qed.
Print Assumptions C16_char_in_denote_partial.

(* Partial (2), IgnoreCase (alone or with ECMAScript / RE2): for oracles that agree with the generated
   table on dom_t and whose SimpleFold orbits outside the table stay outside it (outside_ok; both checked
   against the running toolchain on every code point by leg c16-class-0), every bracket expression in
   C16's IgnoreCase domain ci_syn_ok_ext, nested subtraction included, and every rune z of the table:
   CharIn on the class the parser builds = set algebra with the code-point members folded over their
   SimpleFold orbits (CFold).
   C16's IgnoreCase domain (ci_syn_ok_ext = ci_syn_okx True, Proofs/CharClassCi4.v), per bracket level:
     - a range or single member [a, b] whose runes all lie in good_dom (all of ASCII, all plain
       upper/lower pairs of Latin-1, Greek, Cyrillic: C16_bad_points; so in particular ranges with
       ASCII endpoints), OR
     - a complement-shaped range [a, b] with a <= U+0080 and b >= U+10000 ("everything from a on":
       [b-\x{10FFFF}], [\x01-\x{10FFFF}], [\x00-\x{10FFFE}], and with a good range [\x00-\x60b-\x{10FFFF}]),
       provided some range of the same level contains 'i' or 'I' (always so when a <= 'i'; the range
       contains U+0130, which lcTable lowers to 'i' although the two are not in one SimpleFold orbit);
       these are the classes canonicalize rewrites into a negated normal form AFTER case folding;
     - positive ASCII-table shorthands / POSIX names, any category but no NEGATED cased-letter category.
   STATEMENT CHANGE (domain extension after /repo fix dd13520): the domain grew from ci_syn_ok to
   ci_syn_ok_ext (ci_syn_ok implies it: ci_syn_ok_ext_of) and the oracle hypothesis outside_ok was added,
   which the complement-shaped ranges need.  The previous statement is kept verbatim as
   C16_char_in_denote_partial_ignorecase_table below. *)
Theorem C16_char_in_denote_partial_ignorecase :
  forall (cat_in : Z -> Z -> bool) (simple_fold to_lower : Z -> Z),
    (forall x, In x dom_t -> simple_fold x = fold_t x /\ to_lower x = lower_t x) ->
    outside_ok simple_fold ->
    forall (o : opts) (s : csyn) (c : cls) (z : Z),
      o_ci o = true -> wf_syn s -> ci_syn_ok_ext o s -> In z dom_t ->
      elab cat_in simple_fold to_lower orbit_fuel s o = Ok c ->
      char_in cat_in c z = denote cat_in simple_fold orbit_fuel (sem o s) z.
Proof. intros cat_in sf tl Hag Hout o s c z Hci. apply char_in_denote_ci_ext; auto. Qed.
Print Assumptions C16_char_in_denote_partial_ignorecase.

(* the statement before the domain extension (members in good_dom only; nothing assumed about SimpleFold
   outside the table) - still a theorem, for the fixed order of scanCharSet *)
Theorem C16_char_in_denote_partial_ignorecase_table :
  forall (cat_in : Z -> Z -> bool) (simple_fold to_lower : Z -> Z),
    (forall x, In x dom_t -> simple_fold x = fold_t x /\ to_lower x = lower_t x) ->
    forall (o : opts) (s : csyn) (c : cls) (z : Z),
      o_ci o = true -> wf_syn s -> ci_syn_ok o s -> In z dom_t ->
      elab cat_in simple_fold to_lower orbit_fuel s o = Ok c ->
      char_in cat_in c z = denote cat_in simple_fold orbit_fuel (sem o s) z.
Proof. intros cat_in sf tl Hag o s c z Hci. apply char_in_denote_ci; auto. Qed.
Print Assumptions C16_char_in_denote_partial_ignorecase_table.

(* The order of scanCharSet BEFORE /repo fix dd13520 (canonicalize the finished class, then fold case:
   elab_old) refutes the same statement: [\x00-\x60b-\x{10FFFF}] names 'A', canonicalize rewrote it to
   [^a], folding the EXCLUDED 'a' gave [^Aa], and the class rejected 'A' (and 'a').  The witness lies in
   the extended domain only - C16's former IgnoreCase domain had no complement-shaped ranges, which is
   why the defect was invisible to it. *)
Theorem C16_char_in_denote_old_order_refuted :
  ~ (forall (cat_in : Z -> Z -> bool) (simple_fold to_lower : Z -> Z),
       (forall x, In x dom_t -> simple_fold x = fold_t x /\ to_lower x = lower_t x) ->
       outside_ok simple_fold ->
       forall (o : opts) (s : csyn) (c : cls) (z : Z),
         o_ci o = true -> wf_syn s -> ci_syn_ok_ext o s -> In z dom_t ->
         elab_old cat_in simple_fold to_lower orbit_fuel s o = Ok c ->
         char_in cat_in c z = denote cat_in simple_fold orbit_fuel (sem o s) z).
Proof.
  intros H.
  set (s := CSyn false [IRange 0 96; IRange 98 1114111] None).
  specialize (H (fun _ _ => false) fold_t lower_t (fun x _ => conj eq_refl eq_refl) outside_ok_fold_t
                (Opts true false false) s (Cls [(65, 65); (97, 97)] [] None true false None) 65 eq_refl).
  assert (W : wf_syn s).
  { cbn [wf_syn s]. split; [|exact I]. repeat (apply Forall_cons; [unfold wf_item, max_rune; lia|]). apply Forall_nil. }
  assert (K : ci_syn_ok_ext (Opts true false false) s).
  { unfold ci_syn_ok_ext. cbn [ci_syn_okx s]. split; [|exact I].
    apply Forall_cons; [cbn [ci_item_okx]; left; intros x Hx; apply ascii_good; lia|].
    apply Forall_cons; [|apply Forall_nil]. cbn [ci_item_okx]. right.
    split; [exact I|]. split; [lia|]. split; [lia|]. exists 0, 96. split; [left; reflexivity|lia]. }
  assert (D : In 65 dom_t) by (apply zmem_In; vm_compute; reflexivity).
  specialize (H W K D). assert (E : elab_old (fun _ _ : Z => false) fold_t lower_t orbit_fuel s (Opts true false false) =
                                      Ok (Cls [(65, 65); (97, 97)] [] None true false None)) by (vm_compute; reflexivity).
  specialize (H E). clear E D K W. vm_compute in H. discriminate H.
Qed.
Print Assumptions C16_char_in_denote_old_order_refuted.

(* ... and the class the parser builds is canonical at every level (so C16_lookup_paths_agree
   applies to it, also after PrepareCharSetASCIIBitmaps). *)
Theorem C16_elab_canonical :
  forall (cat_in : Z -> Z -> bool) (simple_fold to_lower : Z -> Z) (fuel : nat) (s : csyn) (o : opts) (c : cls),
    o_ci o = false -> wf_syn s ->
    elab cat_in simple_fold to_lower fuel s o = Ok c ->
    canonical c /\ bitmaps_ok cat_in c /\ bitmaps_ok cat_in (prepare_ascii_bitmap cat_in c).
Proof.
  intros cat_in sf tl fuel s o c Hci Hw He.
  destruct (elab_canonical_cs cat_in sf tl fuel o s c Hci Hw He) as [A B].
  pose proof (no_bitmaps_ok cat_in c B) as C. repeat split; auto. apply prepare_bitmaps_ok. exact C.
Qed.
Print Assumptions C16_elab_canonical.

(* the same under IgnoreCase, on C16's IgnoreCase domain: whichever normal form canonicalize picks
   after case folding, and after the tree pass expanded the finished class once more *)
Theorem C16_elab_canonical_ignorecase :
  forall (cat_in : Z -> Z -> bool) (simple_fold to_lower : Z -> Z),
    (forall x, In x dom_t -> simple_fold x = fold_t x /\ to_lower x = lower_t x) ->
    outside_ok simple_fold ->
    forall (o : opts) (s : csyn) (c : cls),
      o_ci o = true -> wf_syn s -> ci_syn_ok_ext o s ->
      elab cat_in simple_fold to_lower orbit_fuel s o = Ok c ->
      canonical c /\ bitmaps_ok cat_in c /\ bitmaps_ok cat_in (prepare_ascii_bitmap cat_in c).
Proof.
  intros cat_in sf tl Hag Hout o s c Hci Hw Hok He.
  destruct (elab_canonical_ci_ext cat_in sf tl Hag Hout o Hci s c Hw Hok He) as [A B].
  pose proof (no_bitmaps_ok cat_in c B) as C. repeat split; auto. apply prepare_bitmaps_ok. exact C.
Qed.
Print Assumptions C16_elab_canonical_ignorecase.

(* the generated table itself, extended by the identity, is an oracle with orbits that stay outside *)
Theorem C16_table_oracle_outside_ok : outside_ok fold_t.
Proof. exact outside_ok_fold_t. Qed.
Print Assumptions C16_table_oracle_outside_ok.

(* ------------------------------------------------------------------------------------------------
   case_equiv_closed (IgnoreCase), CLOSED statement over the finite generated table Model/FoldD.v
   (fold_t / lower_t = unicode.SimpleFold / unicode.ToLower of the Go toolchain on dom_t: U+0000-U+024F,
   the plain upper/lower pairs of ASCII, Latin-1, Greek, Cyrillic, the ECMAScript \s characters,
   closed under both functions: 1 3xx runes).  Bound: [a, b] is any range with ASCII endpoints, or any
   single member of dom_t other than U+0130; ch is any rune of dom_t.
   The class IgnoreCase builds from [a-b] (addLowercase, then addCaseEquivalences) contains ch exactly
   when some member of ch's SimpleFold orbit lies in [a, b], and it is closed under SimpleFold. *)
Theorem C16_case_equiv_closed :
  forall a b ch,
    (0 <= a <= b /\ b < 128) \/ (a = b /\ In a dom_t /\ a <> 304) -> In ch dom_t ->
    exists c, ci_class a b = Ok c /\ neg c = false /\ cats c = [] /\
              mem (ranges c) ch = existsb (fun x => (a <=? x) && (x <=? b)) (orbit fold_t orbit_fuel ch) /\
              (mem (ranges c) ch = true -> mem (ranges c) (fold_t ch) = true).
Proof. exact case_equiv_closed_range. Qed.
Print Assumptions C16_case_equiv_closed.

(* case_equiv_closed, GENERAL form (proved, not computed): for oracles that agree with the table on
   dom_t (leg c16-class-0 checks that the table is what the running toolchain computes) and ANY class
   - any number of unsorted, overlapping single members and ranges, any categories, either negate flag -
   whose code-point members lie in good_dom, addLowercase followed by addCaseEquivalences yields a
   canonical class with the same categories and negate flag whose range part contains a rune z of the
   table exactly when some member of z's SimpleFold orbit was a member before: the closure of the
   members under the orbit relation, nothing more and nothing less.
   good_dom is dom_t without the three runes of C16_bad_points (on which ToLower or the lcTable entry
   leaves the SimpleFold orbit). *)
Theorem C16_case_equiv_closed_general :
  forall (cat_in : Z -> Z -> bool) (simple_fold to_lower : Z -> Z),
    (forall x, In x dom_t -> simple_fold x = fold_t x /\ to_lower x = lower_t x) ->
    forall c,
      anything c = false -> sub c = None -> wf_ranges (ranges c) ->
      (forall x, mem (ranges c) x = true -> In x good_dom) ->
      exists c',
        add_case_equivalences cat_in simple_fold orbit_fuel (add_lowercase cat_in to_lower c) = Ok c' /\
        neg c' = neg c /\ cats c' = cats c /\ sub c' = None /\ anything c' = false /\ ascii c' = ascii c /\
        canonical_ranges (ranges c') /\ wf_ranges (ranges c') /\
        forall z, In z dom_t ->
          mem (ranges c') z = existsb (fun x => mem (ranges c) x) (orbit simple_fold orbit_fuel z).
Proof. exact ci_closure. Qed.
Print Assumptions C16_case_equiv_closed_general.

(* the runes of the table outside good_dom: U+00D7 (lcTable maps it to U+00F7), U+0130 (ToLower is 'i'),
   U+1E9E (lcTable maps it to U+1E9F) - all outside C16's IgnoreCase domain; 961 of the 964 table
   runes are good, among them all of ASCII and all of pair_dom *)
Theorem C16_bad_points :
  bad_pts = [215; 304; 7838] /\
  forallb (fun x => zmem x good_dom) (ascii_dom ++ pair_dom) = true.
Proof. exact bad_points_ok. Qed.
Print Assumptions C16_bad_points.

(* the table is closed under SimpleFold and ToLower, every orbit in it is a cycle of at most four
   runes, and the letters of pair_dom really are plain pairs *)
Theorem C16_fold_table_ok : table_closed_ok = true /\ pair_dom_ok = true.
Proof. split; [exact table_closed|exact pair_dom_pairs]. Qed.
Print Assumptions C16_fold_table_ok.

(* observation outside C16's IgnoreCase domain: (?i)[İ] does not contain U+0130 itself *)
Theorem C16_dotted_I_lost :
  exists c, ci_class 304 304 = Ok c /\ mem (ranges c) 304 = false /\ mem (ranges c) 105 = true.
Proof. exact dotted_I_lost. Qed.
Print Assumptions C16_dotted_I_lost.

(* ------------------------------------------------------------------------------------------------
   Non-vacuity witnesses. *)
(* [^a-z0-9_-[m-p]] in ECMAScript mode: the parser's class, canonical, and membership of a few runes *)
Example C16_witness_elab :
  let cat := fun (_ _ : Z) => false in
  let s := CSyn true [IRange 97 122; IDigit false; IRange 95 95] (Some (CSyn false [IRange 109 112] None)) in
  let o := Opts false true false in
  exists c, elab cat (fun x => x) (fun x => x) 8 s o = Ok c /\
            c = Cls [(48, 57); (95, 95); (97, 122)] [] (Some (Cls [(109, 112)] [] None false false None)) true false None /\
            wf_syn s /\ canonical c /\
            map (char_in cat c) [33; 53; 95; 110; 1114111] = [true; false; false; false; true] /\
            map (denote cat (fun x => x) 8 (sem o s)) [33; 53; 95; 110; 1114111] = [true; false; false; false; true].
Proof.
  cbn zeta. eexists. split; [vm_compute; reflexivity|]. split; [reflexivity|].
  split; [cbn [wf_syn]; split; [repeat (apply Forall_cons; [unfold wf_item, max_rune; try exact I; lia|]); apply Forall_nil|split; [repeat (apply Forall_cons; [unfold wf_item, max_rune; lia|]); apply Forall_nil|exact I]]|].
  split; [cbn; repeat split; lia|]. split; vm_compute; reflexivity.
Qed.

(* (?i)[a-z-[b]] with the table as oracle: the hypotheses of C16_char_in_denote_partial_ignorecase hold,
   the class is [A-Za-z\u017F\u212A-[Bb]], and 'B', 'b' are out while 'K', 'k', U+212A are in *)
Example C16_witness_ignorecase :
  let cat := fun (_ _ : Z) => false in
  let s := CSyn false [IRange 97 122] (Some (CSyn false [IRange 98 98] None)) in
  let o := Opts true false false in
  wf_syn s /\ ci_syn_ok o s /\
  exists c, elab cat fold_t lower_t orbit_fuel s o = Ok c /\
            c = Cls [(65, 90); (97, 122); (383, 383); (8490, 8490)] []
                    (Some (Cls [(66, 66); (98, 98)] [] None false false None)) false false None /\
            map (char_in cat c) [66; 98; 75; 107; 8490; 383; 33] = [false; false; true; true; true; true; false] /\
            map (denote cat fold_t orbit_fuel (sem o s)) [66; 98; 75; 107; 8490; 383; 33] = [false; false; true; true; true; true; false].
Proof.
  cbn zeta. split; [cbn [wf_syn]; split; [repeat (apply Forall_cons; [unfold wf_item, max_rune; lia|]); apply Forall_nil|split; [repeat (apply Forall_cons; [unfold wf_item, max_rune; lia|]); apply Forall_nil|exact I]]|].
  split.
  { cbn [ci_syn_ok]. split; [apply Forall_cons; [|apply Forall_nil]|split; [apply Forall_cons; [|apply Forall_nil]|exact I]];
      cbn [ci_item_ok]; intros x Hx; apply ascii_good; lia. }
  eexists. split; [vm_compute; reflexivity|]. split; [reflexivity|]. split; vm_compute; reflexivity.
Qed.

(* complement-shaped ranges under IgnoreCase, with the table as oracle: the hypotheses of
   C16_char_in_denote_partial_ignorecase hold;
   (?i)[\x00-\x60b-\x{10FFFF}] names 'A', so it contains 'a': the class is everything (before fix dd13520
   it was [^Aa], see C16_char_in_denote_old_order_refuted);
   (?i)[\x00-\x5a\x5c-\x{10FFFF}] leaves out '[' only: canonicalize flips AFTER folding to [^\x5b] *)
Example C16_witness_ignorecase_complement :
  let cat := fun (_ _ : Z) => false in
  let o := Opts true false false in
  let s1 := CSyn false [IRange 0 96; IRange 98 1114111] None in
  let s2 := CSyn false [IRange 0 90; IRange 92 1114111] None in
  wf_syn s1 /\ ci_syn_ok_ext o s1 /\ wf_syn s2 /\ ci_syn_ok_ext o s2 /\ outside_ok fold_t /\
  elab cat fold_t lower_t orbit_fuel s1 o = Ok (Cls [(0, 1114111)] [] None false true None) /\
  map (denote cat fold_t orbit_fuel (sem o s1)) [65; 97; 98; 8490] = [true; true; true; true] /\
  elab cat fold_t lower_t orbit_fuel s2 o = Ok (Cls [(91, 91)] [] None true false None) /\
  map (char_in cat (Cls [(91, 91)] [] None true false None)) [90; 91; 92; 107; 8490] = [true; false; true; true; true] /\
  map (denote cat fold_t orbit_fuel (sem o s2)) [90; 91; 92; 107; 8490] = [true; false; true; true; true].
Proof.
  cbn zeta.
  assert (W : forall a, 0 <= a -> a <= 126 ->
                wf_syn (CSyn false [IRange 0 a; IRange (a + 2) 1114111] None) /\
                ci_syn_ok_ext (Opts true false false) (CSyn false [IRange 0 a; IRange (a + 2) 1114111] None)).
  { intros a H0 H1. split.
    - cbn [wf_syn]. split; [|exact I]. repeat (apply Forall_cons; [unfold wf_item, max_rune; lia|]). apply Forall_nil.
    - unfold ci_syn_ok_ext. cbn [ci_syn_okx]. split; [|exact I].
      apply Forall_cons; [cbn [ci_item_okx]; left; intros x Hx; apply ascii_good; lia|].
      apply Forall_cons; [|apply Forall_nil]. cbn [ci_item_okx]. right.
      split; [exact I|]. split; [lia|]. split; [lia|].
      destruct (Z.le_gt_cases 73 a) as [G|G].
      + exists 0, a. split; [left; reflexivity|lia].
      + exists (a + 2), 1114111. split; [right; left; reflexivity|lia]. }
  destruct (W 96 ltac:(lia) ltac:(lia)) as [W1 K1].
  destruct (W 90 ltac:(lia) ltac:(lia)) as [W2 K2].
  split; [exact W1|]. split; [exact K1|]. split; [exact W2|]. split; [exact K2|].
  split; [exact outside_ok_fold_t|].
  split; [vm_compute; reflexivity|]. split; [vm_compute; reflexivity|].
  split; [vm_compute; reflexivity|]. split; vm_compute; reflexivity.
Qed.

(* unsorted, overlapping, abutting ranges: canonicalize merges them; six ranges go through the binary search *)
Example C16_witness_canonicalize :
  let cat := fun (_ _ : Z) => false in
  let c := ranges_cls [(100, 120); (10, 20); (21, 30); (15, 40); (300, 300); (50, 50); (52, 52); (54, 54); (56, 56); (58, 58)] in
  ranges (canonicalize cat c) = [(10, 40); (50, 50); (52, 52); (54, 54); (56, 56); (58, 58); (100, 120); (300, 300)] /\
  canonical (canonicalize cat c) /\
  map (char_in cat (canonicalize cat c)) [9; 10; 40; 41; 53; 54; 300] = [false; true; true; false; false; true; true].
Proof. cbn zeta. split; [vm_compute; reflexivity|]. split; [vm_compute; repeat split; easy|vm_compute; reflexivity]. Qed.

(* the three normal forms *)
Example C16_witness_normal_forms :
  let cat := fun (name ch : Z) => (name =? 5) && (48 <=? ch) && (ch <=? 57) in
  canonicalize cat (ranges_cls [(98, 1114111); (0, 96)]) = Cls [(97, 97)] [] None true false None /\
  canonicalize cat (ranges_cls [(0, 50); (51, 1114111)]) = Cls [(0, 1114111)] [] None false true None /\
  canonicalize cat (Cls [(0, 52); (54, 1114111)] [(false, 5)] None false false None) = Cls [(0, 1114111)] [] None false true None /\
  canonicalize cat (Cls [(0, 96); (98, 1114111)] [(false, 5)] None false false None) = Cls [(97, 97)] [] None true false None.
Proof. cbn zeta. repeat split; vm_compute; reflexivity. Qed.

(* MayOverlap answers false for [a-f] / [x-z] and for \s / \d, true for [a-f] / [e-k] *)
Example C16_witness_may_overlap :
  let cat := fun (_ _ : Z) => false in
  may_overlap cat (ranges_cls [(97, 102)]) (ranges_cls [(120, 122)]) = false /\
  may_overlap cat space_class digit_class = false /\
  may_overlap cat (ranges_cls [(97, 102)]) (ranges_cls [(101, 107)]) = true.
Proof. cbn zeta. repeat split; vm_compute; reflexivity. Qed.

(* IgnoreCase on the table: [k] contains k, K and U+212A KELVIN SIGN; [a-z] contains U+017F *)
Example C16_witness_case :
  (exists c, ci_class 107 107 = Ok c /\ ranges c = [(75, 75); (107, 107); (8490, 8490)]) /\
  (exists c, ci_class 97 122 = Ok c /\ ranges c = [(65, 90); (97, 122); (383, 383); (8490, 8490)]).
Proof. split; eexists; split; vm_compute; reflexivity. Qed.

(* The tables the model carries as data (lcTable with its four operation codes, the boundary lists
   behind the ECMAScript / RE2 shorthand classes) are the tables of /repo/syntax/charclass.go as the
   translator reads them on every run (coq/Gen/CharClassGen.v). *)
Theorem C16_tables_are_source_tables :
  lc_table = G_lcTable /\
  (G_LowercaseSet = 0 /\ G_LowercaseAdd = 1 /\ G_LowercaseBor = 2 /\ G_LowercaseBad = 3) /\
  ecma_space_ranges = ccg_pairs G_ecmaSpace /\ ecma_word_ranges = ccg_pairs G_ecmaWord /\
  ecma_digit_ranges = ccg_pairs G_ecmaDigit /\ re2_space_ranges = ccg_pairs G_re2Space.
Proof. exact ccg_all. Qed.
Print Assumptions C16_tables_are_source_tables.
