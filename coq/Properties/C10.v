(* C10 — arbitrary patterns and inputs never panic or hang the API.
   What a theorem can carry here is memory safety / totality of the MODELLED layers: every Go fault
   site in them is a [Crash] value of the model, and the theorems below say it is unreachable.
   Each is proved in the development of the property that owns the layer; this file only collects them
   (the statements are printed by the [Check] commands and are spelled out in the owning files).
   NOT covered by any theorem: the pattern parser and class canonicaliser on arbitrary byte strings,
   and termination of the interpreter on every program (leg c10-robust explores those). *)
From Verif Require Properties.C08 Properties.C09 Properties.C13 Properties.C18 Proofs.SpecBoundsProofs Proofs.SpecProofs.

(* the interpreter never pushes beyond the capacity of the backtracking stack: with at least
   4*TrackCount free slots at every check (which ensureStorage guarantees) a step at an instruction
   boundary never overflows — for EVERY limit; the only abnormal outcome is ErrBacktrackingStackLimit *)
Theorem C10_interpreter_step_never_overflows :
  ltac:(let t := type of Verif.Properties.C13.C13_step_no_overflow in exact t).
Proof. exact Verif.Properties.C13.C13_step_no_overflow. Qed.
Print Assumptions C10_interpreter_step_never_overflows.
Check Verif.Properties.C13.C13_step_no_overflow.

(* the capacity argument's static half holds for every program the writer can emit *)
Theorem C10_compiled_push_weight :
  ltac:(let t := type of Verif.Properties.C13.C13_compiled_push_weight in exact t).
Proof. exact Verif.Properties.C13.C13_compiled_push_weight. Qed.
Print Assumptions C10_compiled_push_weight.
Check Verif.Properties.C13.C13_compiled_push_weight.

(* a stack limit can only surface as the stack-limit error or be invisible (given control-flow safety) *)
Theorem C10_limit_dichotomy_partial :
  ltac:(let t := type of Verif.Properties.C13.C13_limit_dichotomy_partial in exact t).
Proof. exact Verif.Properties.C13.C13_limit_dichotomy_partial. Qed.
Print Assumptions C10_limit_dichotomy_partial.
Check Verif.Properties.C13.C13_limit_dichotomy_partial.

(* every position and capture the reference search produces lies inside the input, so no text read
   of a match object can be out of range *)
Theorem C10_search_stays_inside_the_input :
  ltac:(let t := type of Verif.Proofs.SpecBoundsProofs.C08_spec_captures_in_bounds in exact t).
Proof. exact Verif.Proofs.SpecBoundsProofs.C08_spec_captures_in_bounds. Qed.
Print Assumptions C10_search_stays_inside_the_input.
Check Verif.Proofs.SpecBoundsProofs.C08_spec_captures_in_bounds.

(* NewReplacerData: the two explicit panics of replacerdata.go are unreachable *)
Theorem C10_replacer_data_no_panic :
  ltac:(let t := type of Verif.Properties.C09.C09_replacer_data_no_panic in exact t).
Proof. exact Verif.Properties.C09.C09_replacer_data_no_panic. Qed.
Print Assumptions C10_replacer_data_no_panic.
Check Verif.Properties.C09.C09_replacer_data_no_panic.

(* Replace / Split drivers on well-formed match sequences return a value or a documented error *)
Theorem C10_replace_count_startat :
  ltac:(let t := type of Verif.Properties.C09.C09_replace_count_startat in exact t).
Proof. exact Verif.Properties.C09.C09_replace_count_startat. Qed.
Print Assumptions C10_replace_count_startat.

(* UTF-8 decoding of arbitrary bytes (invalid UTF-8 included) is total and consumes every byte *)
Theorem C10_decode_total :
  ltac:(let t := type of Verif.Properties.C08.C08_decode_total in exact t).
Proof. exact Verif.Properties.C08.C08_decode_total. Qed.
Print Assumptions C10_decode_total.
Check Verif.Properties.C08.C08_decode_total.

(* byte-range conversion never indexes outside its tables *)
Theorem C10_byte_range_slices :
  ltac:(let t := type of Verif.Properties.C08.C08_byte_range_slices in exact t).
Proof. exact Verif.Properties.C08.C08_byte_range_slices. Qed.
Print Assumptions C10_byte_range_slices.

(* the capture pre-scan's option handling cannot fault, whatever the token list *)
Theorem C10_prescan_total :
  ltac:(let t := type of Verif.Properties.C18.C18_prescan_total in exact t).
Proof. exact Verif.Properties.C18.C18_prescan_total. Qed.
Print Assumptions C10_prescan_total.
Check Verif.Properties.C18.C18_prescan_total.
