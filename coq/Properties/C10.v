(* C10 — arbitrary patterns and inputs never panic or hang the API.
   What a theorem can carry here is memory safety / totality of the MODELLED layers: every Go fault
   site in them is a [Crash] value of the model, and the theorems below say it is unreachable.
   Each is proved in the development of the property that owns the layer; this file only collects them
   (the statements are printed by the [Check] commands and are spelled out in the owning files).
   NOT covered by any theorem: the pattern parser and class canonicaliser on arbitrary byte strings,
   and termination of the interpreter on every program (leg c10-robust explores those). *)
From Verif Require Properties.C08 Properties.C09 Properties.C13 Properties.C18 Proofs.SpecBoundsProofs Proofs.SpecProofs.

(* the interpreter never pushes beyond the capacity of the backtracking stack: with at least
   4*TrackCount free slots at every check (which ensureStorage guarantees) a step at an instruction
   boundary never overflows — for EVERY limit; the only abnormal outcome is ErrBacktrackingStackLimit *)
Theorem C10_interpreter_step_never_overflows :
  ltac:(let t := type of Verif.Properties.C13.C13_step_no_overflow in exact t).
Proof. exact Verif.Properties.C13.C13_step_no_overflow. Qed.
Print Assumptions C10_interpreter_step_never_overflows.
Check Verif.Properties.C13.C13_step_no_overflow.

(* the capacity argument's static half holds for every program the writer can emit *)
Theorem C10_compiled_push_weight :
  ltac:(let t := type of Verif.Properties.C13.C13_compiled_push_weight in exact t).
Proof. exact Verif.Properties.C13.C13_compiled_push_weight. Qed.
Print Assumptions C10_compiled_push_weight.
Check Verif.Properties.C13.C13_compiled_push_weight.

(* a stack limit can only surface as the stack-limit error or be invisible (given control-flow safety) *)
Theorem C10_limit_dichotomy_partial :
  ltac:(let t := type of Verif.Properties.C13.C13_limit_dichotomy_partial in exact t).
Proof. exact Verif.Properties.C13.C13_limit_dichotomy_partial. Qed.
Print Assumptions C10_limit_dichotomy_partial.
Check Verif.Properties.C13.C13_limit_dichotomy_partial.

(* every position and capture the reference search produces lies inside the input, so no text read
   of a match object can be out of range *)
Theorem C10_search_stays_inside_the_input :
  ltac:(let t := type of Verif.Proofs.SpecBoundsProofs.C08_spec_captures_in_bounds in exact t).
Proof. exact Verif.Proofs.SpecBoundsProofs.C08_spec_captures_in_bounds. Qed.
Print Assumptions C10_search_stays_inside_the_input.
Check Verif.Proofs.SpecBoundsProofs.C08_spec_captures_in_bounds.

(* NewReplacerData: the two explicit panics of replacerdata.go are unreachable *)
Theorem C10_replacer_data_no_panic :
  ltac:(let t := type of Verif.Properties.C09.C09_replacer_data_no_panic in exact t).
Proof. exact Verif.Properties.C09.C09_replacer_data_no_panic. Qed.
Print Assumptions C10_replacer_data_no_panic.
Check Verif.Properties.C09.C09_replacer_data_no_panic.

(* Replace / Split drivers on well-formed match sequences return a value or a documented error *)
Theorem C10_replace_count_startat :
  ltac:(let t := type of Verif.Properties.C09.C09_replace_count_startat in exact t).
Proof. exact Verif.Properties.C09.C09_replace_count_startat. Qed.
Print Assumptions C10_replace_count_startat.

(* UTF-8 decoding of arbitrary bytes (invalid UTF-8 included) is total and consumes every byte *)
Theorem C10_decode_total :
  ltac:(let t := type of Verif.Properties.C08.C08_decode_total in exact t).
Proof. exact Verif.Properties.C08.C08_decode_total. Qed.
Print Assumptions C10_decode_total.
Check Verif.Properties.C08.C08_decode_total.

(* byte-range conversion never indexes outside its tables *)
Theorem C10_byte_range_slices :
  ltac:(let t := type of Verif.Properties.C08.C08_byte_range_slices in exact t).
Proof. exact Verif.Properties.C08.C08_byte_range_slices. Qed.
Print Assumptions C10_byte_range_slices.

(* the capture pre-scan's option handling cannot fault, whatever the token list *)
Theorem C10_prescan_total :
  ltac:(let t := type of Verif.Properties.C18.C18_prescan_total in exact t).
Proof. exact Verif.Properties.C18.C18_prescan_total. Qed.
Print Assumptions C10_prescan_total.
Check Verif.Properties.C18.C18_prescan_total.

(* ---------------- no-crash / always-answers facts of the compiled-program chain, the finders, the prefilter
   closures and the literal parser (collected from C01, C13, C03, C02, C19; one composed corollary from
   Proofs/ComposeExec.v) ---------------- *)
From Verif Require Properties.C01 Properties.C02 Properties.C03 Properties.C19 Proofs.ComposeExec.

(* one execute() call on the program of ANY supported2 tree (every constructor, balancing groups included),
   real finite stacks, any stack limit, any interpreter fuel: the outcome is ErrBacktrackingStackLimit, a
   returned state, or out-of-fuel -- a trichotomy without a Crash case.  Residual hypothesis: the reference
   attempt terminates within the engine's counter range (Spec.attempt ... = Ok r). *)
Theorem C10_compiled_program_never_crashes :
  ltac:(let t := type of Verif.Properties.C01.C01_exec_total in exact t).
Proof. exact Verif.Properties.C01.C01_exec_total. Qed.
Print Assumptions C10_compiled_program_never_crashes.
Check Verif.Properties.C01.C01_exec_total.

(* ... the same read explicitly: exec_at never equals Crash k (composed: the trichotomy above excludes the
   fourth constructor of Prelude.res).  Same hypotheses as C01_exec_total. *)
Theorem C10_exec_never_crashes_explicit :
  ltac:(let t := type of Verif.Proofs.ComposeExec.cx_exec_never_crashes in exact t).
Proof. exact Verif.Proofs.ComposeExec.cx_exec_never_crashes. Qed.
Print Assumptions C10_exec_never_crashes_explicit.
Check Verif.Proofs.ComposeExec.cx_exec_never_crashes.

(* every program the writer emits (any configuration, any tree) is control-flow safe: along the unbounded
   path every state is at an instruction boundary with a grouping stack inside its capacity -- no hypothesis
   on the input *)
Theorem C10_compiled_program_control_flow_safe :
  ltac:(let t := type of Verif.Properties.C01.C01_every_compiled_program_is_control_flow_safe in exact t).
Proof. exact Verif.Properties.C01.C01_every_compiled_program_is_control_flow_safe. Qed.
Print Assumptions C10_compiled_program_control_flow_safe.
Check Verif.Properties.C01.C01_every_compiled_program_is_control_flow_safe.

(* C10_limit_dichotomy_partial without its control-flow hypothesis, for compiled programs: under any limit the
   scan is ErrBacktrackingStackLimit or agrees with the unlimited scan in EVERY outcome *)
Theorem C10_limit_dichotomy_compiled :
  ltac:(let t := type of Verif.Properties.C13.C13_limit_dichotomy_compiled in exact t).
Proof. exact Verif.Properties.C13.C13_limit_dichotomy_compiled. Qed.
Print Assumptions C10_limit_dichotomy_compiled.
Check Verif.Properties.C13.C13_limit_dichotomy_compiled.

(* findFirstCharOptimized, every FindMode the dispatcher serves: the conclusion [fd_sound] unfolds to
   "at every in-range position p the finder ANSWERS  Ok (found, q)  with p <= q <= len ..." -- no fault
   (index out of range) and no exhausted loop.  Hypotheses: the facts of the mode (C04). *)
Theorem C10_optimized_finders_answer_ok :
  ltac:(let t := type of Verif.Properties.C03.C03_finder_optimized_dispatch in exact t).
Proof. exact Verif.Properties.C03.C03_finder_optimized_dispatch. Qed.
Print Assumptions C10_optimized_finders_answer_ok.
Check Verif.Properties.C03.C03_finder_optimized_dispatch.

(* the seven string-entry prefilter closures: on every byte string (invalid UTF-8 included) and every rune
   boundary the closure answers  Ok (c, ok)  -- no fault, loops terminate within len+1 turns *)
Theorem C10_prefilter_closures_answer_ok :
  ltac:(let t := type of Verif.Properties.C02.C02_prefilter_sound_and_transparent in exact t).
Proof. exact Verif.Properties.C02.C02_prefilter_sound_and_transparent. Qed.
Print Assumptions C10_prefilter_closures_answer_ok.
Check Verif.Properties.C02.C02_prefilter_sound_and_transparent.

(* the modelled fragment of the pattern parser: on every pattern and option set a tree, "outside the fragment"
   or a syntax error -- never a Go run-time fault, never out of fuel *)
Theorem C10_literal_parser_total :
  ltac:(let t := type of Verif.Properties.C19.C19_parse_lit_total in exact t).
Proof. exact Verif.Properties.C19.C19_parse_lit_total. Qed.
Print Assumptions C10_literal_parser_total.
Check Verif.Properties.C19.C19_parse_lit_total.

(* all of findFirstCharDefault (anchor jumps, Boyer-Moore oracle, optimized finders, first-character loop, both
   directions): at every position of the text it answers Ok -- no index fault, no exhausted loop *)
Theorem C10_default_finder_answers_ok :
  ltac:(let t := type of Verif.Properties.C03.C03_finder_default_answers_ok in exact t).
Proof. exact Verif.Properties.C03.C03_finder_default_answers_ok. Qed.
Print Assumptions C10_default_finder_answers_ok.
Check Verif.Properties.C03.C03_finder_default_answers_ok.

(* ---------------- nothing hangs (Proofs/SpecTermProofs.v, Proofs/ComposeTerm.v) ----------------
   (1) the reference search (list-valued and continuation-passing) answers on EVERY tree, text, direction and
       start offset with fuel term_fuel_any root (the loop counters alone end every loop);
   (2) on trees whose loop bodies are one-directional (term_ok: every tree exported from the implementation,
       leg c01-frag) it answers within  term_fuel e root = 1 + depth, loops add minimum + text length + 2;
   (3) the interpreter model on the program of such a supported2 tree, reference fuel inside the counter range:
       from some interpreter fuel on, under every stack limit, one execute() call returns a state or
       ErrBacktrackingStackLimit (never Crash, never out of fuel), and does return when there is no limit.
   Still NOT covered: the pattern parser on arbitrary bytes (leg c10-robust), and wall-clock bounds (the number
   of interpreter steps is finite, not small: catastrophic backtracking is a finite computation). *)
From Verif Require Proofs.SpecTermProofs Proofs.ComposeTerm.

Theorem C10_search_never_hangs :
  ltac:(let t := type of Verif.Proofs.ComposeTerm.ct_search_never_hangs in exact t).
Proof. exact Verif.Proofs.ComposeTerm.ct_search_never_hangs. Qed.
Print Assumptions C10_search_never_hangs.
Check Verif.Proofs.ComposeTerm.ct_search_never_hangs.

(* C10_compiled_program_never_crashes without its residual hypothesis, with the returned state identified *)
Theorem C10_compiled_program_returns :
  ltac:(let t := type of Verif.Properties.C01.C01_exec_total_terminating in exact t).
Proof. exact Verif.Properties.C01.C01_exec_total_terminating. Qed.
Print Assumptions C10_compiled_program_returns.
Check Verif.Properties.C01.C01_exec_total_terminating.
