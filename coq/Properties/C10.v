(* C10 — arbitrary patterns and inputs never panic or hang the API.
   What a theorem can carry here is memory safety / totality of the MODELLED layers: every Go fault
   site in them is a [Crash] value of the model, and the theorems below say it is unreachable.
   Each is proved in the development of the property that owns the layer; this file only collects them
   (the statements are printed by the [Check] commands and are spelled out in the owning files).
   NOT covered by any theorem: the pattern parser and class canonicaliser on arbitrary byte strings,
   and termination of the interpreter on every program (leg c10-robust explores those). *)
From Verif Require Properties.C08 Properties.C09 Properties.C13 Properties.C18 Proofs.SpecBoundsProofs Proofs.SpecProofs.

(* the interpreter never pushes beyond the capacity of the backtracking stack: with at least
   4*TrackCount free slots at every check (which ensureStorage guarantees) a step at an instruction
   boundary never overflows — for EVERY limit; the only abnormal outcome is ErrBacktrackingStackLimit *)
Theorem C10_interpreter_step_never_overflows :
  ltac:(let t := type of Verif.Properties.C13.C13_step_no_overflow in exact t).
Proof. exact Verif.Properties.C13.C13_step_no_overflow. Qed.
Print Assumptions C10_interpreter_step_never_overflows.
Check Verif.Properties.C13.C13_step_no_overflow.

(* the capacity argument's static half holds for every program the writer can emit *)
Theorem C10_compiled_push_weight :
  ltac:(let t := type of Verif.Properties.C13.C13_compiled_push_weight in exact t).
Proof. exact Verif.Properties.C13.C13_compiled_push_weight. Qed.
Print Assumptions C10_compiled_push_weight.
Check Verif.Properties.C13.C13_compiled_push_weight.

(* a stack limit can only surface as the stack-limit error or be invisible (given control-flow safety) *)
Theorem C10_limit_dichotomy_partial :
  ltac:(let t := type of Verif.Properties.C13.C13_limit_dichotomy_partial in exact t).
Proof. exact Verif.Properties.C13.C13_limit_dichotomy_partial. Qed.
Print Assumptions C10_limit_dichotomy_partial.
Check Verif.Properties.C13.C13_limit_dichotomy_partial.

(* every position and capture the reference search produces lies inside the input, so no text read
   of a match object can be out of range *)
Theorem C10_search_stays_inside_the_input :
  ltac:(let t := type of Verif.Proofs.SpecBoundsProofs.C08_spec_captures_in_bounds in exact t).
Proof. exact Verif.Proofs.SpecBoundsProofs.C08_spec_captures_in_bounds. Qed.
Print Assumptions C10_search_stays_inside_the_input.
Check Verif.Proofs.SpecBoundsProofs.C08_spec_captures_in_bounds.

(* NewReplacerData: the two explicit panics of replacerdata.go are unreachable *)
Theorem C10_replacer_data_no_panic :
  ltac:(let t := type of Verif.Properties.C09.C09_replacer_data_no_panic in exact t).
Proof. exact Verif.Properties.C09.C09_replacer_data_no_panic. Qed.
Print Assumptions C10_replacer_data_no_panic.
Check Verif.Properties.C09.C09_replacer_data_no_panic.

(* Replace / Split drivers on well-formed match sequences return a value or a documented error *)
Theorem C10_replace_count_startat :
  ltac:(let t := type of Verif.Properties.C09.C09_replace_count_startat in exact t).
Proof. exact Verif.Properties.C09.C09_replace_count_startat. Qed.
Print Assumptions C10_replace_count_startat.

(* UTF-8 decoding of arbitrary bytes (invalid UTF-8 included) is total and consumes every byte *)
Theorem C10_decode_total :
  ltac:(let t := type of Verif.Properties.C08.C08_decode_total in exact t).
Proof. exact Verif.Properties.C08.C08_decode_total. Qed.
Print Assumptions C10_decode_total.
Check Verif.Properties.C08.C08_decode_total.

(* byte-range conversion never indexes outside its tables *)
Theorem C10_byte_range_slices :
  ltac:(let t := type of Verif.Properties.C08.C08_byte_range_slices in exact t).
Proof. exact Verif.Properties.C08.C08_byte_range_slices. Qed.
Print Assumptions C10_byte_range_slices.

(* the capture pre-scan's option handling cannot fault, whatever the token list *)
Theorem C10_prescan_total :
  ltac:(let t := type of Verif.Properties.C18.C18_prescan_total in exact t).
Proof. exact Verif.Properties.C18.C18_prescan_total. Qed.
Print Assumptions C10_prescan_total.
Check Verif.Properties.C18.C18_prescan_total.

(* ---------------- no-crash / always-answers facts of the compiled-program chain, the finders, the prefilter
   closures and the literal parser (collected from C01, C13, C03, C02, C19; one composed corollary from
   Proofs/ComposeExec.v) ---------------- *)
From Verif Require Properties.C01 Properties.C02 Properties.C03 Properties.C19 Proofs.ComposeExec.

(* one execute() call on the program of ANY supported2 tree (every constructor, balancing groups included),
   real finite stacks, any stack limit, any interpreter fuel: the outcome is ErrBacktrackingStackLimit, a
   returned state, or out-of-fuel -- a trichotomy without a Crash case.  Residual hypothesis: the reference
   attempt terminates within the engine's counter range (Spec.attempt ... = Ok r). *)
Theorem C10_compiled_program_never_crashes :
  ltac:(let t := type of Verif.Properties.C01.C01_exec_total in exact t).
Proof. exact Verif.Properties.C01.C01_exec_total. Qed.
Print Assumptions C10_compiled_program_never_crashes.
Check Verif.Properties.C01.C01_exec_total.

(* ... the same read explicitly: exec_at never equals Crash k (composed: the trichotomy above excludes the
   fourth constructor of Prelude.res).  Same hypotheses as C01_exec_total. *)
Theorem C10_exec_never_crashes_explicit :
  ltac:(let t := type of Verif.Proofs.ComposeExec.cx_exec_never_crashes in exact t).
Proof. exact Verif.Proofs.ComposeExec.cx_exec_never_crashes. Qed.
Print Assumptions C10_exec_never_crashes_explicit.
Check Verif.Proofs.ComposeExec.cx_exec_never_crashes.

(* every program the writer emits (any configuration, any tree) is control-flow safe: along the unbounded
   path every state is at an instruction boundary with a grouping stack inside its capacity -- no hypothesis
   on the input *)
Theorem C10_compiled_program_control_flow_safe :
  ltac:(let t := type of Verif.Properties.C01.C01_every_compiled_program_is_control_flow_safe in exact t).
Proof. exact Verif.Properties.C01.C01_every_compiled_program_is_control_flow_safe. Qed.
Print Assumptions C10_compiled_program_control_flow_safe.
Check Verif.Properties.C01.C01_every_compiled_program_is_control_flow_safe.

(* C10_limit_dichotomy_partial without its control-flow hypothesis, for compiled programs: under any limit the
   scan is ErrBacktrackingStackLimit or agrees with the unlimited scan in EVERY outcome *)
Theorem C10_limit_dichotomy_compiled :
  ltac:(let t := type of Verif.Properties.C13.C13_limit_dichotomy_compiled in exact t).
Proof. exact Verif.Properties.C13.C13_limit_dichotomy_compiled. Qed.
Print Assumptions C10_limit_dichotomy_compiled.
Check Verif.Properties.C13.C13_limit_dichotomy_compiled.

(* findFirstCharOptimized, every FindMode the dispatcher serves: the conclusion [fd_sound] unfolds to
   "at every in-range position p the finder ANSWERS  Ok (found, q)  with p <= q <= len ..." -- no fault
   (index out of range) and no exhausted loop.  Hypotheses: the facts of the mode (C04). *)
Theorem C10_optimized_finders_answer_ok :
  ltac:(let t := type of Verif.Properties.C03.C03_finder_optimized_dispatch in exact t).
Proof. exact Verif.Properties.C03.C03_finder_optimized_dispatch. Qed.
Print Assumptions C10_optimized_finders_answer_ok.
Check Verif.Properties.C03.C03_finder_optimized_dispatch.

(* the seven string-entry prefilter closures: on every byte string (invalid UTF-8 included) and every rune
   boundary the closure answers  Ok (c, ok)  -- no fault, loops terminate within len+1 turns *)
Theorem C10_prefilter_closures_answer_ok :
  ltac:(let t := type of Verif.Properties.C02.C02_prefilter_sound_and_transparent in exact t).
Proof. exact Verif.Properties.C02.C02_prefilter_sound_and_transparent. Qed.
Print Assumptions C10_prefilter_closures_answer_ok.
Check Verif.Properties.C02.C02_prefilter_sound_and_transparent.

(* the modelled fragment of the pattern parser: on every pattern and option set a tree, "outside the fragment"
   or a syntax error -- never a Go run-time fault, never out of fuel *)
Theorem C10_literal_parser_total :
  ltac:(let t := type of Verif.Properties.C19.C19_parse_lit_total in exact t).
Proof. exact Verif.Properties.C19.C19_parse_lit_total. Qed.
Print Assumptions C10_literal_parser_total.
Check Verif.Properties.C19.C19_parse_lit_total.

(* all of findFirstCharDefault (anchor jumps, Boyer-Moore oracle, optimized finders, first-character loop, both
   directions): at every position of the text it answers Ok -- no index fault, no exhausted loop *)
Theorem C10_default_finder_answers_ok :
  ltac:(let t := type of Verif.Properties.C03.C03_finder_default_answers_ok in exact t).
Proof. exact Verif.Properties.C03.C03_finder_default_answers_ok. Qed.
Print Assumptions C10_default_finder_answers_ok.
Check Verif.Properties.C03.C03_finder_default_answers_ok.

(* ---------------- nothing hangs (Proofs/SpecTermProofs.v, Proofs/ComposeTerm.v) ----------------
   (1) the reference search (list-valued and continuation-passing) answers on EVERY tree, text, direction and
       start offset with fuel term_fuel_any root (the loop counters alone end every loop);
   (2) on trees whose loop bodies are one-directional (term_ok: every tree exported from the implementation,
       leg c01-frag) it answers within  term_fuel e root = 1 + depth, loops add minimum + text length + 2;
   (3) the interpreter model on the program of such a supported2 tree, reference fuel inside the counter range:
       from some interpreter fuel on, under every stack limit, one execute() call returns a state or
       ErrBacktrackingStackLimit (never Crash, never out of fuel), and does return when there is no limit.
   Still NOT covered: the pattern parser on arbitrary bytes (leg c10-robust), and wall-clock bounds (the number
   of interpreter steps is finite, not small: catastrophic backtracking is a finite computation). *)
From Verif Require Proofs.SpecTermProofs Proofs.ComposeTerm.

Theorem C10_search_never_hangs :
  ltac:(let t := type of Verif.Proofs.ComposeTerm.ct_search_never_hangs in exact t).
Proof. exact Verif.Proofs.ComposeTerm.ct_search_never_hangs. Qed.
Print Assumptions C10_search_never_hangs.
Check Verif.Proofs.ComposeTerm.ct_search_never_hangs.

(* C10_compiled_program_never_crashes without its residual hypothesis, with the returned state identified *)
Theorem C10_compiled_program_returns :
  ltac:(let t := type of Verif.Properties.C01.C01_exec_total_terminating in exact t).
Proof. exact Verif.Properties.C01.C01_exec_total_terminating. Qed.
Print Assumptions C10_compiled_program_returns.
Check Verif.Properties.C01.C01_exec_total_terminating.
(* ---------------- the pattern parser (Model/Parser.v, tied to syntax.Parse by leg c10-parse on every run) ---------------- *)
From Verif Require Import Base.Prelude Model.ParseLit Model.GroupMap Model.CharClass Model.Parser
  Proofs.ParserMain Proofs.ParserPre Proofs.ParserProofs.

(* THE PARSER MODEL IS TOTAL.  Model/Parser.v follows syntax.Parse: countCaptures + assignNameSlots, scanRegex with
   scanGroupOpen (plain, named, numbered and balancing groups, lookaround, atomic groups, inline options, comments,
   both conditionals, the RE2 spellings), scanCharSet, scanBackslash (anchors, shorthands, \p, back-references,
   escapes), the quantifiers, and the mandatory reducers of tree.go (reduce, reduceAlternation, reduceConcatenation,
   reduceRep, reduceSet, reduceAtomic, reduceLookaround, reduceGroup, both conditionals, makeQuantifier).
   For EVERY pattern - any list of non-negative runes, any length -, every option word, either value of
   MaintainCaptureOrder and every oracle, it answers Ok (an error code, a tree, or "outside the fragment"): never Crash
   (index out of range on the pattern or on a Children / Str slice, pop of an empty group or option stack, nil
   CharSet, a capture-table slot out of range) and never Fuel; the fuel is the pattern's length + 1, written in the
   model (count_captures, scan_regex).  This is the no-panic / no-hang statement for the modelled parser. *)
Theorem C10_parser_total :
  forall (is_word_char : Z -> bool) (to_lower simple_fold : Z -> Z) (participates : Z -> bool)
         (cat_in : Z -> Z -> bool) (cat_name : list Z -> Z) (o : Z) (mco : bool) (p : list Z),
    forallb (fun c => 0 <=? c) p = true ->
    exists r, parse is_word_char to_lower simple_fold participates cat_in cat_name o mco p = Ok r.
Proof. exact parser_total. Qed.
Print Assumptions C10_parser_total.

(* the scan position only moves right, main pass: a round of scanRegex that goes on hands a strictly shorter rest of
   the pattern to the next round, keeps the state invariant (every node handed to a reducer has the children / string
   / set the reducer indexes; the option stack is as deep as the group stack) and leaves no pending unit *)
Theorem C10_parser_round_moves_right :
  forall (is_word_char : Z -> bool) (to_lower simple_fold : Z -> Z) (participates : Z -> bool)
         (cat_in : Z -> Z -> bool) (cat_name : list Z -> Z) (tb : captab) (mco : bool) (st : mst) (p : list Z) (wasq : bool),
    minv st -> ms_unit st = None -> p <> [] ->
    match scan_round is_word_char to_lower simple_fold participates cat_in cat_name tb mco st p wasq with
    | POk (st', Some (q, _)) => minv st' /\ ms_unit st' = None /\ (length q < length p)%nat
    | POk (st', None) => minv st'
    | PE _ _ | PO => True
    | PC _ | PF => False
    end.
Proof. exact parser_round_moves_right. Qed.
Print Assumptions C10_parser_round_moves_right.

(* the same for the capture pre-scan, whose scanners' errors are ignored: it goes on from wherever the failed scanner
   stood, and that is still to the right; the capture tables stay well formed *)
Theorem C10_parser_prescan_moves_right :
  forall (is_word_char : Z -> bool) (to_lower simple_fold : Z -> Z) (participates : Z -> bool)
         (cat_in : Z -> Z -> bool) (cat_name : list Z -> Z) (mco : bool) (st : cst) (ch : Z) (p1 : list Z),
    cinv mco (cs_c st) ->
    match prescan_step is_word_char to_lower simple_fold cat_in cat_name mco st ch p1 with
    | POk (st', q) => cinv mco (cs_c st') /\ (length q < length (ch :: p1))%nat
    | PE _ _ | PO => True
    | PC _ | PF => False
    end.
Proof. exact parser_prescan_step_moves_right. Qed.
Print Assumptions C10_parser_prescan_moves_right.

(* both loops with the fuel as a parameter: anything above the length of what is left is enough *)
Theorem C10_parser_main_loop_fuel :
  forall (is_word_char : Z -> bool) (to_lower simple_fold : Z -> Z) (participates : Z -> bool)
         (cat_in : Z -> Z -> bool) (cat_name : list Z -> Z) (tb : captab) (mco : bool) (fuel : nat) (st : mst) (p : list Z) (wasq : bool),
    minv st -> ms_unit st = None -> (length p < fuel)%nat ->
    match scan_loop_full is_word_char to_lower simple_fold participates cat_in cat_name fuel tb mco st p wasq with
    | POk st' => minv st'
    | PE _ _ | PO => True
    | PC _ | PF => False
    end.
Proof. exact parser_main_fuel. Qed.
Print Assumptions C10_parser_main_loop_fuel.

(* right-to-left inside lookbehind: scanGroupOpen on "(?<=" / "(?<!" returns a lookaround node that carries the
   RightToLeft bit and leaves the parser's current options - under which the group's alternation, its concatenation
   and every node of the body are created - with the bit set; "(?=" / "(?!" clear it ... *)
Theorem C10_parser_lookbehind_opens_right_to_left :
  forall (is_word_char : Z -> bool) (tb : captab) (mco : bool) (gt : Z) (v : gvars) (c : Z) (p : list Z),
    c = 61 \/ c = 33 ->
    group_open is_word_char tb mco gt v (63 :: 60 :: c :: p) =
      POk (Some (mk_node (if c =? 61 then T_PosLook else T_NegLook) (set_rtl (gv_o v))),
           mkGV (set_rtl (gv_o v)) false (gv_autocap v), p)
    /\ useRTL (set_rtl (gv_o v)) = true.
Proof. exact lookbehind_opens_right_to_left. Qed.
Print Assumptions C10_parser_lookbehind_opens_right_to_left.

Theorem C10_parser_lookahead_opens_left_to_right :
  forall (is_word_char : Z -> bool) (tb : captab) (mco : bool) (gt : Z) (v : gvars) (c : Z) (p : list Z),
    c = 61 \/ c = 33 ->
    group_open is_word_char tb mco gt v (63 :: c :: p) =
      POk (Some (mk_node (if c =? 61 then T_PosLook else T_NegLook) (clear_rtl (gv_o v))),
           mkGV (clear_rtl (gv_o v)) false (gv_autocap v), p)
    /\ useRTL (clear_rtl (gv_o v)) = false.
Proof. exact lookahead_opens_left_to_right. Qed.
Print Assumptions C10_parser_lookahead_opens_left_to_right.

(* ... and nothing else can change it: an inline option string "(?imnsxu-imnsxu" never touches the RightToLeft,
   ECMAScript or RE2 bits.  (That the whole BODY of a lookbehind then carries the bit is a statement about every node
   the reducers move; it is checked per tree by leg c10-parse - driver check dir_okb - not proved: _partial.) *)
Theorem C10_parser_inline_options_keep_direction_partial :
  forall (o : Z) (p : list Z) (o' : Z) (q : list Z),
    scan_options_text o p = (o', q) ->
    useRTL o' = useRTL o /\ useE o' = useE o /\ useRE2 o' = useRE2 o.
Proof. exact inline_options_keep_top_bits. Qed.
Print Assumptions C10_parser_inline_options_keep_direction_partial.

(* ---- witnesses (ASCII oracles) ---- *)
Definition c10_word (c : Z) : bool := ((48 <=? c) && (c <=? 57)) || ((65 <=? c) && (c <=? 90)) || ((97 <=? c) && (c <=? 122)) || (c =? 95).
Definition c10_lower (c : Z) : Z := if (65 <=? c) && (c <=? 90) then c + 32 else c.
Definition c10_fold (c : Z) : Z := if (65 <=? c) && (c <=? 90) then c + 32 else if (97 <=? c) && (c <=? 122) then c - 32 else c.
Definition c10_parse (o : Z) (p : list Z) : res presult :=
  parse c10_word c10_lower c10_fold (fun _ => true) (fun _ _ => false) (fun _ => -1) o false p.

(* "(a|bc)*d" : Capture(0){Concatenate{Loop{Capture(1){Alternate{One a, Multi bc}}}, One d}} *)
Example C10_parser_witness_tree :
  c10_parse 0 [40; 97; 124; 98; 99; 41; 42; 100] =
  Ok (PR_Tree (RN 28 0 0 0 (-1) [] None
                [RN 25 0 0 0 0 [] None
                   [RN 26 0 0 0 2147483647 [] None
                      [RN 28 0 0 1 (-1) [] None [RN 24 0 0 0 0 [] None [RN 9 0 97 0 0 [] None []; RN 12 0 0 0 0 [98; 99] None []]]];
                    RN 9 0 100 0 0 [] None []]]) [0; 1] 2).
Proof. vm_compute. reflexivity. Qed.

(* "(" : ErrMissingParen; ")" : ErrUnexpectedParen; "a{3,2}" : ErrInvalidRepeatSize; "[z-a]" : ErrReversedCharRange;
   "a**" : ErrInvalidRepeatOp; "(?<n>a)\k<m>" : ErrUndefinedNameRef; "\p{L}" with no known category names: ErrUnknownSlashP *)
Example C10_parser_witness_errors :
  c10_parse 0 [40] = Ok (PR_Err 34) /\ c10_parse 0 [41] = Ok (PR_Err 33) /\
  c10_parse 0 [97; 123; 51; 44; 50; 125] = Ok (PR_Err 32) /\ c10_parse 0 [91; 122; 45; 97; 93] = Ok (PR_Err 55) /\
  c10_parse 0 [97; 42; 42] = Ok (PR_Err 35) /\
  c10_parse 0 [40; 63; 60; 110; 62; 97; 41; 92; 107; 60; 109; 62] = Ok (PR_Err 10) /\
  c10_parse 0 [92; 112; 123; 76; 125] = Ok (PR_Err 50).
Proof. vm_compute. repeat split; reflexivity. Qed.

(* ECMAScript group names are outside the modelled fragment: "(?<n>a)" under ECMAScript *)
Example C10_parser_witness_outside : c10_parse 256 [40; 63; 60; 110; 62; 97; 41] = Ok PR_Outside.
Proof. vm_compute. reflexivity. Qed.

(* "(?<=ab)" : the body of a lookbehind is built right to left (RightToLeft bit 64, children reversed: Multi "ab" stays one
   node); "a{2}" of a surrogate: the literal repeat keeps the rune (fixed in ff89b8d; the old conversion gave U+FFFD) *)
Example C10_parser_witness_lookbehind :
  c10_parse 0 [40; 63; 60; 61; 97; 98; 41] =
  Ok (PR_Tree (RN 28 0 0 0 (-1) [] None [RN 30 64 0 0 0 [] None [RN 12 64 0 0 0 [97; 98] None []]]) [0] 1).
Proof. vm_compute. reflexivity. Qed.
Example C10_parser_witness_surrogate_repeat :
  repeat_rune 55296 2 = [55296; 55296] /\ repeat_rune_old 55296 2 = [65533; 65533].
Proof. vm_compute. split; reflexivity. Qed.

(* ---------------- every tree the parser builds is a tree the compile / termination theorems speak about ---------------- *)
From Verif Require Import Model.Tree Proofs.SpecTermProofs Proofs.CompileBalDefs Proofs.CompileCapmap Proofs.GMBase
  Proofs.ParserOkTree Proofs.ParserOkMain Proofs.ParserOkAgree Proofs.ParserOk.

(* Shape, for EVERY option word and every oracle: the second invariant of the main pass (Proofs/ParserOkTree.v wfb,
   kept by every reducer of tree.go and by every step of scanRegex, Proofs/ParserOkMain.v): leaves have no child, the
   one-child kinds exactly one, a back-reference conditional 1..2 and an expression conditional 2..3 children (the
   condition is filed first: ignoreNextParen discipline), every single-character loop and every Loop has
   0 <= M <= N <= MaxInt32, every Alternate has a child, the body of every Loop runs in one direction (the RightToLeft
   bit of the option word stamped on the nodes of a group is the group's: scanOptions never touches it, popOptions
   restores it, only "(?=" "(?!" "(?<=" "(?<!" change it).  This is the statement the per-tree check dir_okb of leg
   c10-parse could only test (C10_parser_inline_options_keep_direction_partial). *)
Theorem C10_parsed_tree_shape :
  forall (is_word_char : Z -> bool) (to_lower simple_fold : Z -> Z) (participates : Z -> bool)
         (cat_in : Z -> Z -> bool) (cat_name : list Z -> Z) (o : Z) (mco : bool) (p : list Z) (t : rnode) (caps : list Z) (captop : Z),
    parse is_word_char to_lower simple_fold participates cat_in cat_name o mco p = Ok (PR_Tree t caps captop) ->
    wfb (fun _ => true) t = true /\ n_t t = T_Capture /\ n_m t = 0 /\ n_n t = -1.
Proof. exact parsed_tree_shape_root. Qed.
Print Assumptions C10_parsed_tree_shape.

(* Group numbers: the capture pre-scan (countCaptures) and the main pass agree on which parentheses capture, so every
   number of a Capture / Ref / BackRefCond node (the popped number of a balancing group too) is a key of RegexTree.Caps.
   Proof: a lock-step simulation of the two passes on the pattern text (Proofs/ParserOkAgree.v): same option word up to
   RightToLeft, same option stack, same ignoreNextParen, same automatic number at every round of scanRegex; the scan-only
   class and escape scanners leave the cursor where the full ones do (up to digits, "\18").
   Every option word, ECMAScript and RE2 included.  [_partial]: the oracle IsWordChar is false on
   ! # ' ( ) - < = > ? [ \ and true on the digits 1-9; Captop < MaxInt32.
   The statement was FALSE before five fixes this proof attempt produced (known_findings: a5090c5 scan-only skip of a
   subtraction in range position, 4f8aca1 (?P= as a condition, 2b27550 digits as a name under MaintainCaptureOrder,
   5afce6b digits starting with 0, c605b5f ECMAScript [a-\d]: the scan-only class scanner kept a stale "in range" flag):
   each gave a Capture outside the table or a malformed conditional and a panic. *)
Theorem C10_parsed_tree_group_numbers_partial :
  forall (is_word_char : Z -> bool) (to_lower simple_fold : Z -> Z) (participates : Z -> bool)
         (cat_in : Z -> Z -> bool) (cat_name : list Z -> Z) (o : Z) (mco : bool) (p : list Z) (t : rnode) (caps : list Z) (captop : Z),
    (forall c, is_word_char c = true -> negb (zmem c [33; 35; 39; 40; 41; 45; 60; 61; 62; 63; 91; 92]) = true) ->
    (forall c, (49 <=? c) && (c <=? 57) = true -> is_word_char c = true) ->
    captop < maxint32 ->
    parse is_word_char to_lower simple_fold participates cat_in cat_name o mco p = Ok (PR_Tree t caps captop) ->
    wfb (fun k => zmem k caps) t = true /\ nums_b caps t = true.
Proof. exact parsed_tree_nums. Qed.
Print Assumptions C10_parsed_tree_group_numbers_partial.

(* witnesses: the five patterns that broke the statements above before the fixes, on the fixed parser (ASCII oracles) *)
Definition c10_parse_o (o : Z) (mco : bool) (p : list Z) : res presult :=
  parse c10_word c10_lower c10_fold (fun _ => true) (fun _ _ => false) (fun _ => -1) o mco p.
(* the same with the category name "L" known *)
Definition c10_parse_L (o : Z) (mco : bool) (p : list Z) : res presult :=
  parse c10_word c10_lower c10_fold (fun _ => true) (fun _ _ => false) (fun s => match s with [76] => 1 | _ => -1 end) o mco p.
Definition c10_table_ok (r : res presult) (want : list Z) : bool :=
  match r with Ok (PR_Tree t caps captop) => zlist_eqb caps want && nums_b caps t && wfb (fun k => zmem k caps) t | _ => false end.

(* (?n:[a-[](]])(b) : the pre-scan skips the subtracted class: table {0,1}, (b) is Capture 1
   (?P<a>x)(?(?P=a)b) under RE2 : ErrUnrecognizedGrouping (39) instead of a conditional without a condition
   (?<2>x)(?P<2>y)(?<2>z)(w) under RE2 : table {0,1,2}, every number in it
   (?<x>q)(?<02>b)(a) under RE2 : ErrUnrecognizedGrouping instead of a Capture 3 outside {0,1,2}
   (?n:[a-\d\PL(])(b) under ECMAScript : the "(" stays inside the class for the pre-scan too: table {0,1} *)
Example C10_parser_witness_prescan_agrees :
  c10_table_ok (c10_parse_o 0 false [40; 63; 110; 58; 91; 97; 45; 91; 93; 40; 93; 93; 41; 40; 98; 41]) [0; 1] = true /\
  c10_parse_o 512 false [40; 63; 80; 60; 97; 62; 120; 41; 40; 63; 40; 63; 80; 61; 97; 41; 98; 41] = Ok (PR_Err 39) /\
  c10_table_ok (c10_parse_o 512 false [40; 63; 60; 50; 62; 120; 41; 40; 63; 80; 60; 50; 62; 121; 41; 40; 63; 60; 50; 62; 122; 41; 40; 119; 41]) [0; 1; 2] = true /\
  c10_parse_o 512 false [40; 63; 60; 120; 62; 113; 41; 40; 63; 60; 48; 50; 62; 98; 41; 40; 97; 41] = Ok (PR_Err 39) /\
  c10_table_ok (c10_parse_o 0 false [40; 63; 60; 61; 97; 40; 63; 60; 110; 62; 98; 41; 42; 41; 92; 107; 60; 110; 62; 40; 63; 40; 110; 41; 99; 124; 100; 41]) [0; 1] = true /\
  c10_table_ok (c10_parse_L 256 false [40; 63; 110; 58; 91; 97; 45; 92; 100; 92; 80; 76; 40; 93; 41; 40; 98; 41]) [0; 1] = true.
Proof. vm_compute. repeat split; reflexivity. Qed.
