(* C20 — case-insensitive matching ignores case.
   This file only states the property theorems; proofs are in Proofs/CaseProofs.v.

   What is proved: on the reference semantics Model/Spec.v, for EVERY tree whose character tests
   respect the "same letter up to case" relation [sim] (predicate [ci_closed]), every fuel, state,
   direction and start offset, two inputs that differ only in the case of their letters give
   IDENTICAL results (result lists of [sem]: positions, captures, order; hence [attempt], [find],
   and the CPS search [findk] the extracted model runs).
   What is NOT proved here (claimed partial): that the PARSER builds a [ci_closed] tree for every
   pattern compiled with IgnoreCase, and that changing the case of pattern letters yields the same
   tree.  That half is covered by the metamorphic leg c20-case on the real engine (sampled) and by
   the class theorems of C16.

   Definitions used below (Proofs/CaseProofs.v):
     sim_ok sim            := sim reflexive and symmetric (transitivity is never needed)
     case_variant sim e e' := e' agrees with e on tstart, ecma, endz_strict and (pointwise) on the
                              oracles set_in, lower, is_word, is_eword; the texts have the same
                              length and sim (char_at e i) (char_at e' i) for 0 <= i < tlen e
     caseless sim c        := forall x, sim x c -> x = c
     resp_b sim f / resp_z := forall x y, sim x y -> f x = f y
     ci_closed sim e t     := every leaf of t respects sim:
        One/Notone c (also as loops)  caseless c            (the Ci bit has no effect on them)
        Set sid (also as loops)       resp_b (set_in e sid) (class, negation, subtraction alike)
        Multi o str                   if Ci bit then resp_z (lower e) else all of str caseless
        Ref o g                       Ci bit set /\ resp_z (lower e)
                                      (an exact back-reference is NOT invariant: (.)\1 on "aa"/"aA")
        Bol/Eol/EndZ                  caseless 10
        Boundary/Nonboundary          resp_b (is_word e);   ECMA variants: resp_b (is_eword e)
        everything else               no condition; inner nodes: all children closed *)
From Verif Require Import Base.Prelude Model.Tree Model.Spec Proofs.CaseProofs.

(* Input-side invariance, full strength over trees/fuel/states, under the explicit leaf condition. *)
Theorem C20_ci_input_invariant_partial :
  forall (sim : Z -> Z -> Prop) (e e' : env),
    sim_ok sim -> case_variant sim e e' ->
    forall t, ci_closed sim e t ->
    forall fuel s, sem e' fuel t s = sem e fuel t s.
Proof. exact case_sem_invariant. Qed.
Print Assumptions C20_ci_input_invariant_partial.

(* The search itself: both directions, every start offset, first or follow-up match (prevlen),
   in list form and in the CPS form that the extracted model runs; and every single attempt. *)
Theorem C20_ci_find_invariant_partial :
  forall (sim : Z -> Z -> Prop) (e e' : env),
    sim_ok sim -> case_variant sim e e' ->
    forall root, ci_closed sim e root ->
    forall fuel rtl start prevlen,
      find e' fuel root rtl start prevlen = find e fuel root rtl start prevlen
      /\ findk e' fuel root rtl start prevlen = findk e fuel root rtl start prevlen
      /\ (forall p, attempt e' fuel root p = attempt e fuel root p).
Proof. exact case_find_invariant. Qed.
Print Assumptions C20_ci_find_invariant_partial.

(* The hypothesis does not depend on which of the two inputs it is stated for. *)
Theorem C20_ci_closed_transports :
  forall (sim : Z -> Z -> Prop) (e e' : env),
    case_variant sim e e' -> forall t, ci_closed sim e t -> ci_closed sim e' t.
Proof. exact case_variant_closed. Qed.
Print Assumptions C20_ci_closed_transports.

(* The hypothesis is decidable when the non-trivial part of sim is a finite list of pairs (the
   simple upper/lower pairs of the property text): the boolean checker is sound and complete. *)
Theorem C20_ci_closed_checker :
  forall (sim : Z -> Z -> Prop) (pairs : list (Z * Z)),
    (forall x y, sim x y -> sim y x) ->
    (forall x y, In (x, y) pairs -> sim x y) ->
    (forall x y, sim x y -> x = y \/ In (x, y) pairs \/ In (y, x) pairs) ->
    forall e t, ci_closedb pairs e t = true <-> ci_closed sim e t.
Proof. exact ci_closedb_iff. Qed.
Print Assumptions C20_ci_closed_checker.

(* ---- non-vacuity: the ASCII relation and the trees syntax.Parse really builds ---- *)

Example C20_ascii_sim_is_ok :
  sim_ok ascii_sim
  /\ (forall x y, ascii_sim x y <->
        x = y \/ (97 <= x <= 122 /\ y = x - 32) \/ (65 <= x <= 90 /\ y = x + 32)).
Proof. split; [exact ascii_sim_ok | intros; reflexivity]. Qed.

(* (?i)(a)[b-c]+12\1$  =  Capture0(Concat(Capture1(Set[Aa]) SetloopAtomic[BCbc]{1,inf} Multi"12" Ref-I(1) EndZ))
   on "xaBc12A" and "XAbC12a": the tree is ci_closed, the texts are case variants, the theorem
   applies, and the common result is the match [1,7) with group 1 = [1,2). *)
Example C20_witness_backref :
  let w := [120; 97; 66; 99; 49; 50; 65] in
  let w' := [88; 65; 98; 67; 49; 50; 97] in
  ci_closed ascii_sim (case_ex_env w) case_ex_tree1
  /\ case_variant ascii_sim (case_ex_env w) (case_ex_env w')
  /\ find (case_ex_env w') 40 case_ex_tree1 false 0 (-1) = find (case_ex_env w) 40 case_ex_tree1 false 0 (-1)
  /\ find (case_ex_env w) 40 case_ex_tree1 false 0 (-1)
     = Ok (Some {| pos := 7; caps := [(1, [(1, 1)]); (0, [(1, 6)])] |})
  /\ findk (case_ex_env w') 40 case_ex_tree1 false 0 (-1)
     = Ok (Some {| pos := 7; caps := [(1, [(1, 1)]); (0, [(1, 6)])] |}).
Proof.
  cbv zeta. split; [apply case_ex_closedb_closed; vm_compute; reflexivity|].
  split; [apply case_ex_variant_b; vm_compute; reflexivity|].
  vm_compute. repeat split; reflexivity.
Qed.

(* (?i)xy[^b-c][a-z-[m]]\b  =  Capture0(Concat(Set[Xx] Set[Yy] Set[^BCbc] Set[A-Za-z U+017F U+212A -[Mm]] Boundary))
   (negated class, subtraction, word boundary) on "-xYdq." and "-XyDQ." *)
Example C20_witness_classes :
  let w := [45; 120; 89; 100; 113; 46] in
  let w' := [45; 88; 121; 68; 81; 46] in
  ci_closed ascii_sim (case_ex_env w) case_ex_tree2
  /\ case_variant ascii_sim (case_ex_env w) (case_ex_env w')
  /\ find (case_ex_env w') 40 case_ex_tree2 false 0 (-1) = find (case_ex_env w) 40 case_ex_tree2 false 0 (-1)
  /\ find (case_ex_env w) 40 case_ex_tree2 false 0 (-1) = Ok (Some {| pos := 5; caps := [(0, [(1, 4)])] |}).
Proof.
  cbv zeta. split; [apply case_ex_closedb_closed; vm_compute; reflexivity|].
  split; [apply case_ex_variant_b; vm_compute; reflexivity|].
  vm_compute. repeat split; reflexivity.
Qed.

(* right-to-left: (?i)a[b-c]+ with RightToLeft = Capture-L(Concatenate-L(Setloop-L[BCbc] Set-L[Aa]))
   on "-abC-" and "-ABc-", searching from the end *)
Example C20_witness_rtl :
  let w := [45; 97; 98; 67; 45] in
  let w' := [45; 65; 66; 99; 45] in
  ci_closed ascii_sim (case_ex_env w) case_ex_tree3
  /\ case_variant ascii_sim (case_ex_env w) (case_ex_env w')
  /\ find (case_ex_env w') 40 case_ex_tree3 true 5 (-1) = find (case_ex_env w) 40 case_ex_tree3 true 5 (-1)
  /\ find (case_ex_env w) 40 case_ex_tree3 true 5 (-1) = Ok (Some {| pos := 1; caps := [(0, [(1, 3)])] |}).
Proof.
  cbv zeta. split; [apply case_ex_closedb_closed; vm_compute; reflexivity|].
  split; [apply case_ex_variant_b; vm_compute; reflexivity|].
  vm_compute. repeat split; reflexivity.
Qed.

(* ---- the hypothesis is needed ---- *)

(* a plain One 'a' (what the parser must NOT leave for a cased letter): "a" matches, "A" does not,
   although the inputs are case variants; and the checker rejects the tree. *)
Example C20_without_ci_closed_results_differ :
  case_variant ascii_sim (case_ex_env [97]) (case_ex_env [65])
  /\ ci_closedb ascii_pairs (case_ex_env [97]) (NChar COne 0 97) = false
  /\ ~ ci_closed ascii_sim (case_ex_env [97]) (NChar COne 0 97)
  /\ find (case_ex_env [97]) 10 (NChar COne 0 97) false 0 (-1) = Ok (Some {| pos := 1; caps := [] |})
  /\ find (case_ex_env [65]) 10 (NChar COne 0 97) false 0 (-1) = Ok None.
Proof.
  split; [apply case_ex_variant_b; vm_compute; reflexivity|].
  split; [vm_compute; reflexivity|].
  split; [|vm_compute; split; reflexivity].
  intros H. specialize (H 65). cbn in H. assert (65 = 97) by (apply H; unfold ascii_sim; lia). lia.
Qed.

(* the set [A-Za-z-[m]] that addCaseEquivalences built for (?i)[a-z-[m]] before it descended into
   the subtraction (known finding, fixed): not ci_closed, and "M" matches while "m" does not. *)
Example C20_unclosed_subtraction_results_differ :
  case_variant ascii_sim (case_ex_env [109]) (case_ex_env [77])
  /\ ci_closedb ascii_pairs (case_ex_env [109]) (NChar CSet 1 6) = false
  /\ find (case_ex_env [109]) 10 (NChar CSet 1 6) false 0 (-1) = Ok None
  /\ find (case_ex_env [77]) 10 (NChar CSet 1 6) false 0 (-1) = Ok (Some {| pos := 1; caps := [] |}).
Proof.
  split; [apply case_ex_variant_b; vm_compute; reflexivity|].
  vm_compute. repeat split; reflexivity.
Qed.

(* an exact (non-Ci) back-reference is not invariant: (.)\1 matches "aa" but not "aA" — this is
   why ci_closed demands the Ci bit on Ref, which is what the parser sets under IgnoreCase. *)
Example C20_exact_backref_results_differ :
  let t := NCapture 0 0 (-1) (NConcat 0 [NCapture 0 1 (-1) (NChar CSet 0 0); NRef 0 1]) in
  case_variant ascii_sim (case_ex_env [97; 97]) (case_ex_env [97; 65])
  /\ find (case_ex_env [97; 97]) 20 t false 0 (-1)
     = Ok (Some {| pos := 2; caps := [(1, [(0, 1)]); (0, [(0, 2)])] |})
  /\ find (case_ex_env [97; 65]) 20 t false 0 (-1) = Ok None.
Proof.
  cbv zeta. split; [apply case_ex_variant_b; vm_compute; reflexivity|].
  vm_compute. split; reflexivity.
Qed.
