(* C20 — case-insensitive matching ignores case.
   This file only states the property theorems; proofs are in Proofs/CaseProofs.v.

   What is proved: on the reference semantics Model/Spec.v, for EVERY tree whose character tests
   respect the "same letter up to case" relation [sim] (predicate [ci_closed]), every fuel, state,
   direction and start offset, two inputs that differ only in the case of their letters give
   IDENTICAL results (result lists of [sem]: positions, captures, order; hence [attempt], [find],
   and the CPS search [findk] the extracted model runs).
   What is NOT proved here (claimed partial): that the PARSER builds a [ci_closed] tree for every
   pattern compiled with IgnoreCase, and that changing the case of pattern letters yields the same
   tree.  That half is covered by the metamorphic leg c20-case on the real engine (sampled), by
   the class theorems of C16, and - second half of this file - by
     (a) translation validation: leg c20-closed exports the tree the real parser+optimiser built for
         each generated IgnoreCase pattern and the PROVED checker [ci_closedb] decides the hypothesis
         for that tree inside the extracted model; C20_instance_find_invariant says what a passing
         instance means;
     (b) general theorems for the two leaf kinds the parser creates from pattern letters: the class of
         a bracket expression (C20_class_leaf_closed_partial) and the single-letter unit
         (C20_unit_leaf_closed), both for the relation "same unicode.SimpleFold orbit" on the
         generated table of Model/FoldD.v.

   Definitions used below (Proofs/CaseProofs.v):
     sim_ok sim            := sim reflexive and symmetric (transitivity is never needed)
     case_variant sim e e' := e' agrees with e on tstart, ecma, endz_strict and (pointwise) on the
                              oracles set_in, lower, is_word, is_eword; the texts have the same
                              length and sim (char_at e i) (char_at e' i) for 0 <= i < tlen e
     caseless sim c        := forall x, sim x c -> x = c
     resp_b sim f / resp_z := forall x y, sim x y -> f x = f y
     ci_closed sim e t     := every leaf of t respects sim:
        One/Notone c (also as loops)  caseless c            (the Ci bit has no effect on them)
        Set sid (also as loops)       resp_b (set_in e sid) (class, negation, subtraction alike)
        Multi o str                   if Ci bit then resp_z (lower e) else all of str caseless
        Ref o g                       Ci bit set /\ resp_z (lower e)
                                      (an exact back-reference is NOT invariant: (.)\1 on "aa"/"aA")
        Bol/Eol/EndZ                  caseless 10
        Boundary/Nonboundary          resp_b (is_word e);   ECMA variants: resp_b (is_eword e)
        everything else               no condition; inner nodes: all children closed *)
From Verif Require Import Base.Prelude Model.CharClass Model.FoldD
  Proofs.CharClassRanges Proofs.CharClassProofs Proofs.CharClassElab Proofs.CharClassFold Proofs.CharClassFoldThm
  Proofs.CharClassCi Proofs.CharClassCi3 Proofs.CharClassCi4 Proofs.CharClassCi5 Proofs.CharClassCi6.
(* imported last: Spec.sem (not the class semantics CharClass.sem) is what [sem] means below *)
From Verif Require Import Model.Tree Model.Spec Model.CaseLink Proofs.CaseProofs Proofs.CaseLinkProofs.

(* Input-side invariance, full strength over trees/fuel/states, under the explicit leaf condition. *)
Theorem C20_ci_input_invariant_partial :
  forall (sim : Z -> Z -> Prop) (e e' : env),
    sim_ok sim -> case_variant sim e e' ->
    forall t, ci_closed sim e t ->
    forall fuel s, sem e' fuel t s = sem e fuel t s.
Proof. exact case_sem_invariant. Qed.
Print Assumptions C20_ci_input_invariant_partial.

(* The search itself: both directions, every start offset, first or follow-up match (prevlen),
   in list form and in the CPS form that the extracted model runs; and every single attempt. *)
Theorem C20_ci_find_invariant_partial :
  forall (sim : Z -> Z -> Prop) (e e' : env),
    sim_ok sim -> case_variant sim e e' ->
    forall root, ci_closed sim e root ->
    forall fuel rtl start prevlen,
      find e' fuel root rtl start prevlen = find e fuel root rtl start prevlen
      /\ findk e' fuel root rtl start prevlen = findk e fuel root rtl start prevlen
      /\ (forall p, attempt e' fuel root p = attempt e fuel root p).
Proof. exact case_find_invariant. Qed.
Print Assumptions C20_ci_find_invariant_partial.

(* The hypothesis does not depend on which of the two inputs it is stated for. *)
Theorem C20_ci_closed_transports :
  forall (sim : Z -> Z -> Prop) (e e' : env),
    case_variant sim e e' -> forall t, ci_closed sim e t -> ci_closed sim e' t.
Proof. exact case_variant_closed. Qed.
Print Assumptions C20_ci_closed_transports.

(* The hypothesis is decidable when the non-trivial part of sim is a finite list of pairs (the
   simple upper/lower pairs of the property text): the boolean checker is sound and complete. *)
Theorem C20_ci_closed_checker :
  forall (sim : Z -> Z -> Prop) (pairs : list (Z * Z)),
    (forall x y, sim x y -> sim y x) ->
    (forall x y, In (x, y) pairs -> sim x y) ->
    (forall x y, sim x y -> x = y \/ In (x, y) pairs \/ In (y, x) pairs) ->
    forall e t, ci_closedb pairs e t = true <-> ci_closed sim e t.
Proof. exact ci_closedb_iff. Qed.
Print Assumptions C20_ci_closed_checker.

(* ---- non-vacuity: the ASCII relation and the trees syntax.Parse really builds ---- *)

Example C20_ascii_sim_is_ok :
  sim_ok ascii_sim
  /\ (forall x y, ascii_sim x y <->
        x = y \/ (97 <= x <= 122 /\ y = x - 32) \/ (65 <= x <= 90 /\ y = x + 32)).
Proof. split; [exact ascii_sim_ok | intros; reflexivity]. Qed.

(* (?i)(a)[b-c]+12\1$  =  Capture0(Concat(Capture1(Set[Aa]) SetloopAtomic[BCbc]{1,inf} Multi"12" Ref-I(1) EndZ))
   on "xaBc12A" and "XAbC12a": the tree is ci_closed, the texts are case variants, the theorem
   applies, and the common result is the match [1,7) with group 1 = [1,2). *)
Example C20_witness_backref :
  let w := [120; 97; 66; 99; 49; 50; 65] in
  let w' := [88; 65; 98; 67; 49; 50; 97] in
  ci_closed ascii_sim (case_ex_env w) case_ex_tree1
  /\ case_variant ascii_sim (case_ex_env w) (case_ex_env w')
  /\ find (case_ex_env w') 40 case_ex_tree1 false 0 (-1) = find (case_ex_env w) 40 case_ex_tree1 false 0 (-1)
  /\ find (case_ex_env w) 40 case_ex_tree1 false 0 (-1)
     = Ok (Some {| pos := 7; caps := [(1, [(1, 1)]); (0, [(1, 6)])] |})
  /\ findk (case_ex_env w') 40 case_ex_tree1 false 0 (-1)
     = Ok (Some {| pos := 7; caps := [(1, [(1, 1)]); (0, [(1, 6)])] |}).
Proof.
  cbv zeta. split; [apply case_ex_closedb_closed; vm_compute; reflexivity|].
  split; [apply case_ex_variant_b; vm_compute; reflexivity|].
  vm_compute. repeat split; reflexivity.
Qed.

(* (?i)xy[^b-c][a-z-[m]]\b  =  Capture0(Concat(Set[Xx] Set[Yy] Set[^BCbc] Set[A-Za-z U+017F U+212A -[Mm]] Boundary))
   (negated class, subtraction, word boundary) on "-xYdq." and "-XyDQ." *)
Example C20_witness_classes :
  let w := [45; 120; 89; 100; 113; 46] in
  let w' := [45; 88; 121; 68; 81; 46] in
  ci_closed ascii_sim (case_ex_env w) case_ex_tree2
  /\ case_variant ascii_sim (case_ex_env w) (case_ex_env w')
  /\ find (case_ex_env w') 40 case_ex_tree2 false 0 (-1) = find (case_ex_env w) 40 case_ex_tree2 false 0 (-1)
  /\ find (case_ex_env w) 40 case_ex_tree2 false 0 (-1) = Ok (Some {| pos := 5; caps := [(0, [(1, 4)])] |}).
Proof.
  cbv zeta. split; [apply case_ex_closedb_closed; vm_compute; reflexivity|].
  split; [apply case_ex_variant_b; vm_compute; reflexivity|].
  vm_compute. repeat split; reflexivity.
Qed.

(* right-to-left: (?i)a[b-c]+ with RightToLeft = Capture-L(Concatenate-L(Setloop-L[BCbc] Set-L[Aa]))
   on "-abC-" and "-ABc-", searching from the end *)
Example C20_witness_rtl :
  let w := [45; 97; 98; 67; 45] in
  let w' := [45; 65; 66; 99; 45] in
  ci_closed ascii_sim (case_ex_env w) case_ex_tree3
  /\ case_variant ascii_sim (case_ex_env w) (case_ex_env w')
  /\ find (case_ex_env w') 40 case_ex_tree3 true 5 (-1) = find (case_ex_env w) 40 case_ex_tree3 true 5 (-1)
  /\ find (case_ex_env w) 40 case_ex_tree3 true 5 (-1) = Ok (Some {| pos := 1; caps := [(0, [(1, 3)])] |}).
Proof.
  cbv zeta. split; [apply case_ex_closedb_closed; vm_compute; reflexivity|].
  split; [apply case_ex_variant_b; vm_compute; reflexivity|].
  vm_compute. repeat split; reflexivity.
Qed.

(* ---- the hypothesis is needed ---- *)

(* a plain One 'a' (what the parser must NOT leave for a cased letter): "a" matches, "A" does not,
   although the inputs are case variants; and the checker rejects the tree. *)
Example C20_without_ci_closed_results_differ :
  case_variant ascii_sim (case_ex_env [97]) (case_ex_env [65])
  /\ ci_closedb ascii_pairs (case_ex_env [97]) (NChar COne 0 97) = false
  /\ ~ ci_closed ascii_sim (case_ex_env [97]) (NChar COne 0 97)
  /\ find (case_ex_env [97]) 10 (NChar COne 0 97) false 0 (-1) = Ok (Some {| pos := 1; caps := [] |})
  /\ find (case_ex_env [65]) 10 (NChar COne 0 97) false 0 (-1) = Ok None.
Proof.
  split; [apply case_ex_variant_b; vm_compute; reflexivity|].
  split; [vm_compute; reflexivity|].
  split; [|vm_compute; split; reflexivity].
  intros H. specialize (H 65). cbn in H. assert (65 = 97) by (apply H; unfold ascii_sim; lia). lia.
Qed.

(* the set [A-Za-z-[m]] that addCaseEquivalences built for (?i)[a-z-[m]] before it descended into
   the subtraction (known finding, fixed): not ci_closed, and "M" matches while "m" does not. *)
Example C20_unclosed_subtraction_results_differ :
  case_variant ascii_sim (case_ex_env [109]) (case_ex_env [77])
  /\ ci_closedb ascii_pairs (case_ex_env [109]) (NChar CSet 1 6) = false
  /\ find (case_ex_env [109]) 10 (NChar CSet 1 6) false 0 (-1) = Ok None
  /\ find (case_ex_env [77]) 10 (NChar CSet 1 6) false 0 (-1) = Ok (Some {| pos := 1; caps := [] |}).
Proof.
  split; [apply case_ex_variant_b; vm_compute; reflexivity|].
  vm_compute. repeat split; reflexivity.
Qed.

(* an exact (non-Ci) back-reference is not invariant: (.)\1 matches "aa" but not "aA" — this is
   why ci_closed demands the Ci bit on Ref, which is what the parser sets under IgnoreCase. *)
Example C20_exact_backref_results_differ :
  let t := NCapture 0 0 (-1) (NConcat 0 [NCapture 0 1 (-1) (NChar CSet 0 0); NRef 0 1]) in
  case_variant ascii_sim (case_ex_env [97; 97]) (case_ex_env [97; 65])
  /\ find (case_ex_env [97; 97]) 20 t false 0 (-1)
     = Ok (Some {| pos := 2; caps := [(1, [(0, 1)]); (0, [(0, 2)])] |})
  /\ find (case_ex_env [97; 65]) 20 t false 0 (-1) = Ok None.
Proof.
  cbv zeta. split; [apply case_ex_variant_b; vm_compute; reflexivity|].
  vm_compute. split; reflexivity.
Qed.

(* ================================================================================================
   The link parser -> ci_closed.

   Definitions (Proofs/CaseLinkProofs.v, Model/CaseLink.v):
     pairs_sim pairs x y      := x = y \/ In (x, y) pairs \/ In (y, x) pairs
     pair_member pairs x      := x occurs in some pair
     oracles_agree_on P e e0  := set_in, lower, is_word, is_eword of e and e0 coincide on the runes satisfying P
     orbit_sim x y            := x = y \/ (x is in the table dom_t /\ y is in x's SimpleFold orbit)
                                 (fold_t / dom_t: unicode.SimpleFold of the Go toolchain on U+0000-U+024F, the plain
                                  pairs of Latin-1/Greek/Cyrillic and their closure; compared with the toolchain by
                                  leg c16-class-0 on every run)
     unit_leaf                := parser.addUnitOne/addUnitNotone -> nodeWithCaseConversion -> reduce, as executable
                                 model (compared with the real parser by leg c20-closed on ~1200 one-letter patterns)
     elab                     := C16's model of scanCharSet + the node's case conversion (compared by legs c16-class-0..3) *)

(* ---- (a) per instance ---- *)

(* What a passing instance of leg c20-closed means.  e0 = the environment decoded from the shipped
   oracle tables (any text), t = the exported tree, pairs = the shipped case pairs.  Then for EVERY
   environment e (every input text, the real oracles) that agrees with the tables on the runes
   occurring in the pairs, the hypothesis of the invariance theorems holds, hence every input e'
   that differs from e only by exchanging members of the pairs gives identical results. *)
Theorem C20_instance_find_invariant :
  forall (pairs : list (Z * Z)) (e0 : env) (t : node),
    ci_closedb pairs e0 t = true ->
    forall e, oracles_agree_on (pair_member pairs) e e0 ->
    ci_closed (pairs_sim pairs) e t /\
    forall e', case_variant (pairs_sim pairs) e e' ->
    forall fuel rtl start prevlen,
      find e' fuel t rtl start prevlen = find e fuel t rtl start prevlen
      /\ findk e' fuel t rtl start prevlen = findk e fuel t rtl start prevlen
      /\ (forall p, attempt e' fuel t p = attempt e fuel t p)
      /\ (forall s, Spec.sem e' fuel t s = Spec.sem e fuel t s).
Proof. exact clink_instance_find_invariant. Qed.
Print Assumptions C20_instance_find_invariant.

(* the relation generated by a pair list satisfies the hypotheses of the earlier theorems, and the
   checker is exact for it without side conditions *)
Theorem C20_pairs_sim_checker :
  forall (pairs : list (Z * Z)),
    sim_ok (pairs_sim pairs) /\
    forall e t, ci_closedb pairs e t = true <-> ci_closed (pairs_sim pairs) e t.
Proof. intros pairs. split; [apply pairs_sim_ok | intros e t; apply clink_closedb_iff]. Qed.
Print Assumptions C20_pairs_sim_checker.

(* the checker consults the oracles only at members of the pairs *)
Theorem C20_checker_reads_pair_members :
  forall (pairs : list (Z * Z)) (e e0 : env),
    oracles_agree_on (pair_member pairs) e e0 ->
    forall t, ci_closedb pairs e t = ci_closedb pairs e0 t.
Proof. exact clink_closedb_ext. Qed.
Print Assumptions C20_checker_reads_pair_members.

(* the leaf named in the replay text of a failing instance exists exactly when the checker rejects *)
Theorem C20_first_open_consistent :
  forall (pairs : list (Z * Z)) (e : env) (t : node),
    ci_first_open pairs e t = [] <-> ci_closedb pairs e t = true.
Proof. exact clink_first_open_nil. Qed.
Print Assumptions C20_first_open_consistent.

(* ---- (b) general leaf theorems ---- *)

Theorem C20_orbit_sim_ok :
  sim_ok orbit_sim /\
  (forall x y, ascii_sim x y -> orbit_sim x y) /\
  (forall pairs, pairs_in_orbits pairs = true -> forall x y, pairs_sim pairs x y -> orbit_sim x y) /\
  (forall (sim sim' : Z -> Z -> Prop), (forall x y, sim' x y -> sim x y) ->
     (forall f, resp_b sim f -> resp_b sim' f) /\ (forall c, caseless sim c -> caseless sim' c)).
Proof.
  split; [exact orbit_sim_ok|]. split; [exact clink_ascii_sub_orbit|]. split; [exact clink_pairs_sub_orbit|].
  intros sim sim' H. split; [intros f; apply clink_resp_b_mono, H | intros c; apply clink_caseless_mono, H].
Qed.
Print Assumptions C20_orbit_sim_ok.

(* all plain upper/lower pairs of the claimed domain (Model/FoldD.pair_dom: the letters of ASCII, Latin-1,
   Greek and Cyrillic whose fold orbit is exactly {lower, upper}, 3xx pairs) lie inside orbit_sim, so the two
   leaf theorems below apply to the property's own relation *)
Theorem C20_plain_pairs_in_orbit_sim :
  (forall x, In x pair_dom -> orbit_sim x (fold_t x) /\ pairs_sim pair_dom_pairs x (fold_t x)) /\
  (forall x y, pairs_sim pair_dom_pairs x y -> orbit_sim x y).
Proof.
  assert (H : forall x y, pairs_sim pair_dom_pairs x y -> orbit_sim x y)
    by exact (clink_pairs_sub_orbit pair_dom_pairs clink_pair_dom_in_orbits).
  split; [|exact H]. intros x Hx.
  assert (P : pairs_sim pair_dom_pairs x (fold_t x)).
  { right. left. unfold pair_dom_pairs. apply in_map_iff. exists x. split; [reflexivity|exact Hx]. }
  split; [apply H, P | exact P].
Qed.
Print Assumptions C20_plain_pairs_in_orbit_sim.

(* The Set-leaf condition of ci_closed holds for the class the parser builds for ANY bracket expression
   under IgnoreCase (alone or with ECMAScript / RE2), negated classes and nested subtraction included:
   it does not distinguish two runes of one SimpleFold orbit.
   PARTIAL, exactly as C16_char_in_denote_partial_ignorecase_table (the IgnoreCase theorem of C16 on members of good_dom) on which it rests:
     - oracles agree with the generated table on dom_t; the related runes lie in dom_t (orbit_sim);
     - ci_syn_ok: code-point members in good_dom (dom_t without U+00D7, U+0130, U+1E9E), positive
       ASCII-table shorthands / POSIX names, no NEGATED cased-letter category (known finding
       ci_negated_case_category: (?i)\P{Lu} matches everything - which is case-closed, but outside C16's
       characterisation);
     - syn_cats_resp: every Unicode category named in the expression does not distinguish runes of one
       orbit (Ll/Lu/Lt only as their union, which is how IgnoreCase uses them).  This is a fact about
       Unicode, not about the engine; it FAILS for block/script names (\p{IsLatin-1Supplement} contains
       U+00FF but not U+0178), which are therefore outside the claim. *)
Theorem C20_class_leaf_closed_partial :
  forall (cat_in : Z -> Z -> bool) (simple_fold to_lower : Z -> Z),
    (forall x, In x dom_t -> simple_fold x = fold_t x /\ to_lower x = lower_t x) ->
    forall (o : opts) (s : csyn) (c : cls),
      o_ci o = true -> wf_syn s -> ci_syn_ok o s -> syn_cats_resp cat_in o orbit_sim s ->
      elab cat_in simple_fold to_lower orbit_fuel s o = Ok c ->
      resp_b orbit_sim (char_in cat_in c) /\
      forall (e : env) (sid o' : Z), (forall x, set_in e sid x = char_in cat_in c x) ->
        ci_closed orbit_sim e (NChar CSet o' sid).
Proof.
  intros cat_in sf tl Hag o s c Hci Hw Hok Hc He.
  pose proof (clink_class_resp cat_in sf tl Hag o Hci s c Hw Hok Hc He) as H.
  split; [exact H|]. intros e sid o' Hset x y Hxy. cbn. rewrite !Hset. apply H, Hxy.
Qed.
Print Assumptions C20_class_leaf_closed_partial.

(* The category hypothesis cannot be dropped: the statement without syn_cats_resp is refuted on the faithful
   model by a category whose table is not closed under case and whose NAME is not one of "Ll" "Lu" "Lt".
   Real instances: (1) until repair 858f498 the long aliases Uppercase_Letter / Lowercase_Letter /
   Titlecase_Letter, which the engine filed under their own names and therefore did not widen under IgnoreCase:
   (?i)\p{Uppercase_Letter} matched "A" but not "a" although (?i)\p{Lu} matches both (addCategory compared the
   spelling instead of the table; found by this proof attempt, now in the regression corpus of leg c20-closed;
   the harness gives the three aliases the cased-letter ids 2/3/4);
   (2) by design: scripts and derived properties ((?i)\p{Greek} matches U+03BC but not the micro sign U+00B5 of
   the same fold orbit). *)
Definition C20_class_leaf_closed_full : Prop :=
  forall (cat_in : Z -> Z -> bool) (simple_fold to_lower : Z -> Z),
    (forall x, In x dom_t -> simple_fold x = fold_t x /\ to_lower x = lower_t x) ->
    forall (o : opts) (s : csyn) (c : cls),
      o_ci o = true -> wf_syn s -> ci_syn_ok o s ->
      elab cat_in simple_fold to_lower orbit_fuel s o = Ok c ->
      resp_b orbit_sim (char_in cat_in c).

Theorem C20_class_leaf_closed_refuted : ~ C20_class_leaf_closed_full.
Proof.
  intros H.
  (* category 16 = "the upper-case ASCII letters" under a name the engine does not treat as a cased-letter category *)
  set (cat := fun name ch : Z => (name =? 16) && (65 <=? ch) && (ch <=? 90)).
  specialize (H cat fold_t lower_t (fun x _ => conj eq_refl eq_refl) (Opts true false false)
                (CSyn false [IProp false 16] None)
                (Cls [] [(false, 16)] None false false None) eq_refl).
  assert (W : wf_syn (CSyn false [IProp false 16] None))
    by (cbn [wf_syn]; split; [apply Forall_cons; [exact I|apply Forall_nil]|exact I]).
  assert (K : ci_syn_ok (Opts true false false) (CSyn false [IProp false 16] None))
    by (cbn [ci_syn_ok]; split; [apply Forall_cons; [reflexivity|apply Forall_nil]|exact I]).
  specialize (H W K ltac:(vm_compute; reflexivity) 65 97).
  assert (S : orbit_sim 65 97) by (right; split; apply zmem_In; vm_compute; reflexivity).
  specialize (H S). vm_compute in H. discriminate.
Qed.
Print Assumptions C20_class_leaf_closed_refuted.

(* The single-letter unit (a pattern letter outside brackets, quantified or not) under IgnoreCase, as
   built by addUnitOne / addUnitNotone and left by reduce: for EVERY rune of the table the leaf is
   ci-closed for the orbit relation - a rune with a fold partner becomes the class of its orbit
   (possibly negated), a rune without one stays One / Notone and is case-less. *)
Theorem C20_unit_leaf_closed :
  forall (cat_in : Z -> Z -> bool) (simple_fold : Z -> Z),
    (forall x, In x dom_t -> simple_fold x = fold_t x) ->
    forall (notone : bool) (o ch : Z) (l : uleaf),
      is_ci o = true -> In ch dom_t ->
      unit_leaf cat_in simple_fold orbit_fuel notone o ch = Ok l ->
      uleaf_closed orbit_sim cat_in l /\
      (fold_t ch = ch -> l = UCh notone (Z.ldiff o OPT_CI) ch) /\
      forall (e : env) (sid : Z),
        (forall c o', l = USet o' c -> forall x, set_in e sid x = char_in cat_in c x) ->
        ci_closed orbit_sim e (uleaf_node l sid).
Proof.
  intros cat_in sf Hag notone o ch l Hci Hd Hl.
  destruct (clink_unit_leaf_closed cat_in sf Hag notone o ch l Hci Hd Hl) as [H1 H2].
  split; [exact H1|]. split; [exact H2|].
  intros e sid Hset. apply (clink_uleaf_node_closed orbit_sim cat_in l e sid H1 Hset).
Qed.
Print Assumptions C20_unit_leaf_closed.

(* ---- non-vacuity of the link theorems ---- *)

(* a passing instance: the tree of (?i)(a)[b-c]+12\1$ and the 26 ASCII pairs; the conclusion then holds
   for every text and every ASCII case change of it *)
Example C20_instance_witness :
  ci_closedb ascii_pairs (case_ex_env []) case_ex_tree1 = true /\
  forall w w' : list Z, case_variant (pairs_sim ascii_pairs) (case_ex_env w) (case_ex_env w') ->
    forall fuel rtl start prevlen,
      find (case_ex_env w') fuel case_ex_tree1 rtl start prevlen = find (case_ex_env w) fuel case_ex_tree1 rtl start prevlen.
Proof.
  assert (H : ci_closedb ascii_pairs (case_ex_env []) case_ex_tree1 = true) by (vm_compute; reflexivity).
  split; [exact H|]. intros w w' Hv fuel rtl start prevlen.
  destruct (C20_instance_find_invariant ascii_pairs (case_ex_env []) case_ex_tree1 H (case_ex_env w)) as [_ K].
  { intros x _. cbn. auto. }
  apply (K (case_ex_env w') Hv fuel rtl start prevlen).
Qed.

(* a failing instance names its leaf: Concat(Set[Aa], One 'b') - node 3 in preorder (0 Capture, 1 Concat, 2 Set), type 9 = One, rune 98 *)
Example C20_first_open_witness :
  ci_first_open ascii_pairs (case_ex_env []) (NCapture 0 0 (-1) (NConcat 0 [NChar CSet 0 0; NChar COne 0 98])) = [3; 9; 98].
Proof. vm_compute. reflexivity. Qed.

(* (?i)[a-z-[b]] and (?i)[^k] with the table as oracle: the classes the parser builds, and they do not
   distinguish k / K / U+212A KELVIN SIGN nor s / S / U+017F *)
Example C20_class_leaf_witness :
  let cat := fun (_ _ : Z) => false in
  let o := Opts true false false in
  let s1 := CSyn false [IRange 97 122] (Some (CSyn false [IRange 98 98] None)) in
  let s2 := CSyn true [IRange 107 107] None in
  wf_syn s1 /\ ci_syn_ok o s1 /\ syn_cats_resp cat o orbit_sim s1 /\
  wf_syn s2 /\ ci_syn_ok o s2 /\ syn_cats_resp cat o orbit_sim s2 /\
  orbit_sim 107 8490 /\ orbit_sim 115 383 /\
  exists c1 c2, elab cat fold_t lower_t orbit_fuel s1 o = Ok c1 /\ elab cat fold_t lower_t orbit_fuel s2 o = Ok c2 /\
    map (char_in cat c1) [107; 75; 8490; 115; 383; 98; 66] = [true; true; true; true; true; false; false] /\
    map (char_in cat c2) [107; 75; 8490; 115] = [false; false; false; true].
Proof.
  cbn zeta.
  assert (G : forall x, 0 <= x < 128 -> In x good_dom) by exact ascii_good.
  repeat match goal with |- _ /\ _ => split end.
  - cbn [wf_syn]. split; [apply Forall_cons; [unfold wf_item, max_rune; lia|apply Forall_nil]|].
    split; [apply Forall_cons; [unfold wf_item, max_rune; lia|apply Forall_nil]|exact I].
  - cbn [ci_syn_ok]. split; [apply Forall_cons; [cbn [ci_item_ok]; intros; apply G; lia|apply Forall_nil]|].
    split; [apply Forall_cons; [cbn [ci_item_ok]; intros; apply G; lia|apply Forall_nil]|exact I].
  - cbn [syn_cats_resp]. split; [apply Forall_cons; [exact I|apply Forall_nil]|].
    split; [apply Forall_cons; [exact I|apply Forall_nil]|exact I].
  - cbn [wf_syn]. split; [apply Forall_cons; [unfold wf_item, max_rune; lia|apply Forall_nil]|exact I].
  - cbn [ci_syn_ok]. split; [apply Forall_cons; [cbn [ci_item_ok]; intros; apply G; lia|apply Forall_nil]|exact I].
  - cbn [syn_cats_resp]. split; [apply Forall_cons; [exact I|apply Forall_nil]|exact I].
  - right. split; apply zmem_In; vm_compute; reflexivity.
  - right. split; apply zmem_In; vm_compute; reflexivity.
  - eexists. eexists. split; [vm_compute; reflexivity|]. split; [vm_compute; reflexivity|].
    split; vm_compute; reflexivity.
Qed.

(* the unit: (?i)a -> Set [Aa]; (?i)1 stays One; U+01C5 (titlecase, orbit of three) -> Set [U+01C4-U+01C6] *)
Example C20_unit_leaf_witness :
  let cat := fun (_ _ : Z) => false in
  unit_leaf cat fold_t orbit_fuel false 1 97 = Ok (USet 0 (Cls [(65, 65); (97, 97)] [] None false false None)) /\
  unit_leaf cat fold_t orbit_fuel false 65 49 = Ok (UCh false 64 49) /\
  unit_leaf cat fold_t orbit_fuel false 1 453 = Ok (USet 0 (Cls [(452, 454)] [] None false false None)) /\
  In 97 dom_t /\ In 49 dom_t /\ In 453 dom_t.
Proof. cbn zeta. repeat split; try (vm_compute; reflexivity); apply zmem_In; vm_compute; reflexivity. Qed.

(* Before repair e0fcd53 the parser left U+01C5 as One (IsLower||IsUpper is false for a titlecase letter):
   that leaf is not case-less for the orbit relation, the checker rejects it, and the two inputs
   "\u01C5" / "\u01C6" (ToLower of each other's orbit) give different results - the defect this link found. *)
Example C20_old_titlecase_unit_not_closed :
  ~ caseless orbit_sim 453 /\
  ci_closedb [(454, 453)] (case_ex_env []) (NChar COne 0 453) = false /\
  case_variant orbit_sim (case_ex_env [453]) (case_ex_env [454]) /\
  find (case_ex_env [453]) 10 (NChar COne 0 453) false 0 (-1) = Ok (Some {| pos := 1; caps := [] |}) /\
  find (case_ex_env [454]) 10 (NChar COne 0 453) false 0 (-1) = Ok None.
Proof.
  split; [exact clink_old_titlecase_open|]. split; [vm_compute; reflexivity|].
  split; [|vm_compute; split; reflexivity].
  unfold case_variant. cbn. repeat split; auto.
  intros i Hi. unfold tlen, zlen in Hi. cbn in Hi. assert (i = 0) by lia. subst i. cbn.
  apply (proj2 orbit_sim_ok). right. split; apply zmem_In; vm_compute; reflexivity.
Qed.
