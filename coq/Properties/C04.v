(* C04 — compile-time facts published for a pattern hold at every real match.
   Statements only; proofs are in Proofs/AnalysisReach.v and Proofs/AnalysisProofs.v.

   Model/Analysis.v transcribes the analyses of syntax/tree.go, prefix.go, prefixanalyzer.go and
   optimizations.go; leg c04-analysis checks on every run that it reproduces the facts the
   implementation publishes.  The theorems below say that those facts are true of EVERY successful
   attempt of the reference semantics Spec.attempt (every input, every start position, every fuel).

   Hypotheses on the tree (Model/Analysis.v, checked on every exported real tree by the leg):
     shape_ok d t : all nodes outside lookarounds have direction d, 0 <= m <= n on loops, no empty
                    alternation, conditionals have both branches;
     no_ci_lit t  : no literal node carries the IgnoreCase bit (tree.go:480-482 clears it);
     look_ok t    : the child of a leading positive lookahead (if any) satisfies both.

   Proved for every input: minimum / maximum length, leading and trailing anchors (both directions),
   the fixed-length trailing-anchor jump, the leading literal LeadingPrefix (left-to-right), the
   facts taken from a leading positive lookahead, the whole published record [facts], the legacy
   Code.Anchors bits and the Boyer-Moore prefix (left-to-right, case-sensitive).
   NOT proved here (checked only at sampled real matches by leg c04-facts): the right-to-left
   LeadingPrefix / Boyer-Moore prefix, the case-insensitive prefix, LeadingPrefixes, fixed-distance
   sets / characters / strings, the literal after a leading loop, the landmark chain, the
   first-character set (FcPrefix).  *)
From Verif Require Import Base.Prelude Model.CharClass Base.Utf8 Model.Tree Model.Spec Model.Analysis Model.Analysis2
     Proofs.AnalysisReach Proofs.AnalysisProofs Proofs.AnalysisPrefix Proofs.AnalysisFacts
     Proofs.Analysis2Cls Proofs.Analysis2Ffcc Proofs.Analysis2Fixed Proofs.Analysis2Lal Proofs.Analysis2Prefixes Proofs.Analysis2Chain Proofs.Analysis2Fc Proofs.Analysis2Abbrev
     Proofs.Utf8Proofs.

(* ---- MinRequiredLength / MaxPossibleLength --------------------------------------------------- *)

(* Per node, all states: a result of a direction-d node lies at least min_len and (when max_len is
   known, i.e. not -1) at most max_len characters further in direction d, and inside the text. *)
Theorem C04_len_sound :
  forall e (d : bool) fuel t s l y,
    shape_ok d t = true -> 0 <= pos s <= tlen e -> caps_nonneg (caps s) ->
    sem e fuel t s = Ok l -> In y l ->
    0 <= pos y <= tlen e /\
    min_len t <= (if d then pos s - pos y else pos y - pos s) /\
    (0 <= max_len t -> (if d then pos s - pos y else pos y - pos s) <= max_len t).
Proof. exact an_len_sound. Qed.
Print Assumptions C04_len_sound.

(* Left-to-right pattern: a successful attempt at p needs min_len characters ahead of p -- exactly the
   cut-off of the scan loop (runner.go:166-177: Runtextend - Runtextpos < MinRequiredLength) -- and the
   match is min_len .. max_len long. *)
Theorem C04_min_len_sound :
  forall e fuel root p s',
    shape_ok false root = true -> 0 <= p <= tlen e ->
    attempt e fuel root p = Ok (Some s') ->
    min_len root <= tlen e - p /\ min_len root <= pos s' - p.
Proof.
  intros e fuel root p s' Hs Hp Ha.
  destruct (an_attempt_len_sound e false fuel root p s' Hs Hp Ha) as [Hb [Hmin _]]. lia.
Qed.
Print Assumptions C04_min_len_sound.

(* Right-to-left pattern: the attempt needs min_len characters before p (runner.go:168: Runtextpos < MinRequiredLength). *)
Theorem C04_min_len_sound_rtl :
  forall e fuel root p s',
    shape_ok true root = true -> 0 <= p <= tlen e ->
    attempt e fuel root p = Ok (Some s') ->
    min_len root <= p /\ min_len root <= p - pos s'.
Proof.
  intros e fuel root p s' Hs Hp Ha.
  destruct (an_attempt_len_sound e true fuel root p s' Hs Hp Ha) as [Hb [Hmin _]]. lia.
Qed.
Print Assumptions C04_min_len_sound_rtl.

Theorem C04_max_len_sound :
  forall e (d : bool) fuel root p s',
    shape_ok d root = true -> 0 <= p <= tlen e -> 0 <= max_len root ->
    attempt e fuel root p = Ok (Some s') ->
    Z.abs (pos s' - p) <= max_len root.
Proof.
  intros e d fuel root p s' Hs Hp Hm Ha.
  destruct (an_attempt_len_sound e d fuel root p s' Hs Hp Ha) as [Hb [Hmin Hmax]].
  specialize (Hmax Hm).
  assert (H0 : 0 <= min_len root) by (apply (an_min_len_nonneg d); exact Hs).
  destruct d; cbv iota in Hmin, Hmax; lia.
Qed.
Print Assumptions C04_max_len_sound.

(* ---- LeadingAnchor / TrailingAnchor (any tree, any direction) ------------------------------- *)

(* the anchor reported for the start of the pattern holds at the attempt position *)
Theorem C04_leading_anchor_sound :
  forall e fuel root p s' a,
    lead_anchor true root = Some a -> attempt e fuel root p = Ok (Some s') -> anchor_ok e a p = true.
Proof. exact an_attempt_lead_anchor. Qed.
Print Assumptions C04_leading_anchor_sound.

(* ... spelled out for the anchors the scan loop acts on (optimizations.go:603 getFindMode, Bol) *)
Theorem C04_leading_anchor_cases :
  forall e fuel root p s' a,
    lead_anchor true root = Some a -> 0 <= p <= tlen e -> attempt e fuel root p = Ok (Some s') ->
    match a with
    | ABeginning => p = 0
    | AStart => p = tstart e
    | AEnd => p = tlen e
    | AEndZ => tlen e - 1 <= p /\ (p = tlen e - 1 -> endz_strict e = false /\ char_at e p = 10)
    | ABol => p = 0 \/ char_at e (p - 1) = 10
    | AEol => p = tlen e \/ char_at e p = 10
    | _ => True
    end.
Proof.
  intros e fuel root p s' a Hla Hp Ha.
  pose proof (an_attempt_lead_anchor e fuel root p s' a Hla Ha) as Hok.
  destruct a; cbn [anchor_ok] in Hok; try exact I; try lia.
  destruct (1 <? tlen e - p) eqn:E1; [discriminate Hok|].
  split; [lia|]. intros Hp1. destruct (endz_strict e); [lia|]. split; [reflexivity|lia].
Qed.
Print Assumptions C04_leading_anchor_cases.

(* the anchor reported for the end of the pattern holds where the match ends *)
Theorem C04_trailing_anchor_sound :
  forall e fuel root p s' a,
    lead_anchor false root = Some a -> attempt e fuel root p = Ok (Some s') -> anchor_ok e a (pos s') = true.
Proof. exact an_attempt_trail_anchor. Qed.
Print Assumptions C04_trailing_anchor_sound.

(* TrailingAnchor_FixedLength_LeftToRight_End / _EndZ (optimizations.go:385-395, runner.go:1527
   findTrailingFixedLengthEnd): with a trailing \z and min = max = k the only possible start is n - k;
   with a trailing \Z it is n - k or n - k - 1. *)
Theorem C04_trailing_fixed_length_sound :
  forall e fuel root p s' a,
    shape_ok false root = true -> 0 <= p <= tlen e ->
    lead_anchor false root = Some a -> min_len root = max_len root ->
    attempt e fuel root p = Ok (Some s') ->
    match a with
    | AEnd => p = tlen e - min_len root
    | AEndZ => tlen e - min_len root - 1 <= p <= tlen e - min_len root
    | _ => True
    end.
Proof.
  intros e fuel root p s' a Hs Hp Hta Hmm Ha.
  destruct (an_attempt_len_sound e false fuel root p s' Hs Hp Ha) as [Hb [Hmin Hmax]].
  pose proof (an_attempt_trail_anchor e fuel root p s' a Hta Ha) as Hok.
  assert (H0 : 0 <= min_len root) by (apply (an_min_len_nonneg false); exact Hs).
  specialize (Hmax ltac:(lia)).
  destruct a; cbn [anchor_ok] in Hok; try exact I; try lia.
  destruct (1 <? tlen e - pos s') eqn:E1; [discriminate Hok|]. lia.
Qed.
Print Assumptions C04_trailing_fixed_length_sound.

(* ---- LeadingPrefix (findPrefix / tryFindPrefix), left-to-right ------------------------------ *)

(* LeadingPrefix is a BYTE string (bytes.Buffer; the common prefix of alternation branches is cut at
   byte level) and is searched in the raw UTF-8 input by the string prefilter: the UTF-8 encoding of
   the text from the attempt position on starts with it. *)
Theorem C04_find_prefix_sound :
  forall e fuel root p s',
    shape_ok false root = true -> no_ci_lit root = true -> 0 <= p <= tlen e ->
    attempt e fuel root p = Ok (Some s') ->
    exists rest, encode_string (skipn (Z.to_nat p) (txt e)) = find_prefix root ++ rest.
Proof. exact an_find_prefix_sound. Qed.
Print Assumptions C04_find_prefix_sound.

(* The alternation case as it was before commit 2fbedd8 (every branch compared with the WHOLE prefix of
   the first branch) is refuted: `(cde)|(cx)|(cdef)` published "cde" and matches "cx". *)
Definition ex_env (t : list Z) : env :=
  {| txt := t; tstart := 0; ecma := false; endz_strict := false; set_in := fun _ _ => false;
     lower := fun r => r; is_word := fun _ => false; is_eword := fun _ => false |}.

Definition ex_alt3 : node :=
  NCapture 0 0 (-1) (NAlternate 0 [NCapture 0 1 (-1) (NMulti 0 [99; 100; 101]);
                                   NCapture 0 2 (-1) (NMulti 0 [99; 120]);
                                   NCapture 0 3 (-1) (NMulti 0 [99; 100; 101; 102])]).

Theorem C04_find_prefix_unfixed_refuted :
  exists e fuel root p s',
    shape_ok false root = true /\ no_ci_lit root = true /\ 0 <= p <= tlen e /\
    attempt e fuel root p = Ok (Some s') /\
    ~ (exists rest, encode_string (skipn (Z.to_nat p) (txt e)) = find_prefix_unfixed root ++ rest).
Proof.
  exists (ex_env [99; 120]), 10%nat, ex_alt3, 0, {| pos := 2; caps := [(2, [(0, 2)]); (0, [(0, 2)])] |}.
  split; [reflexivity|]. split; [reflexivity|]. split; [vm_compute; split; discriminate|].
  split; [vm_compute; reflexivity|].
  intros [rest H]. vm_compute in H. discriminate H.
Qed.
Print Assumptions C04_find_prefix_unfixed_refuted.

(* ---- facts taken from a leading positive lookahead (optimizations.go:347-358) --------------- *)

(* the lookahead found by findLeadingPositiveLookahead is evaluated at the attempt position, so the
   analysis of its child holds there: minimum length, leading anchor, leading literal *)
Theorem C04_lookahead_facts_sound :
  forall e fuel root p s' c,
    fst (lead_pos_look root) = Some c -> shape_ok false c = true -> no_ci_lit c = true ->
    0 <= p <= tlen e -> attempt e fuel root p = Ok (Some s') ->
    min_len c <= tlen e - p /\
    (forall a, lead_anchor true c = Some a -> anchor_ok e a p = true) /\
    (exists rest, encode_string (skipn (Z.to_nat p) (txt e)) = find_prefix c ++ rest).
Proof.
  intros e fuel root p s' c Hc Hs Hn Hp Ha.
  destruct (an_attempt_look e fuel root p s' c Hc Ha) as [s1 [y1 [Hp1 [Hcn1 Hr1]]]].
  assert (Hb1 : inb e s1) by (unfold inb; rewrite Hp1; exact Hp).
  destruct (proj1 (an_shape_all e false) _ _ _ Hr1 Hs Hb1 Hcn1) as [Hy [H0 [Hmin _]]].
  unfold inb, disp in *. split; [lia|]. split.
  - intros a Hla. rewrite <- Hp1. exact (an_lead_anchor_reach e true _ _ Hla _ _ Hr1).
  - destruct (proj1 (an_prefix_all e) _ _ _ Hr1 Hs Hn Hb1 Hcn1) as [Hpre _].
    rewrite <- Hp1. eapply an_prefix_trans; [exact Hpre|]. apply an_bytes_from_slice.
Qed.
Print Assumptions C04_lookahead_facts_sound.

(* ---- the published record as a whole -------------------------------------------------------- *)

(* Whatever the not-modelled part of the decision ladder decided (the bit later_useful), the record
   [facts] = FindOptimizations{MinRequiredLength, MaxPossibleLength, LeadingAnchor, TrailingAnchor,
   LeadingPrefix} holds at every successful attempt: enough input in the scan direction, match length
   within the maximum, leading anchor at p, trailing anchor at the end, and (left-to-right) the input
   bytes at p start with the prefix. *)
Theorem C04_facts_sound :
  forall e (rtl later_useful : bool) fuel root p s',
    shape_ok rtl root = true -> no_ci_lit root = true -> look_ok root = true -> 0 <= p <= tlen e ->
    attempt e fuel root p = Ok (Some s') ->
    let f := facts rtl later_useful root in
    f_min f <= (if rtl then p else tlen e - p) /\
    (0 <= f_max f -> Z.abs (pos s' - p) <= f_max f) /\
    (forall a, anchor_of_code (f_lead f) = Some a -> anchor_ok e a p = true) /\
    (forall a, anchor_of_code (f_trail f) = Some a -> anchor_ok e a (pos s') = true) /\
    (rtl = false -> exists rest, encode_string (skipn (Z.to_nat p) (txt e)) = f_prefix f ++ rest).
Proof. exact an_facts_sound. Qed.
Print Assumptions C04_facts_sound.

(* ---- legacy facts used by findFirstCharDefault (runner.go:1382) ----------------------------- *)

(* Code.Anchors (getAnchors): the bit that is set names an anchor that holds at the attempt position *)
Theorem C04_anchors_sound :
  forall e fuel root p s' a,
    anchor_findable a = true -> get_anchors root = anchor_bit a ->
    attempt e fuel root p = Ok (Some s') -> anchor_ok e a p = true.
Proof. exact an_get_anchors_sound. Qed.
Print Assumptions C04_anchors_sound.

(* Boyer-Moore prefix (getPrefix), left-to-right and case-sensitive: the text at p starts with it.
   Partial: the right-to-left prefix and the CaseInsensitive flag (never set on a real tree) are not covered. *)
Theorem C04_bm_prefix_sound_partial :
  forall e fuel root p s' str,
    bm_prefix root = Some (str, false) -> shape_ok false root = true -> 0 <= p <= tlen e ->
    attempt e fuel root p = Ok (Some s') ->
    exists rest, skipn (Z.to_nat p) (txt e) = str ++ rest.
Proof. exact an_bm_prefix_sound. Qed.
Print Assumptions C04_bm_prefix_sound_partial.

(* ---- non-vacuity ----------------------------------------------------------------------------- *)

(* ^ab b{0,1} c \z on "abbc": hypotheses hold, the attempt at 0 succeeds, and the facts are non-trivial *)
Definition ex_anch : node :=
  NCapture 0 0 (-1) (NConcat 0 [NAnchor ABeginning; NMulti 0 [97; 98]; NCharLoop COne LGreedy 0 98 0 1;
                                NChar COne 0 99; NAnchor AEnd]).
Example C04_witness_anchored :
  shape_ok false ex_anch = true /\ no_ci_lit ex_anch = true /\ look_ok ex_anch = true /\
  attempt (ex_env [97; 98; 98; 99]) 10 ex_anch 0 = Ok (Some {| pos := 4; caps := [(0, [(0, 4)])] |}) /\
  min_len ex_anch = 3 /\ max_len ex_anch = 4 /\
  lead_anchor true ex_anch = Some ABeginning /\ lead_anchor false ex_anch = Some AEnd /\
  find_prefix ex_anch = [97; 98] /\ get_anchors ex_anch = anchor_bit ABeginning /\
  f_mode (facts false false ex_anch) = 1.
Proof. vm_compute. repeat split; reflexivity. Qed.

(* (?=abc)[^\n]* on "abcd": the analysis of the whole pattern finds nothing, the facts come from the lookahead *)
Definition ex_look : node :=
  NCapture 0 0 (-1) (NConcat 0 [NPosLook 0 (NMulti 0 [97; 98; 99]); NCharLoop CNotone LGreedy 0 10 0 INF]).
Example C04_witness_lookahead :
  shape_ok false ex_look = true /\ no_ci_lit ex_look = true /\ look_ok ex_look = true /\
  attempt (ex_env [97; 98; 99; 100]) 10 ex_look 0 = Ok (Some {| pos := 4; caps := [(0, [(0, 4)])] |}) /\
  fst (lead_pos_look ex_look) = Some (NMulti 0 [97; 98; 99]) /\
  min_len ex_look = 0 /\
  f_min (facts false false ex_look) = 3 /\ f_mode (facts false false ex_look) = 11 /\
  f_prefix (facts false false ex_look) = [97; 98; 99].
Proof. vm_compute. repeat split; reflexivity. Qed.

(* right-to-left "abc" (c first): the attempt at 3 succeeds and needs 3 characters before it *)
Definition ex_rtl : node := NCapture 64 0 (-1) (NConcat 64 [NChar COne 64 99; NMulti 64 [97; 98]]).
Example C04_witness_rtl :
  shape_ok true ex_rtl = true /\
  attempt (ex_env [97; 98; 99]) 10 ex_rtl 3 = Ok (Some {| pos := 0; caps := [(0, [(0, 3)])] |}) /\
  min_len ex_rtl = 3 /\ max_len ex_rtl = 3.
Proof. vm_compute. repeat split; reflexivity. Qed.

(* the saturating sum: two 2^30-fold repetitions of a two-character group *)
Example C04_witness_saturation :
  min_len (NConcat 0 [NLoop false 0 1073741824 1073741824 (NMulti 0 [97; 98]);
                      NLoop false 0 1073741824 1073741824 (NMulti 0 [97; 98])]) = 2147483646.
Proof. vm_compute. reflexivity. Qed.

(* ============================================================================================== *)
(* Second part: the analyses of Model/Analysis2.v (tied to the code by leg c04-analysis2, which     *)
(* compares each function's result with the implementation's own function on every exported tree). *)
(*                                                                                                  *)
(* Classes: [sets] is the table set id -> CharSet structure exported with the tree; the semantics'   *)
(* oracle set_in answers as the C16 model's CharIn does on those structures (hypothesis, = C16's    *)
(* tie); cls_good_b (normal form of every exported class) and lits_ok (pattern runes in 0..MaxRune,  *)
(* no empty Multi) are recomputed by the leg on every exported tree.  Input runes are valid         *)
(* (0..0x10FFFF: outside that range class membership itself is the known finding rune_out_of_range). *)
(* ============================================================================================== *)

(* findFirstCharClass (prefixanalyzer.go:19): when it returns a class C, every successful attempt consumes
   at least one character (the pattern is not nullable) and the first character consumed -- at p for a
   left-to-right pattern (d = false), at p-1 for a right-to-left one -- is in C.  A nil result (None) makes
   no claim: the pattern may match the empty string or could not be analysed. *)
Theorem C04_first_char_class_sound :
  forall e (cat_in : Z -> Z -> bool) (sets : list cls) (d : bool) fuel root p s' C,
    forallb cls_good_b sets = true ->
    (forall id x, set_in e id x = char_in cat_in (set_cls sets id) x) ->
    (forall i, 0 <= char_at e i <= 1114111) ->
    shape_ok d root = true -> no_ci_lit root = true -> lits_ok root = true -> 0 <= p <= tlen e ->
    find_first_char_class cat_in sets root = Some C ->
    attempt e fuel root p = Ok (Some s') ->
    (if d then 0 < p /\ pos s' < p else p < tlen e /\ p < pos s') /\
    char_in cat_in C (if d then char_at e (p - 1) else char_at e p) = true.
Proof.
  intros e cat_in sets d fuel root p s' C Hg Ha Hv.
  exact (a2_first_char_class_sound e cat_in sets (sets_good_b cat_in sets Hg) Ha Hv d fuel root p s' C).
Qed.
Print Assumptions C04_first_char_class_sound.

(* findFixedDistanceSets (prefixanalyzer.go:707, both analysis depths): for every published set at distance d,
   at every successful attempt at p of a left-to-right pattern the character at p + d exists and is in the
   set -- the predicate the run-time finder findFixedDistanceSetsLeftToRight relies on.  (The Chars / Range /
   Negated decoration and the quality sort only select among and abbreviate these pairs.)  Right-to-left: the
   function is not called (optimizations.go returns before it) and returns nothing for a right-to-left root. *)
Theorem C04_fixed_distance_sets_sound :
  forall e (cat_in : Z -> Z -> bool) (sets : list cls) (thorough : bool) fuel root p s',
    forallb cls_good_b sets = true ->
    (forall id x, set_in e id x = char_in cat_in (set_cls sets id) x) ->
    (forall i, 0 <= char_at e i <= 1114111) ->
    tlen e < INF ->
    shape_ok false root = true -> no_ci_lit root = true -> lits_ok root = true -> 0 <= p <= tlen e ->
    attempt e fuel root p = Ok (Some s') ->
    forall f, In f (find_fixed_distance_sets cat_in sets thorough root) ->
      0 <= fs_dist f /\ p + fs_dist f < tlen e /\
      char_in cat_in (fs_set f) (char_at e (p + fs_dist f)) = true.
Proof.
  intros e cat_in sets th fuel root p s' Hg Ha Hv Hshort.
  exact (a2_fixed_distance_sets_sound cat_in sets th (sets_good_b cat_in sets Hg) e Ha Hv Hshort fuel root p s').
Qed.
Print Assumptions C04_fixed_distance_sets_sound.

(* findLiteralFollowingLeadingLoop (prefixanalyzer.go:1158) published (LoopNode.Set = set id lal_loop, literal):
   every successful attempt at p of a left-to-right pattern reads a run of loop-set characters p .. k-1 and
   the literal occurs at k -- what runner.go's findLiteralAfterLoopLeftToRight relies on: it finds the first
   occurrence of the literal at or after the scan position and walks back over loop-set characters, so it never
   steps over a match start.  "Occurs at k" (lal_lit_at): Char c: k < n and text[k] = c; Chars: text[k] is one of
   them; String (case-sensitive, the Go string as UTF-8 bytes; valid UTF-8 on every real pattern, checked by the
   leg): the text from k starts with its runes; String (ordinal ignore-case, ASCII): every text character is
   the published character or, for a published lower-case letter, its upper-case form (ci_match).
   The input is a sequence of valid scalar values (no surrogates: the literal went through a Go string). *)
Theorem C04_literal_after_loop_sound :
  forall e (cat_in : Z -> Z -> bool) (part_cc : Z -> bool) (sets : list cls) fuel root p s' L,
    forallb cls_good_b sets = true ->
    (forall id x, set_in e id x = char_in cat_in (set_cls sets id) x) ->
    tlen e < INF -> forallb Utf8.valid_rune (txt e) = true ->
    shape_ok false root = true -> no_ci_lit root = true -> 0 <= p <= tlen e ->
    find_lit_after_loop cat_in part_cc sets root = Ok (Some L) ->
    attempt e fuel root p = Ok (Some s') ->
    exists k, p <= k <= tlen e /\
      (forall i, p <= i < k -> set_in e (lal_loop L) (char_at e i) = true) /\
      lal_lit_at e (lal_what L) k.
Proof.
  intros e cat_in part_cc sets fuel root p s' L Hg Ha Hshort Hsc.
  exact (a2_lit_after_loop_sound e cat_in part_cc sets (sets_good_b cat_in sets Hg) Ha Hshort Hsc fuel root p s' L).
Qed.
Print Assumptions C04_literal_after_loop_sound.

(* findPrefixOrdinalCaseInsensitive (prefixanalyzer.go:214): the text read by a node from position pos s matches
   the published ASCII string case-insensitively *)
Theorem C04_ci_prefix_sound :
  forall e (cat_in : Z -> Z -> bool) (part_cc : Z -> bool) (sets : list cls) fuel root p s',
    forallb cls_good_b sets = true ->
    (forall id x, set_in e id x = char_in cat_in (set_cls sets id) x) ->
    tlen e < INF ->
    shape_ok false root = true -> no_ci_lit root = true -> 0 <= p <= tlen e ->
    attempt e fuel root p = Ok (Some s') ->
    forall i, 0 <= i < zlen (ci_prefix cat_in part_cc sets root) ->
      p + i < tlen e /\
      ci_match (nth (Z.to_nat i) (ci_prefix cat_in part_cc sets root) 0) (char_at e (p + i)) = true.
Proof.
  intros e cat_in part_cc sets fuel root p s' Hg Ha Hshort Hs Hn Hp Hat.
  pose proof (attempt_reach e _ _ _ _ Hat) as Hr.
  exact (ci_prefix_sound e cat_in part_cc sets (sets_good_b cat_in sets Hg) Ha Hshort root _ _ Hr Hs Hn Hp).
Qed.
Print Assumptions C04_ci_prefix_sound.

(* findPrefixes (prefixanalyzer.go:428), case-sensitive (ic = false) and ignoreCase (ic = true): when it returns
   the list ps, every successful attempt at p of a left-to-right pattern reads text that starts with one of
   them -- what findLeadingStringsLeftToRight relies on.  Rune by rune (pm): equal; under ignoreCase a published
   rune is either one that does not take part in case conversion (equal) or the lower-case ASCII letter of an
   [Xx] set, matched by either case.  The model's prefixes are the rune lists written to the buffers; the
   published Go strings are their UTF-8 encodings, which read back as the same runes (C04_prefix_runes) unless
   the pattern contains a surrogate escape. *)
Theorem C04_prefixes_sound :
  forall e (cat_in : Z -> Z -> bool) (part_cc : Z -> bool) (sets : list cls) (ic : bool) fuel root p s' ps,
    forallb cls_good_b sets = true ->
    (forall id x, set_in e id x = char_in cat_in (set_cls sets id) x) ->
    shape_ok false root = true -> no_ci_lit root = true -> 0 <= p <= tlen e ->
    find_prefixes cat_in part_cc sets ic root = Some ps ->
    attempt e fuel root p = Ok (Some s') ->
    exists P, In P ps /\
      forall i, 0 <= i < zlen P ->
        p + i < tlen e /\ pm ic (nth (Z.to_nat i) P 0) (char_at e (p + i)) = true.
Proof.
  intros e cat_in part_cc sets ic fuel root p s' ps Hg Ha.
  exact (a2_prefixes_sound e cat_in part_cc sets ic (sets_good_b cat_in sets Hg) Ha fuel root p s' ps).
Qed.
Print Assumptions C04_prefixes_sound.

Theorem C04_prefix_runes :
  forall P, forallb Utf8.valid_rune P = true -> runes_of (encode_string P) = P.
Proof.
  intros P H. unfold runes_of. rewrite (decode_encode_valid P H). rewrite map_map. cbn [fst]. apply map_id.
Qed.
Print Assumptions C04_prefix_runes.

(* findRequiredLandmarkChain (prefixanalyzer.go:1302) published (LeadingLoopSet = set id loop, Landmarks = lms):
   every successful attempt at p of a left-to-right pattern reads a run of leading-loop-set characters
   p .. s1-1; from s1 on the landmarks occur in order (chain_first / chain_from): for each landmark one of its
   alternatives a occupies [s, t) = leading whitespace run [s, c) (non-empty iff RequireWhitespaceBefore; s = c
   when the alternative has no leading set), core [c, en) (the Literal, or MinRepeat..MaxRepeat characters of
   Set), trailing whitespace run [en, t) likewise (alt_at); the first landmark's s is exactly s1 (only
   zero-width nodes may sit between the loop and the first landmark), every later s is >= the previous t.
   This is stronger than what a sound run-time finder needs (runner.go:1744 after the repairs 573b074, 563c473,
   5218d84: find the alternatives' cores in order, chaining from core start + minimal width, and rewind from the
   first core over the union of its alternatives' leading whitespace sets and then the loop set). *)
Theorem C04_landmark_chain_sound :
  forall e (cat_in : Z -> Z -> bool) (sets : list cls) fuel root p s' loop lms,
    tlen e < INF ->
    shape_ok false root = true -> no_ci_lit root = true -> lits_ok root = true -> 0 <= p <= tlen e ->
    find_landmark_chain cat_in sets root = Some (loop, lms) ->
    attempt e fuel root p = Ok (Some s') ->
    exists s1, p <= s1 <= tlen e /\
      (forall i, p <= i < s1 -> set_in e loop (char_at e i) = true) /\
      chain_first e lms s1 /\ (2 <= length lms)%nat.
Proof.
  intros e cat_in sets fuel root p s' loop lms Hshort.
  exact (a2_landmark_chain_sound e cat_in sets Hshort fuel root p s' loop lms).
Qed.
Print Assumptions C04_landmark_chain_sound.

(* getFirstCharsPrefix (prefix.go:18, the legacy Code.FcPrefix used by findFirstCharDefault for right-to-left
   patterns and the left-to-right modes without an optimised finder): when it returns (PrefixSet, CaseInsensitive),
   every successful attempt consumes at least one character (a non-nil FcPrefix means the pattern is not nullable)
   and the first one -- at p left-to-right (d = false), at p-1 right-to-left -- is in PrefixSet; on a real tree
   (no_ci_lit) CaseInsensitive is false, so the run-time loop does not lower-case.  nil (None) makes no claim. *)
Theorem C04_first_chars_prefix_sound :
  forall e (cat_in : Z -> Z -> bool) (to_lower : Z -> Z) (sets : list cls) (d : bool) fuel root p s' C ci,
    forallb cls_good_b sets = true ->
    (forall id x, set_in e id x = char_in cat_in (set_cls sets id) x) ->
    (forall i, 0 <= char_at e i <= 1114111) ->
    shape_ok d root = true -> no_ci_lit root = true -> lits_ok root = true -> 0 <= p <= tlen e ->
    first_chars_prefix cat_in to_lower sets root = Ok (Some (C, ci)) ->
    attempt e fuel root p = Ok (Some s') ->
    ci = false /\
    (if d then 0 < p /\ pos s' < p else p < tlen e /\ p < pos s') /\
    char_in cat_in C (if d then char_at e (p - 1) else char_at e p) = true.
Proof.
  intros e cat_in to_lower sets d fuel root p s' C ci Hg Ha Hv.
  exact (a2_first_chars_prefix_sound cat_in sets (sets_good_b cat_in sets Hg) e Ha Hv to_lower d fuel root p s' C ci).
Qed.
Print Assumptions C04_first_chars_prefix_sound.

(* The decoration of a published fixed-distance set (FixedDistanceSet.Negated / Range / Chars, prefixanalyzer.go:734)
   says exactly what its Set says, for every rune: this is what lets the run-time search use IndexOfAny /
   IndexOfAnyInRange instead of CharIn (runner.go charInFixedDistanceSet). *)
Theorem C04_fixed_set_abbrev :
  forall (cat_in : Z -> Z -> bool) (sets : list cls) (thorough : bool) root f,
    forallb cls_good_b sets = true -> shape_ok false root = true -> lits_ok root = true ->
    In f (find_fixed_distance_sets cat_in sets thorough root) ->
    fs_neg f = neg (fs_set f) /\
    (forall a b, fs_range f = Some (a, b) ->
       forall x, char_in cat_in (fs_set f) x = xorb (fs_neg f) ((a <=? x) && (x <=? b))) /\
    (fs_chars f <> [] ->
       forall x, char_in cat_in (fs_set f) x = xorb (fs_neg f) (existsb (Z.eqb x) (fs_chars f))).
Proof.
  intros cat_in sets th root f Hg Hs Hl Hin. unfold find_fixed_distance_sets in Hin. apply in_map_iff in Hin.
  destruct Hin as [[S d] [<- Hin]].
  destruct (abbrev_decorate cat_in S d (abbrev_raw_good cat_in sets (sets_good_b cat_in sets Hg) th root Hs Hl S d Hin))
    as (E1 & E2 & E3 & E4 & E5).
  rewrite E1. split; [exact E3|]. split; [exact E4|exact E5].
Qed.
Print Assumptions C04_fixed_set_abbrev.

(* findFixedDistanceString (optimizations.go:629) on the published sets: the string occurs at p + its distance at
   every successful attempt at p (FindMode FixedDistanceString_LeftToRight); and a set whose Chars is one valid,
   non-negated character pins that character (FixedDistanceChar_LeftToRight, LeadingChar). *)
Theorem C04_fixed_distance_string_sound :
  forall e (cat_in : Z -> Z -> bool) (sets : list cls) (thorough : bool) fuel root p s' str d0,
    forallb cls_good_b sets = true ->
    (forall id x, set_in e id x = char_in cat_in (set_cls sets id) x) ->
    (forall i, 0 <= char_at e i <= 1114111) -> tlen e < INF ->
    shape_ok false root = true -> no_ci_lit root = true -> lits_ok root = true -> 0 <= p <= tlen e ->
    attempt e fuel root p = Ok (Some s') ->
    find_fixed_distance_string (find_fixed_distance_sets cat_in sets thorough root) = Some (str, d0) ->
    forall i, 0 <= i < zlen str -> char_at e (p + d0 + i) = nth (Z.to_nat i) str 0.
Proof.
  intros e cat_in sets th fuel root p s' str d0 Hg Ha Hv Hshort Hs Hn Hl Hp Hat Hf.
  apply (fds_string_true cat_in e p (find_fixed_distance_sets cat_in sets th root) str d0); [|exact Hf].
  exact (abbrev_all_true cat_in sets (sets_good_b cat_in sets Hg) e p Ha Hv Hshort th fuel root s' Hs Hn Hl Hp Hat).
Qed.
Print Assumptions C04_fixed_distance_string_sound.

Theorem C04_fixed_distance_char_sound :
  forall e (cat_in : Z -> Z -> bool) (sets : list cls) (thorough : bool) fuel root p s' f c,
    forallb cls_good_b sets = true ->
    (forall id x, set_in e id x = char_in cat_in (set_cls sets id) x) ->
    (forall i, 0 <= char_at e i <= 1114111) -> tlen e < INF ->
    shape_ok false root = true -> no_ci_lit root = true -> lits_ok root = true -> 0 <= p <= tlen e ->
    attempt e fuel root p = Ok (Some s') ->
    In f (find_fixed_distance_sets cat_in sets thorough root) -> fds_single f = Some c ->
    p + fs_dist f < tlen e /\ char_at e (p + fs_dist f) = c.
Proof.
  intros e cat_in sets th fuel root p s' f c Hg Ha Hv Hshort Hs Hn Hl Hp Hat Hin Hsg.
  pose proof (abbrev_all_true cat_in sets (sets_good_b cat_in sets Hg) e p Ha Hv Hshort th fuel root s' Hs Hn Hl Hp Hat f Hin) as Ht.
  split; [exact (proj1 (proj2 Ht))|exact (fds_single_true cat_in e p f c Ht Hsg)].
Qed.
Print Assumptions C04_fixed_distance_char_sound.

(* ---- non-vacuity ---- *)
Definition ex2_sets : list cls := [ranges_cls [(98, 99)]].                       (* [bc] *)
Definition ex2_cat : Z -> Z -> bool := fun _ _ => false.
Definition ex2_env (t : list Z) : env :=
  {| txt := t; tstart := 0; ecma := false; endz_strict := false;
     set_in := fun id x => char_in ex2_cat (set_cls ex2_sets id) x;
     lower := fun r => r; is_word := fun _ => false; is_eword := fun _ => false |}.

(* a[bc]d on "abd": three sets at distances 0, 1, 2, all true at the match; on "xbd" the attempt fails and
   'x' is not in the set published for distance 0 *)
Definition ex2_fixed : node :=
  NCapture 0 0 (-1) (NConcat 0 [NChar COne 0 97; NChar CSet 0 0; NChar COne 0 100]).
Example C04_witness_fixed_sets :
  forallb cls_good_b ex2_sets = true /\ shape_ok false ex2_fixed = true /\ no_ci_lit ex2_fixed = true /\
  lits_ok ex2_fixed = true /\
  map (fun f => (ranges (fs_set f), fs_chars f, fs_dist f)) (find_fixed_distance_sets ex2_cat ex2_sets false ex2_fixed)
    = [([(97, 97)], [97], 0); ([(98, 99)], [98; 99], 1); ([(100, 100)], [100], 2)] /\
  attempt (ex2_env [97; 98; 100]) 10 ex2_fixed 0 = Ok (Some {| pos := 3; caps := [(0, [(0, 3)])] |}) /\
  attempt (ex2_env [120; 98; 100]) 10 ex2_fixed 0 = Ok None /\
  char_in ex2_cat (ranges_cls [(97, 97)]) 120 = false.
Proof. vm_compute. repeat split; reflexivity. Qed.

(* (?:ab|cd)e with the thorough analysis: the alternation's branches are merged per distance *)
Definition ex2_alt : node :=
  NCapture 0 0 (-1) (NConcat 0 [NAlternate 0 [NMulti 0 [97; 98]; NMulti 0 [99; 100]]; NChar COne 0 101]).
Example C04_witness_fixed_sets_alternation :
  shape_ok false ex2_alt = true /\ lits_ok ex2_alt = true /\
  map (fun f => (ranges (fs_set f), fs_dist f)) (find_fixed_distance_sets ex2_cat [] true ex2_alt)
    = [([(97, 97); (99, 99)], 0); ([(98, 98); (100, 100)], 1); ([(101, 101)], 2)] /\
  find_fixed_distance_sets ex2_cat [] false ex2_alt <> [] /\
  map (fun f => (ranges (fs_set f), fs_dist f)) (find_fixed_distance_sets ex2_cat [] false ex2_alt)
    = [([(97, 97); (99, 99)], 0)] /\
  attempt (ex2_env [99; 100; 101]) 10 ex2_alt 0 = Ok (Some {| pos := 3; caps := [(0, [(0, 3)])] |}).
Proof. vm_compute. repeat split; try reflexivity. discriminate. Qed.

(* a*[bc]: nothing at a fixed distance, the first-character class is [a-c]; the empty-able a*b* has none *)
Definition ex2_ffcc : node :=
  NCapture 0 0 (-1) (NConcat 0 [NCharLoop COne LGreedy 0 97 0 INF; NChar CSet 0 0]).
Example C04_witness_first_char_class :
  shape_ok false ex2_ffcc = true /\ lits_ok ex2_ffcc = true /\
  option_map ranges (find_first_char_class ex2_cat ex2_sets ex2_ffcc) = Some [(97, 99)] /\
  attempt (ex2_env [97; 97; 99]) 10 ex2_ffcc 0 = Ok (Some {| pos := 3; caps := [(0, [(0, 3)])] |}) /\
  attempt (ex2_env [100; 99]) 10 ex2_ffcc 0 = Ok None /\
  find_first_char_class ex2_cat ex2_sets
    (NCapture 0 0 (-1) (NConcat 0 [NCharLoop COne LGreedy 0 97 0 INF; NCharLoop COne LGreedy 0 98 0 INF])) = None.
Proof. vm_compute. repeat split; reflexivity. Qed.

(* [bc]*d+ on "bcbd": the literal 'd' after the loop set [bc]; k = 3 *)
Definition ex2_lal : node :=
  NCapture 0 0 (-1) (NConcat 0 [NCharLoop CSet LGreedy 0 0 0 INF; NCharLoop COne LGreedy 0 100 1 INF]).
Example C04_witness_literal_after_loop :
  shape_ok false ex2_lal = true /\ no_ci_lit ex2_lal = true /\
  find_lit_after_loop ex2_cat (fun _ => true) ex2_sets ex2_lal = Ok (Some {| lal_loop := 0; lal_what := LalChar 100 |}) /\
  attempt (ex2_env [98; 99; 98; 100]) 10 ex2_lal 0 = Ok (Some {| pos := 4; caps := [(0, [(0, 4)])] |}) /\
  attempt (ex2_env [98; 97; 100]) 10 ex2_lal 0 = Ok None /\
  find_lit_after_loop ex2_cat (fun _ => true) ex2_sets
    (NCapture 0 0 (-1) (NConcat 0 [NCharLoop CSet LGreedy 0 0 0 INF; NChar COne 0 98])) = Ok None.
Proof. vm_compute. repeat split; reflexivity. Qed.

(* (?:ab|cd)[bc] : the two prefixes "ab", "cd" *)
Definition ex2_pref : node :=
  NCapture 0 0 (-1) (NConcat 0 [NAlternate 0 [NMulti 0 [97; 98]; NMulti 0 [99; 100]]; NChar CSet 0 0]).
Example C04_witness_prefixes :
  shape_ok false ex2_pref = true /\ no_ci_lit ex2_pref = true /\
  find_prefixes ex2_cat (fun _ => true) ex2_sets false ex2_pref = Some [[97; 98]; [99; 100]] /\
  find_prefixes ex2_cat (fun _ => true) ex2_sets true ex2_pref = None /\
  attempt (ex2_env [99; 100; 98]) 10 ex2_pref 0 = Ok (Some {| pos := 3; caps := [(0, [(0, 3)])] |}) /\
  attempt (ex2_env [97; 100; 98]) 10 ex2_pref 0 = Ok None.
Proof. vm_compute. repeat split; reflexivity. Qed.

(* [bc]+ a [bc]+ d [bc]+ : leading loop [bc]+, landmarks 'a' and 'd' (the set loops between them are skipped) *)
Definition ex2_chain : node :=
  NCapture 0 0 (-1) (NConcat 0 [NCharLoop CSet LGreedy 0 0 1 INF; NChar COne 0 97; NCharLoop CSet LGreedy 0 0 1 INF;
                                NChar COne 0 100; NCharLoop CSet LGreedy 0 0 1 INF]).
Example C04_witness_landmark_chain :
  shape_ok false ex2_chain = true /\ no_ci_lit ex2_chain = true /\ lits_ok ex2_chain = true /\
  option_map (fun c => (fst c, map (map la_lit) (snd c))) (find_landmark_chain ex2_cat ex2_sets ex2_chain)
    = Some (0, [[[97]]; [[100]]]) /\
  attempt (ex2_env [98; 97; 99; 100; 98]) 10 ex2_chain 0 = Ok (Some {| pos := 5; caps := [(0, [(0, 5)])] |}) /\
  attempt (ex2_env [98; 100; 99; 97; 98]) 10 ex2_chain 0 = Ok None.
Proof. vm_compute. repeat split; reflexivity. Qed.

(* right-to-left [^a]b (evaluation order: b first): the legacy first characters are {b}, read at p-1;
   and the left-to-right Notone of an astral character keeps its upper complement range (defect 55190b7) *)
Definition ex2_fc_rtl : node := NCapture 64 0 (-1) (NConcat 64 [NChar COne 64 98; NChar CNotone 64 97]).
Example C04_witness_first_chars_prefix :
  shape_ok true ex2_fc_rtl = true /\ no_ci_lit ex2_fc_rtl = true /\ lits_ok ex2_fc_rtl = true /\
  match first_chars_prefix ex2_cat (fun r => r) [] ex2_fc_rtl with
  | Ok (Some (c, ci)) => (ranges c, neg c, ci) = ([(98, 98)], false, false)
  | _ => False
  end /\
  attempt (ex2_env [120; 98]) 10 ex2_fc_rtl 2 = Ok (Some {| pos := 0; caps := [(0, [(0, 2)])] |}) /\
  attempt (ex2_env [98; 120]) 10 ex2_fc_rtl 2 = Ok None /\
  match first_chars_prefix ex2_cat (fun r => r) [] (NCapture 0 0 (-1) (NChar CNotone 0 65536)) with
  | Ok (Some (c, _)) => (ranges c, neg c) = ([(65536, 65536)], true)
  | _ => False
  end.
Proof. vm_compute. repeat split; reflexivity. Qed.

(* [bc]ad : the literal "ad" at distance 1 *)
Definition ex2_fdstr : node :=
  NCapture 0 0 (-1) (NConcat 0 [NChar CSet 0 0; NMulti 0 [97; 100]]).
Example C04_witness_fixed_distance_string :
  shape_ok false ex2_fdstr = true /\ lits_ok ex2_fdstr = true /\
  find_fixed_distance_string (find_fixed_distance_sets ex2_cat ex2_sets false ex2_fdstr) = Some ([97; 100], 1) /\
  attempt (ex2_env [99; 97; 100]) 10 ex2_fdstr 0 = Ok (Some {| pos := 3; caps := [(0, [(0, 3)])] |}).
Proof. vm_compute. repeat split; reflexivity. Qed.
