(* C08 — returned matches are well-formed and index conversion is exact.
   This file only states the property theorems; proofs are in Proofs/Utf8Proofs.v and
   Proofs/OffsetsProofs.v.

   Scope (see bin/props.d/C08.py): these theorems cover, for ALL byte strings and ALL rune
   slices, the string -> rune view, every rune-index -> byte-index map of /repo, slicing
   (String / Runes / ByteRange) and group materialisation (newGroup, Groups()).
   The interpreter invariant "every stored capture word pair is in range after tidy"
   (DESIGN §4 C08 caps_in_bounds) is the lead's and appears here only as the hypothesis
   [stored_ok] of C08_groups_wf_partial. *)
From Verif Require Proofs.SpecBoundsProofs.
From Verif Require Import Base.Prelude Base.Utf8 Model.Offsets Proofs.Utf8Proofs Proofs.OffsetsProofs.

(* decode_total: Go's range loop never faults and tiles the string: the widths (each 1..4) sum to
   the byte length, whatever the bytes are. *)
Theorem C08_decode_total : forall s : list Z,
  zsum (widths_of s) = zlen s /\ Forall (fun w => 1 <= w <= 4) (widths_of s).
Proof. exact decode_total_full. Qed.
Print Assumptions C08_decode_total.

(* decode . encode: string([]rune) read back gives every rune with width RuneLen; a rune that is
   not a Unicode scalar (negative, surrogate, > U+10FFFF) comes back as U+FFFD of width 3;
   the result is always valid UTF-8. *)
Theorem C08_decode_encode : forall rs : list Z,
  decode (encode_string rs) = map (fun r => (sanitize r, Z.to_nat (encode_len r))) rs /\
  (forallb valid_rune rs = true ->
   decode (encode_string rs) = map (fun r => (r, Z.to_nat (rune_len r))) rs) /\
  valid_utf8 (encode_string rs) = true.
Proof. exact decode_encode_full. Qed.
Print Assumptions C08_decode_encode.

(* encode . decode: on valid UTF-8 (no position decodes to the width-1 error rune) re-encoding
   the runes gives the bytes back. *)
Theorem C08_encode_decode : forall s : list Z,
  valid_utf8 s = true -> encode_string (runes_of s) = s.
Proof. exact encode_decode. Qed.
Print Assumptions C08_encode_decode.

(* offsets_spec.  With ws = the decode widths of s:
   - match.go stringByteOffsets, compat bytesToRunesAndOffsets return the table
     [0; w0; w0+w1; ...] (psums 0 ws), or nil exactly when every width is 1; none faults;
   - regexp.go newStringByteMapper is nil exactly when every width is 1;
   - compat readRunes returns the prefix sums of the sizes its reader reported;
   - match.go runeByteOffsets returns the prefix sums of the encoded lengths (3 for a non-scalar),
     i.e. the string table of string(runes); for valid UTF-8 s it is the table of s itself. *)
Theorem C08_offsets_spec :
  (forall s, string_byte_offsets s =
             Ok (if all_one (widths_of s) then None else Some (psums 0 (widths_of s)))) /\
  (forall s, new_byte_mapper s = None <-> all_one (widths_of s) = true) /\
  (forall s fuel, (length s < fuel)%nat ->
     bytes_to_runes_and_offsets fuel s =
     Ok (runes_of s, if all_one (widths_of s) then None else Some (psums 0 (widths_of s)))) /\
  (forall items, read_runes items = (map fst items, psums 0 (map snd items))) /\
  (forall rs, rune_byte_offsets rs =
              Ok (if all_one (map encode_len rs) then None else Some (psums 0 (map encode_len rs)))) /\
  (forall rs, rune_byte_offsets rs = string_byte_offsets (encode_string rs)) /\
  (forall s, valid_utf8 s = true -> rune_byte_offsets (runes_of s) = string_byte_offsets s).
Proof. exact offsets_spec_full. Qed.
Print Assumptions C08_offsets_spec.

(* byte_index_spec: the sparse table + sort.Search of regexp.go:385-420 equals the prefix-sum
   function at every rune index 0..n (and when no table is built, byte index = rune index). *)
Theorem C08_byte_index_spec : forall (s : list Z) (fuel q : nat),
  (q <= length (decode s))%nat -> (length s < fuel)%nat ->
  match new_byte_mapper s with
  | Some m => byte_index fuel m (Z.of_nat q) = Ok (byte_pos (widths_of s) q)
  | None => byte_pos (widths_of s) q = Z.of_nat q /\ all_one (widths_of s) = true
  end.
Proof. exact byte_index_spec. Qed.
Print Assumptions C08_byte_index_spec.

(* byte_range_slices: for a string input and any rune span (i, l) inside it, ByteRange succeeds,
   lies inside the string, and the addressed bytes decode to exactly runes[i, i+l) — which is what
   Runes() returns; String() equals those bytes whenever they are valid UTF-8 (otherwise each
   invalid byte was one U+FFFD rune and String() re-encodes it). *)
Theorem C08_byte_range_slices : forall (s : list Z) (i l : nat),
  (i + l <= length (decode s))%nat ->
  let t := new_string_match_text s (runes_of s) in
  exists bi bl sl,
    byte_range t (Z.of_nat i) (Z.of_nat l) = Ok (bi, bl) /\
    0 <= bi /\ 0 <= bl /\ bi + bl <= zlen s /\
    go_slice s bi (bi + bl) = Ok sl /\
    decode sl = firstn l (skipn i (decode s)) /\
    capture_runes t (Z.of_nat i) (Z.of_nat l) = Ok (runes_of sl) /\
    (valid_utf8 sl = true -> capture_string t (Z.of_nat i) (Z.of_nat l) = Ok sl).
Proof. exact byte_range_slices. Qed.
Print Assumptions C08_byte_range_slices.

(* the byte indexes of the find-all and adapter calls are consistent with ByteRange: for every rune
   span, Capture.ByteRange, FindAllStringIndex (mapper), compat FindAllIndex([]byte) and the compat
   reader offsets all report the prefix sums (bi, be) — ByteRange as (bi, be - bi). *)
Theorem C08_routes_agree : forall (s : list Z) (fuel i l : nat),
  (i + l <= length (decode s))%nat -> (length s < fuel)%nat ->
  let bi := byte_pos (widths_of s) i in
  let be := byte_pos (widths_of s) (i + l) in
  byte_range (new_string_match_text s (runes_of s)) (Z.of_nat i) (Z.of_nat l) = Ok (bi, be - bi) /\
  find_all_pair fuel (new_byte_mapper s) (Z.of_nat i) (Z.of_nat l) = Ok (bi, be) /\
  (do ro <- bytes_to_runes_and_offsets fuel s ; compat_pair (snd ro) (Z.of_nat i) (Z.of_nat l)) = Ok (bi, be) /\
  compat_pair (Some (snd (read_runes (map (fun p => (fst p, Z.of_nat (snd p))) (decode s)))))
              (Z.of_nat i) (Z.of_nat l) = Ok (bi, be) /\
  0 <= bi <= be /\ be <= zlen s.
Proof. exact routes_agree. Qed.
Print Assumptions C08_routes_agree.

(* []rune input: ByteRange of a span is its byte span inside string(runes), String() is the
   encoding of the span — for arbitrary int32 values. *)
Theorem C08_rune_input_byte_range : forall (rs : list Z) (i l : nat),
  (i + l <= length rs)%nat ->
  byte_range (new_match_text rs) (Z.of_nat i) (Z.of_nat l) =
    Ok (zlen (encode_string (firstn i rs)), zlen (encode_string (firstn l (skipn i rs)))) /\
  capture_string (new_match_text rs) (Z.of_nat i) (Z.of_nat l) =
    Ok (encode_string (firstn l (skipn i rs))).
Proof. exact rune_input_byte_range. Qed.
Print Assumptions C08_rune_input_byte_range.

(* newGroup: the captures are the first capcount stored pairs and the embedded capture is the
   last of them (the zero capture when there is none). *)
Theorem C08_new_group_embedded_last : forall (caps : list Z) (n : nat),
  (n <= length (cap_pairs caps))%nat ->
  exists g, new_group caps (Z.of_nat n) = Ok g /\
            g_caps g = firstn n (cap_pairs caps) /\
            group_embedded g = last (g_caps g) (0, 0).
Proof. exact new_group_spec. Qed.
Print Assumptions C08_new_group_embedded_last.

(* PARTIAL.  Groups() on a tidied match: IF the match (idx, len) is inside the input of n runes and
   every other group's storage holds capcount in-range pairs ([stored_ok]: the interpreter + tidy
   invariant caps_in_bounds, proved by the lead over the VM model, NOT here), THEN Groups() does not
   fault, returns one group per slot, every capture of every group lies inside the input, group 0
   has exactly one capture equal to the match, and every embedded capture is the group's last capture.
   Missing for the full statement: the derivation of [stored_ok] from the interpreter. *)
Theorem C08_groups_wf_partial : forall (n idx len : Z) (matches : list (list Z)) (matchcount : list Z),
  in_bounds n (idx, len) ->
  (1 <= length matchcount)%nat -> length matches = length matchcount ->
  (forall j caps cnt, (1 <= j)%nat -> nth_error matches j = Some caps ->
                      nth_error matchcount j = Some cnt -> stored_ok n caps cnt) ->
  exists gs, groups_of (group0 idx len) matches matchcount = Ok gs /\
             length gs = length matchcount /\
             Forall (group_wf n) gs /\
             (exists others, gs = group0 idx len :: others) /\
             g_caps (group0 idx len) = [(idx, len)] /\
             group_embedded (group0 idx len) = (idx, len).
Proof. exact groups_of_wf. Qed.
Print Assumptions C08_groups_wf_partial.

(* ---------- non-vacuity ---------- *)

(* "a" "é" "€" "😀" literal-U+FFFD, then truncated E2 82, overlong C0 80, surrogate ED A0 80, "z" *)
Definition c08_ex : list Z :=
  [97; 195; 169; 226; 130; 172; 240; 159; 152; 128; 239; 191; 189;
   226; 130; 192; 128; 237; 160; 128; 122].

(* decode with the widths shown as Z, for readable literals *)
Definition decode_z (s : list Z) : list (Z * Z) := map (fun p => (fst p, Z.of_nat (snd p))) (decode s).

Example C08_decode_witness :
  decode_z c08_ex =
    [(97, 1); (233, 2); (8364, 3); (128512, 4); (65533, 3);
     (65533, 1); (65533, 1); (65533, 1); (65533, 1); (65533, 1); (65533, 1); (65533, 1);
     (122, 1)]
  /\ valid_utf8 c08_ex = false
  /\ decode_z [240; 159; 152] = [(65533, 1); (65533, 1); (65533, 1)]       (* truncated 4-byte *)
  /\ decode_z [224; 159; 191] = [(65533, 1); (65533, 1); (65533, 1)]       (* overlong 3-byte *)
  /\ decode_z [244; 144; 128; 128] = [(65533, 1); (65533, 1); (65533, 1); (65533, 1)] (* > U+10FFFF *)
  /\ decode_z [244; 143; 191; 191] = [(1114111, 4)]
  /\ encode_string [97; 233; 8364; 128512; 65533; 55296; -1] =
     [97; 195; 169; 226; 130; 172; 240; 159; 152; 128; 239; 191; 189; 239; 191; 189; 239; 191; 189].
Proof. vm_compute. repeat split; reflexivity. Qed.

Example C08_offsets_witness :
  string_byte_offsets c08_ex = Ok (Some [0; 1; 3; 6; 10; 13; 14; 15; 16; 17; 18; 19; 20; 21])
  /\ new_byte_mapper c08_ex = Some {| m_idx := [2; 3; 4; 5]; m_delta := [1; 3; 6; 8] |}
  /\ map (fun q => byte_index 30 {| m_idx := [2; 3; 4; 5]; m_delta := [1; 3; 6; 8] |} q)
         [0; 1; 2; 3; 4; 5; 6; 12; 13]
     = [Ok 0; Ok 1; Ok 3; Ok 6; Ok 10; Ok 13; Ok 14; Ok 20; Ok 21]
  /\ bytes_to_runes_and_offsets 30 c08_ex =
     Ok ([97; 233; 8364; 128512; 65533; 65533; 65533; 65533; 65533; 65533; 65533; 65533; 122],
         Some [0; 1; 3; 6; 10; 13; 14; 15; 16; 17; 18; 19; 20; 21])
  (* the []rune view of the same text re-encodes each invalid byte as 3 bytes *)
  /\ rune_byte_offsets (runes_of c08_ex) = Ok (Some [0; 1; 3; 6; 10; 13; 16; 19; 22; 25; 28; 31; 34; 35])
  /\ rune_byte_offsets [97; -1; 55296; 1114112; 233] = Ok (Some [0; 1; 4; 7; 10; 12])
  (* pure ASCII: no table at all *)
  /\ string_byte_offsets [97; 98; 99] = Ok None /\ new_byte_mapper [97; 98; 99] = None
  /\ rune_byte_offsets [97; 98; 99] = Ok None
  (* a lone invalid byte has width 1: still no table (rune index = byte index) *)
  /\ string_byte_offsets [97; 255; 98] = Ok None.
Proof. vm_compute. repeat split; reflexivity. Qed.

Example C08_slice_witness :
  let t := new_string_match_text c08_ex (runes_of c08_ex) in
  (* runes 2..5 = € 😀 U+FFFD(literal) U+FFFD(the byte E2) *)
  byte_range t 2 4 = Ok (3, 11)
  /\ go_slice c08_ex 3 14 = Ok [226; 130; 172; 240; 159; 152; 128; 239; 191; 189; 226]
  /\ capture_runes t 2 4 = Ok [8364; 128512; 65533; 65533]
  /\ runes_of [226; 130; 172; 240; 159; 152; 128; 239; 191; 189; 226] = [8364; 128512; 65533; 65533]
  (* String() re-encodes the invalid byte, so it differs from the addressed bytes here ... *)
  /\ capture_string t 2 4 = Ok [226; 130; 172; 240; 159; 152; 128; 239; 191; 189; 239; 191; 189]
  (* ... and equals them on a valid span *)
  /\ byte_range t 1 3 = Ok (1, 9)
  /\ capture_string t 1 3 = go_slice c08_ex 1 10
  /\ find_all_pair 30 (new_byte_mapper c08_ex) 2 4 = Ok (3, 14)
  (* out of range spans fault like the Go code *)
  /\ byte_range t 10 5 = Crash 1 /\ capture_runes t 10 5 = Crash 1.
Proof. vm_compute. repeat split; reflexivity. Qed.

Example C08_groups_witness :
  groups_of (group0 1 5) [[1; 5]; [1; 1; 3; 2; 0; 0; 0; 0]; []; [2; 0]] [1; 2; 0; 1] =
  Ok [ {| g_index := 1; g_length := 5; g_caps := [(1, 5)] |};
       {| g_index := 3; g_length := 2; g_caps := [(1, 1); (3, 2)] |};
       {| g_index := 0; g_length := 0; g_caps := [] |};
       {| g_index := 2; g_length := 0; g_caps := [(2, 0)] |} ]
  /\ stored_ok 6 [1; 1; 3; 2; 0; 0; 0; 0] 2
  (* more captures claimed than stored: the Go code would index out of range *)
  /\ new_group [1; 1] 2 = Crash 1.
Proof.
  split; [vm_compute; reflexivity|]. split; [|vm_compute; reflexivity].
  unfold stored_ok. change (Z.to_nat 2) with 2%nat. cbn [cap_pairs firstn length].
  split; [lia|]. split; [lia|]. repeat constructor; cbn [fst snd]; lia.
Qed.

(* ---- added by the lead: the interpreter-independent half of "every capture lies inside the input;
   group 0 has exactly one capture equal to the match", proved on the reference semantics for every
   tree (balancing groups included) in Proofs/SpecBoundsProofs.v. *)
Theorem C08_search_captures_in_bounds :
  ltac:(let t := type of Verif.Proofs.SpecBoundsProofs.C08_spec_captures_in_bounds in exact t).
Proof. exact Verif.Proofs.SpecBoundsProofs.C08_spec_captures_in_bounds. Qed.
Print Assumptions C08_search_captures_in_bounds.
Check Verif.Proofs.SpecBoundsProofs.C08_spec_captures_in_bounds.

Theorem C08_search_group0_single :
  ltac:(let t := type of Verif.Proofs.SpecBoundsProofs.C08_spec_group0_single in exact t).
Proof. exact Verif.Proofs.SpecBoundsProofs.C08_spec_group0_single. Qed.
Print Assumptions C08_search_group0_single.
Check Verif.Proofs.SpecBoundsProofs.C08_spec_group0_single.

(* ---- composition: the same two facts at the INTERPRETER level (Proofs/ComposeExec.v).
   C01_compile_correct2_exec_partial (whenever VM.exec_at returns, its state carries Spec.attempt's answer)
   o the two theorems above o C01_caps_rel2_reads (what a capture array with balanceMatch's markers denotes).
   Hypotheses: exactly those of C01_compile_correct2_exec_partial (cfg0 program of a supported2 tree -- every
   constructor, balancing groups included --, group numbers are slots, text length / reference fuel <= MaxInt32).
   [loops_min_ok root] is NOT a hypothesis here (it follows from supported2) and 0 < capsize p follows from
   groups_ok2.  Residual: [Spec.attempt e fuel root t0 = Ok r], i.e. the reference attempt terminates within the
   engine's counter range; nothing is claimed when exec_at does not return (C01_exec_total covers that).

   Whenever one execute() call returns with group 0 set:
   (1) Runtextpos is inside the text;
   (2) every slot g of the match object holds an array  flat (rev ps)  that DENOTES (Den) a stack stk of live
       captures, every capture of stk lies inside the text, and match.go's readers isMatched / matchIndex /
       matchLength answer from that stack (non-empty? / newest live capture). *)
From Verif Require Import Model.Tree Model.Spec Model.VM Model.Writer Proofs.SpecBoundsProofs Proofs.CompileBase Proofs.CompileDefs Proofs.CompileBalDen
  Proofs.CompileBalDefs Proofs.ComposeExec.

Theorem C08_exec_captures_in_bounds :
  forall (e : env) (p : program), 0 <= trackcount p -> tlen e <= INF ->
  forall L fuel vfuel o body t0 r s',
  let root := NCapture o 0 (-1) body in
  codes p = fst (compile cfg0 root) -> strings p = snd (compile cfg0 root) ->
  supported2 root = true -> groups_ok2 (capsize p) root -> 0 <= t0 <= tlen e ->
  Z.of_nat fuel <= INF ->
  Spec.attempt e fuel root t0 = Ok r ->
  exec_at e p L vfuel t0 = Ok s' -> matched0 s' = true ->
  0 <= tp s' <= tlen e /\
  forall g, 0 <= g < capsize p ->
    exists ps stk,
      nth (Z.to_nat g) (mcaps s') [] = flat (rev ps) /\ Den ps stk /\
      (forall i len, In (i, len) stk -> 0 <= i /\ 0 <= len /\ i + len <= tlen e) /\
      vm_is_matched g (mcaps s') = Some (match stk with [] => false | _ => true end) /\
      (forall i len rest, stk = (i, len) :: rest ->
         vm_match_index g (mcaps s') = Some i /\ vm_match_length g (mcaps s') = Some len).
Proof. exact cx_exec_captures_in_bounds. Qed.
Print Assumptions C08_exec_captures_in_bounds.

(* (3) group 0 is the match span: with the extra hypothesis [no_group0 body] (no node of the body writes or
   balances group 0), slot 0 denotes exactly the one capture [min t0 textpos, |textpos - t0|], so
   matchIndex(0) / matchLength(0) are the start and length of the match in either direction. *)
Theorem C08_exec_group0_is_match_span :
  forall (e : env) (p : program), 0 <= trackcount p -> tlen e <= INF ->
  forall L fuel vfuel o body t0 r s',
  let root := NCapture o 0 (-1) body in
  codes p = fst (compile cfg0 root) -> strings p = snd (compile cfg0 root) ->
  supported2 root = true -> groups_ok2 (capsize p) root -> 0 <= t0 <= tlen e ->
  Z.of_nat fuel <= INF ->
  Spec.attempt e fuel root t0 = Ok r ->
  no_group0 body ->
  exec_at e p L vfuel t0 = Ok s' -> matched0 s' = true ->
  0 < capsize p /\
  (exists ps, nth 0 (mcaps s') [] = flat (rev ps) /\
              Den ps [(Z.min t0 (tp s'), Z.abs (tp s' - t0))]) /\
  vm_is_matched 0 (mcaps s') = Some true /\
  vm_match_index 0 (mcaps s') = Some (Z.min t0 (tp s')) /\
  vm_match_length 0 (mcaps s') = Some (Z.abs (tp s' - t0)).
Proof. exact cx_exec_group0_is_match_span. Qed.
Print Assumptions C08_exec_group0_is_match_span.

(* non-vacuity: a^n b^n with (?<2-1>b) and (?<-2>) on "aabb" meets every hypothesis; the interpreter returns
   with group 0 set and marker pairs in slots 1 and 2 (Proofs/ComposeExec.v, by vm_compute) *)
Example C08_exec_witness := cx_demo.

(* ---- ... without the residual hypothesis "Spec.attempt e fuel root t0 = Ok r" (Proofs/SpecTermProofs.v proves
   that the reference attempt terminates with fuel  term_fuel e root  on trees with one-directional loop bodies;
   Proofs/ComposeTerm.v chains).  The two hypotheses that replace it are decidable on the instance:
   term_ok root = true  and  Z.of_nat (term_fuel e root) <= INF. *)
From Verif Require Import Proofs.SpecTermProofs Proofs.ComposeTerm.

Theorem C08_exec_captures_in_bounds_terminating :
  forall (e : env) (p : program), 0 <= trackcount p -> tlen e <= INF ->
  forall L vfuel o body t0 s',
  let root := NCapture o 0 (-1) body in
  codes p = fst (compile cfg0 root) -> strings p = snd (compile cfg0 root) ->
  supported2 root = true -> groups_ok2 (capsize p) root -> 0 <= t0 <= tlen e ->
  term_ok root = true -> Z.of_nat (term_fuel e root) <= INF ->
  exec_at e p L vfuel t0 = Ok s' -> matched0 s' = true ->
  0 <= tp s' <= tlen e /\
  forall g, 0 <= g < capsize p ->
    exists ps stk,
      nth (Z.to_nat g) (mcaps s') [] = flat (rev ps) /\ Den ps stk /\
      (forall i len, In (i, len) stk -> 0 <= i /\ 0 <= len /\ i + len <= tlen e) /\
      vm_is_matched g (mcaps s') = Some (match stk with [] => false | _ => true end) /\
      (forall i len rest, stk = (i, len) :: rest ->
         vm_match_index g (mcaps s') = Some i /\ vm_match_length g (mcaps s') = Some len).
Proof. exact ct_exec_captures_in_bounds. Qed.
Print Assumptions C08_exec_captures_in_bounds_terminating.

Theorem C08_exec_group0_is_match_span_terminating :
  forall (e : env) (p : program), 0 <= trackcount p -> tlen e <= INF ->
  forall L vfuel o body t0 s',
  let root := NCapture o 0 (-1) body in
  codes p = fst (compile cfg0 root) -> strings p = snd (compile cfg0 root) ->
  supported2 root = true -> groups_ok2 (capsize p) root -> 0 <= t0 <= tlen e ->
  term_ok root = true -> Z.of_nat (term_fuel e root) <= INF ->
  no_group0 body ->
  exec_at e p L vfuel t0 = Ok s' -> matched0 s' = true ->
  0 < capsize p /\
  (exists ps, nth 0 (mcaps s') [] = flat (rev ps) /\
              Den ps [(Z.min t0 (tp s'), Z.abs (tp s' - t0))]) /\
  vm_is_matched 0 (mcaps s') = Some true /\
  vm_match_index 0 (mcaps s') = Some (Z.min t0 (tp s')) /\
  vm_match_length 0 (mcaps s') = Some (Z.abs (tp s' - t0)).
Proof. exact ct_exec_group0_is_match_span. Qed.
Print Assumptions C08_exec_group0_is_match_span_terminating.

Example C08_terminating_witness := ct_demo.
