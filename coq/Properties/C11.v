(* C11 — concurrent use of a Regexp equals sequential use.  PARTIAL.
   Proved (this file): the LOGIC of sharing.  Goroutines are lists of calls; each call is the entry-point
   program of Model/Pool.v, i.e. a sequence of atomic actions on the shared state (sync.Pool Get/Put of a
   runner, Get/Put of a size-classed buffer, replacerDataCache get/add under its mutex) separated by local
   computation on objects the goroutine holds and on data that is read-only after Compile.  For EVERY schedule
   of these actions, every number of goroutines and calls, and every answer of the pools, each finished call has
   returned its fresh result.
   NOT expressible in an executable Gallina model, hence the _partial suffix: data races and visibility under the
   Go memory model, the real sync.Pool (per-P caches, victim cache), preemption inside what the model treats as
   one atomic action, and the premise that everything reachable from *Regexp / *syntax.Code / *CharSet is not
   written at match time.  These are backed by harness legs c11-conc (G in {2,8,32} goroutines), c11-race (a
   stress binary built with -race, GOMAXPROCS in {1,2,16}) and c11-writeset (go/parser scan of every match-time
   assignment rooted at shared state against a committed allow-list).
   The hypotheses [env_wf] are those of C12 (see Properties/C12.v). *)
From Verif Require Import Base.Prelude Model.Pool Proofs.PoolStackProofs Proofs.PoolRunnerProofs
  Proofs.PoolStateProofs Proofs.PoolSimProofs Proofs.PoolProofs Proofs.PoolOwnProofs Proofs.PoolExamples.

(* at any point of any schedule: goroutine i has finished a prefix [dn] of its calls, their results (in order)
   are the fresh results, and the shared state is still legal *)
Theorem C11_interleaving_eq_sequential_partial :
  forall (E : env), env_wf E ->
  forall fuel nre rsizes bsizes (opss : list (list op)) (sched : list (nat * pick)),
    let c := run_sched E fuel {| c_g := gstate0 nre rsizes bsizes; c_threads := map spawn opss; c_fault := false |} sched in
    forall i t, nth_error (c_threads c) i = Some t ->
    exists ops dn cur,
      nth_error opss i = Some ops /\ ops = dn ++ cur ++ t_rest t /\
      rev (t_done t) = map (fresh_result E fuel) dn /\
      (t_cur t = None -> cur = []).
Proof. exact interleaving_eq_sequential. Qed.
Print Assumptions C11_interleaving_eq_sequential_partial.

(* in particular a goroutine that has run to completion returned exactly the sequential results *)
Theorem C11_finished_goroutine_partial :
  forall (E : env), env_wf E ->
  forall fuel nre rsizes bsizes (opss : list (list op)) (sched : list (nat * pick)),
    let c := run_sched E fuel {| c_g := gstate0 nre rsizes bsizes; c_threads := map spawn opss; c_fault := false |} sched in
    forall i t ops, nth_error (c_threads c) i = Some t -> nth_error opss i = Some ops ->
      t_cur t = None -> t_rest t = [] -> rev (t_done t) = map (fresh_result E fuel) ops.
Proof. exact finished_goroutine. Qed.
Print Assumptions C11_finished_goroutine_partial.

(* the shared state stays legal under every schedule (no runner with the bool-only program selected, no runner
   still pointing at a text, no incoherent or oversized cache, no buffer filed under the wrong class) *)
Theorem C11_shared_state_ok_partial :
  forall (E : env), env_wf E ->
  forall fuel nre rsizes bsizes (opss : list (list op)) (sched : list (nat * pick)),
    gstate_ok E (c_g (run_sched E fuel {| c_g := gstate0 nre rsizes bsizes; c_threads := map spawn opss;
                                         c_fault := false |} sched)).
Proof. exact shared_state_ok. Qed.
Print Assumptions C11_shared_state_ok_partial.

(* ownership: under every schedule no goroutine ever returns to a pool an object it does not hold (c_fault stays
   false: every entry point Puts exactly what it Got, once, on every path incl. error paths), and every runner /
   pooled buffer identity occurs at most once among all pools and all goroutines' holdings: an object is in a
   pool xor held by exactly one goroutine.  (No hypothesis on the interpreter is needed.) *)
Theorem C11_ownership_partial :
  forall (E : env) fuel nre rsizes bsizes (opss : list (list op)) (sched : list (nat * pick)),
    let c := run_sched E fuel {| c_g := gstate0 nre rsizes bsizes; c_threads := map spawn opss; c_fault := false |} sched in
    c_fault c = false /\
    forall x, (cnt x (pool_ids (c_g c)) + cnt x (held (c_threads c)) <= 1)%nat.
Proof. exact ownership_invariant. Qed.
Print Assumptions C11_ownership_partial.

(* ---------- non-vacuity ---------- *)
Example C11_env_wf_witness : env_wf toy_env.
Proof. exact toy_env_wf. Qed.

(* three goroutines (two on the same Regexp) interleaved action by action: all run to completion, the runner
   pooled by one is picked up by the other, no ownership fault, and every result is the fresh one *)
Example C11_schedule_witness :
  let c := run_sched toy_env toy_fuel toy_c0 (toy_sched 40) in
  map (fun t => (t_cur t, t_rest t, t_owned t)) (c_threads c) = [(None, [], []); (None, [], []); (None, [], [])]
  /\ map (fun t => rev (t_done t)) (c_threads c) = map (map (fresh_result toy_env toy_fuel)) toy_opss
  /\ c_fault c = false
  /\ length (rs_pool (get_rs (c_g c) 0)) = 3%nat.
Proof. vm_compute. repeat split. Qed.
