(* C18 — inline options equal compile-time options.
   Only statements; proofs are in Proofs/OptionsProofs.v (option stack machine, Model/Options.v) and
   Proofs/GroupMapProofs.v (the same on the full parse of Model/GroupMap.v).

   [stamps p o ts] is the option word in force at each token of [ts] when pass [p] (the capture
   pre-scan or the main pass) starts with options [o]; [ofinal] the machine's final state.
   The token list is ARBITRARY in every theorem (all nestings, all inline option strings over any
   bits, comments, conditionals); the only hypotheses are the ones written out. *)
From Verif Require Import Base.Prelude Model.GroupMap Proofs.OptionsProofs Proofs.GroupMapProofs.

(* "(?O" switches on exactly the bits of O, "(?-O" switches them off *)
Theorem C18_option_string_on : forall bs o, scan_options false (opt_on bs) o = union_bits bs o.
Proof. exact scan_options_on. Qed.
Print Assumptions C18_option_string_on.

Theorem C18_option_string_off : forall bs o, scan_options false (opt_off bs) o = clear_bits bs o.
Proof. exact scan_options_off. Qed.
Print Assumptions C18_option_string_off.

(* Spelling 2 = spelling 1: the tokens of ts after a leading "(?cs)" are stamped exactly as when the
   pattern is compiled with the options that "(?cs)" produces (for cs = opt_on O: O0 ∪ O), in both
   passes, and the machine ends in the same state. *)
Theorem C18_leading_group : forall p cs o ts,
  stamps p o (TOptSet cs :: ts) = o :: stamps p (scan_options false cs o) ts
  /\ ofinal p o (TOptSet cs :: ts) = ofinal p (scan_options false cs o) ts.
Proof. exact stamps_leading. Qed.
Print Assumptions C18_leading_group.

(* Spelling 3 = spelling 1: inside "(?cs:" ts ")" the tokens of ts are stamped as when compiled with
   those options, and after the ")" the previous options are back (state = initial state).
   Hypothesis: ts itself is a complete pattern under those options — the main pass accepts it,
   closes every group it opens and does not end inside an x-mode comment (otherwise the added ")"
   would close something else or be swallowed by the comment). *)
Theorem C18_wrapping_group : forall p cs o ts st',
  ofinal MainPass (scan_options false cs o) ts = Ok st' -> o_stack st' = [] -> o_skip st' = false ->
  stamps p o (TOptGroup cs :: ts ++ [TClose]) = o :: stamps p (scan_options false cs o) ts ++ [o_opts st']
  /\ ofinal p o (TOptGroup cs :: ts ++ [TClose]) = Ok (o_init o).
Proof. exact stamps_wrapping. Qed.
Print Assumptions C18_wrapping_group.

(* "(?-O) switches the options off again for the rest of the enclosing group only", in general:
   whatever a group's body does to the options — any "(?cs)" settings, nested to any depth — the
   ")" that closes the group restores the options and the stack as they were in front of the
   group.  [g] is any group-opening token, [st] any reachable state; the body is any token list
   that the main pass accepts as a complete pattern (see above). *)
Theorem C18_scope_restores : forall p st g ts o1 l st2,
  o_skip st = false -> opens g = true ->
  ostep p st g = Ok (mkO o1 (o_opts st :: o_stack st) false) ->
  otrace MainPass (mkO o1 [] false) ts = (l, Ok st2) -> o_stack st2 = [] -> o_skip st2 = false ->
  snd (otrace p st (g :: ts ++ [TClose])) = Ok st.
Proof. exact scope_restores. Qed.
Print Assumptions C18_scope_restores.

(* ... and every group-opening token does step to a state of that shape *)
Theorem C18_opening_pushes : forall p st g, o_skip st = false -> opens g = true ->
  exists o1, ostep p st g = Ok (mkO o1 (o_opts st :: o_stack st) false).
Proof. exact opens_step. Qed.
Print Assumptions C18_opening_pushes.

(* Both passes compute the same option word (so the same x and n bits) at every token the main
   pass reaches; when the main pass accepts the pattern the two traces are identical. *)
Theorem C18_passes_agree : forall o ts,
  firstn (length (stamps MainPass o ts)) (stamps PreScan o ts) = stamps MainPass o ts.
Proof. exact stamps_passes. Qed.
Print Assumptions C18_passes_agree.

Theorem C18_passes_agree_ok : forall o ts st', ofinal MainPass o ts = Ok st' ->
  stamps PreScan o ts = stamps MainPass o ts /\ ofinal PreScan o ts = Ok st'.
Proof. exact stamps_main_pre. Qed.
Print Assumptions C18_passes_agree_ok.

(* The pre-scan's option handling cannot fault (popOptions is guarded by emptyOptionsStack). *)
Theorem C18_prescan_total : forall st t, exists st', ostep PreScan st t = Ok st'.
Proof. exact ostep_prescan_ok. Qed.
Print Assumptions C18_prescan_total.

(* On the full parser model (capture pre-scan + slot assignment + main pass, Model/GroupMap.v):
   a leading "(?cs)" gives the same capture maps and the same nodes as compiling with the resulting
   options.  Hypothesis: cs is not empty ("(?)" is not an option group) and does not touch the
   ECMAScript / RE2 bits (scanOptions stops at those letters, so no pattern can). *)
Theorem C18_leading_group_same_parse : forall mco cs o ts,
  cs <> [] ->
  has (scan_options false cs o) opt_e = has o opt_e ->
  has (scan_options false cs o) opt_re2 = has o opt_re2 ->
  parse mco o (TOptSet cs :: ts) =
  match parse mco (scan_options false cs o) ts with
  | Ok (t, mks, its) => Ok (t, PNone :: mks, INone :: its)
  | Err c => Err c
  | Crash w => Crash w
  | Fuel => Fuel
  end.
Proof. exact leading_same_parse. Qed.
Print Assumptions C18_leading_group_same_parse.

(* ---------- non-vacuity ---------- *)

(* (?i) a ( (?-i) b (?x: # c \n d ) e ) f   under Multiline: the stamps, scoping and comment skipping *)
Example C18_witness_stamps :
  let ts := [TOptSet (opt_on [opt_i]); TLit 0; TOpen; TOptSet (opt_off [opt_i]); TLit 1;
             TOptGroup (opt_on [opt_x]); THash; TOpen; TNewline; TLit 2; TClose; TLit 3; TClose; TLit 4] in
  stamps MainPass opt_m ts = [2; 3; 3; 3; 2; 2; 34; 34; 34; 34; 34; 2; 2; 3]
  /\ stamps PreScan opt_m ts = stamps MainPass opt_m ts
  /\ ofinal MainPass opt_m ts = Ok (o_init 3).
Proof. vm_compute. repeat split; reflexivity. Qed.

(* the hypotheses of C18_wrapping_group are met by a body with nested on/off groups, and all 3 spellings agree *)
Example C18_witness_spellings :
  let body := [TLit 0; TOpen; TOptSet (opt_off [opt_n]); TOpen; TLit 1; TClose; TClose; TNamed [110]; TClose] in
  let O := [opt_n; opt_x] in
  ofinal MainPass (union_bits O 0) body = Ok (o_init 36)
  /\ stamps MainPass (union_bits O 0) body = [36; 36; 36; 32; 32; 32; 32; 36; 36]
  /\ stamps MainPass 0 (TOptSet (opt_on O) :: body) = 0 :: stamps MainPass (union_bits O 0) body
  /\ stamps MainPass 0 (TOptGroup (opt_on O) :: body ++ [TClose]) = 0 :: stamps MainPass (union_bits O 0) body ++ [36]
  /\ ofinal MainPass 0 (TOptGroup (opt_on O) :: body ++ [TClose]) = Ok (o_init 0).
Proof. vm_compute. repeat split; reflexivity. Qed.

(* the main pass rejects an unbalanced ")" where the pre-scan just goes on: the traces agree up to there *)
Example C18_witness_unbalanced :
  stamps MainPass 0 [TLit 0; TClose; TOptSet (opt_on [opt_i]); TLit 1] = [0; 0]
  /\ stamps PreScan 0 [TLit 0; TClose; TOptSet (opt_on [opt_i]); TLit 1] = [0; 0; 0; 1].
Proof. vm_compute. split; reflexivity. Qed.
