(* C18 — inline options equal compile-time options.
   Only statements; proofs are in Proofs/OptionsProofs.v (option stack machine, Model/Options.v) and
   Proofs/GroupMapProofs.v (the same on the full parse of Model/GroupMap.v).

   [stamps p o ts] is the option word in force at each token of [ts] when pass [p] (the capture
   pre-scan or the main pass) starts with options [o]; [ofinal] the machine's final state.
   The token list is ARBITRARY in every theorem (all nestings, all inline option strings over any
   bits, comments, conditionals); the only hypotheses are the ones written out. *)
From Verif Require Model.Spec Model.Writer Proofs.MaskProofs.
Import Verif.Proofs.MaskProofs Verif.Model.Spec Verif.Model.Writer.
From Verif Require Import Base.Prelude Model.GroupMap Proofs.OptionsProofs Proofs.GroupMapProofs.

(* "(?O" switches on exactly the bits of O, "(?-O" switches them off *)
Theorem C18_option_string_on : forall bs o, scan_options false (opt_on bs) o = union_bits bs o.
Proof. exact scan_options_on. Qed.
Print Assumptions C18_option_string_on.

Theorem C18_option_string_off : forall bs o, scan_options false (opt_off bs) o = clear_bits bs o.
Proof. exact scan_options_off. Qed.
Print Assumptions C18_option_string_off.

(* Spelling 2 = spelling 1: the tokens of ts after a leading "(?cs)" are stamped exactly as when the
   pattern is compiled with the options that "(?cs)" produces (for cs = opt_on O: O0 ∪ O), in both
   passes, and the machine ends in the same state. *)
Theorem C18_leading_group : forall p cs o ts,
  stamps p o (TOptSet cs :: ts) = o :: stamps p (scan_options false cs o) ts
  /\ ofinal p o (TOptSet cs :: ts) = ofinal p (scan_options false cs o) ts.
Proof. exact stamps_leading. Qed.
Print Assumptions C18_leading_group.

(* Spelling 3 = spelling 1: inside "(?cs:" ts ")" the tokens of ts are stamped as when compiled with
   those options, and after the ")" the previous options are back (state = initial state).
   Hypothesis: ts itself is a complete pattern under those options — the main pass accepts it,
   closes every group it opens and does not end inside an x-mode comment (otherwise the added ")"
   would close something else or be swallowed by the comment). *)
Theorem C18_wrapping_group : forall p cs o ts st',
  ofinal MainPass (scan_options false cs o) ts = Ok st' -> o_stack st' = [] -> o_skip st' = false ->
  stamps p o (TOptGroup cs :: ts ++ [TClose]) = o :: stamps p (scan_options false cs o) ts ++ [o_opts st']
  /\ ofinal p o (TOptGroup cs :: ts ++ [TClose]) = Ok (o_init o).
Proof. exact stamps_wrapping. Qed.
Print Assumptions C18_wrapping_group.

(* "(?-O) switches the options off again for the rest of the enclosing group only", in general:
   whatever a group's body does to the options — any "(?cs)" settings, nested to any depth — the
   ")" that closes the group restores the options and the stack as they were in front of the
   group.  [g] is any group-opening token, [st] any reachable state; the body is any token list
   that the main pass accepts as a complete pattern (see above). *)
Theorem C18_scope_restores : forall p st g ts o1 l st2,
  o_skip st = false -> opens g = true ->
  ostep p st g = Ok (mkO o1 (o_opts st :: o_stack st) false) ->
  otrace MainPass (mkO o1 [] false) ts = (l, Ok st2) -> o_stack st2 = [] -> o_skip st2 = false ->
  snd (otrace p st (g :: ts ++ [TClose])) = Ok st.
Proof. exact scope_restores. Qed.
Print Assumptions C18_scope_restores.

(* ... and every group-opening token does step to a state of that shape *)
Theorem C18_opening_pushes : forall p st g, o_skip st = false -> opens g = true ->
  exists o1, ostep p st g = Ok (mkO o1 (o_opts st :: o_stack st) false).
Proof. exact opens_step. Qed.
Print Assumptions C18_opening_pushes.

(* Both passes compute the same option word (so the same x and n bits) at every token the main
   pass reaches; when the main pass accepts the pattern the two traces are identical. *)
Theorem C18_passes_agree : forall o ts,
  firstn (length (stamps MainPass o ts)) (stamps PreScan o ts) = stamps MainPass o ts.
Proof. exact stamps_passes. Qed.
Print Assumptions C18_passes_agree.

Theorem C18_passes_agree_ok : forall o ts st', ofinal MainPass o ts = Ok st' ->
  stamps PreScan o ts = stamps MainPass o ts /\ ofinal PreScan o ts = Ok st'.
Proof. exact stamps_main_pre. Qed.
Print Assumptions C18_passes_agree_ok.

(* The pre-scan's option handling cannot fault (popOptions is guarded by emptyOptionsStack). *)
Theorem C18_prescan_total : forall st t, exists st', ostep PreScan st t = Ok st'.
Proof. exact ostep_prescan_ok. Qed.
Print Assumptions C18_prescan_total.

(* On the full parser model (capture pre-scan + slot assignment + main pass, Model/GroupMap.v):
   a leading "(?cs)" gives the same capture maps and the same nodes as compiling with the resulting
   options.  Hypothesis: cs is not empty ("(?)" is not an option group) and does not touch the
   ECMAScript / RE2 bits (scanOptions stops at those letters, so no pattern can). *)
Theorem C18_leading_group_same_parse : forall mco cs o ts,
  cs <> [] ->
  has (scan_options false cs o) opt_e = has o opt_e ->
  has (scan_options false cs o) opt_re2 = has o opt_re2 ->
  parse mco o (TOptSet cs :: ts) =
  match parse mco (scan_options false cs o) ts with
  | Ok (t, mks, its) => Ok (t, PNone :: mks, INone :: its)
  | Err c => Err c
  | Crash w => Crash w
  | Fuel => Fuel
  end.
Proof. exact leading_same_parse. Qed.
Print Assumptions C18_leading_group_same_parse.

(* ---------- non-vacuity ---------- *)

(* (?i) a ( (?-i) b (?x: # c \n d ) e ) f   under Multiline: the stamps, scoping and comment skipping *)
Example C18_witness_stamps :
  let ts := [TOptSet (opt_on [opt_i]); TLit 0; TOpen; TOptSet (opt_off [opt_i]); TLit 1;
             TOptGroup (opt_on [opt_x]); THash; TOpen; TNewline; TLit 2; TClose; TLit 3; TClose; TLit 4] in
  stamps MainPass opt_m ts = [2; 3; 3; 3; 2; 2; 34; 34; 34; 34; 34; 2; 2; 3]
  /\ stamps PreScan opt_m ts = stamps MainPass opt_m ts
  /\ ofinal MainPass opt_m ts = Ok (o_init 3).
Proof. vm_compute. repeat split; reflexivity. Qed.

(* the hypotheses of C18_wrapping_group are met by a body with nested on/off groups, and all 3 spellings agree *)
Example C18_witness_spellings :
  let body := [TLit 0; TOpen; TOptSet (opt_off [opt_n]); TOpen; TLit 1; TClose; TClose; TNamed [110]; TClose] in
  let O := [opt_n; opt_x] in
  ofinal MainPass (union_bits O 0) body = Ok (o_init 36)
  /\ stamps MainPass (union_bits O 0) body = [36; 36; 36; 32; 32; 32; 32; 36; 36]
  /\ stamps MainPass 0 (TOptSet (opt_on O) :: body) = 0 :: stamps MainPass (union_bits O 0) body
  /\ stamps MainPass 0 (TOptGroup (opt_on O) :: body ++ [TClose]) = 0 :: stamps MainPass (union_bits O 0) body ++ [36]
  /\ ofinal MainPass 0 (TOptGroup (opt_on O) :: body ++ [TClose]) = Ok (o_init 0).
Proof. vm_compute. repeat split; reflexivity. Qed.

(* the main pass rejects an unbalanced ")" where the pre-scan just goes on: the traces agree up to there *)
Example C18_witness_unbalanced :
  stamps MainPass 0 [TLit 0; TClose; TOptSet (opt_on [opt_i]); TLit 1] = [0; 0]
  /\ stamps PreScan 0 [TLit 0; TClose; TOptSet (opt_on [opt_i]); TLit 1] = [0; 0; 0; 1].
Proof. vm_compute. split; reflexivity. Qed.

(* ---- added by the lead: only the RightToLeft and IgnoreCase bits of a node's option word are ever
   read after parsing — by the reference semantics and by the code generator — so two trees that
   differ only in the other option bits (Multiline, Singleline, ExplicitCapture, x-mode, …) have the
   same matches and the same compiled program (Proofs/MaskProofs.v). *)
Theorem C18_semantics_reads_only_rtl_ci :
  forall e fuel t s, Spec.sem e fuel (MaskProofs.mask_node t) s = Spec.sem e fuel t s.
Proof. exact MaskProofs.mask_sem. Qed.
Print Assumptions C18_semantics_reads_only_rtl_ci.

Theorem C18_writer_reads_only_rtl_ci :
  forall c t, Writer.compile c (MaskProofs.mask_node t) = Writer.compile c t.
Proof. exact MaskProofs.mask_compile. Qed.
Print Assumptions C18_writer_reads_only_rtl_ci.

(* ===================== C18 on the parser model itself (Model/Parser.v, the model leg c10-parse ties to syntax.Parse) =====================
   Not the token abstraction above: the pattern TEXT, both passes, every scanner, the mandatory reducers.
   "(?cs)" ++ p under the option word o   against   p under o2 = inline_word o cs, the word "(?cs)" makes of o.
   cs: any non-empty string of option characters  + - i m n s x u  in either case ("(?i)", "(?imsnx)", "(?im-sx)");
   for letters only, o2 = o with exactly these bits switched on (C18_parser_inline_word_letters).  Every option word o
   (RightToLeft, ECMAScript, RE2, Unicode included), every pattern text p (malformed ones too), every oracle.

   C18_parser_leading_group_exact: the first round of BOTH passes (countCaptures and scanRegex) consumes exactly "(?cs)"
     and switches the options; what follows is the parse of p from the initial state whose three nodes -- the root Capture,
     its Alternate, the first Concatenate -- were made under o while o2 is in force (parse_from o o2).
   C18_parser_leading_group_same_parse: hence the two spellings give the same error code, the same capture table
     (Caps, Captop), and the same tree up to the Options field of exactly these nodes as they survive the reducers: the
     root; its child when that is the Alternate / Concatenate / Empty / Nothing made from them; the first alternative
     when that is the Concatenate / Empty made from the first Concatenate.  [norm] blanks these fields except their
     RightToLeft bit (which inline options cannot change and is equal).  Every other node, every other field is equal.
     (The reference semantics and the writer read only RightToLeft and IgnoreCase of a node:
     C18_semantics_reads_only_rtl_ci, C18_writer_reads_only_rtl_ci; and none of the three kinds reads IgnoreCase.)
   What is FALSE, with witnesses below:
     - literal equality of the trees: "(?m)a.|c" under 0 and "a.|c" under Multiline differ in these three Options;
     - the empty option string: "(?)a" is an error (a quantifier with nothing to repeat), "a" is not;
     - the wrapped spelling "(?cs:" ++ p ++ ")" as a statement about every p: under x-mode a final comment swallows the
       ")" ("(?x:a#)" is ErrNotEnoughParens, "a#" under x parses), and error codes differ ("(?i:\)" / "\").
       On the examples where it parses, the wrapped spelling gives the compile-time tree with the ROOT Options of o
       (the Group node is removed by the mandatory reducer reduceGroup, Alternate and Concatenate are made under o2);
       no general proof (it needs "no final comment" and the pre-scan / main-pass agreement on unbalanced ")"). *)
From Verif Require Model.ParseLit Model.CharClass Model.Parser Proofs.ParserInline.

Theorem C18_parser_leading_group_exact :
  forall (is_word_char : Z -> bool) (to_lower simple_fold : Z -> Z) (participates : Z -> bool)
         (cat_in : Z -> Z -> bool) (cat_name : list Z -> Z) (cs : list Z),
    cs <> [] -> forallb ParserInline.ochar cs = true ->
    forall (o : Z) (mco : bool) (p : list Z),
    Parser.parse is_word_char to_lower simple_fold participates cat_in cat_name o mco (ParserInline.inline_prefix cs ++ p) =
    ParserInline.parse_from is_word_char to_lower simple_fold participates cat_in cat_name o (ParserInline.inline_word o cs) mco p.
Proof. exact ParserInline.parse_inline_prefix. Qed.
Print Assumptions C18_parser_leading_group_exact.

Theorem C18_parser_leading_group_same_parse :
  forall (is_word_char : Z -> bool) (to_lower simple_fold : Z -> Z) (participates : Z -> bool)
         (cat_in : Z -> Z -> bool) (cat_name : list Z -> Z) (cs : list Z) (o : Z) (mco : bool) (p : list Z),
    cs <> [] -> forallb ParserInline.ochar cs = true ->
    ParserInline.norm_res (Parser.parse is_word_char to_lower simple_fold participates cat_in cat_name o mco (ParserInline.inline_prefix cs ++ p)) =
    ParserInline.norm_res (Parser.parse is_word_char to_lower simple_fold participates cat_in cat_name (ParserInline.inline_word o cs) mco p).
Proof. exact ParserInline.parse_inline_norm. Qed.
Print Assumptions C18_parser_leading_group_same_parse.

(* the nodes made before the first character was read differ in nothing but Options: the same statement for ANY two
   option words with equal RightToLeft in the place of o and o2 *)
Theorem C18_parser_initial_node_options_only :
  forall (is_word_char : Z -> bool) (to_lower simple_fold : Z -> Z) (participates : Z -> bool)
         (cat_in : Z -> Z -> bool) (cat_name : list Z -> Z) (on oc : Z) (mco : bool) (p : list Z),
    ParseLit.useRTL oc = ParseLit.useRTL on ->
    ParserInline.norm_res (ParserInline.parse_from is_word_char to_lower simple_fold participates cat_in cat_name on oc mco p) =
    ParserInline.norm_res (ParserInline.parse_from is_word_char to_lower simple_fold participates cat_in cat_name oc oc mco p).
Proof. exact ParserInline.parse_from_relabel. Qed.
Print Assumptions C18_parser_initial_node_options_only.

(* "(?imnsx)" with letters only: o2 = o with these bits on *)
Theorem C18_parser_inline_word_letters :
  forall (cs : list Z) (o : Z), forallb ParserInline.oletter cs = true ->
    ParserInline.inline_word o cs = fold_left (fun a c => Z.lor a (Parser.option_from_code c)) cs o.
Proof. exact ParserInline.inline_word_letters. Qed.
Print Assumptions C18_parser_inline_word_letters.

(* witnesses (ASCII oracles) *)
Definition c18_word (c : Z) : bool := ((48 <=? c) && (c <=? 57)) || ((65 <=? c) && (c <=? 90)) || ((97 <=? c) && (c <=? 122)) || (c =? 95).
Definition c18_parse (o : Z) (p : list Z) : res Parser.presult :=
  Parser.parse c18_word (fun c => c) (fun c => c) (fun _ => true) (fun _ _ => false) (fun _ => -1) o false p.
Definition c18_is_tree (r : res Parser.presult) : bool := match r with Ok (Parser.PR_Tree _ _ _) => true | _ => false end.
Definition c18_root_o (o : Z) (r : res Parser.presult) : res Parser.presult :=
  match r with Ok (Parser.PR_Tree t c k) => Ok (Parser.PR_Tree (ParserInline.seto o t) c k) | x => x end.

(* "(?m)a.|c" under 0 / "a.|c" under Multiline (2): the root, the Alternate and the first Concatenate carry 0 / 2,
   everything else is equal; "(?imsnx)" switches on 1+2+16+4+32 *)
Example C18_parser_witness_leading :
  c18_parse 0 [40; 63; 109; 41; 97; 46; 124; 99] <> c18_parse 2 [97; 46; 124; 99] /\
  c18_is_tree (c18_parse 2 [97; 46; 124; 99]) = true /\
  ParserInline.norm_res (c18_parse 0 [40; 63; 109; 41; 97; 46; 124; 99]) = ParserInline.norm_res (c18_parse 2 [97; 46; 124; 99]) /\
  ParserInline.inline_word 64 [105; 109; 115; 110; 120] = 64 + 55.
Proof. vm_compute. repeat split; try reflexivity. discriminate. Qed.

(* "(?)a" is an error, "a" is not *)
Example C18_parser_witness_empty_option_string :
  c18_parse 0 [40; 63; 41; 97] = Ok (Parser.PR_Err 36) /\ c18_is_tree (c18_parse 0 [97]) = true.
Proof. vm_compute. split; reflexivity. Qed.

(* the wrapped spelling: "(?m:a.|c)" under 0 is "a.|c" under Multiline with the root Options 0;
   "(?x:a#)" under 0 is ErrNotEnoughParens (34) while "a#" under x (32) parses; "(?i:\)" is 34 while "\" under i is
   ErrIllegalEndEscape (1) *)
Example C18_parser_witness_wrapped :
  c18_parse 0 [40; 63; 109; 58; 97; 46; 124; 99; 41] = c18_root_o 0 (c18_parse 2 [97; 46; 124; 99]) /\
  c18_parse 0 [40; 63; 120; 58; 97; 35; 41] = Ok (Parser.PR_Err 34) /\ c18_is_tree (c18_parse 32 [97; 35]) = true /\
  c18_parse 0 [40; 63; 105; 58; 92; 41] = Ok (Parser.PR_Err 34) /\ c18_parse 1 [92] = Ok (Parser.PR_Err 1).
Proof. vm_compute. repeat split; reflexivity. Qed.
