(* C12 — results are independent of call history.
   Only statements; proofs are in Proofs/Pool*.v.  The model is Model/Pool.v: everything that survives between
   calls (pooled runners with stale stacks, lengths, recycled match objects; size-classed buffer pools with stale
   contents; the replacement LRU) is concrete, every public entry point is a program over atomic pool/cache
   actions, and ONE match computation is the abstract [e_interp : re -> view -> trace].

   Hypotheses, all explicit in [env_wf]:
     (a) the interpreter's behaviour is a function of [view], i.e. of the fields scan/initMatch/putRunner
         (re)initialise (it is built into the type of e_interp; the lead's VM lemmas reads_below_top and
         matches_read_bound are what justify it for the real interpreter);
     (b) [interp_wf]: between two ensureStorage calls at most 4*TrackCount slots are pushed (C13's capacity lemma);
     (c) [cfg_wf]: both programs of a Regexp have the same TrackCount (makeQuickCode copies the struct; checked by
         the leg through the hook), TrackCount and capsize are non-negative;
     (d) decoding a string yields at most len(s) runes.
   Time is an input: whether a computation ends in a timeout is part of its trace. *)
From Verif Require Import Base.Prelude Model.Pool Proofs.PoolStackProofs Proofs.PoolRunnerProofs
  Proofs.PoolStateProofs Proofs.PoolSimProofs Proofs.PoolProofs Proofs.PoolExamples.

(* Full statement.  For EVERY finite history of calls (any entry points, any arguments, on any of the Regexps
   sharing the global pools, interleaved with garbage collections that drop arbitrary pooled objects), whatever
   objects the pools hand back at each Get, every call returns what it returns on freshly compiled state. *)
Theorem C12_history_independent :
  forall (E : env), env_wf E ->
  forall fuel nre rsizes bsizes h,
    snd (run_history E fuel h (gstate0 nre rsizes bsizes)) = map (fresh_result E fuel) (calls_of h).
Proof. exact history_independent. Qed.
Print Assumptions C12_history_independent.

(* [fresh_result] is the value of the call on the state right after Compile *)
Theorem C12_fresh_result_is_call_on_fresh_state :
  forall (E : env), env_wf E ->
  forall fuel o nre rsizes bsizes ch, snd (call E fuel o (gstate0 nre rsizes bsizes) ch) = fresh_result E fuel o.
Proof. exact fresh_result_on_fresh_state. Qed.
Print Assumptions C12_fresh_result_is_call_on_fresh_state.

(* the same from any legal shared state (not only those reachable from Compile) *)
Theorem C12_call_independent_of_state :
  forall (E : env), env_wf E ->
  forall fuel o g1 ch1 g2 ch2, gstate_ok E g1 -> gstate_ok E g2 ->
    snd (call E fuel o g1 ch1) = snd (call E fuel o g2 ch2).
Proof. exact call_independent_of_state. Qed.
Print Assumptions C12_call_independent_of_state.

(* runner_ok_preserved: after putRunner the runner is legal again whatever the scan's outcome was: match, no
   match, ErrBacktrackingStackLimit, timeout or an index fault (tidyMatch skipped, deferred putRunner runs) *)
Theorem C12_runner_ok_preserved :
  forall (E : env), env_wf E ->
  forall re r a, runner_inv (e_cfg E re) r -> runner_ok (e_cfg E re) (put_reset (fst (do_scan E re r a))).
Proof. exact runner_ok_preserved. Qed.
Print Assumptions C12_runner_ok_preserved.

(* ... and so every call leaves only legal runners, legal buffers and a coherent bounded cache behind *)
Theorem C12_state_ok_preserved :
  forall (E : env), env_wf E ->
  forall fuel o g ch, gstate_ok E g -> gstate_ok E (fst (call E fuel o g ch)).
Proof. exact state_ok_preserved. Qed.
Print Assumptions C12_state_ok_preserved.

(* init_match_resets: on any runner satisfying the invariant, scan's header + initMatch bring every field the
   interpreter may read into a state determined by configuration, arguments and r.code alone *)
Theorem C12_init_match_resets :
  forall cfg r a, cfg_wf cfg -> runner_inv cfg r ->
  forall dl pos,
    view_of (start_watch dl (set_textpos (init_match cfg (sa_info a) (scan_header cfg r a)) pos)) (sa_quick a)
    = Some (canonical_view cfg (r_code r) a pos).
Proof. exact init_match_resets. Qed.
Print Assumptions C12_init_match_resets.

(* call_independent_of_runner: two legal pooled runners give the same result *)
Theorem C12_call_independent_of_runner :
  forall (E : env), env_wf E ->
  forall re r1 r2 a, runner_ok (e_cfg E re) r1 -> runner_ok (e_cfg E re) r2 ->
    snd (do_scan E re r1 a) = snd (do_scan E re r2 a).
Proof. exact call_independent_of_runner. Qed.
Print Assumptions C12_call_independent_of_runner.

(* the stale LENGTH of the track (growTrack refuses to grow past MaxBacktrackingStackSize) and of the grouping
   stack cannot be observed: ensureStorage (with the re-check of /repo 0ad14dc) refuses exactly when a check
   happens deeper than limit - 4*TrackCount *)
Theorem C12_stack_capacity_transparent :
  forall limit tc segs tl1 sl1 tl2 sl2,
    0 <= tc -> track_len_ok limit tc tl1 -> stack_len_ok tc sl1 -> track_len_ok limit tc tl2 -> stack_len_ok tc sl2 ->
    segs_wf tc 0 0 segs ->
    snd (run_segs limit tc tl1 sl1 segs) = snd (run_segs limit tc tl2 sl2 segs).
Proof. exact run_segs_independent. Qed.
Print Assumptions C12_stack_capacity_transparent.

(* buffers_transparent: the buffer a call gets (fresh, recycled with arbitrary stale contents, or unpooled) is
   never shorter than needed, and the text decoded into it is the text *)
Theorem C12_buffers_transparent :
  forall (E : env), env_wf E ->
  forall g bk s maxsz pk, gstate_ok E g ->
    let '(g1, b, pooled) := act_get_buf g bk (zlen s) maxsz pk in
    zlen s <= b_cap b /\ exists b1, decode_into E b s = Some (b1, e_decode E s).
Proof. exact buffers_transparent. Qed.
Print Assumptions C12_buffers_transparent.

(* the class handed out is large enough, and honours the Max...Length option *)
Theorem C12_size_class_selection :
  forall sizes needed maxsz idx, pool_index sizes needed maxsz = Some idx ->
    needed <= nth idx sizes 0 /\ (idx < length sizes)%nat /\ maxsz <> 0 /\ (0 < maxsz -> nth idx sizes 0 <= maxsz).
Proof. exact size_class_selection. Qed.
Print Assumptions C12_size_class_selection.

(* cache_coherent_preserved + lru_capacity: get (MoveToFront) and add (overwrite / insert + evict the oldest)
   keep every entry equal to a fresh parse of its key, keys distinct, and at most maxSize entries *)
Theorem C12_cache_coherent_preserved :
  forall (E : env) re key d c, cache_ok E re c ->
    cache_ok E re (fst (cache_get key c)) /\
    (e_parse_repl E re key = Ok d -> cache_ok E re (cache_add (cfg_cache_max (e_cfg E re)) key d c)).
Proof. exact cache_coherent_preserved. Qed.
Print Assumptions C12_cache_coherent_preserved.

Theorem C12_lru_capacity :
  forall (E : env) re c, cache_ok E re c ->
    NoDup (map fst c) /\ (0 < cfg_cache_max (e_cfg E re) -> zlen c <= cfg_cache_max (e_cfg E re)).
Proof. exact lru_capacity. Qed.
Print Assumptions C12_lru_capacity.

(* cache_transparent: a hit returns what NewReplacerData returns *)
Theorem C12_cache_transparent :
  forall (E : env) re key c d, cache_ok E re c -> snd (cache_get key c) = Some d -> e_parse_repl E re key = Ok d.
Proof. exact cache_transparent_get. Qed.
Print Assumptions C12_cache_transparent.

(* ---------- non-vacuity ---------- *)

(* the hypotheses are satisfiable *)
Example C12_env_wf_witness : env_wf toy_env.
Proof. exact toy_env_wf. Qed.

(* a history in which ONE runner is recycled by a bool-only call, a full-program call, Replace, FindAll, Split ...;
   a runner that hit the stack limit then times out then matches; 3 replacements against a 2-entry cache;
   buffers reused with stale tails; a GC in the middle.  Every result is the fresh result. *)
Example C12_history_witness :
  snd (run_history toy_env toy_fuel toy_history toy_g0) = map (fresh_result toy_env toy_fuel) (calls_of toy_history)
  /\ firstn 6 (snd (run_history toy_env toy_fuel toy_history toy_g0))
     = [Ok (VBool true); Ok (VBool true);
        Ok (VMatch (Some {| md_index := 0; md_length := 1; md_textpos := 1; md_caps := [[0; 1]]; md_balancing := false |}));
        Err E_LIMIT; Err E_TIMEOUT; Ok (VBool true)].
Proof. vm_compute. split; reflexivity. Qed.

(* and the state it runs on really is stale: after 12 steps Regexp 0's only runner has a track grown to 128, a
   retained match object full of junk, the cache holds 2 of the 3 keys, and both buffer pools hold used buffers *)
Example C12_stale_state_witness :
  let g := fst (run_history toy_env toy_fuel (firstn 12 toy_history) toy_g0) in
  map (fun r => (r_id r, option_map sk_len (r_track r), r_code r, option_map mo_matchcount (r_match r),
                 option_map mo_balancing (r_match r))) (rs_pool (get_rs g 0))
    = [(O, Some 128, Full, Some [1; 3], Some true)]
  /\ map fst (rs_cache (get_rs g 0)) = [[50]; [52]]
  /\ map (map b_data) (bp_pools (g_rune g)) = [[[1; 2; 3]]; []]
  /\ map (map b_data) (bp_pools (g_byte g)) = [[[50; 50]]; []].
Proof. vm_compute. repeat split. Qed.

(* the repaired defect: with ensureStorage as it was before /repo 0ad14dc the same check passed on a fresh
   runner and failed on a recycled one (`(?:ab?)*c`, limit 65, "ab"x13+"c": true, then ErrBacktrackingStackLimit) *)
Example C12_old_ensure_storage_was_history_dependent :
  snd (ensure_storage_old 65 2 64 32 60 0) = true /\ snd (ensure_storage_old 65 2 65 32 60 0) = false /\
  snd (ensure_storage 65 2 64 32 60 0) = false /\ snd (ensure_storage 65 2 65 32 60 0) = false.
Proof. exact old_ensure_storage_was_history_dependent. Qed.
