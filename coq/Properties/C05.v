(* C05 — Pattern rewrites preserve meaning.
   This file only states the property theorems; proofs are in Proofs/RewriteProofs.v, the relations and
   the modelled pieces of syntax/tree.go in Model/Rewrite.v.

   What is proved: every rewrite RULE the final optimisation pass of syntax/tree.go applies, as a theorem
   about the reference semantics Model/Spec.v (sem = the priority-ordered list of ALL results), each with
   its exact side condition, for every environment (text, set oracle, case folding, word classes), every
   state and every fuel.
     t ≡ t'   rw_eqs  : same result list with the same fuel          t ≡ₕ t'  rw_heqs : same FIRST result, same fuel
     t ≈ t'   rw_eq   : same result list whenever the fuel suffices  t ≈ₕ t'  rw_heq  : same FIRST result, ditto
     t ⊑ t' / t ⊑ₕ t' : the one-directional versions (whenever t evaluates, t' evaluates to the same)
   (≡ implies ≈; the fuel-independent forms are needed where a rewrite changes the nesting depth of the
   tree or drops a sub-tree; see Model/Rewrite.v.)

   What is NOT proved (so the property is claimed `_partial`): that the code applies a rule only where
   its side condition holds, i.e. the per-pattern link  tree(rewrites off) -> tree(rewrites on).  There is
   no proved validator; that link is checked on every run by leg c05-gates (the engine with each rewrite
   family switched off vs on, and the reference semantics on the exported un-rewritten tree). *)
From Verif Require Import Base.Prelude Model.Tree Model.Spec Model.Rewrite Proofs.RewriteProofs.

(* ---------------------------------------------------------------------------------------------- *)
(* groundwork: the reference semantics is monotone in its fuel, so "the result of t from s" is a    *)
(* partial function and the fuel-independent relations are meaningful                               *)
(* ---------------------------------------------------------------------------------------------- *)
Theorem C05_sem_fuel_monotone :
  forall e f f' t s l, (f <= f')%nat -> sem e f t s = Ok l -> sem e f' t s = Ok l.
Proof. exact rw_sem_mono. Qed.
Print Assumptions C05_sem_fuel_monotone.

Theorem C05_result_unique : forall e t s l1 l2, rw_evals e t s l1 -> rw_evals e t s l2 -> l1 = l2.
Proof. exact rw_evals_det. Qed.
Print Assumptions C05_result_unique.

Theorem C05_strong_implies_denotational :
  forall e t t', (rw_eqs e t t' -> rw_eq e t t') /\ (rw_heqs e t t' -> rw_heq e t t') /\ (rw_eq e t t' -> rw_heq e t t').
Proof. intros e t t'. split; [apply rw_eqs_eq | split; [apply rw_heqs_heq | apply rw_eq_heq]]. Qed.
Print Assumptions C05_strong_implies_denotational.

(* ---------------------------------------------------------------------------------------------- *)
(* R1  a single-character loop in atomic position (makeLoopAtomic, tree.go:710-740)                 *)
(* ---------------------------------------------------------------------------------------------- *)
(* greedy -> atomic: no side condition *)
Theorem C05_R1_end_backtracking_charloop :
  forall e k o c m n, rw_heqs e (NCharLoop k LGreedy o c m n) (NCharLoop k LAtomic o c m n).
Proof. exact end_backtracking_charloop. Qed.
Print Assumptions C05_R1_end_backtracking_charloop.

(* lazy -> the repeater of its minimum; the bounds must be sane (the parser guarantees them) *)
Theorem C05_R1_end_backtracking_charloop_lazy :
  forall e k o c m n, 0 <= m <= n -> m < INF ->
    rw_heqs e (NCharLoop k LLazy o c m n) (NCharLoop k LAtomic o c m m).
Proof. exact end_backtracking_charloop_lazy. Qed.
Print Assumptions C05_R1_end_backtracking_charloop_lazy.

(* lazy with minimum 0 -> Empty *)
Theorem C05_R1_end_backtracking_charloop_lazy0 :
  forall e k o c n, rw_heqs e (NCharLoop k LLazy o c 0 n) NEmpty.
Proof. exact end_backtracking_charloop_lazy0. Qed.
Print Assumptions C05_R1_end_backtracking_charloop_lazy0.

(* a One repeater {m,m} = the Multi of m copies (both directions of the text); under IgnoreCase only
   for a rune the lower-casing leaves alone (a Multi lower-cases the text, a One does not) *)
Theorem C05_R1_repeater_is_multi :
  forall e o c m, 1 <= m -> m < INF -> ci_neutral e o c ->
    rw_eqs e (NCharLoop COne LAtomic o c m m) (NMulti o (repeat c (Z.to_nat m))).
Proof. exact charloop_repeater_multi. Qed.
Print Assumptions C05_R1_repeater_is_multi.

(* exactly what makeLoopAtomic produces (Model/Rewrite.make_loop_atomic, incl. Empty and Multi) *)
Theorem C05_R1_make_loop_atomic :
  forall e k l o c m n, loop_atomic_ok e k l o c m n ->
    rw_heqs e (NCharLoop k l o c m n) (make_loop_atomic (NCharLoop k l o c m n)).
Proof. exact make_loop_atomic_heqs. Qed.
Print Assumptions C05_R1_make_loop_atomic.

(* ---------------------------------------------------------------------------------------------- *)
(* R2  atomic positions observe the first result only; the ending-backtracking walk                 *)
(* ---------------------------------------------------------------------------------------------- *)
Theorem C05_R2_atomic_observes_head :
  forall e t t', rw_hrefines e t t' -> rw_refines e (NAtomic t) (NAtomic t').
Proof. exact atomic_observes_head. Qed.
Print Assumptions C05_R2_atomic_observes_head.

Theorem C05_R2_poslook_observes_head :
  forall e o t t', rw_hrefines e t t' -> rw_refines e (NPosLook o t) (NPosLook o t').
Proof. exact poslook_observes_head. Qed.
Print Assumptions C05_R2_poslook_observes_head.

Theorem C05_R2_neglook_observes_head :
  forall e o t t', rw_hrefines e t t' -> rw_refines e (NNegLook o t) (NNegLook o t').
Proof. exact neglook_observes_head. Qed.
Print Assumptions C05_R2_neglook_observes_head.

Theorem C05_R2_exprcond_observes_head :
  forall e o c c' y n, rw_hrefines e c c' -> rw_refines e (NExprCond o c y n) (NExprCond o c' y n).
Proof. exact exprcond_observes_head. Qed.
Print Assumptions C05_R2_exprcond_observes_head.

(* the root: one attempt, and the whole search over start positions *)
Theorem C05_R2_attempt_observes_head :
  forall e root root', rw_hrefines e root root' ->
    forall f p r, attempt e f root p = Ok r -> exists f', attempt e f' root' p = Ok r.
Proof. exact attempt_observes_head. Qed.
Print Assumptions C05_R2_attempt_observes_head.

Theorem C05_R2_find_observes_head :
  forall e root root' rtl, rw_hrefines e root root' ->
    forall f start prevlen r, find e f root rtl start prevlen = Ok r ->
    exists f', find e f' root' rtl start prevlen = Ok r.
Proof. exact find_observes_head. Qed.
Print Assumptions C05_R2_find_observes_head.

(* NAtomic itself is invisible in atomic position (the wrapper the walk adds, tree.go:781-783) *)
Theorem C05_R2_atomic_wrapper : forall e t, rw_heq e (NAtomic t) t.
Proof. exact atomic_heq. Qed.
Print Assumptions C05_R2_atomic_wrapper.

(* ≈ₕ propagates to the last child of a concatenation, every branch of an alternation, the child of a
   PLAIN capture ... : each step separately, then the whole walk *)
Theorem C05_R2_concat_last :
  forall e o pre t t', rw_hrefines e t t' -> rw_hrefines e (NConcat o (pre ++ [t])) (NConcat o (pre ++ [t'])).
Proof. exact concat_last_tail. Qed.
Print Assumptions C05_R2_concat_last.

Theorem C05_R2_alternate_all :
  forall e o l l', Forall2 (rw_hrefines e) l l' -> rw_hrefines e (NAlternate o l) (NAlternate o l').
Proof. exact alt_all_tail. Qed.
Print Assumptions C05_R2_alternate_all.

Theorem C05_R2_plain_capture :
  forall e o g t t', rw_hrefines e t t' -> rw_hrefines e (NCapture o g (-1) t) (NCapture o g (-1) t').
Proof. exact capture_tail. Qed.
Print Assumptions C05_R2_plain_capture.

(* loops in the walk: a Lazyloop's maximum is lowered to its minimum (tree.go:811-812), and the body of a
   loop whose maximum is 1 is itself at the end (815-821) *)
Theorem C05_R2_lazyloop_min :
  forall e o m n r, 0 <= m <= n -> m < INF -> rw_hrefines e (NLoop true o m n r) (NLoop true o m m r).
Proof. exact lazyloop_min_tail. Qed.
Print Assumptions C05_R2_lazyloop_min.

Theorem C05_R2_loop_max_one :
  forall e lazy o m r r', m = 0 \/ m = 1 -> rw_hrefines e r r' ->
    rw_hrefines e (NLoop lazy o m 1 r) (NLoop lazy o m 1 r').
Proof. exact loop_one_tail. Qed.
Print Assumptions C05_R2_loop_max_one.

(* PARTIAL: [ends_to] (Model/Rewrite.v) covers the walk of eliminateEndingBacktracking through
   single-character loops, Atomic / lookaround / plain-capture / group children, the last child of a
   concatenation, all branches of alternations and conditionals, the Atomic wrapper, Lazyloop max := min
   and loops with maximum 1; it does not cover the descent to the last expression of a loop with a larger
   maximum (FindLastExpressionInLoopForAutoAtomic, tree.go:823-827), and it excludes balancing captures,
   for which the step is false (below).  One-directional (whenever the ORIGINAL tree evaluates, the
   rewritten one does and the first results are equal) because of Lazyloop max := min, which drops
   iterations the model would otherwise have to have fuel for; every other step holds both ways. *)
Theorem C05_R2_eliminate_ending_sound_partial :
  forall e t t', ends_to e t t' -> rw_hrefines e t t'.
Proof. exact eliminate_ending_sound. Qed.
Print Assumptions C05_R2_eliminate_ending_sound_partial.

(* ... hence the search finds the same match on the rewritten root *)
Theorem C05_R2_eliminate_ending_find_partial :
  forall e root root' rtl, ends_to e root root' ->
    forall f start prevlen r, find e f root rtl start prevlen = Ok r ->
    exists f', find e f' root' rtl start prevlen = Ok r.
Proof. exact eliminate_ending_find. Qed.
Print Assumptions C05_R2_eliminate_ending_find_partial.

(* REFUTED step: the child of a BALANCING capture is not an atomic position.  Witness:
   (?<1-2>x|(?<2>x)) on "x" — x|(?<2>x) and (?>x|(?<2>x)) have the same first result, the two captures
   do not (one match vs none).  eliminateEndingBacktracking (tree.go `case NtCapture, NtConcatenate`)
   took this step for every capture; the engine showed the same difference
   (`(?<a-b>x|(?<b>x))` on "x": no match with the rewrite, a match with it switched off). *)
Theorem C05_R2_balancing_capture_refuted :
  exists e t t', rw_heq e t t' /\ ~ rw_hrefines e (NCapture 0 1 2 t) (NCapture 0 1 2 t').
Proof. exact rw_capture_balancing_not_heq. Qed.
Print Assumptions C05_R2_balancing_capture_refuted.

(* ---------------------------------------------------------------------------------------------- *)
(* R3  the bump-along marker                                                                        *)
(* ---------------------------------------------------------------------------------------------- *)
Theorem C05_R3_bump_is_noop : forall e, rw_eqs e NBump NEmpty.
Proof. exact bump_is_noop. Qed.
Print Assumptions C05_R3_bump_is_noop.

(* as the code inserts it (after the first child of the leading concatenation): same fuel *)
Theorem C05_R3_bump_insert_after_head :
  forall e o x l1 l2, rw_eqs e (NConcat o (x :: l1 ++ l2)) (NConcat o (x :: l1 ++ NBump :: l2)).
Proof. exact bump_insert_eqs. Qed.
Print Assumptions C05_R3_bump_insert_after_head.

(* anywhere in any concatenation *)
Theorem C05_R3_bump_insert_anywhere :
  forall e o l1 l2, rw_eq e (NConcat o (l1 ++ l2)) (NConcat o (l1 ++ NBump :: l2)).
Proof. exact bump_insert_eq. Qed.
Print Assumptions C05_R3_bump_insert_anywhere.

(* ---------------------------------------------------------------------------------------------- *)
(* R4  automatic atomic loops (findAndMakeLoopsAtomic / canBeMadeAtomic)                            *)
(* ---------------------------------------------------------------------------------------------- *)
(* semantic side condition, general: the rest of the concatenation evaluates to "no result" at every
   state reached by stopping the loop early (j characters, m <= j < the run the loop takes) *)
Theorem C05_R4_auto_atomic_charloop :
  forall e k o o1 c m n rest,
    (forall s j, m <= j < loop_run e k o1 c n s -> rw_seq_fails e rest (loop_state o1 s j)) ->
    rw_eq e (NConcat o (NCharLoop k LGreedy o1 c m n :: rest))
            (NConcat o (NCharLoop k LAtomic o1 c m n :: rest)).
Proof. exact auto_atomic_charloop. Qed.
Print Assumptions C05_R4_auto_atomic_charloop.

(* semantic side condition, same-fuel form: the successor x fails outright at those states *)
Theorem C05_R4_auto_atomic_charloop_strong :
  forall e k o o1 c m n x rest,
    (forall f s j, m <= j < loop_run e k o1 c n s -> sem e (S f) x (loop_state o1 s j) = Ok []) ->
    rw_eqs e (NConcat o (NCharLoop k LGreedy o1 c m n :: x :: rest))
             (NConcat o (NCharLoop k LAtomic o1 c m n :: x :: rest)).
Proof. exact auto_atomic_charloop_strong. Qed.
Print Assumptions C05_R4_auto_atomic_charloop_strong.

(* syntactic sufficient conditions, one per case of canBeMadeAtomic; the successor runs in the loop's
   direction; [tests_disjoint]: no character passes both single-character tests *)
Theorem C05_R4_then_char :
  forall e k o o1 c m n k' o' c' rest,
    0 <= m -> is_rtl o' = is_rtl o1 -> tests_disjoint e k c k' c' ->
    rw_eqs e (NConcat o (NCharLoop k LGreedy o1 c m n :: NChar k' o' c' :: rest))
             (NConcat o (NCharLoop k LAtomic o1 c m n :: NChar k' o' c' :: rest)).
Proof. exact auto_atomic_then_char. Qed.
Print Assumptions C05_R4_then_char.

Theorem C05_R4_then_multi :
  forall e k o o1 c m n o' c0 str rest,
    0 <= m -> is_rtl o1 = false -> is_rtl o' = false ->
    (forall ch, char_test e k c ch = true -> (c0 =? (if is_ci o' then lower e ch else ch)) = false) ->
    rw_eqs e (NConcat o (NCharLoop k LGreedy o1 c m n :: NMulti o' (c0 :: str) :: rest))
             (NConcat o (NCharLoop k LAtomic o1 c m n :: NMulti o' (c0 :: str) :: rest)).
Proof. exact auto_atomic_then_multi. Qed.
Print Assumptions C05_R4_then_multi.

Theorem C05_R4_then_charloop :
  forall e k o o1 c m n k' l' o' c' m' n' rest,
    0 <= m -> is_rtl o' = is_rtl o1 -> tests_disjoint e k c k' c' -> 1 <= m' ->
    rw_eqs e (NConcat o (NCharLoop k LGreedy o1 c m n :: NCharLoop k' l' o' c' m' n' :: rest))
             (NConcat o (NCharLoop k LAtomic o1 c m n :: NCharLoop k' l' o' c' m' n' :: rest)).
Proof. exact auto_atomic_then_charloop. Qed.
Print Assumptions C05_R4_then_charloop.

Theorem C05_R4_then_end :
  forall e k o o1 c m n rest, 0 <= m -> is_rtl o1 = false ->
    rw_eqs e (NConcat o (NCharLoop k LGreedy o1 c m n :: NAnchor AEnd :: rest))
             (NConcat o (NCharLoop k LAtomic o1 c m n :: NAnchor AEnd :: rest)).
Proof. exact auto_atomic_then_end. Qed.
Print Assumptions C05_R4_then_end.

Theorem C05_R4_then_eol :
  forall e k o o1 c m n rest, 0 <= m -> is_rtl o1 = false -> char_test e k c 10 = false ->
    rw_eqs e (NConcat o (NCharLoop k LGreedy o1 c m n :: NAnchor AEol :: rest))
             (NConcat o (NCharLoop k LAtomic o1 c m n :: NAnchor AEol :: rest)).
Proof. exact auto_atomic_then_eol. Qed.
Print Assumptions C05_R4_then_eol.

Theorem C05_R4_then_endz :
  forall e k o o1 c m n rest, 0 <= m -> is_rtl o1 = false -> char_test e k c 10 = false ->
    rw_eqs e (NConcat o (NCharLoop k LGreedy o1 c m n :: NAnchor AEndZ :: rest))
             (NConcat o (NCharLoop k LAtomic o1 c m n :: NAnchor AEndZ :: rest)).
Proof. exact auto_atomic_then_endz. Qed.
Print Assumptions C05_R4_then_endz.

(* lazy loops (processNode "lazy to greedy" + makeLoopAtomic): under the same condition a lazy loop is
   the atomic GREEDY loop *)
Theorem C05_R4_auto_atomic_lazy :
  forall e k o o1 c m n rest,
    (forall s j, m <= j < loop_run e k o1 c n s -> rw_seq_fails e rest (loop_state o1 s j)) ->
    rw_eq e (NConcat o (NCharLoop k LLazy o1 c m n :: rest))
            (NConcat o (NCharLoop k LAtomic o1 c m n :: rest)).
Proof. exact auto_atomic_lazy. Qed.
Print Assumptions C05_R4_auto_atomic_lazy.

(* the calculus mirroring canBeMadeAtomic: [cont_fails_in e k o c rest] = the continuation is dead at
   every state whose next character passes the loop's test; built from the leaf cases above
   (fails_in_char/multi/charloop/end/eol/endz), the descent to the node guaranteed to follow
   (fails_in_concat/capture/atomic/group/poslook/loop with min>0/alt on every branch) and stepping over
   nullable disjoint loops and zero-width tests (cont_fails_skip_charloop0/anchor/empty/bump) *)
Theorem C05_R4_auto_atomic_by_cont :
  forall e k o o1 c m n rest, 0 <= m -> cont_fails_in e k o1 c rest ->
    rw_eq e (NConcat o (NCharLoop k LGreedy o1 c m n :: rest)) (NConcat o (NCharLoop k LAtomic o1 c m n :: rest)) /\
    rw_eq e (NConcat o (NCharLoop k LLazy o1 c m n :: rest)) (NConcat o (NCharLoop k LAtomic o1 c m n :: rest)).
Proof. exact auto_atomic_by_cont. Qed.
Print Assumptions C05_R4_auto_atomic_by_cont.

Theorem C05_R4_cont_calculus :
  forall e k o c,
    (forall x rest, fails_in e k o c x -> cont_fails_in e k o c (x :: rest)) /\
    (forall k' l' o' c' n' rest, is_rtl o' = is_rtl o -> tests_disjoint e k c k' c' ->
        cont_fails_in e k o c rest -> cont_fails_in e k o c (NCharLoop k' l' o' c' 0 n' :: rest)) /\
    (forall a rest, cont_fails_in e k o c rest -> cont_fails_in e k o c (NAnchor a :: rest)) /\
    (forall o' x l, fails_in e k o c x -> fails_in e k o c (NConcat o' (x :: l))) /\
    (forall o' g u x, fails_in e k o c x -> fails_in e k o c (NCapture o' g u x)) /\
    (forall x, fails_in e k o c x -> fails_in e k o c (NAtomic x)) /\
    (forall o' x, fails_in e k o c x -> fails_in e k o c (NPosLook o' x)) /\
    (forall lazy o' m' n' x, m' <> 0 -> fails_in e k o c x -> fails_in e k o c (NLoop lazy o' m' n' x)) /\
    (forall o' l, Forall (fails_in e k o c) l -> fails_in e k o c (NAlternate o' l)).
Proof.
  intros e k o c. split; [apply cont_fails_head|]. split; [apply cont_fails_skip_charloop0|].
  split; [apply cont_fails_skip_anchor|]. split; [intros; apply fails_in_concat; assumption|].
  split; [intros; apply fails_in_capture; assumption|]. split; [apply fails_in_atomic|].
  split; [intros; apply fails_in_poslook; assumption|]. split; [intros; apply fails_in_loop; assumption|].
  intros; apply fails_in_alt; assumption.
Qed.
Print Assumptions C05_R4_cont_calculus.

(* \b (or the ECMAScript \b) after a loop of word characters with min >= 1; the state must lie inside
   the text (pos >= 0), as every state reached by a search does *)
Theorem C05_R4_then_boundary :
  forall e k o o1 c m n a w rest,
    (a = ABoundary /\ w = is_word e) \/ (a = AECMABoundary /\ w = is_eword e) ->
    1 <= m -> is_rtl o1 = false -> (forall ch, char_test e k c ch = true -> w ch = true) ->
    forall f s, 0 <= pos s ->
      sem e f (NConcat o (NCharLoop k LGreedy o1 c m n :: NAnchor a :: rest)) s =
      sem e f (NConcat o (NCharLoop k LAtomic o1 c m n :: NAnchor a :: rest)) s.
Proof. exact auto_atomic_then_boundary. Qed.
Print Assumptions C05_R4_then_boundary.

(* the END of an atomic context (canBeMadeAtomic's "we hit the root", tree.go:1012-1016), in atomic
   position: sound when the continuation, wherever it has a result after an early stop of the loop, also
   has one after the maximal run.  One-directional (the original also evaluates the early stops). *)
Theorem C05_R4_auto_atomic_at_end :
  forall e k o o1 c m n rest,
    (forall s j l lr, m <= j < loop_run e k o1 c n s ->
        rw_evals e (NConcat o rest) (loop_state o1 s j) l ->
        rw_evals e (NConcat o rest) (loop_state o1 s (loop_run e k o1 c n s)) lr -> lr = [] -> l = []) ->
    rw_hrefines e (NConcat o (NCharLoop k LGreedy o1 c m n :: rest))
                  (NConcat o (NCharLoop k LAtomic o1 c m n :: rest)).
Proof. exact auto_atomic_at_end. Qed.
Print Assumptions C05_R4_auto_atomic_at_end.

(* ... which holds when everything that follows always has a result (nullable loops: a*b*, a*b?c* ...) *)
Theorem C05_R4_auto_atomic_before_nullable_end :
  forall e k o o1 c m n rest, Forall (always_matches e) rest ->
    rw_hrefines e (NConcat o (NCharLoop k LGreedy o1 c m n :: rest))
                  (NConcat o (NCharLoop k LAtomic o1 c m n :: rest)).
Proof. exact auto_atomic_before_nullable_end. Qed.
Print Assumptions C05_R4_auto_atomic_before_nullable_end.

(* REFUTED (known finding c05-nonboundary-end): the side condition above does NOT hold for a \B after a
   loop of non-word characters — the \B holds between two loop characters and fails after the last one
   when a word character follows — yet canBeMadeAtomic (tree.go:952-954, 989-991) steps over that \B and
   accepts the end of the expression.  Stepping over it is sound when something after it rules out giving
   characters back (C05_R4_cont_calculus, third conjunct).  Witness: -+\B on "--a" (Example below);
   the engine: `\W+\B` on "--a" has no match with the rewrite and matches "-" without it.  Not fixed in
   /repo because two rows of TestIdenticalTreePatterns pin the wrong trees (docs/patches/C05-nonboundary.patch). *)
Theorem C05_R4_nonboundary_at_end_refuted :
  ~ (forall e k o o1 c m n, 1 <= m -> is_rtl o1 = false ->
       (forall ch, char_test e k c ch = true -> is_word e ch = false) ->
       rw_hrefines e (NConcat o [NCharLoop k LGreedy o1 c m n; NAnchor ANonboundary])
                     (NConcat o [NCharLoop k LAtomic o1 c m n; NAnchor ANonboundary])).
Proof. exact rw_nonboundary_at_end_refuted. Qed.
Print Assumptions C05_R4_nonboundary_at_end_refuted.

(* a loop that ENDS a nested group (processNode's descent through captures — balancing ones included —
   groups, last children of concatenations, branches of alternations and conditionals:
   Model/Rewrite.atomized): the sub-trees are not equivalent by themselves (the rewritten one has
   fewer results, rw_prunes), the enclosing concatenations are *)
Theorem C05_R4_auto_atomic_nested :
  forall e (P : st -> Prop), pos_pred P ->
  forall o pre t t' rest, atomized e P t t' -> (forall s, P s -> rw_seq_fails e rest s) ->
    rw_eq e (NConcat o (pre ++ t :: rest)) (NConcat o (pre ++ t' :: rest)).
Proof. exact auto_atomic_nested. Qed.
Print Assumptions C05_R4_auto_atomic_nested.

(* ---------------------------------------------------------------------------------------------- *)
(* R5  alternations in atomic position (reduceAtomic)                                               *)
(* ---------------------------------------------------------------------------------------------- *)
(* one-directional: the trimmed tree evaluates even where the model's fuel runs out inside a dropped
   branch; the two-directional form needs the dropped branches to evaluate (trim_after_empty_heq) *)
Theorem C05_R5_trim_after_empty :
  forall e o pre post, rw_hrefines e (NAlternate o (pre ++ NEmpty :: post)) (NAlternate o (pre ++ [NEmpty])).
Proof. exact trim_after_empty. Qed.
Print Assumptions C05_R5_trim_after_empty.

Theorem C05_R5_trim_first_empty :
  forall e o post, rw_hrefines e (NAlternate o (NEmpty :: post)) NEmpty.
Proof. exact trim_first_empty. Qed.
Print Assumptions C05_R5_trim_first_empty.

Theorem C05_R5_trim_after_empty_both_ways :
  forall e o pre post, (forall s, exists l, rw_evals e (NAlternate o post) s l) ->
    rw_heq e (NAlternate o (pre ++ NEmpty :: post)) (NAlternate o (pre ++ [NEmpty])).
Proof. exact trim_after_empty_heq. Qed.
Print Assumptions C05_R5_trim_after_empty_both_ways.

(* swapping adjacent branches that never both succeed from the same state changes nothing at all
   (stronger than what the atomic position needs) *)
Theorem C05_R5_reorder_exclusive :
  forall e o pre a b post, branches_exclusive e a b ->
    rw_eq e (NAlternate o (pre ++ a :: b :: post)) (NAlternate o (pre ++ b :: a :: post)).
Proof. exact reorder_exclusive. Qed.
Print Assumptions C05_R5_reorder_exclusive.

(* ... in particular branches led (findBranchOneOrMultiStart) by left-to-right single-character or
   literal nodes whose first-character tests no character passes both *)
Theorem C05_R5_reorder_disjoint :
  forall e o pre a b post Ta Tb,
    branch_first_test e a = Some Ta -> branch_first_test e b = Some Tb ->
    (forall x, Ta x = true -> Tb x = false) ->
    rw_eq e (NAlternate o (pre ++ a :: b :: post)) (NAlternate o (pre ++ b :: a :: post)).
Proof. exact reorder_disjoint. Qed.
Print Assumptions C05_R5_reorder_disjoint.

(* ... as the code decides it: different first runes (FirstCharOfOneOrMulti), case-sensitive *)
Theorem C05_R5_reorder_first_char :
  forall e o pre a b post oa ca ob cb,
    branch_first_char a = Some (oa, ca) -> branch_first_char b = Some (ob, cb) ->
    is_rtl oa = false -> is_rtl ob = false -> is_ci oa = false -> is_ci ob = false -> ca <> cb ->
    rw_eq e (NAlternate o (pre ++ a :: b :: post)) (NAlternate o (pre ++ b :: a :: post)).
Proof. exact reorder_first_char. Qed.
Print Assumptions C05_R5_reorder_first_char.

(* ---------------------------------------------------------------------------------------------- *)
(* R6  factoring a common prefix out of alternation branches                                        *)
(* ---------------------------------------------------------------------------------------------- *)
Theorem C05_R6_alt_prefix_factor :
  forall e o1 o2 o3 o4 o5 p bs, bs <> [] -> single_result e p ->
    rw_eq e (NAlternate o1 (map (fun a => NConcat o2 (p :: a)) bs))
            (NConcat o3 [p; NAlternate o4 (map (NConcat o5) bs)]).
Proof. exact alt_prefix_factor. Qed.
Print Assumptions C05_R6_alt_prefix_factor.

(* a run of branches inside a longer alternation *)
Theorem C05_R6_alt_prefix_factor_in :
  forall e o o2 o3 o4 o5 pre p bs post, bs <> [] -> single_result e p ->
    rw_eq e (NAlternate o (pre ++ map (fun a => NConcat o2 (p :: a)) bs ++ post))
            (NAlternate o (pre ++ NConcat o3 [p; NAlternate o4 (map (NConcat o5) bs)] :: post)).
Proof. exact alt_prefix_factor_in. Qed.
Print Assumptions C05_R6_alt_prefix_factor_in.

(* the prefixes the two extraction passes pull out are single-result *)
Theorem C05_R6_single_result_prefixes :
  forall e,
    (forall k o c, single_result e (NChar k o c)) /\
    (forall o str, single_result e (NMulti o str)) /\
    (forall k o c m n, single_result e (NCharLoop k LAtomic o c m n)) /\
    (forall k l o c m, 0 <= m < INF -> single_result e (NCharLoop k l o c m m)).
Proof.
  intros e. split; [apply single_result_char|]. split; [apply single_result_multi|].
  split; [apply single_result_charloop_atomic | apply single_result_charloop_fixed].
Qed.
Print Assumptions C05_R6_single_result_prefixes.

(* splitting the shared text off a literal (extractCommonPrefixText); left-to-right *)
Theorem C05_R6_multi_split :
  forall e o o' u v, is_rtl o = false -> rw_eq e (NMulti o (u ++ v)) (NConcat o' [NMulti o u; NMulti o v]).
Proof. exact multi_split. Qed.
Print Assumptions C05_R6_multi_split.

(* inside an atomic group the factored alternation is wrapped again (tree.go:1161-1165, 1241-1245) *)
Theorem C05_R6_alt_prefix_factor_atomic :
  forall e o1 o2 o3 o4 o5 p bs, bs <> [] -> single_result e p ->
    rw_eq e (NAtomic (NAlternate o1 (map (fun a => NConcat o2 (p :: a)) bs)))
            (NAtomic (NConcat o3 [p; NAtomic (NAlternate o4 (map (NConcat o5) bs))])).
Proof. exact alt_prefix_factor_atomic. Qed.
Print Assumptions C05_R6_alt_prefix_factor_atomic.

(* ---------------------------------------------------------------------------------------------- *)
(* Examples: concrete text / tree where the side condition holds and both sides give the same        *)
(* non-trivial result, and (R4, R5, R6) where it fails and the results differ.                       *)
(* rw_ex_env t: text t; set 0 = [ab], 1 = [bc], 2 = [a-z]. rw_positions = end positions in order.     *)
(* ---------------------------------------------------------------------------------------------- *)

(* R1: a* on "aaab": greedy gives 3,2,1,0; atomic 3: same first result *)
Example C05_ex_R1 :
  let e := rw_ex_env [97; 97; 97; 98] in
  let g := NCharLoop COne LGreedy 0 97 0 INF in let a := NCharLoop COne LAtomic 0 97 0 INF in
  rw_positions (sem e 3 g rw_s0) = [3; 2; 1; 0] /\ rw_positions (sem e 3 a rw_s0) = [3] /\
  first_only (sem e 3 g rw_s0) = first_only (sem e 3 a rw_s0).
Proof. vm_compute. repeat split; reflexivity. Qed.

(* R1 lazy: a{2,3}? in atomic position becomes the literal "aa" *)
Example C05_ex_R1_lazy :
  let e := rw_ex_env [97; 97; 97; 98] in
  let l := NCharLoop COne LLazy 0 97 2 3 in
  make_loop_atomic l = NMulti 0 [97; 97] /\
  rw_positions (sem e 3 l rw_s0) = [2; 3] /\ rw_positions (sem e 3 (make_loop_atomic l) rw_s0) = [2].
Proof. vm_compute. repeat split; reflexivity. Qed.

(* R2: the group ( b[ab]* ) at the root: the walk reaches the loop through capture and concatenation; same match *)
Example C05_ex_R2 :
  let e := rw_ex_env [98; 97; 98; 99] in
  let t := NCapture 0 0 (-1) (NConcat 0 [NChar COne 0 98; NCharLoop CSet LGreedy 0 0 0 INF]) in
  let t' := NCapture 0 0 (-1) (NConcat 0 [NChar COne 0 98; NCharLoop CSet LAtomic 0 0 0 INF]) in
  ends_to e t t' /\
  attempt e 5 t 0 = Ok (Some {| pos := 3; caps := [(0, [(0, 3)])] |}) /\ attempt e 5 t' 0 = attempt e 5 t 0.
Proof.
  cbv zeta. split; [|vm_compute; split; reflexivity].
  apply ET_capture. apply (ET_concat _ 0 [NChar COne 0 98]). apply (ET_loop _ CSet LGreedy). exact I.
Qed.

(* R3: a*<bump>b vs a*b *)
Example C05_ex_R3 :
  let e := rw_ex_env [97; 97; 98] in
  let l := NCharLoop COne LGreedy 0 97 0 INF in
  sem e 4 (NConcat 0 [l; NBump; NChar COne 0 98]) rw_s0 = sem e 4 (NConcat 0 [l; NChar COne 0 98]) rw_s0 /\
  rw_positions (sem e 4 (NConcat 0 [l; NChar COne 0 98]) rw_s0) = [3].
Proof. vm_compute. split; reflexivity. Qed.

(* R4: a*b on "aaab" (disjoint): greedy and atomic agree ... *)
Example C05_ex_R4 :
  let e := rw_ex_env [97; 97; 97; 98] in
  tests_disjoint e COne 97 COne 98 /\
  rw_positions (sem e 4 (NConcat 0 [NCharLoop COne LGreedy 0 97 0 INF; NChar COne 0 98]) rw_s0) = [4] /\
  rw_positions (sem e 4 (NConcat 0 [NCharLoop COne LAtomic 0 97 0 INF; NChar COne 0 98]) rw_s0) = [4].
Proof.
  cbv zeta. split; [|vm_compute; split; reflexivity].
  intros ch H. cbn [char_test] in *. apply Z.eqb_eq in H. subst. reflexivity.
Qed.

(* ... and a*a on "aaab" (side condition fails): the results differ *)
Example C05_ex_R4_negative :
  let e := rw_ex_env [97; 97; 97; 98] in
  ~ tests_disjoint e COne 97 COne 97 /\
  rw_positions (sem e 4 (NConcat 0 [NCharLoop COne LGreedy 0 97 0 INF; NChar COne 0 97]) rw_s0) = [3; 2; 1] /\
  rw_positions (sem e 4 (NConcat 0 [NCharLoop COne LAtomic 0 97 0 INF; NChar COne 0 97]) rw_s0) = [].
Proof.
  cbv zeta. split; [|vm_compute; split; reflexivity].
  intros H. specialize (H 97 eq_refl). discriminate.
Qed.

(* R5 trim: (?>a||b) on "b": the branch after Empty is irrelevant in atomic position ... *)
Example C05_ex_R5_trim :
  let e := rw_ex_env [98] in
  let full := NAlternate 0 [NChar COne 0 97; NEmpty; NChar COne 0 98] in
  let trimmed := NAlternate 0 [NChar COne 0 97; NEmpty] in
  rw_positions (sem e 4 full rw_s0) = [0; 1] /\ rw_positions (sem e 4 trimmed rw_s0) = [0] /\
  sem e 4 (NAtomic full) rw_s0 = sem e 4 (NAtomic trimmed) rw_s0.
Proof. vm_compute. repeat split; reflexivity. Qed.

(* ... but not elsewhere: (?:|a)b vs (?:)b on "ab" *)
Example C05_ex_R5_trim_negative :
  let e := rw_ex_env [97; 98] in
  rw_positions (sem e 4 (NConcat 0 [NAlternate 0 [NEmpty; NChar COne 0 97]; NChar COne 0 98]) rw_s0) = [2] /\
  rw_positions (sem e 4 (NConcat 0 [NEmpty; NChar COne 0 98]) rw_s0) = [].
Proof. vm_compute. split; reflexivity. Qed.

(* R5 reorder: hi|there|hello -> hi|hello|there on "hello" (t <> h) ... *)
Example C05_ex_R5_reorder :
  let e := rw_ex_env [104; 101; 108; 108; 111] in
  let hi := NMulti 0 [104; 105] in let there := NMulti 0 [116; 104; 101; 114; 101] in
  let hello := NMulti 0 [104; 101; 108; 108; 111] in
  branch_first_char there = Some (0, 116) /\ branch_first_char hello = Some (0, 104) /\
  sem e 4 (NAlternate 0 [hi; there; hello]) rw_s0 = sem e 4 (NAlternate 0 [hi; hello; there]) rw_s0 /\
  rw_positions (sem e 4 (NAlternate 0 [hi; hello; there]) rw_s0) = [5].
Proof. vm_compute. repeat split; reflexivity. Qed.

(* ... and (?>a|ab) vs (?>ab|a) on "ab" (same first character): the results differ *)
Example C05_ex_R5_reorder_negative :
  let e := rw_ex_env [97; 98] in
  rw_positions (sem e 4 (NAtomic (NAlternate 0 [NChar COne 0 97; NMulti 0 [97; 98]])) rw_s0) = [1] /\
  rw_positions (sem e 4 (NAtomic (NAlternate 0 [NMulti 0 [97; 98]; NChar COne 0 97])) rw_s0) = [2].
Proof. vm_compute. split; reflexivity. Qed.

(* R6: abc|abd -> ab(?:c|d) on "abd" (the factored tree needs one more unit of fuel) ... *)
Example C05_ex_R6 :
  let e := rw_ex_env [97; 98; 100] in
  let ab := NMulti 0 [97; 98] in
  rw_positions (sem e 3 (NAlternate 0 [NConcat 0 [ab; NChar COne 0 99]; NConcat 0 [ab; NChar COne 0 100]]) rw_s0) = [3] /\
  rw_positions (sem e 4 (NConcat 0 [ab; NAlternate 0 [NConcat 0 [NChar COne 0 99]; NConcat 0 [NChar COne 0 100]]]) rw_s0) = [3] /\
  sem e 3 (NConcat 0 [ab; NAlternate 0 [NConcat 0 [NChar COne 0 99]; NConcat 0 [NChar COne 0 100]]]) rw_s0 = Fuel.
Proof. vm_compute. repeat split; reflexivity. Qed.

(* ... and a prefix with several results (a greedy loop): a*a|a*b vs a*(?:a|b) on "aab" differ *)
Example C05_ex_R6_negative :
  let e := rw_ex_env [97; 97; 98] in
  let p := NCharLoop COne LGreedy 0 97 0 INF in
  rw_positions (sem e 5 (NAlternate 0 [NConcat 0 [p; NChar COne 0 97]; NConcat 0 [p; NChar COne 0 98]]) rw_s0) = [2; 1; 3] /\
  rw_positions (sem e 5 (NConcat 0 [p; NAlternate 0 [NConcat 0 [NChar COne 0 97]; NConcat 0 [NChar COne 0 98]]]) rw_s0) = [3; 2; 1].
Proof. vm_compute. split; reflexivity. Qed.

(* the refuted step, concretely: (?<1-2>x|(?<2>x)) on "x" *)
Example C05_ex_balancing :
  let e := rw_ex_env [120] in
  sem e 5 (NCapture 0 1 2 rw_bal_alt) rw_s0 = Ok [{| pos := 1; caps := [(2, []); (1, [(0, 1)])] |}] /\
  sem e 5 (NCapture 0 1 2 (NAtomic rw_bal_alt)) rw_s0 = Ok [].
Proof. vm_compute. split; reflexivity. Qed.

(* R4 lazy: a*?b on "aabbc" is the atomic greedy a* followed by b *)
Example C05_ex_R4_lazy :
  let e := rw_ex_env [97; 97; 98; 98; 99] in
  rw_positions (sem e 4 (NConcat 0 [NCharLoop COne LLazy 0 97 0 INF; NChar COne 0 98]) rw_s0) = [3] /\
  rw_positions (sem e 4 (NConcat 0 [NCharLoop COne LAtomic 0 97 0 INF; NChar COne 0 98]) rw_s0) = [3].
Proof. vm_compute. split; reflexivity. Qed.

(* R4 through a nullable successor: a*b*c on "aabbc"; the continuation b*c is dead wherever an 'a' is next *)
Example C05_ex_R4_chain :
  let e := rw_ex_env [97; 97; 98; 98; 99] in
  let bs := NCharLoop COne LGreedy 0 98 0 INF in
  cont_fails_in e COne 0 97 [bs; NChar COne 0 99] /\
  rw_positions (sem e 4 (NConcat 0 [NCharLoop COne LGreedy 0 97 0 INF; bs; NChar COne 0 99]) rw_s0) = [5] /\
  rw_positions (sem e 4 (NConcat 0 [NCharLoop COne LAtomic 0 97 0 INF; bs; NChar COne 0 99]) rw_s0) = [5].
Proof.
  cbv zeta. split; [|vm_compute; split; reflexivity].
  apply cont_fails_skip_charloop0; [reflexivity | |apply cont_fails_head, fails_in_char; [reflexivity|]];
    intros ch H; cbn [char_test] in *; apply Z.eqb_eq in H; subst; reflexivity.
Qed.

(* R4 nested: the group ( x a* ) followed by b, on "xaab": the group alone has fewer results once the loop
   is atomic, the concatenation has the same *)
Example C05_ex_R4_nested :
  let e := rw_ex_env [120; 97; 97; 98] in
  let grp l := NCapture 0 1 (-1) (NConcat 0 [NChar COne 0 120; NCharLoop COne l 0 97 0 INF]) in
  atomized e (next_in e COne 0 97) (grp LGreedy) (grp LAtomic) /\
  rw_positions (sem e 5 (grp LGreedy) rw_s0) = [3; 2; 1] /\ rw_positions (sem e 5 (grp LAtomic) rw_s0) = [3] /\
  sem e 6 (NConcat 0 [grp LGreedy; NChar COne 0 98]) rw_s0 = Ok [{| pos := 4; caps := [(1, [(0, 3)])] |}] /\
  sem e 6 (NConcat 0 [grp LAtomic; NChar COne 0 98]) rw_s0 = Ok [{| pos := 4; caps := [(1, [(0, 3)])] |}].
Proof.
  cbv zeta. split; [|vm_compute; repeat split; reflexivity].
  apply AZ_capture. apply (AZ_concat _ _ 0 [NChar COne 0 120]). apply AZ_loop; [lia | auto].
Qed.

(* R4 boundary: \w+\b on "ab c" *)
Example C05_ex_R4_boundary :
  let e := rw_ex_env [97; 98; 32; 99] in
  rw_positions (sem e 4 (NConcat 0 [NCharLoop CSet LGreedy 0 2 1 INF; NAnchor ABoundary]) rw_s0) = [2] /\
  rw_positions (sem e 4 (NConcat 0 [NCharLoop CSet LAtomic 0 2 1 INF; NAnchor ABoundary]) rw_s0) = [2].
Proof. vm_compute. split; reflexivity. Qed.

(* R6 in an atomic group: (?>abc|abd) = (?>ab(?>c|d)) on "abd" *)
Example C05_ex_R6_atomic :
  let e := rw_ex_env [97; 98; 100] in
  let ab := NMulti 0 [97; 98] in
  rw_positions (sem e 6 (NAtomic (NAlternate 0 [NConcat 0 [ab; NChar COne 0 99]; NConcat 0 [ab; NChar COne 0 100]])) rw_s0) = [3] /\
  rw_positions (sem e 6 (NAtomic (NConcat 0 [ab; NAtomic (NAlternate 0 [NConcat 0 [NChar COne 0 99]; NConcat 0 [NChar COne 0 100]])])) rw_s0) = [3].
Proof. vm_compute. split; reflexivity. Qed.

(* R2 loops: a lazy loop of the group ab in atomic position never iterates ({0,inf} lazy becomes {0,0});
   and an optional group around a-star keeps its meaning when the inner loop becomes atomic *)
Example C05_ex_R2_loops :
  let e := rw_ex_env [97; 98; 97; 98] in
  let ab := NMulti 0 [97; 98] in
  rw_positions (sem e 9 (NLoop true 0 0 INF ab) rw_s0) = [0; 2; 4] /\
  rw_positions (sem e 9 (NLoop true 0 0 0 ab) rw_s0) = [0] /\
  ends_to e (NLoop false 0 0 1 (NCharLoop COne LGreedy 0 97 0 INF)) (NLoop false 0 0 1 (NCharLoop COne LAtomic 0 97 0 INF)) /\
  rw_positions (sem e 9 (NLoop false 0 0 1 (NCharLoop COne LGreedy 0 97 0 INF)) rw_s0) = [1; 0; 0] /\
  rw_positions (sem e 9 (NLoop false 0 0 1 (NCharLoop COne LAtomic 0 97 0 INF)) rw_s0) = [1; 0].
Proof.
  cbv zeta. split; [vm_compute; reflexivity|]. split; [vm_compute; reflexivity|].
  split; [|vm_compute; split; reflexivity].
  apply ET_loop_one; [left; reflexivity|]. apply (ET_loop _ COne LGreedy). exact I.
Qed.

(* the known finding, concretely: -+\B on "--a" (text 45 45 97, word characters a-z) *)
Example C05_ex_R4_nonboundary_refuted :
  sem rw_nb_env 4 (rw_nb_tree LGreedy) rw_s0 = Ok [{| pos := 1; caps := [] |}] /\
  sem rw_nb_env 4 (rw_nb_tree LAtomic) rw_s0 = Ok [] /\
  attempt rw_nb_env 5 (NCapture 0 0 (-1) (rw_nb_tree LGreedy)) 0 = Ok (Some {| pos := 1; caps := [(0, [(0, 1)])] |}) /\
  find rw_nb_env 6 (NCapture 0 0 (-1) (rw_nb_tree LAtomic)) false 0 (-1) = Ok None.
Proof. vm_compute. repeat split; reflexivity. Qed.

(* R4 at the end: a*b* on "aab" in atomic position: same first result *)
Example C05_ex_R4_at_end :
  let e := rw_ex_env [97; 97; 98] in
  let bs := NCharLoop COne LGreedy 0 98 0 INF in
  rw_positions (sem e 4 (NConcat 0 [NCharLoop COne LGreedy 0 97 0 INF; bs]) rw_s0) = [3; 2; 1; 0] /\
  rw_positions (sem e 4 (NConcat 0 [NCharLoop COne LAtomic 0 97 0 INF; bs]) rw_s0) = [3; 2].
Proof. vm_compute. split; reflexivity. Qed.

(* R4, direction matters (tree.go canBeMadeAtomic refuses right-to-left loops since cad7f1b): a right-to-left
   a* followed by \z, from position 1 of "a": giving the character back is what lets \z hold *)
Example C05_ex_R4_rtl_negative :
  let e := rw_ex_env [97] in let s1 := {| pos := 1; caps := [] |} in
  rw_positions (sem e 4 (NConcat 64 [NCharLoop COne LGreedy 64 97 0 INF; NAnchor AEnd]) s1) = [1] /\
  rw_positions (sem e 4 (NConcat 64 [NCharLoop COne LAtomic 64 97 0 INF; NAnchor AEnd]) s1) = [].
Proof. vm_compute. split; reflexivity. Qed.

(* R4, a nullable successor may be stepped over only when it is DISJOINT (cont_fails_skip_charloop0; the code
   had the test inverted until af08c9d): [ab]+(?=[ab]*c)[ab]c on "abc" *)
Example C05_ex_R4_overlap_negative :
  let e := rw_ex_env [97; 98; 99] in
  let t l := NConcat 0 [NCharLoop CSet l 0 0 1 INF;
                        NPosLook 0 (NConcat 0 [NCharLoop CSet LGreedy 0 0 0 INF; NChar COne 0 99]);
                        NChar CSet 0 0; NChar COne 0 99] in
  rw_positions (sem e 6 (t LGreedy) rw_s0) = [3] /\ rw_positions (sem e 6 (t LAtomic) rw_s0) = [].
Proof. vm_compute. split; reflexivity. Qed.

(* not one of the gated rewrites, recorded here because it was found with them (fixed in /repo 571b434): an
   ATOMIC child loop cannot be multiplied into the enclosing loop: (?>a+)?ab is not (?>a* )ab on "ab" *)
Example C05_ex_multiply_atomic_negative :
  let e := rw_ex_env [97; 98] in
  rw_positions (sem e 6 (NConcat 0 [NLoop false 0 0 1 (NCharLoop COne LAtomic 0 97 1 INF); NMulti 0 [97; 98]]) rw_s0) = [2] /\
  rw_positions (sem e 6 (NConcat 0 [NCharLoop COne LAtomic 0 97 0 INF; NMulti 0 [97; 98]]) rw_s0) = [].
Proof. vm_compute. split; reflexivity. Qed.

(* ============================================================================================== *)
(* PART 2 — the per-pattern link: the executable model of the optional rewrites is sound            *)
(* ============================================================================================== *)
From Verif Require Import Model.CharClass Model.Parser Model.FinalOpt Proofs.SpecBoundsProofs Proofs.CharClassRanges Proofs.CharClassOverlap
  Proofs.FinalOptDen Proofs.FinalOptK Proofs.FinalOptPrune Proofs.FinalOptLink Proofs.FinalOptLeaf Proofs.FinalOptWalk Proofs.FinalOptAtomic Proofs.FinalOptAlt Proofs.FinalOptEnd Proofs.FinalOptMain.
(* Model/FinalOpt.fo_final_optimize g strict lite cl t  is the tree syntax.Parse returns under gate mask g, computed
   from the tree t it returns with every optional rewrite off (mask 31); leg c05-opt checks that per pattern and
   mask against the real parser (exact trees), through the exact reference Model/FinalOptParse.v.
   Semantics of a raw parser node: Proofs/FinalOptLink.tr (sets become set ids through a numbering sid; the
   environment must read them as class membership: Proofs/FinalOptLeaf.env_ok, with three facts about the word
   oracles).  Shape side condition: Model/FinalOpt.fo_wf (boolean, checked per tree by the leg).

   PROVED here: for every tree, environment and mask whose prefix-factoring family is off (bit 16 set: families 1
   automatic atomic loops, 2 removal of ending backtracking, 4 bump-along marker, 8 trimming / reordering of an
   alternation inside an atomic group may be on in any combination), the model run with  strict = 15, lite = true
   keeps the first result of the root from every state inside the text, hence the search finds the same match (both
   directions).
   The side conditions, all evaluated per tree by leg c05-opt (histogram "side-condition ..."):
     strict bit 1  (no \B stepped over before the END OF THE EXPRESSION)  is NECESSARY: known finding
                   c05-nonboundary-end, C05_R4_nonboundary_at_end_refuted above and C05_final_optimize_nb_refuted below;
     strict bit 8  is a shape fact of parsed trees the code relies on silently: reduceAtomic's reordering reads the first
                   character of a One / Multi node that starts a branch without testing that node's RightToLeft bit
                   (only the Atomic node's); no tree seen has such a node below a left-to-right Atomic;
     strict bits 2, 4 and lite mark what is NOT proved yet (hence `_partial`):
       2  canBeMadeAtomic walking up through / processNode descending into a BALANCING capture,
       4  canBeMadeAtomic walking up out of an atomic group it descended into itself (a successor of the loop),
       lite  the mandatory reducers re-run by eliminateEndingBacktracking's Atomic wrapper (and on a reordered
             alternation) must be the identity there;
     (the descent FindLastExpressionInLoopForAutoAtomic, loop bodies whose last child is disjoint from the first, IS
      covered, in processNode and in eliminateEndingBacktracking)
     and prefix factoring (family 16) is outside: its RULES are R6 above; the model of its code, which re-runs the
     whole of reduceAlternation, is tied to the parser by the leg only. *)

(* canBeMadeAtomic (tree.go:893-1071) says true only if what follows the loop, whatever continuation the parents
   allow, is dead wherever the loop may stop early, or (no \B stepped over) never fails *)
Theorem C05_can_be_made_atomic_sound :
  forall cat_in isw isew sid e sets, env_ok cat_in isw isew sid e sets ->
  forall strict, Z.testbit strict 0 = true -> Z.testbit strict 1 = true -> Z.testbit strict 2 = true ->
  forall f n sub c iter al seen,
    fo_cbma cat_in isw isew f strict n sub c iter al seen = Ok true ->
    node_ok sets n -> node_ok sets sub -> ctx_ok sets c ->
    cbma_spec cat_in sid e n sub c iter seen.
Proof. exact cbma_sound. Qed.
Print Assumptions C05_can_be_made_atomic_sound.

(* findAndMakeLoopsAtomic + processNode: the same first result under every continuation the parents allow *)
Theorem C05_auto_atomic_loops_sound_partial :
  forall cat_in isw isew sid e sets, env_ok cat_in isw isew sid e sets ->
  forall strict, Z.testbit strict 0 = true -> Z.testbit strict 1 = true -> Z.testbit strict 2 = true ->
  forall f x c x', fo_fa cat_in isw isew f strict x c = Ok x' -> node_ok sets x -> ctx_ok sets c ->
    node_ok sets x' /\ forall K, CK sid e c K -> HK e K (tr sid x) (tr sid x').
Proof. exact fa_sound. Qed.
Print Assumptions C05_auto_atomic_loops_sound_partial.

(* eliminateEndingBacktracking keeps the first result, the gated reduce (lite; reduceAtomic's alternation branch
   included) every result *)
Theorem C05_eliminate_ending_model_sound_partial :
  forall cat_in isw isew sid e sets, env_ok cat_in isw isew sid e sets ->
  forall g strict, fo_gate g 16 = true ->
  Z.testbit strict 0 = true -> Z.testbit strict 1 = true -> Z.testbit strict 2 = true -> Z.testbit strict 3 = true ->
  forall f,
    (forall par node node', fo_ee cat_in isw isew f g strict true par node = Ok node' -> node_ok sets node ->
        node_ok sets node' /\ rw_hrefines e (tr sid node) (tr sid node')) /\
    (forall mode ptype x x', fo_reduce cat_in isw isew f g strict true mode ptype x = Ok x' -> node_ok sets x ->
        node_ok sets x' /\ rw_refines e (tr sid x) (tr sid x')).
Proof.
  intros cat_in isw isew sid e sets Henv g strict H16 H0 H1 H2 H3 f.
  destruct (ee_red_sound cat_in isw isew sid e sets Henv g strict H16 H0 H1 H2 H3 f) as [HE HR]. split.
  - intros par node node' H Hok. destruct (HE par node node' H Hok) as (H4 & H5 & _). split; assumption.
  - intros mode ptype x x' H Hok. exact (HR mode ptype x x' H Hok).
Qed.
Print Assumptions C05_eliminate_ending_model_sound_partial.

(* the bump-along marker: every result kept *)
Theorem C05_bump_along_model_sound :
  forall sid e sets f g node aba committing node' mk,
    fo_bump f g node aba committing = Ok (node', mk) -> node_ok sets node ->
    node_ok sets node' /\ rw_refines e (tr sid node) (tr sid node').
Proof.
  intros sid e sets f g node aba committing node' mk H Hok.
  destruct (bump_sound sid e sets f g node aba committing node' mk H Hok) as (H1 & H2 & _). split; assumption.
Qed.
Print Assumptions C05_bump_along_model_sound.

(* the whole post-pass: same first result of the root from every state inside the text *)
Theorem C05_final_optimize_sound_partial :
  forall cat_in isw isew sid e sets, env_ok cat_in isw isew sid e sets ->
  forall g, fo_gate g 16 = true ->
  forall fuel cl root root', fo_wf root = true -> sets_in sets root ->
    fo_final_optimize cat_in isw isew fuel g 0 false cl root = Ok root' ->        (* the code as it is ... *)
    fo_final_optimize cat_in isw isew fuel g 15 true cl root = Ok root' ->        (* ... does not rely on a step outside the proof *)
    fo_wf root' = true /\
    forall s, st_ok e s -> hd_list (den e (tr sid root) s) = hd_list (den e (tr sid root') s).
Proof.
  intros cat_in isw isew sid e sets Henv g H16 fuel cl root root' Hwf Hs _ H.
  destruct (final_optimize_sound cat_in isw isew sid e sets Henv g 15 H16 eq_refl eq_refl eq_refl eq_refl fuel cl root root' H (conj Hwf Hs))
    as [[Hwf' _] Hh].
  split; [exact Hwf' | exact Hh].
Qed.
Print Assumptions C05_final_optimize_sound_partial.

(* ... hence the search (Spec.find: every start position in scan order) finds the same match, both ways *)
Theorem C05_final_optimize_find_partial :
  forall cat_in isw isew sid e sets, env_ok cat_in isw isew sid e sets ->
  forall g, fo_gate g 16 = true ->
  forall fuel cl root root', fo_wf root = true -> sets_in sets root ->
    fo_final_optimize cat_in isw isew fuel g 0 false cl root = Ok root' ->
    fo_final_optimize cat_in isw isew fuel g 15 true cl root = Ok root' ->
    forall (rtl : bool) start prevlen r, 0 <= start <= tlen e ->
      (forall f, find e f (tr sid root) rtl start prevlen = Ok r -> exists f', find e f' (tr sid root') rtl start prevlen = Ok r) /\
      (forall f, find e f (tr sid root') rtl start prevlen = Ok r -> exists f', find e f' (tr sid root) rtl start prevlen = Ok r).
Proof.
  intros cat_in isw isew sid e sets Henv g H16 fuel cl root root' Hwf Hs H0 H rtl start prevlen r Hst.
  destruct (C05_final_optimize_sound_partial cat_in isw isew sid e sets Henv g H16 fuel cl root root' Hwf Hs H0 H) as [_ Hh].
  split; intros f Hf.
  - apply (find_same_head e (tr sid root) (tr sid root') rtl) with (f := f); [|exact Hst|exact Hf].
    intros p Hp. apply Hh. apply sb_init_ok. exact Hp.
  - apply (find_same_head e (tr sid root') (tr sid root) rtl) with (f := f); [|exact Hst|exact Hf].
    intros p Hp. symmetry. apply Hh. apply sb_init_ok. exact Hp.
Qed.
Print Assumptions C05_final_optimize_find_partial.

(* ---------------------------------------------------------------------------------------------- *)
(* Examples for part 2.  Environment: text t, word characters = the ASCII \w characters, no sets.    *)
(* ---------------------------------------------------------------------------------------------- *)
Definition c05_word (x : Z) : bool := mem ecma_word_ranges x.
Definition c05_cat_in (name x : Z) : bool := if name =? cat_word then c05_word x else false.
Definition c05_env (t : list Z) : env :=
  {| txt := t; tstart := 0; ecma := false; endz_strict := false; set_in := fun _ _ => false;
     lower := fun x => x; is_word := c05_word; is_eword := c05_word |}.

Lemma c05_env_ok t : env_ok c05_cat_in c05_word c05_word (fun _ => 0) (c05_env t) [].
Proof.
  constructor; try reflexivity.
  - intros c [].
  - intros x H. discriminate.
  - intros x H. exact H.
  - intros ch [H|H]; [discriminate|]. split; [reflexivity|].
    assert (Hw : mem ecma_word_ranges ch = false).
    { unfold mem, in_range, ecma_space_ranges, ecma_word_ranges in *. cbn [existsb fst snd] in *. lia. }
    split; [exact Hw | exact Hw].
Qed.

(* a*b : the loop becomes atomic and the marker is inserted; the theorem applies (mask 24: the three families of
   finalOptimize on) and the search on "aab" finds the same match *)
Definition c05_ex_astar_b : rnode :=
  RN 28 0 0 0 (-1) [] None [RN 25 0 0 0 0 [] None [RN 3 0 97 0 INF [] None []; RN 9 0 98 0 0 [] None []]].
Example C05_ex_final_optimize_applies :
  let root' := RN 28 0 0 0 (-1) [] None
                 [RN 25 0 0 0 0 [] None [RN 43 0 97 0 INF [] None []; RN T_Bump 0 0 0 0 [] None []; RN 9 0 98 0 0 [] None []]] in
  fo_wf c05_ex_astar_b = true /\
  fo_final_optimize c05_cat_in c05_word c05_word 20 24 0 false false c05_ex_astar_b = Ok root' /\
  fo_final_optimize c05_cat_in c05_word c05_word 20 24 15 true false c05_ex_astar_b = Ok root' /\
  find (c05_env [97; 97; 98]) 6 (tr (fun _ => 0) c05_ex_astar_b) false 0 (-1) = Ok (Some {| pos := 3; caps := [(0, [(0, 3)])] |}) /\
  find (c05_env [97; 97; 98]) 6 (tr (fun _ => 0) root') false 0 (-1) = Ok (Some {| pos := 3; caps := [(0, [(0, 3)])] |}).
Proof. vm_compute. repeat split; reflexivity. Qed.

(* (?>ab|cd|ae)x under mask 16 (everything but prefix factoring): the branch ae moves in front of cd *)
Definition c05_cc (a b : Z) : rnode := RN 25 0 0 0 0 [] None [RN 9 0 a 0 0 [] None []; RN 9 0 b 0 0 [] None []].
Definition c05_ex_atomic_alt (brs : list rnode) : rnode :=
  RN 28 0 0 0 (-1) [] None [RN 25 0 0 0 0 [] None [RN 32 0 0 0 0 [] None [RN 24 0 0 0 0 [] None brs]; RN 9 0 120 0 0 [] None []]].
Example C05_ex_atomic_alternation_reordered :
  let root := c05_ex_atomic_alt [c05_cc 97 98; c05_cc 99 100; c05_cc 97 101] in
  let root' := c05_ex_atomic_alt [c05_cc 97 98; c05_cc 97 101; c05_cc 99 100] in
  fo_wf root = true /\
  fo_final_optimize c05_cat_in c05_word c05_word 20 16 0 false false root = Ok root' /\
  fo_final_optimize c05_cat_in c05_word c05_word 20 16 15 true false root = Ok root'.
Proof. vm_compute. repeat split; reflexivity. Qed.

(* the side condition "no \B stepped over before the end of the expression" (strict bit 1) is necessary:
   -+\B (known finding c05-nonboundary-end): the code makes the loop atomic, the strict model does not, and the
   first result of the root from position 0 of "--a" changes (position 1 vs none) *)
Definition c05_ex_nb : rnode :=
  RN 28 0 0 0 (-1) [] None [RN 25 0 0 0 0 [] None [RN 3 0 45 1 INF [] None []; RN 17 0 0 0 0 [] None []]].
Theorem C05_final_optimize_nb_refuted :
  ~ (forall cat_in isw isew sid e sets, env_ok cat_in isw isew sid e sets ->
     forall g, fo_gate g 16 = true ->
     forall fuel cl root root', fo_wf root = true -> sets_in sets root ->
       fo_final_optimize cat_in isw isew fuel g 0 false cl root = Ok root' ->
       forall s, st_ok e s -> hd_list (den e (tr sid root) s) = hd_list (den e (tr sid root') s)).
Proof.
  intros H.
  set (root' := RN 28 0 0 0 (-1) [] None [RN 25 0 0 0 0 [] None [RN 43 0 45 1 INF [] None []; RN T_Bump 0 0 0 0 [] None []; RN 17 0 0 0 0 [] None []]]).
  specialize (H c05_cat_in c05_word c05_word (fun _ => 0) (c05_env [45; 45; 97]) [] (c05_env_ok _) 24 eq_refl
                20%nat false c05_ex_nb root' eq_refl ltac:(cbn; tauto) ltac:(vm_compute; reflexivity)
                {| pos := 0; caps := [] |} ltac:(apply sb_init_ok; cbn; lia)).
  assert (H1 : den (c05_env [45; 45; 97]) (tr (fun _ => 0) c05_ex_nb) {| pos := 0; caps := [] |} = [{| pos := 1; caps := [(0, [(0, 1)])] |}]).
  { apply fd_evals_den. exists 6%nat. vm_compute. reflexivity. }
  assert (H2 : den (c05_env [45; 45; 97]) (tr (fun _ => 0) root') {| pos := 0; caps := [] |} = []).
  { apply fd_evals_den. exists 6%nat. vm_compute. reflexivity. }
  rewrite H1, H2 in H. discriminate.
Qed.
Print Assumptions C05_final_optimize_nb_refuted.

Example C05_ex_nb_side_condition_fails :
  fo_final_optimize c05_cat_in c05_word c05_word 20 24 0 false false c05_ex_nb <>
  fo_final_optimize c05_cat_in c05_word c05_word 20 24 15 true false c05_ex_nb.
Proof. vm_compute. discriminate. Qed.
