(* C07 — successive matches are ordered, disjoint and terminate.
   Statements only; proofs are in Proofs/IterProofs.v.  The model is Model/Iter.v: the start-position
   logic of runner.go scan, FindNextMatch, findAllRunesIndex over an ABSTRACT anchored matcher
   [attempt textstart pos].  Every theorem holds for every such matcher that satisfies [forward]
   (an attempt at an in-range position p returns a match that begins at p and extends in scan
   direction inside the text), for both directions, every start position and every n. *)
From Verif Require Import Base.Prelude Model.Iter Proofs.IterProofs.

(* Vocabulary (definitions in Proofs/IterProofs.v):
   [wfm rtl len m]: m has the shape of an engine result on this text — length >= 0, 0 <= textpos <= len,
     left-to-right textpos = index + length, right-to-left textpos = index; start edge inside the text.
   [follows rtl a b], the direction-specific reading of "b follows a":
     left-to-right   index a < index b  /\  index a + length a <= index b
     right-to-left   index b + length b < index a + length a  /\  index b + length b <= index a
     and after an empty match the next match is not the same empty match.
   [consecutive ms a b]: a and b are adjacent elements of the list ms.
   [filter_adj None ms]: ms minus every empty match m whose index equals the textpos of its
     predecessor in ms (whether that predecessor was itself kept or dropped).
   [takeZ n l]: l when n < 0, else the first n elements. *)

(* next_advances, one step: FindNextMatch on a well-formed match completes (fuel len+2) and its
   result, if any, is well-formed and follows the argument *)
Theorem C07_next_advances :
  forall rtl len attempt, forward rtl len attempt ->
  forall m, wfm rtl len m ->
  exists r, find_next_match rtl len attempt (dflt_fuel len) m = Ok r /\
            forall m', r = Some m' -> wfm rtl len m' /\ follows rtl m m'.
Proof. exact next_advances_stmt. Qed.
Print Assumptions C07_next_advances.

(* next_advances over the whole iteration + iteration_bound: from any in-range start, the loop
   "m := FindRunesMatchStartingAt(start); for m != nil { m = FindNextMatch(m) }" run with fuel
   len+2 is never out of fuel, yields at most len+1 matches, and every consecutive pair is ordered *)
Theorem C07_iteration_bound_and_order :
  forall rtl len attempt, forward rtl len attempt ->
  forall start, 0 <= start <= len ->
  exists ms, iteration rtl len attempt (dflt_fuel len) (dflt_fuel len) start = Ok ms /\
             Z.of_nat (length ms) <= len + 1 /\
             Forall (wfm rtl len) ms /\
             forall a b, consecutive ms a b -> follows rtl a b.
Proof. exact iteration_bound_and_order. Qed.
Print Assumptions C07_iteration_bound_and_order.

(* next_is_fresh_search: FindNextMatch(m) is literally an independent search whose candidate
   positions start at m's textpos (one further after an empty match; none at all when that falls
   off the far end) with \G bound to m's textpos — for any fuel, any matcher *)
Theorem C07_next_is_fresh_search :
  forall rtl len attempt fuel m, 0 <= m_textpos m ->
    find_next_match rtl len attempt fuel m =
      if m_length m =? 0 then
        if m_textpos m =? stoppos rtl len then Ok None
        else search_from rtl len attempt fuel (m_textpos m) (m_textpos m + bump rtl)
      else search_from rtl len attempt fuel (m_textpos m) (m_textpos m).
Proof. exact next_is_fresh. Qed.
Print Assumptions C07_next_is_fresh_search.

(* ... and for a \G-free matcher that independent search is FindRunesMatchStartingAt *)
Theorem C07_fresh_search_is_starting_at :
  forall rtl len attempt, no_G attempt ->
  forall fuel ts pos, 0 <= pos ->
    search_from rtl len attempt fuel ts pos = find_runes_match_starting_at rtl len attempt fuel pos.
Proof. exact search_from_noG. Qed.
Print Assumptions C07_fresh_search_is_starting_at.

(* find_all_is_filtered_iteration: FindAllRunesIndex n (fuel len+2, never exhausted) is nil for
   n = 0 and otherwise the first n (all when n<0) elements of the iteration from the direction's
   beginning minus every empty match that sits on the advancing edge (textpos) of its predecessor
   in the iteration — reported or skipped —, as (index, index+length) pairs; nil when that is empty *)
Theorem C07_find_all_is_filtered_iteration :
  forall rtl len attempt, 0 <= len -> forward rtl len attempt ->
  forall n,
  exists ms, iteration rtl len attempt (dflt_fuel len) (dflt_fuel len) (if rtl then len else 0) = Ok ms /\
    find_all_runes_index rtl len attempt (dflt_fuel len) (dflt_fuel len) n =
      Ok (if n =? 0 then None
          else slice_of_list (map (fun m => (m_index m, m_index m + m_length m))
                                  (takeZ n (filter_adj None ms)))).
Proof. exact find_all_runes_index_ok. Qed.
Print Assumptions C07_find_all_is_filtered_iteration.

(* the same loop as used by FindAllStringIndex: any in-range start, any makeIndex *)
Theorem C07_find_all_from_is_filtered_iteration :
  forall rtl len attempt, forward rtl len attempt ->
  forall mk start n, 0 <= start <= len ->
  exists ms, iteration rtl len attempt (dflt_fuel len) (dflt_fuel len) start = Ok ms /\
    find_all_runes_index_from rtl len attempt (dflt_fuel len) (dflt_fuel len) mk start n =
      Ok (slice_of_list (map (fun m => mk (m_index m) (m_length m)) (takeZ n (filter_adj None ms)))).
Proof. exact find_all_from_ok. Qed.
Print Assumptions C07_find_all_from_is_filtered_iteration.

(* ---------------- non-vacuity: a* on "baaab", both directions ---------------- *)

Definition spans (r : res (list mt)) : res (list (Z * Z)) :=
  do l <- r ; Ok (map (fun m => (m_index m, m_length m)) l).

Example C07_witness_ltr :
  spans (iteration false 5 ex_ltr (dflt_fuel 5) (dflt_fuel 5) 0) = Ok [(0, 0); (1, 3); (4, 0); (5, 0)] /\
  find_all_runes_index false 5 ex_ltr (dflt_fuel 5) (dflt_fuel 5) (-1) = Ok (Some [(0, 0); (1, 4); (5, 5)]) /\
  find_all_runes_index false 5 ex_ltr (dflt_fuel 5) (dflt_fuel 5) 2 = Ok (Some [(0, 0); (1, 4)]) /\
  find_all_runes_index false 5 ex_ltr (dflt_fuel 5) (dflt_fuel 5) 0 = Ok None.
Proof. vm_compute. repeat split. Qed.

Example C07_witness_rtl :
  spans (iteration true 5 ex_rtl (dflt_fuel 5) (dflt_fuel 5) 5) = Ok [(5, 0); (1, 3); (1, 0); (0, 0)] /\
  find_all_runes_index true 5 ex_rtl (dflt_fuel 5) (dflt_fuel 5) (-1) = Ok (Some [(5, 5); (1, 4); (0, 0)]).
Proof. vm_compute. repeat split. Qed.

(* a matcher that never matches: the find-all result is nil, also for n > 0 *)
Example C07_witness_none :
  find_all_runes_index false 5 (fun _ _ => None) (dflt_fuel 5) (dflt_fuel 5) 3 = Ok None.
Proof. vm_compute. reflexivity. Qed.

(* the hypothesis [forward] of the theorems is met by both example matchers *)
Example C07_witness_forward : forward false 5 ex_ltr /\ forward true 5 ex_rtl.
Proof. split; [exact ex_ltr_forward | exact ex_rtl_forward]. Qed.
