(* C07 — successive matches are ordered, disjoint and terminate.
   Statements only; proofs are in Proofs/IterProofs.v.  The model is Model/Iter.v: the start-position
   logic of runner.go scan, FindNextMatch, findAllRunesIndex over an ABSTRACT anchored matcher
   [attempt textstart pos].  Every theorem holds for every such matcher that satisfies [forward]
   (an attempt at an in-range position p returns a match that begins at p and extends in scan
   direction inside the text), for both directions, every start position and every n. *)
From Verif Require Import Base.Prelude Model.Iter Proofs.IterProofs.

(* Vocabulary (definitions in Proofs/IterProofs.v):
   [wfm rtl len m]: m has the shape of an engine result on this text — length >= 0, 0 <= textpos <= len,
     left-to-right textpos = index + length, right-to-left textpos = index; start edge inside the text.
   [follows rtl a b], the direction-specific reading of "b follows a":
     left-to-right   index a < index b  /\  index a + length a <= index b
     right-to-left   index b + length b < index a + length a  /\  index b + length b <= index a
     and after an empty match the next match is not the same empty match.
   [consecutive ms a b]: a and b are adjacent elements of the list ms.
   [filter_adj None ms]: ms minus every empty match m whose index equals the textpos of its
     predecessor in ms (whether that predecessor was itself kept or dropped).
   [takeZ n l]: l when n < 0, else the first n elements. *)

(* next_advances, one step: FindNextMatch on a well-formed match completes (fuel len+2) and its
   result, if any, is well-formed and follows the argument *)
Theorem C07_next_advances :
  forall rtl len attempt, forward rtl len attempt ->
  forall m, wfm rtl len m ->
  exists r, find_next_match rtl len attempt (dflt_fuel len) m = Ok r /\
            forall m', r = Some m' -> wfm rtl len m' /\ follows rtl m m'.
Proof. exact next_advances_stmt. Qed.
Print Assumptions C07_next_advances.

(* next_advances over the whole iteration + iteration_bound: from any in-range start, the loop
   "m := FindRunesMatchStartingAt(start); for m != nil { m = FindNextMatch(m) }" run with fuel
   len+2 is never out of fuel, yields at most len+1 matches, and every consecutive pair is ordered *)
Theorem C07_iteration_bound_and_order :
  forall rtl len attempt, forward rtl len attempt ->
  forall start, 0 <= start <= len ->
  exists ms, iteration rtl len attempt (dflt_fuel len) (dflt_fuel len) start = Ok ms /\
             Z.of_nat (length ms) <= len + 1 /\
             Forall (wfm rtl len) ms /\
             forall a b, consecutive ms a b -> follows rtl a b.
Proof. exact iteration_bound_and_order. Qed.
Print Assumptions C07_iteration_bound_and_order.

(* next_is_fresh_search: FindNextMatch(m) is literally an independent search whose candidate
   positions start at m's textpos (one further after an empty match; none at all when that falls
   off the far end) with \G bound to m's textpos — for any fuel, any matcher *)
Theorem C07_next_is_fresh_search :
  forall rtl len attempt fuel m, 0 <= m_textpos m ->
    find_next_match rtl len attempt fuel m =
      if m_length m =? 0 then
        if m_textpos m =? stoppos rtl len then Ok None
        else search_from rtl len attempt fuel (m_textpos m) (m_textpos m + bump rtl)
      else search_from rtl len attempt fuel (m_textpos m) (m_textpos m).
Proof. exact next_is_fresh. Qed.
Print Assumptions C07_next_is_fresh_search.

(* ... and for a \G-free matcher that independent search is FindRunesMatchStartingAt *)
Theorem C07_fresh_search_is_starting_at :
  forall rtl len attempt, no_G attempt ->
  forall fuel ts pos, 0 <= pos ->
    search_from rtl len attempt fuel ts pos = find_runes_match_starting_at rtl len attempt fuel pos.
Proof. exact search_from_noG. Qed.
Print Assumptions C07_fresh_search_is_starting_at.

(* find_all_is_filtered_iteration: FindAllRunesIndex n (fuel len+2, never exhausted) is nil for
   n = 0 and otherwise the first n (all when n<0) elements of the iteration from the direction's
   beginning minus every empty match that sits on the advancing edge (textpos) of its predecessor
   in the iteration — reported or skipped —, as (index, index+length) pairs; nil when that is empty *)
Theorem C07_find_all_is_filtered_iteration :
  forall rtl len attempt, 0 <= len -> forward rtl len attempt ->
  forall n,
  exists ms, iteration rtl len attempt (dflt_fuel len) (dflt_fuel len) (if rtl then len else 0) = Ok ms /\
    find_all_runes_index rtl len attempt (dflt_fuel len) (dflt_fuel len) n =
      Ok (if n =? 0 then None
          else slice_of_list (map (fun m => (m_index m, m_index m + m_length m))
                                  (takeZ n (filter_adj None ms)))).
Proof. exact find_all_runes_index_ok. Qed.
Print Assumptions C07_find_all_is_filtered_iteration.

(* the same loop as used by FindAllStringIndex: any in-range start, any makeIndex *)
Theorem C07_find_all_from_is_filtered_iteration :
  forall rtl len attempt, forward rtl len attempt ->
  forall mk start n, 0 <= start <= len ->
  exists ms, iteration rtl len attempt (dflt_fuel len) (dflt_fuel len) start = Ok ms /\
    find_all_runes_index_from rtl len attempt (dflt_fuel len) (dflt_fuel len) mk start n =
      Ok (slice_of_list (map (fun m => mk (m_index m) (m_length m)) (takeZ n (filter_adj None ms)))).
Proof. exact find_all_from_ok. Qed.
Print Assumptions C07_find_all_from_is_filtered_iteration.

(* ---------------- non-vacuity: a* on "baaab", both directions ---------------- *)

Definition spans (r : res (list mt)) : res (list (Z * Z)) :=
  do l <- r ; Ok (map (fun m => (m_index m, m_length m)) l).

Example C07_witness_ltr :
  spans (iteration false 5 ex_ltr (dflt_fuel 5) (dflt_fuel 5) 0) = Ok [(0, 0); (1, 3); (4, 0); (5, 0)] /\
  find_all_runes_index false 5 ex_ltr (dflt_fuel 5) (dflt_fuel 5) (-1) = Ok (Some [(0, 0); (1, 4); (5, 5)]) /\
  find_all_runes_index false 5 ex_ltr (dflt_fuel 5) (dflt_fuel 5) 2 = Ok (Some [(0, 0); (1, 4)]) /\
  find_all_runes_index false 5 ex_ltr (dflt_fuel 5) (dflt_fuel 5) 0 = Ok None.
Proof. vm_compute. repeat split. Qed.

Example C07_witness_rtl :
  spans (iteration true 5 ex_rtl (dflt_fuel 5) (dflt_fuel 5) 5) = Ok [(5, 0); (1, 3); (1, 0); (0, 0)] /\
  find_all_runes_index true 5 ex_rtl (dflt_fuel 5) (dflt_fuel 5) (-1) = Ok (Some [(5, 5); (1, 4); (0, 0)]).
Proof. vm_compute. repeat split. Qed.

(* a matcher that never matches: the find-all result is nil, also for n > 0 *)
Example C07_witness_none :
  find_all_runes_index false 5 (fun _ _ => None) (dflt_fuel 5) (dflt_fuel 5) 3 = Ok None.
Proof. vm_compute. reflexivity. Qed.

(* the hypothesis [forward] of the theorems is met by both example matchers *)
Example C07_witness_forward : forward false 5 ex_ltr /\ forward true 5 ex_rtl.
Proof. split; [exact ex_ltr_forward | exact ex_rtl_forward]. Qed.

(* ---------------- composition: the matcher of a COMPILED PROGRAM satisfies [forward] ----------------
   (Proofs/ComposeExec.v; no new model.)  The theorems above are over an abstract matcher; here it is built:
     cx_env_at e ts              the text of e searched with \G bound to ts
     cx_spec_matcher e fuel root one Spec.attempt, read as (group 0 index, group 0 length, textpos)
     cx_vm_matcher e p L vfuel   one execute() call of the interpreter on program p under stack limit L, read
                                 through match.go's matchIndex(0) / matchLength(0) and Runtextpos; None when
                                 the call does not return or returns without a match
   [forward] follows from C04's length analysis (shape_ok rtl root: a direction-rtl tree ends at or after /
   before its start, inside the text), C08's group-0-is-the-match-span (no_group0 body) and, for the
   interpreter, C01_compile_correct2_exec_partial.
   Residual hypotheses.  Reference level: none beyond shape_ok (recomputed on every exported tree by leg
   c04-analysis) and no_group0 (no node of the body captures into or balances group 0: the parser reserves
   group 0 for the root capture).  Interpreter level: those of C01_compile_correct2_exec_partial on the program, and
   "Spec.attempt terminates within the engine's counter range at every in-range position, for every \G"
   (last hypothesis).  Not claimed: that an execute() call returns (a call that runs out of fuel or hits the
   stack limit is read as "no match at this position" by cx_vm_matcher). *)
From Verif Require Import Model.Tree Model.Spec Model.VM Model.Writer Model.Analysis Proofs.SpecBoundsProofs
  Proofs.CompileDefs Proofs.CompileBalDefs Proofs.ComposeExec.

Theorem C07_spec_matcher_is_forward :
  forall (e : env) (rtl : bool) fuel o body,
  let root := NCapture o 0 (-1) body in
  shape_ok rtl root = true -> no_group0 body ->
  forward rtl (tlen e) (cx_spec_matcher e fuel root).
Proof. exact cx_spec_forward. Qed.
Print Assumptions C07_spec_matcher_is_forward.

Theorem C07_compiled_matcher_is_forward :
  forall (e : env) (p : program) (rtl : bool), 0 <= trackcount p -> tlen e <= INF ->
  forall L vfuel o body,
  let root := NCapture o 0 (-1) body in
  codes p = fst (compile cfg0 root) -> strings p = snd (compile cfg0 root) ->
  supported2 root = true -> groups_ok2 (capsize p) root ->
  shape_ok rtl root = true -> no_group0 body ->
  (forall ts t0, 0 <= t0 <= tlen e ->
     exists fuel r, Z.of_nat fuel <= INF /\ Spec.attempt (cx_env_at e ts) fuel root t0 = Ok r) ->
  forward rtl (tlen e) (cx_vm_matcher e p L vfuel).
Proof. exact cx_vm_forward. Qed.
Print Assumptions C07_compiled_matcher_is_forward.

(* C07_iteration_bound_and_order / C07_next_advances for the reference search ... *)
Theorem C07_iteration_for_spec_search :
  forall (e : env) (rtl : bool) fuel o body,
  let root := NCapture o 0 (-1) body in
  shape_ok rtl root = true -> no_group0 body ->
  forall start, 0 <= start <= tlen e ->
  exists ms, Iter.iteration rtl (tlen e) (cx_spec_matcher e fuel root)
               (Iter.dflt_fuel (tlen e)) (Iter.dflt_fuel (tlen e)) start = Ok ms /\
             Z.of_nat (length ms) <= tlen e + 1 /\
             Forall (wfm rtl (tlen e)) ms /\
             forall a b, consecutive ms a b -> follows rtl a b.
Proof. exact cx_iteration_for_spec_search. Qed.
Print Assumptions C07_iteration_for_spec_search.

Theorem C07_next_advances_for_spec_search :
  forall (e : env) (rtl : bool) fuel o body,
  let root := NCapture o 0 (-1) body in
  shape_ok rtl root = true -> no_group0 body ->
  forall m, wfm rtl (tlen e) m ->
  exists r, Iter.find_next_match rtl (tlen e) (cx_spec_matcher e fuel root) (Iter.dflt_fuel (tlen e)) m = Ok r /\
            forall m', r = Some m' -> wfm rtl (tlen e) m' /\ follows rtl m m'.
Proof. exact cx_next_advances_for_spec_search. Qed.
Print Assumptions C07_next_advances_for_spec_search.

(* ... and for the interpreter running a compiled program, under any stack limit and any interpreter fuel:
   the loop "m := FindRunesMatchStartingAt(start); for m != nil { m = FindNextMatch(m) }" is never out of
   (loop) fuel, yields at most len+1 matches, all well-formed, every consecutive pair ordered and disjoint *)
Theorem C07_iteration_for_compiled_programs :
  forall (e : env) (p : program) (rtl : bool), 0 <= trackcount p -> tlen e <= INF ->
  forall L vfuel o body,
  let root := NCapture o 0 (-1) body in
  codes p = fst (compile cfg0 root) -> strings p = snd (compile cfg0 root) ->
  supported2 root = true -> groups_ok2 (capsize p) root ->
  shape_ok rtl root = true -> no_group0 body ->
  (forall ts t0, 0 <= t0 <= tlen e ->
     exists fuel r, Z.of_nat fuel <= INF /\ Spec.attempt (cx_env_at e ts) fuel root t0 = Ok r) ->
  forall start, 0 <= start <= tlen e ->
  exists ms, Iter.iteration rtl (tlen e) (cx_vm_matcher e p L vfuel)
               (Iter.dflt_fuel (tlen e)) (Iter.dflt_fuel (tlen e)) start = Ok ms /\
             Z.of_nat (length ms) <= tlen e + 1 /\
             Forall (wfm rtl (tlen e)) ms /\
             forall a b, consecutive ms a b -> follows rtl a b.
Proof. exact cx_iteration_for_compiled_programs. Qed.
Print Assumptions C07_iteration_for_compiled_programs.

Theorem C07_next_advances_for_compiled_programs :
  forall (e : env) (p : program) (rtl : bool), 0 <= trackcount p -> tlen e <= INF ->
  forall L vfuel o body,
  let root := NCapture o 0 (-1) body in
  codes p = fst (compile cfg0 root) -> strings p = snd (compile cfg0 root) ->
  supported2 root = true -> groups_ok2 (capsize p) root ->
  shape_ok rtl root = true -> no_group0 body ->
  (forall ts t0, 0 <= t0 <= tlen e ->
     exists fuel r, Z.of_nat fuel <= INF /\ Spec.attempt (cx_env_at e ts) fuel root t0 = Ok r) ->
  forall m, wfm rtl (tlen e) m ->
  exists r, Iter.find_next_match rtl (tlen e) (cx_vm_matcher e p L vfuel) (Iter.dflt_fuel (tlen e)) m = Ok r /\
            forall m', r = Some m' -> wfm rtl (tlen e) m' /\ follows rtl m m'.
Proof. exact cx_next_advances_for_compiled_programs. Qed.
Print Assumptions C07_next_advances_for_compiled_programs.

(* non-vacuity: the a^n b^n program with balancing groups on "aabb": shape_ok, no_group0 and the termination
   hypothesis hold, and iterating either matcher from 0 yields the single match [0,4) *)
Example C07_compiled_witness := cx_iter_demo.

(* ... and C07_fresh_search_is_starting_at with [no_G] discharged: Spec.sem reads the scan start only through
   a \G anchor (C02_attempt_does_not_read_start), so for a tree without \G ([ce_no_start], equivalently a
   program without a Start opcode: C02_has_opcode_start_is_tree_has_start_anchor) FindNextMatch's independent
   search is FindRunesMatchStartingAt at the reference level.  (At the interpreter level no_G is not proved:
   compile_correct says what execute() returns WHEN it returns, not that returning is independent of \G.) *)
From Verif Require Import Proofs.ComposeEntry Proofs.ComposeIter.

Theorem C07_spec_matcher_ignores_start :
  forall (e : env) (fuel : nat) (root : node),
    ce_no_start root = true -> no_G (cx_spec_matcher e fuel root).
Proof. exact cit_spec_matcher_no_G. Qed.
Print Assumptions C07_spec_matcher_ignores_start.

Theorem C07_fresh_search_is_starting_at_for_spec_search :
  forall (e : env) (fuel : nat) (root : node) (rtl : bool),
    ce_no_start root = true ->
    forall lfuel ts pos, 0 <= pos ->
      Iter.search_from rtl (tlen e) (cx_spec_matcher e fuel root) lfuel ts pos =
      Iter.find_runes_match_starting_at rtl (tlen e) (cx_spec_matcher e fuel root) lfuel pos.
Proof. exact cit_fresh_search_is_starting_at. Qed.
Print Assumptions C07_fresh_search_is_starting_at_for_spec_search.

(* ---------------- ... with the termination hypothesis discharged (Proofs/SpecTermProofs.v, Proofs/ComposeTerm.v) ----
   The last hypothesis of the three compiled-program theorems above ("Spec.attempt terminates within the engine's
   counter range at every in-range position, for every \G") is a theorem for trees with one-directional loop
   bodies: two decidable conditions on the instance replace it,
     term_ok root = true   and   Z.of_nat (term_fuel e root) <= INF
   (term_fuel e root = 1 + nesting depth, loops add minimum count + text length + 2). *)
From Verif Require Import Proofs.SpecTermProofs Proofs.ComposeTerm.

Theorem C07_compiled_matcher_is_forward_terminating :
  forall (e : env) (p : program) (rtl : bool), 0 <= trackcount p -> tlen e <= INF ->
  forall L vfuel o body,
  let root := NCapture o 0 (-1) body in
  codes p = fst (compile cfg0 root) -> strings p = snd (compile cfg0 root) ->
  supported2 root = true -> groups_ok2 (capsize p) root ->
  shape_ok rtl root = true -> no_group0 body ->
  term_ok root = true -> Z.of_nat (term_fuel e root) <= INF ->
  forward rtl (tlen e) (cx_vm_matcher e p L vfuel).
Proof. exact ct_vm_forward. Qed.
Print Assumptions C07_compiled_matcher_is_forward_terminating.

Theorem C07_iteration_for_compiled_programs_terminating :
  forall (e : env) (p : program) (rtl : bool), 0 <= trackcount p -> tlen e <= INF ->
  forall L vfuel o body,
  let root := NCapture o 0 (-1) body in
  codes p = fst (compile cfg0 root) -> strings p = snd (compile cfg0 root) ->
  supported2 root = true -> groups_ok2 (capsize p) root ->
  shape_ok rtl root = true -> no_group0 body ->
  term_ok root = true -> Z.of_nat (term_fuel e root) <= INF ->
  forall start, 0 <= start <= tlen e ->
  exists ms, Iter.iteration rtl (tlen e) (cx_vm_matcher e p L vfuel)
               (Iter.dflt_fuel (tlen e)) (Iter.dflt_fuel (tlen e)) start = Ok ms /\
             Z.of_nat (length ms) <= tlen e + 1 /\
             Forall (wfm rtl (tlen e)) ms /\
             forall a b, consecutive ms a b -> follows rtl a b.
Proof. exact ct_iteration_for_compiled_programs. Qed.
Print Assumptions C07_iteration_for_compiled_programs_terminating.

Theorem C07_next_advances_for_compiled_programs_terminating :
  forall (e : env) (p : program) (rtl : bool), 0 <= trackcount p -> tlen e <= INF ->
  forall L vfuel o body,
  let root := NCapture o 0 (-1) body in
  codes p = fst (compile cfg0 root) -> strings p = snd (compile cfg0 root) ->
  supported2 root = true -> groups_ok2 (capsize p) root ->
  shape_ok rtl root = true -> no_group0 body ->
  term_ok root = true -> Z.of_nat (term_fuel e root) <= INF ->
  forall m, wfm rtl (tlen e) m ->
  exists r, Iter.find_next_match rtl (tlen e) (cx_vm_matcher e p L vfuel) (Iter.dflt_fuel (tlen e)) m = Ok r /\
            forall m', r = Some m' -> wfm rtl (tlen e) m' /\ follows rtl m m'.
Proof. exact ct_next_advances_for_compiled_programs. Qed.
Print Assumptions C07_next_advances_for_compiled_programs_terminating.

(* non-vacuity: the a^n b^n program of C07_compiled_witness is term_ok with reference fuel 10 *)
Example C07_terminating_witness := ct_demo.
