(* C14 — Timeouts fire, only when due, and the clock cleans up.
   This file only states the property theorems; proofs are in Proofs/ClockProofs.v.

   All theorems are about Model/Clock.v: goroutines of fastclock.go as sequences of atomic
   actions, an execution = an ARBITRARY list of actions (time passing, new timed matches, calls of
   StopTimeoutClock, one step of any goroutine).  [run true period lag init l = Some s] says that l
   is a schedule of the patched code (fx = true, what /repo contains) in which every iteration of
   runClock took at most period+lag between two time readings and every makeDeadline call took at
   most lag.  Nothing bounds the length of l, the number of goroutines, the idle gaps, or the
   number/positions of StopTimeoutClock calls.
   CLAIMED PARTIAL: that the Go runtime delivers lag-timely schedules, that time.Sleep/time.Since
   behave like [Tick]/[now], and the Go memory model for the two atomics are assumptions of the
   model, exercised only by the correspondence leg c14-clock. *)
From Verif Require Import Base.Prelude Model.Clock Proofs.ClockProofs.

(* (1) only when due.  A timeout error observed at real time tm by a match that called
   makeDeadline at t0 with MatchTimeout d satisfies tm >= t0 + d - (2*lag + 2 ticks), whatever
   happened before or concurrently (idle gaps of any length, StopTimeoutClock, other deadlines).
   The +clockPeriod of makeDeadline cancels the period; 2 ticks (2 * 2^20 ns) is the rounding of
   durationToTicks.  Hypothesis d + period <= MaxInt64: see C14_overflow_witness. *)
Theorem C14_no_early_timeout :
  forall period lag, 0 <= period -> 0 <= lag -> no_early_timeout_stmt true period lag.
Proof. exact no_early_timeout_fixed. Qed.
Print Assumptions C14_no_early_timeout.

(* The same statement is FALSE for fastclock.go as pinned (fx = false): two matches that start
   together after an idle period; the loser of the race keeps a deadline computed from the stale
   clock and times out after one period (100 ms) of a 500 ms budget, with lag = 1 ms.
   Reproduced on the real code (public API only), see known_findings / report; fixed by
   docs/patches/C14-fastclock-false-timeout.patch, which the model with fx = true mirrors. *)
Theorem C14_no_early_timeout_orig_refuted : ~ no_early_timeout_stmt false (100 * ms) (1 * ms).
Proof. exact no_early_timeout_orig_refuted. Qed.
Print Assumptions C14_no_early_timeout_orig_refuted.

(* (2) a match that finishes well inside d never reports a timeout: every poll made before
   t0 + d - early_slack answers "not reached" (the goroutine stays at MRet), and the match may
   complete (Finish) without error. *)
Theorem C14_finished_in_time_no_error :
  forall period lag, 0 <= period -> 0 <= lag ->
  forall l s i d t0 e,
    run true period lag init l = Some s ->
    nth_error (ths s) i = Some (MRet d t0 e) ->
    0 <= d -> d + period <= max_dur ->
    now (gs s) < t0 + d - early_slack lag ->
    cur (gs s) < e /\
    step true period lag s (Step i) = Some (mkSt (gs s) (upd i (MRet d t0 e) (ths s) ++ [])) /\
    step true period lag s (Finish i) = Some (mkSt (gs s) (upd i (MDone d t0 (now (gs s))) (ths s))).
Proof. exact finished_in_time. Qed.
Print Assumptions C14_finished_in_time_no_error.

(* (3) timeouts fire.  From the call of makeDeadline (goroutine i at MStart in s1) on, along any
   continuation l2 in which no StopTimeoutClock reset (clockEnd.write(0)) takes effect: once real
   time is past t0 + d + 2*period + 3*lag, current >= deadline has been written, i.e. the next
   CheckTimeout of the interpreter loop (one per instruction, runner.go:242) returns the error.
   History before the call (l1) is arbitrary, including StopTimeoutClock calls and idle gaps. *)
Theorem C14_timeout_fires :
  forall period lag, 0 <= period -> 0 <= lag ->
  forall l1 s1 l2 s2 i d t0 e,
    run true period lag init l1 = Some s1 ->
    nth_error (ths s1) i = Some (MStart d t0) ->
    run_with true period lag no_stop_write s1 l2 = Some s2 ->
    nth_error (ths s2) i = Some (MRet d t0 e) ->
    0 <= d -> d + period <= max_dur ->
    t0 + d + late_slack period lag <= now (gs s2) ->
    e <= cur (gs s2).
Proof. exact timeout_fires. Qed.
Print Assumptions C14_timeout_fires.

(* (4) the clock cleans up.  If at s1 no makeDeadline call is in progress and none starts
   afterwards, then 2*(period+lag) after the later of "now" and the real time of clockEnd, running
   is false and no clock goroutine exists (not even one that is about to unlock).  StopTimeoutClock
   calls may occur anywhere. *)
Theorem C14_clock_exits :
  forall period lag, 0 <= period -> 0 <= lag ->
  forall l1 s1 l2 s2,
    run true period lag init l1 = Some s1 -> quiet s1 = true ->
    run_with true period lag no_call s1 l2 = Some s2 ->
    horizon s1 + exit_slack period lag < now (gs s2) ->
    running (gs s2) = false /\
    forall j t, nth_error (ths s2) j = Some t -> clock_alive t = false.
Proof. exact clock_exits. Qed.
Print Assumptions C14_clock_exits.

(* (5) and is restarted on demand.  In ANY reachable state in which the clock is stopped (however
   it got there: ran out, or StopTimeoutClock) and nobody is inside makeDeadline, a makeDeadline
   call with ticks(d+period) >= 1 refreshes current to the real time, returns the deadline
   ticks(now - start) + ticks(d + period), sets clockEnd one second of ticks beyond it and starts a
   new clock goroutine. *)
Theorem C14_clock_restarts :
  forall period lag, 0 <= period -> 0 <= lag ->
  forall l s d s0,
    run true period lag init l = Some s ->
    running (gs s) = false -> mu (gs s) = None -> quiet s = true ->
    start (gs s) = Some s0 -> 1 <= kd period d ->
    let n := length (ths s) in
    let t := now (gs s) in
    let e := ticks (t - s0) + kd period d in
    exists s', run true period lag s (Call d :: repeat (Step n) 9) = Some s' /\
               running (gs s') = true /\ mu (gs s') = None /\ now (gs s') = t /\
               cur (gs s') = ticks (t - s0) /\ cend (gs s') = e + slop_ticks /\
               ths s' = ths s ++ [MRet d t e; R0 t].
Proof. exact clock_restarts. Qed.
Print Assumptions C14_clock_restarts.

(* ---------- non-vacuity: the hypotheses are satisfiable, the bounds are met by real schedules ---------- *)
Definition P100 := 100 * ms.
Definition L1 := 1 * ms.

(* a 500 ms timeout fires at 600 ms (d + period, as designed): inside [d - early_slack, d + late_slack] *)
Example C14_fires_witness :
  let s := final true P100 L1 sched_fires in
  run true P100 L1 init sched_fires = Some s /\
  nth_error (ths s) 0 = Some (MTimedOut (500 * ms) 0 572 (600 * ms)) /\
  0 + 500 * ms - early_slack L1 <= 600 * ms <= 0 + 500 * ms + late_slack P100 L1.
Proof. vm_compute. repeat split; try reflexivity; discriminate. Qed.

(* hypotheses of C14_timeout_fires: the same schedule split at the call *)
Example C14_fires_hyps_witness :
  let s1 := final true P100 L1 [Call (500 * ms)] in
  let l2 := rep 8 [Step 0%nat] ++ rep 3 [Step 1%nat] ++ rep 8 (clock_iter P100 1) in
  let s2 := match run_with true P100 L1 no_stop_write s1 l2 with Some s => s | None => init end in
    run true P100 L1 init [Call (500 * ms)] = Some s1 /\
    nth_error (ths s1) 0 = Some (MStart (500 * ms) 0) /\
    run_with true P100 L1 no_stop_write s1 l2 = Some s2 /\
    nth_error (ths s2) 0 = Some (MRet (500 * ms) 0 572) /\
    0 + 500 * ms + late_slack P100 L1 <= now (gs s2) /\ 572 <= cur (gs s2).
Proof. vm_compute. repeat split; try reflexivity; discriminate. Qed.

(* the no-stop hypothesis of C14_timeout_fires is necessary (StopTimeoutClock is "for unit tests
   only"): stop while a match is pending, the clock exits, 2 s later the deadline is still not reached *)
Example C14_stop_kills_pending_deadline :
  let s := final true P100 L1 sched_stop_pending in
  run true P100 L1 init sched_stop_pending = Some s /\
  nth_error (ths s) 0 = Some (MRet (500 * ms) 0 572) /\
  now (gs s) = 2100 * ms /\ cur (gs s) = 95 /\ running (gs s) = false.
Proof. vm_compute. repeat split; reflexivity. Qed.

(* hypotheses of C14_clock_exits and C14_clock_restarts: after the first match the system is quiet;
   17 ticks later the goroutine has exited by itself; 1.3 s later everything required holds *)
Example C14_exit_restart_witness :
  let s1 := final true P100 L1 sched_idle_head in
  let s2 := match run_with true P100 L1 no_call s1 sched_idle_tail with Some s => s | None => init end in
    run true P100 L1 init sched_idle_head = Some s1 /\ quiet s1 = true /\
    run_with true P100 L1 no_call s1 sched_idle_tail = Some s2 /\
    horizon s1 + exit_slack P100 L1 < now (gs s2) /\
    running (gs s2) = false /\ mu (gs s2) = None /\ quiet s2 = true /\ start (gs s2) = Some 0 /\
    ths s2 = [MDone (500 * ms) 0 0; RDone] /\ cur (gs s2) = 1621 /\ cend (gs s2) = 1525 /\
    1 <= kd P100 (500 * ms).
Proof. vm_compute. repeat split; try reflexivity; discriminate. Qed.

(* the interleaving that breaks the pinned code is harmless in the patched code: the loser of the
   race recomputes its deadline under the lock (3433 ticks = 3.0 s + 600 ms) and is not timed out *)
Example C14_race_fixed_witness :
  let s := final true P100 L1 (sched_race true) in
  run true P100 L1 init (sched_race true) = Some s /\
  nth_error (ths s) 2 = Some (MRet (500 * ms) (3000 * ms) 3433) /\
  nth_error (ths s) 3 = Some (MRet (500 * ms) (3000 * ms) 3433) /\
  now (gs s) = 3100 * ms /\ cur (gs s) = 2956.
Proof. vm_compute. repeat split; reflexivity. Qed.

(* the hypothesis d + period <= MaxInt64 is necessary: MatchTimeout = MaxInt64-1 wraps around in
   d + clockPeriod and the match is timed out by its first poll (the real code does the same) *)
Example C14_overflow_witness :
  let s := final true P100 L1 sched_overflow in
  run true P100 L1 init sched_overflow = Some s /\
  nth_error (ths s) 0 = Some (MTimedOut (max_dur - 1) 0 (-8796093022113) 0).
Proof. vm_compute. split; reflexivity. Qed.
