(* C15 — right-to-left mode is the mirror image of left-to-right.
   This file only states the property theorems; proofs are in Proofs/MirrorProofs.v.

   The theorems are about the reference semantics Model/Spec.v ([sem], [attempt], [find]): every node
   carries its own direction bit, and the tree is the one the writer sees, i.e. the parser has already
   reversed right-to-left concatenations, so list order is evaluation order in both directions.

   Mirror image (n = tlen e):   text rev (txt e);   position p |-> n - p;
   capture (i, len) |-> (n - i - len, len) for every capture of every group, stack order kept
   ([mirror_st]);  environment [mirror_env] (reversed text, tstart |-> n - tstart, same oracles and
   flags);  tree [flip]: Rtl bit of every option word toggled, Beginning<->End, Bol<->Eol, the literal
   of a Multi reversed (it is stored in text order), children lists NOT reordered.

   Fragment [mirror_ok t] (hence the suffix _partial).  Excluded, with reasons proved below:
     * the anchor EndZ — no anchor of the node language is its mirror image
       (C15_endz_no_mirror_anchor); under RE2/ECMAScript (endz_strict) EndZ = End and is covered
       (C15_*_endz_strict_partial);
     * balancing groups (?<g-u>...) that record a capture (u <> -1 and g <> -1) — [balance_span]
       (runner.go transferCapture) is NOT mirror-symmetric (C15_balance_example); pure pops (?<-u>...)
       are covered;
     * single-character loops with a negative minimum (a well-formedness condition: the parser never
       produces them; with one the loop could step outside the text).
   Covered: One/Notone/Set, their greedy/lazy/atomic loops, Multi (with IgnoreCase), back-references,
   all other anchors (incl. \G), Concat, Alternate, greedy/lazy/counted Loop, Capture, Group,
   look-ahead and look-behind (positive and negative, nested in any way), Atomic, both conditionals,
   Nothing/Empty/Bump, and any mixture of directions inside one tree.

   Side condition [st_ok e s]: 0 <= pos s <= n and every recorded capture (i, len) has
   0 <= i, 0 <= len, i + len <= n.  It is an invariant of the semantics (C15_sem_pos_in_range) and
   holds for the initial state of every attempt. *)
From Verif Require Import Base.Prelude Model.Tree Model.Spec Proofs.MirrorProofs.

(* Main theorem: same result LIST in the same (priority) order, same fuel. *)
Theorem C15_sem_mirror_partial :
  forall (e : env) (fuel : nat) (t : node) (s : st),
    mirror_ok t = true -> st_ok e s ->
    sem (mirror_env e) fuel (flip t) (mirror_st e s) = map_res (map (mirror_st e)) (sem e fuel t s).
Proof. exact mirror_sem_partial. Qed.
Print Assumptions C15_sem_mirror_partial.

(* The semantics only produces in-range states from in-range states. *)
Theorem C15_sem_pos_in_range :
  forall (e : env) (fuel : nat) (t : node) (s : st) (l : list st),
    mirror_ok t = true -> st_ok e s -> sem e fuel t s = Ok l -> Forall (st_ok e) l.
Proof. exact mirror_sem_pos_in_range_list. Qed.
Print Assumptions C15_sem_pos_in_range.

(* One attempt of the whole pattern at position p. *)
Theorem C15_attempt_mirror_partial :
  forall (e : env) (fuel : nat) (root : node) (p : Z),
    mirror_ok root = true -> 0 <= p <= tlen e ->
    attempt (mirror_env e) fuel (flip root) (tlen e - p)
    = map_res (option_map (mirror_st e)) (attempt e fuel root p).
Proof. exact mirror_attempt_partial. Qed.
Print Assumptions C15_attempt_mirror_partial.

(* The scan: attempt positions of the mirrored search are the mirror images, in the same order. *)
Theorem C15_find_mirror_partial :
  forall (e : env) (fuel : nat) (root : node) (rtl : bool) (start prevlen : Z),
    mirror_ok root = true -> 0 <= start <= tlen e ->
    find (mirror_env e) fuel (flip root) (negb rtl) (tlen e - start) prevlen
    = map_res (option_map (mirror_st e)) (find e fuel root rtl start prevlen).
Proof. exact mirror_find_partial. Qed.
Print Assumptions C15_find_mirror_partial.

(* The property statement: a RightToLeft search IS the mirror image of the LeftToRight search of the
   flipped tree over the reversed text (attempt positions descend from [start], captures are reported
   as ordinary (start, length) spans of the original text). *)
Theorem C15_rtl_is_mirrored_ltr_partial :
  forall (e : env) (fuel : nat) (root : node) (start prevlen : Z),
    mirror_ok root = true -> 0 <= start <= tlen e ->
    find e fuel root true start prevlen
    = map_res (option_map (mirror_st (mirror_env e)))
        (find (mirror_env e) fuel (flip root) false (tlen e - start) prevlen).
Proof. exact mirror_rtl_is_mirrored_ltr_partial. Qed.
Print Assumptions C15_rtl_is_mirrored_ltr_partial.

(* Mirroring is an involution on trees, states and environments and preserves the fragment, so each
   theorem above can be read in both directions. *)
Theorem C15_mirror_involution :
  (forall t, flip (flip t) = t) /\ (forall t, mirror_ok (flip t) = mirror_ok t) /\
  (forall e, mirror_env (mirror_env e) = e) /\
  (forall e s, mirror_st (mirror_env e) (mirror_st e s) = s) /\
  (forall e s, st_ok e s -> st_ok (mirror_env e) (mirror_st e s)).
Proof. exact mirror_involution_all. Qed.
Print Assumptions C15_mirror_involution.

(* EndZ under RE2 / ECMAScript: [endz_to_end] rewrites EndZ to End, which does not change the
   semantics there, and End mirrors to Beginning. *)
Theorem C15_sem_mirror_endz_strict_partial :
  forall (e : env), endz_strict e = true ->
  forall (fuel : nat) (t : node) (s : st),
    mirror_ok (endz_to_end t) = true -> st_ok e s ->
    sem (mirror_env e) fuel (flip (endz_to_end t)) (mirror_st e s)
    = map_res (map (mirror_st e)) (sem e fuel t s).
Proof. exact mirror_sem_endz_strict_partial. Qed.
Print Assumptions C15_sem_mirror_endz_strict_partial.

Theorem C15_find_mirror_endz_strict_partial :
  forall (e : env), endz_strict e = true ->
  forall (fuel : nat) (root : node) (rtl : bool) (start prevlen : Z),
    mirror_ok (endz_to_end root) = true -> 0 <= start <= tlen e ->
    find (mirror_env e) fuel (flip (endz_to_end root)) (negb rtl) (tlen e - start) prevlen
    = map_res (option_map (mirror_st e)) (find e fuel root rtl start prevlen).
Proof. exact mirror_find_endz_strict_partial. Qed.
Print Assumptions C15_find_mirror_endz_strict_partial.

(* Why EndZ is excluded otherwise: for every candidate anchor a' there is a text and an in-range
   position where a' on the mirrored side disagrees with EndZ ([mirror_endz_witness a']). *)
Theorem C15_endz_no_mirror_anchor :
  forall a' : anchor,
    let e := fst (mirror_endz_witness a') in let p := snd (mirror_endz_witness a') in
    endz_strict e = false /\ 0 <= p <= tlen e /\
    anchor_ok (mirror_env e) a' (tlen e - p) <> anchor_ok e AEndZ p.
Proof. exact mirror_endz_no_mirror_anchor. Qed.
Print Assumptions C15_endz_no_mirror_anchor.

(* Why recording balancing groups are excluded: (?<a>x)z(?<b-a>y) on "xzy" gives b = (1,1) = "z" (the
   text between the popped capture and the new one), whose mirror image on "yzx" would be (1,1); the
   mirrored search — the RightToLeft pattern (?<b-a>y)z(?<a>x) on "yzx" — records (2,-1).  The real
   engine agrees with the model on both sides (runner.go transferCapture: "else if end <= start2
   { start = start2 }" yields a negative length when the popped capture lies to the right). *)
Theorem C15_balance_example :
  let e := mirror_ex_env [120; 122; 121] 0 false in
  let s := {| pos := 0; caps := [] |} in
  st_ok e s /\
  map_res (map (mirror_st e)) (sem e 10 mirror_ex_balance s)
    = Ok [{| pos := 0; caps := [(1, []); (2, [(1, 1)])] |}] /\
  sem (mirror_env e) 10 (flip mirror_ex_balance) (mirror_st e s)
    = Ok [{| pos := 0; caps := [(1, []); (2, [(1, 1)])] |}].
Proof. exact mirror_balance_example. Qed.
Print Assumptions C15_balance_example.

(* ---- non-vacuity: concrete trees and texts satisfying the hypotheses ---- *)

(* (a+)(b|c) with RightToLeft on "xaabc", search from the end.  Raw result of the right-to-left search:
   group 0 = (1,3) "aab", group 1 = (1,2) "aa", group 2 = (3,1) "b", final position 1.
   The flipped tree is the plain left-to-right tree of (b|c)(a+); on "cbaax" from 0 it finds
   group 0 = (1,3) "baa", group 1 = (2,2), group 2 = (1,1), final position 4 — the mirror image. *)
Example C15_witness_rtl :
  let e := mirror_ex_env [120; 97; 97; 98; 99] 5 false in
  mirror_ok mirror_ex_rtl = true
  /\ flip mirror_ex_rtl =
       NCapture 0 0 (-1)
         (NConcat 0 [NCapture 0 2 (-1) (NAlternate 0 [NChar COne 0 98; NChar COne 0 99]);
                     NCapture 0 1 (-1) (NCharLoop COne LGreedy 0 97 1 INF)])
  /\ txt (mirror_env e) = [99; 98; 97; 97; 120]
  /\ find e 20 mirror_ex_rtl true 5 (-1)
     = Ok (Some {| pos := 1; caps := [(2, [(3, 1)]); (1, [(1, 2)]); (0, [(1, 3)])] |})
  /\ find (mirror_env e) 20 (flip mirror_ex_rtl) false 0 (-1)
     = Ok (Some {| pos := 4; caps := [(2, [(1, 1)]); (1, [(2, 2)]); (0, [(1, 3)])] |})
  /\ mirror_st e {| pos := 1; caps := [(2, [(3, 1)]); (1, [(1, 2)]); (0, [(1, 3)])] |}
     = {| pos := 4; caps := [(2, [(1, 1)]); (1, [(2, 2)]); (0, [(1, 3)])] |}.
Proof. vm_compute. repeat split; reflexivity. Qed.

(* A left-to-right tree mixing a look-behind (Rtl child), a look-ahead with a capture, a back-reference,
   an atomic loop, a conditional, a negative look-ahead and anchors, on "-xaaaaab": it matches
   (2,6) "aaaaab" with group 1 = (2,2); the mirrored right-to-left search on "baaaaax-" from the end
   finds (0,6) with group 1 = (4,2). *)
Example C15_witness_mixed :
  let e := mirror_ex_env [45; 120; 97; 97; 97; 97; 97; 98] 0 false in
  mirror_ok mirror_ex_mixed = true
  /\ find e 40 mirror_ex_mixed false 0 (-1)
     = Ok (Some {| pos := 8; caps := [(1, [(2, 2)]); (0, [(2, 6)])] |})
  /\ find (mirror_env e) 40 (flip mirror_ex_mixed) true 8 (-1)
     = Ok (Some {| pos := 0; caps := [(1, [(4, 2)]); (0, [(0, 6)])] |})
  /\ mirror_st e {| pos := 8; caps := [(1, [(2, 2)]); (0, [(2, 6)])] |}
     = {| pos := 0; caps := [(1, [(4, 2)]); (0, [(0, 6)])] |}.
Proof. vm_compute. repeat split; reflexivity. Qed.

(* EndZ in ECMAScript/RE2 mode: a$ (EndZ) on "ba\n" does not match there (strict), on "ba" it does;
   the mirrored tree uses Beginning. *)
Example C15_witness_endz_strict :
  let t := NCapture 0 0 (-1) (NConcat 0 [NChar COne 0 97; NAnchor AEndZ]) in
  let e := mirror_ex_env [98; 97] 0 true in
  mirror_ok t = false /\ mirror_ok (endz_to_end t) = true
  /\ flip (endz_to_end t) = NCapture 64 0 (-1) (NConcat 64 [NChar COne 64 97; NAnchor ABeginning])
  /\ find e 20 t false 0 (-1) = Ok (Some {| pos := 2; caps := [(0, [(1, 1)])] |})
  /\ find (mirror_env e) 20 (flip (endz_to_end t)) true 2 (-1) = Ok (Some {| pos := 0; caps := [(0, [(0, 1)])] |}).
Proof. vm_compute. repeat split; reflexivity. Qed.
