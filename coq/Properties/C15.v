(* C15 — right-to-left mode is the mirror image of left-to-right.
   This file only states the property theorems; proofs are in Proofs/MirrorProofs.v.

   The theorems are about the reference semantics Model/Spec.v ([sem], [attempt], [find]): every node
   carries its own direction bit, and the tree is the one the writer sees, i.e. the parser has already
   reversed right-to-left concatenations, so list order is evaluation order in both directions.

   Mirror image (n = tlen e):   text rev (txt e);   position p |-> n - p;
   capture (i, len) |-> (n - i - len, len) for every capture of every group, stack order kept
   ([mirror_st]);  environment [mirror_env] (reversed text, tstart |-> n - tstart, same oracles and
   flags);  tree [flip]: Rtl bit of every option word toggled, Beginning<->End, Bol<->Eol, the literal
   of a Multi reversed (it is stored in text order), children lists NOT reordered.

   Fragment [mirror_ok t] (hence the suffix _partial).  Excluded:
     * the anchor EndZ — no anchor of the node language is its mirror image
       (C15_endz_no_mirror_anchor); under RE2/ECMAScript (endz_strict) EndZ = End and is covered
       (C15_*_endz_strict_partial);
     * single-character loops with a negative minimum (a well-formedness condition: the parser never
       produces them; with one the loop could step outside the text).
   Covered: One/Notone/Set, their greedy/lazy/atomic loops, Multi (with IgnoreCase), back-references,
   all other anchors (incl. \G), Concat, Alternate, greedy/lazy/counted Loop, Capture, balancing
   groups (?<g-u>...) and pure pops (?<-u>...), Group, look-ahead and look-behind (positive and
   negative, nested in any way), Atomic, both conditionals, Nothing/Empty/Bump, and any mixture of
   directions inside one tree.
   (History: on the pinned code balancing groups were NOT mirror-symmetric — transferCapture's branch
   "end <= start2" recorded a negative length when the popped capture lay to the right of the text
   just matched, which only happens right-to-left or in look-behind; found by this proof, repaired in
   /repo cd1c469, and [balance_span] follows the repaired code: C15_balance_span_mirror.)

   Side condition [st_ok e s]: 0 <= pos s <= n and every recorded capture (i, len) has
   0 <= i, 0 <= len, i + len <= n.  It is an invariant of the semantics (C15_sem_pos_in_range) and
   holds for the initial state of every attempt. *)
From Verif Require Import Base.Prelude Model.Tree Model.Spec Proofs.MirrorProofs.

(* Main theorem: same result LIST in the same (priority) order, same fuel. *)
Theorem C15_sem_mirror_partial :
  forall (e : env) (fuel : nat) (t : node) (s : st),
    mirror_ok t = true -> st_ok e s ->
    sem (mirror_env e) fuel (flip t) (mirror_st e s) = map_res (map (mirror_st e)) (sem e fuel t s).
Proof. exact mirror_sem_partial. Qed.
Print Assumptions C15_sem_mirror_partial.

(* The semantics only produces in-range states from in-range states. *)
Theorem C15_sem_pos_in_range :
  forall (e : env) (fuel : nat) (t : node) (s : st) (l : list st),
    mirror_ok t = true -> st_ok e s -> sem e fuel t s = Ok l -> Forall (st_ok e) l.
Proof. exact mirror_sem_pos_in_range_list. Qed.
Print Assumptions C15_sem_pos_in_range.

(* One attempt of the whole pattern at position p. *)
Theorem C15_attempt_mirror_partial :
  forall (e : env) (fuel : nat) (root : node) (p : Z),
    mirror_ok root = true -> 0 <= p <= tlen e ->
    attempt (mirror_env e) fuel (flip root) (tlen e - p)
    = map_res (option_map (mirror_st e)) (attempt e fuel root p).
Proof. exact mirror_attempt_partial. Qed.
Print Assumptions C15_attempt_mirror_partial.

(* The scan: attempt positions of the mirrored search are the mirror images, in the same order. *)
Theorem C15_find_mirror_partial :
  forall (e : env) (fuel : nat) (root : node) (rtl : bool) (start prevlen : Z),
    mirror_ok root = true -> 0 <= start <= tlen e ->
    find (mirror_env e) fuel (flip root) (negb rtl) (tlen e - start) prevlen
    = map_res (option_map (mirror_st e)) (find e fuel root rtl start prevlen).
Proof. exact mirror_find_partial. Qed.
Print Assumptions C15_find_mirror_partial.

(* The property statement: a RightToLeft search IS the mirror image of the LeftToRight search of the
   flipped tree over the reversed text (attempt positions descend from [start], captures are reported
   as ordinary (start, length) spans of the original text). *)
Theorem C15_rtl_is_mirrored_ltr_partial :
  forall (e : env) (fuel : nat) (root : node) (start prevlen : Z),
    mirror_ok root = true -> 0 <= start <= tlen e ->
    find e fuel root true start prevlen
    = map_res (option_map (mirror_st (mirror_env e)))
        (find (mirror_env e) fuel (flip root) false (tlen e - start) prevlen).
Proof. exact mirror_rtl_is_mirrored_ltr_partial. Qed.
Print Assumptions C15_rtl_is_mirrored_ltr_partial.

(* Mirroring is an involution on trees, states and environments and preserves the fragment, so each
   theorem above can be read in both directions. *)
Theorem C15_mirror_involution :
  (forall t, flip (flip t) = t) /\ (forall t, mirror_ok (flip t) = mirror_ok t) /\
  (forall e, mirror_env (mirror_env e) = e) /\
  (forall e s, mirror_st (mirror_env e) (mirror_st e s) = s) /\
  (forall e s, st_ok e s -> st_ok (mirror_env e) (mirror_st e s)).
Proof. exact mirror_involution_all. Qed.
Print Assumptions C15_mirror_involution.

(* EndZ under RE2 / ECMAScript: [endz_to_end] rewrites EndZ to End, which does not change the
   semantics there, and End mirrors to Beginning. *)
Theorem C15_sem_mirror_endz_strict_partial :
  forall (e : env), endz_strict e = true ->
  forall (fuel : nat) (t : node) (s : st),
    mirror_ok (endz_to_end t) = true -> st_ok e s ->
    sem (mirror_env e) fuel (flip (endz_to_end t)) (mirror_st e s)
    = map_res (map (mirror_st e)) (sem e fuel t s).
Proof. exact mirror_sem_endz_strict_partial. Qed.
Print Assumptions C15_sem_mirror_endz_strict_partial.

Theorem C15_find_mirror_endz_strict_partial :
  forall (e : env), endz_strict e = true ->
  forall (fuel : nat) (root : node) (rtl : bool) (start prevlen : Z),
    mirror_ok (endz_to_end root) = true -> 0 <= start <= tlen e ->
    find (mirror_env e) fuel (flip (endz_to_end root)) (negb rtl) (tlen e - start) prevlen
    = map_res (option_map (mirror_st e)) (find e fuel root rtl start prevlen).
Proof. exact mirror_find_endz_strict_partial. Qed.
Print Assumptions C15_find_mirror_endz_strict_partial.

(* Why EndZ is excluded otherwise: for every candidate anchor a' there is a text and an in-range
   position where a' on the mirrored side disagrees with EndZ ([mirror_endz_witness a']). *)
Theorem C15_endz_no_mirror_anchor :
  forall a' : anchor,
    let e := fst (mirror_endz_witness a') in let p := snd (mirror_endz_witness a') in
    endz_strict e = false /\ 0 <= p <= tlen e /\
    anchor_ok (mirror_env e) a' (tlen e - p) <> anchor_ok e AEndZ p.
Proof. exact mirror_endz_no_mirror_anchor. Qed.
Print Assumptions C15_endz_no_mirror_anchor.

(* Balancing groups: the interval recorded for (?<g-u>...) — between the popped capture and the text
   just matched when they are disjoint (whichever lies first), their intersection otherwise —
   commutes with mirroring.  This is the lemma behind the NCapture case of the main theorem. *)
Theorem C15_balance_span_mirror :
  forall (e : env) (a b : Z) (u : Z * Z), 0 <= snd u ->
    balance_span (tlen e - a) (tlen e - b) (mirror_span (tlen e) u)
    = mirror_span (tlen e) (balance_span a b u).
Proof. exact mirror_balance_span. Qed.
Print Assumptions C15_balance_span_mirror.

(* ---- non-vacuity: concrete trees and texts satisfying the hypotheses ---- *)

(* (a+)(b|c) with RightToLeft on "xaabc", search from the end.  Raw result of the right-to-left search:
   group 0 = (1,3) "aab", group 1 = (1,2) "aa", group 2 = (3,1) "b", final position 1.
   The flipped tree is the plain left-to-right tree of (b|c)(a+); on "cbaax" from 0 it finds
   group 0 = (1,3) "baa", group 1 = (2,2), group 2 = (1,1), final position 4 — the mirror image. *)
Example C15_witness_rtl :
  let e := mirror_ex_env [120; 97; 97; 98; 99] 5 false in
  mirror_ok mirror_ex_rtl = true
  /\ flip mirror_ex_rtl =
       NCapture 0 0 (-1)
         (NConcat 0 [NCapture 0 2 (-1) (NAlternate 0 [NChar COne 0 98; NChar COne 0 99]);
                     NCapture 0 1 (-1) (NCharLoop COne LGreedy 0 97 1 INF)])
  /\ txt (mirror_env e) = [99; 98; 97; 97; 120]
  /\ find e 20 mirror_ex_rtl true 5 (-1)
     = Ok (Some {| pos := 1; caps := [(2, [(3, 1)]); (1, [(1, 2)]); (0, [(1, 3)])] |})
  /\ find (mirror_env e) 20 (flip mirror_ex_rtl) false 0 (-1)
     = Ok (Some {| pos := 4; caps := [(2, [(1, 1)]); (1, [(2, 2)]); (0, [(1, 3)])] |})
  /\ mirror_st e {| pos := 1; caps := [(2, [(3, 1)]); (1, [(1, 2)]); (0, [(1, 3)])] |}
     = {| pos := 4; caps := [(2, [(1, 1)]); (1, [(2, 2)]); (0, [(1, 3)])] |}.
Proof. vm_compute. repeat split; reflexivity. Qed.

(* A left-to-right tree mixing a look-behind (Rtl child), a look-ahead with a capture, a back-reference,
   an atomic loop, a conditional, a negative look-ahead and anchors, on "-xaaaaab": it matches
   (2,6) "aaaaab" with group 1 = (2,2); the mirrored right-to-left search on "baaaaax-" from the end
   finds (0,6) with group 1 = (4,2). *)
Example C15_witness_mixed :
  let e := mirror_ex_env [45; 120; 97; 97; 97; 97; 97; 98] 0 false in
  mirror_ok mirror_ex_mixed = true
  /\ find e 40 mirror_ex_mixed false 0 (-1)
     = Ok (Some {| pos := 8; caps := [(1, [(2, 2)]); (0, [(2, 6)])] |})
  /\ find (mirror_env e) 40 (flip mirror_ex_mixed) true 8 (-1)
     = Ok (Some {| pos := 0; caps := [(1, [(4, 2)]); (0, [(0, 6)])] |})
  /\ mirror_st e {| pos := 8; caps := [(1, [(2, 2)]); (0, [(2, 6)])] |}
     = {| pos := 0; caps := [(1, [(4, 2)]); (0, [(0, 6)])] |}.
Proof. vm_compute. repeat split; reflexivity. Qed.

(* Balancing group with a gap: (?<a>x)z(?<b-a>y) (a = group 1, b = group 2) on "xzy" pops a = (0,1)
   and records b = (1,1) = "z", the text between; the mirrored search — the RightToLeft pattern
   (?<b-a>y)z(?<a>x) on "yzx" — pops a = (2,1), which lies to the RIGHT of the y just matched, and
   records the mirror image (1,1) = "z" as well. *)
Example C15_witness_balance :
  let e := mirror_ex_env [120; 122; 121] 0 false in
  let s := {| pos := 0; caps := [] |} in
  mirror_ok mirror_ex_balance = true
  /\ txt (mirror_env e) = [121; 122; 120]
  /\ sem e 10 mirror_ex_balance s = Ok [{| pos := 3; caps := [(1, []); (2, [(1, 1)])] |}]
  /\ sem (mirror_env e) 10 (flip mirror_ex_balance) (mirror_st e s)
     = Ok [{| pos := 0; caps := [(1, []); (2, [(1, 1)])] |}]
  /\ mirror_st e {| pos := 3; caps := [(1, []); (2, [(1, 1)])] |}
     = {| pos := 0; caps := [(1, []); (2, [(1, 1)])] |}.
Proof. vm_compute. repeat split; reflexivity. Qed.

(* EndZ in ECMAScript/RE2 mode: a$ (EndZ) on "ba\n" does not match there (strict), on "ba" it does;
   the mirrored tree uses Beginning. *)
Example C15_witness_endz_strict :
  let t := NCapture 0 0 (-1) (NConcat 0 [NChar COne 0 97; NAnchor AEndZ]) in
  let e := mirror_ex_env [98; 97] 0 true in
  mirror_ok t = false /\ mirror_ok (endz_to_end t) = true
  /\ flip (endz_to_end t) = NCapture 64 0 (-1) (NConcat 64 [NChar COne 64 97; NAnchor ABeginning])
  /\ find e 20 t false 0 (-1) = Ok (Some {| pos := 2; caps := [(0, [(1, 1)])] |})
  /\ find (mirror_env e) 20 (flip (endz_to_end t)) true 2 (-1) = Ok (Some {| pos := 0; caps := [(0, [(0, 1)])] |}).
Proof. vm_compute. repeat split; reflexivity. Qed.

(* ================================================================================================
   The INTERPRETER (engine) level, by composition (Proofs/ComposeMirror.v): C15_attempt_mirror_partial o
   C01_compile_correct2_exec_partial on both sides o C01 termination / totality.  No new model.

   Two programs: p compiled (Writer.compile cfg0) from root = NCapture o 0 (-1) body, run on the text of e from
   t0; p' compiled from [flip root], run on the reversed text (mirror_env e) from tlen e - t0.  Whenever both
   execute() calls (VM.exec_at: any stack limits L, L', any interpreter fuels) RETURN a state, the two states are
   mirror images ([cm_mirrored], spelled out in C15_exec_mirror_partial); the same for the two scans VM.vm_find
   (C15_vm_find_mirror_partial).
   Fragment: mirror_ok root (C15) and supported2 root + groups_ok2 for both capsizes (C01) and term_ok root with
   term_fuel e root <= INF (C01 termination).  NOTHING is assumed about [flip root]: flip changes option words,
   anchors and Multi literals only, so supported2 / groups_ok2 / term_ok / term_fuel are invariant
   (C15_flip_preserves_fragments).  capsize is a field of the program, not computed from the tree, so both
   programs carry their own slot-range hypothesis and the capture statement ranges over the common slots.
   ================================================================================================ *)
From Verif Require Import Model.VM Model.Writer Proofs.SpecTermProofs Proofs.CompileBase Proofs.CompileDefs
  Proofs.CompileBalDen Proofs.CompileBalDefs
  Proofs.ComposeMirror.

Theorem C15_flip_preserves_fragments :
  (forall t, supported2 (flip t) = supported2 t) /\
  (forall cs t, groups_ok2 cs t <-> groups_ok2 cs (flip t)) /\
  (forall t, term_ok (flip t) = term_ok t) /\
  (forall e t, term_fuel (mirror_env e) (flip t) = term_fuel e t).
Proof.
  split; [exact cm_flip_supported2|]. split; [exact cm_flip_groups_ok2|].
  split; [exact cm_flip_term_ok|exact cm_flip_term_fuel].
Qed.
Print Assumptions C15_flip_preserves_fragments.

(* The engine-level mirror theorem, one execute() call on each side.  Captures: the array of slot g is read as in
   C08 (CompileBalDen.Den: [ps] = its pairs newest first, balancing markers resolved, [stk] = the stack of live
   captures newest first = the reference semantics' stack); the mirrored side denotes  map (mirror_span n) stk,
   i.e. capture (i, len) |-> (n - i - len, len) position by position in the SAME stack order, exactly
   MirrorProofs.mirror_caps.  The last four conjuncts are what match.go's isMatched / matchIndex / matchLength
   answer on the two sides. *)
Theorem C15_exec_mirror_partial :
  forall (e : env) (p p' : program), 0 <= trackcount p -> 0 <= trackcount p' -> tlen e <= INF ->
  forall L L' vfuel vfuel' o body t0 s s',
  let root := NCapture o 0 (-1) body in
  codes p = fst (compile cfg0 root) -> strings p = snd (compile cfg0 root) ->
  codes p' = fst (compile cfg0 (flip root)) -> strings p' = snd (compile cfg0 (flip root)) ->
  mirror_ok root = true -> supported2 root = true ->
  groups_ok2 (capsize p) root -> groups_ok2 (capsize p') root ->
  term_ok root = true -> Z.of_nat (term_fuel e root) <= INF ->
  0 <= t0 <= tlen e ->
  exec_at e p L vfuel t0 = Ok s ->
  exec_at (mirror_env e) p' L' vfuel' (tlen e - t0) = Ok s' ->
  matched0 s' = matched0 s /\
  (matched0 s = false ->
     mcaps s = repeat [] (Z.to_nat (capsize p)) /\ mcaps s' = repeat [] (Z.to_nat (capsize p'))) /\
  (matched0 s = true ->
     0 <= tp s <= tlen e /\ tp s' = tlen e - tp s /\
     forall g, 0 <= g < capsize p -> g < capsize p' ->
       exists ps ps' stk,
         nth (Z.to_nat g) (mcaps s) [] = flat (rev ps) /\ Den ps stk /\
         nth (Z.to_nat g) (mcaps s') [] = flat (rev ps') /\ Den ps' (map (mirror_span (tlen e)) stk) /\
         (forall i len, In (i, len) stk -> 0 <= i /\ 0 <= len /\ i + len <= tlen e) /\
         vm_is_matched g (mcaps s) = Some (match stk with [] => false | _ => true end) /\
         vm_is_matched g (mcaps s') = Some (match stk with [] => false | _ => true end) /\
         (forall i len rest, stk = (i, len) :: rest ->
            vm_match_index g (mcaps s) = Some i /\ vm_match_length g (mcaps s) = Some len /\
            vm_match_index g (mcaps s') = Some (tlen e - i - len) /\ vm_match_length g (mcaps s') = Some len)).
Proof. exact cm_exec_mirror. Qed.
Print Assumptions C15_exec_mirror_partial.

(* [cm_mirrored e p p' s s'] IS the conclusion above. *)
Theorem C15_mirrored_unfold :
  forall e p p' s s', cm_mirrored e p p' s s' <->
  (matched0 s' = matched0 s /\
   (matched0 s = false ->
      mcaps s = repeat [] (Z.to_nat (capsize p)) /\ mcaps s' = repeat [] (Z.to_nat (capsize p'))) /\
   (matched0 s = true ->
      0 <= tp s <= tlen e /\ tp s' = tlen e - tp s /\
      forall g, 0 <= g < capsize p -> g < capsize p' ->
        exists ps ps' stk,
          nth (Z.to_nat g) (mcaps s) [] = flat (rev ps) /\ Den ps stk /\
          nth (Z.to_nat g) (mcaps s') [] = flat (rev ps') /\ Den ps' (map (mirror_span (tlen e)) stk) /\
          (forall i len, In (i, len) stk -> 0 <= i /\ 0 <= len /\ i + len <= tlen e) /\
          vm_is_matched g (mcaps s) = Some (match stk with [] => false | _ => true end) /\
          vm_is_matched g (mcaps s') = Some (match stk with [] => false | _ => true end) /\
          (forall i len rest, stk = (i, len) :: rest ->
             vm_match_index g (mcaps s) = Some i /\ vm_match_length g (mcaps s) = Some len /\
             vm_match_index g (mcaps s') = Some (tlen e - i - len) /\ vm_match_length g (mcaps s') = Some len))).
Proof. intros e p p' s s'. unfold cm_mirrored. reflexivity. Qed.
Print Assumptions C15_mirrored_unfold.

(* The same with the termination hypotheses (term_ok, term_fuel) replaced by one answering reference attempt. *)
Theorem C15_exec_mirror_given_attempt_partial :
  forall (e : env) (p p' : program), 0 <= trackcount p -> 0 <= trackcount p' -> tlen e <= INF ->
  forall L L' fuel vfuel vfuel' o body t0 r s s',
  let root := NCapture o 0 (-1) body in
  codes p = fst (compile cfg0 root) -> strings p = snd (compile cfg0 root) ->
  codes p' = fst (compile cfg0 (flip root)) -> strings p' = snd (compile cfg0 (flip root)) ->
  mirror_ok root = true -> supported2 root = true ->
  groups_ok2 (capsize p) root -> groups_ok2 (capsize p') root ->
  0 <= t0 <= tlen e -> Z.of_nat fuel <= INF ->
  attempt e fuel root t0 = Ok r ->
  exec_at e p L vfuel t0 = Ok s ->
  exec_at (mirror_env e) p' L' vfuel' (tlen e - t0) = Ok s' ->
  cm_mirrored e p p' s s'.
Proof. exact cm_exec_mirror_given_attempt. Qed.
Print Assumptions C15_exec_mirror_given_attempt_partial.

(* "The captures denoted by the two arrays" does not depend on how the arrays are read: Den is functional and
   flat o rev is injective, so for ANY readings of the two arrays of a common slot the denoted stacks are mirror
   images of each other (both directions), same order, and lie inside the text. *)
Theorem C15_exec_mirror_all_readings :
  forall (e : env) (p p' : program) (s s' : vm), cm_mirrored e p p' s s' -> matched0 s = true ->
  forall g, 0 <= g < capsize p -> g < capsize p' ->
  forall ps stk ps' stk',
    nth (Z.to_nat g) (mcaps s) [] = flat (rev ps) -> Den ps stk ->
    nth (Z.to_nat g) (mcaps s') [] = flat (rev ps') -> Den ps' stk' ->
    stk' = map (mirror_span (tlen e)) stk /\
    stk = map (mirror_span (tlen e)) stk' /\
    (forall i len, In (i, len) stk -> 0 <= i /\ 0 <= len /\ i + len <= tlen e).
Proof. exact cm_exec_mirror_all_readings. Qed.
Print Assumptions C15_exec_mirror_all_readings.

(* With C01's totality: no stack limit on either side and enough interpreter fuel -- BOTH calls return, and the two
   states are mirror images.  Extra hypothesis of C01_exec_total: the runner's trackcount is at least the writer's
   count for each program. *)
Theorem C15_exec_mirror_total_partial :
  forall (e : env) (p p' : program), 0 <= trackcount p -> 0 <= trackcount p' ->
  track_count (codes p) <= trackcount p -> track_count (codes p') <= trackcount p' -> tlen e <= INF ->
  forall o body t0,
  let root := NCapture o 0 (-1) body in
  codes p = fst (compile cfg0 root) -> strings p = snd (compile cfg0 root) ->
  codes p' = fst (compile cfg0 (flip root)) -> strings p' = snd (compile cfg0 (flip root)) ->
  mirror_ok root = true -> supported2 root = true ->
  groups_ok2 (capsize p) root -> groups_ok2 (capsize p') root ->
  term_ok root = true -> Z.of_nat (term_fuel e root) <= INF ->
  0 <= t0 <= tlen e ->
  exists vfuel0 : nat, forall L L' vfuel vfuel', L < 0 -> L' < 0 -> (vfuel0 <= vfuel)%nat -> (vfuel0 <= vfuel')%nat ->
    exists s s', exec_at e p L vfuel t0 = Ok s /\
                 exec_at (mirror_env e) p' L' vfuel' (tlen e - t0) = Ok s' /\
                 cm_mirrored e p p' s s'.
Proof. exact cm_exec_mirror_total. Qed.
Print Assumptions C15_exec_mirror_total_partial.

(* The scan, first over FRESH runners.  [cm_find] is Spec.find with one execute() call (VM.exec_at) in place of
   Spec.attempt: same bump rule, same attempt positions, same stop test.  The scan of p in direction rtl from start
   and the scan of p' in direction (negb rtl) from tlen e - start, when both return, both fail or return
   mirror-image states. *)
Theorem C15_fresh_scan_mirror_partial :
  forall (e : env) (p p' : program), 0 <= trackcount p -> 0 <= trackcount p' -> tlen e <= INF ->
  forall L L' vfuel vfuel' o body,
  let root := NCapture o 0 (-1) body in
  codes p = fst (compile cfg0 root) -> strings p = snd (compile cfg0 root) ->
  codes p' = fst (compile cfg0 (flip root)) -> strings p' = snd (compile cfg0 (flip root)) ->
  mirror_ok root = true -> supported2 root = true ->
  groups_ok2 (capsize p) root -> groups_ok2 (capsize p') root ->
  term_ok root = true -> Z.of_nat (term_fuel e root) <= INF ->
  forall rtl start prevlen x x', 0 <= start <= tlen e ->
  cm_find e p L vfuel rtl start prevlen = Ok x ->
  cm_find (mirror_env e) p' L' vfuel' (negb rtl) (tlen e - start) prevlen = Ok x' ->
  match x, x' with
  | None, None => True
  | Some s, Some s' => cm_mirrored e p p' s s'
  | _, _ => False
  end.
Proof. exact cm_find_mirror. Qed.
Print Assumptions C15_fresh_scan_mirror_partial.

(* The interpreter's own scan VM.vm_find (the hook VerifNaiveScan: every accelerator off, stack capacities carried
   from attempt to attempt), under ANY stack limits and fuels: when the search of p in direction rtl from start and
   the search of p' in direction (negb rtl) from tlen e - start both return, both fail or return mirror-image states.
   (vm_find under a limit returns what vm_find without a limit returns: C13; without a limit it goes through the
   states of the fresh-call scan up to allocated capacities: ComposeMirror.cm_vm_find_fresh.) *)
Theorem C15_vm_find_mirror_partial :
  forall (e : env) (p p' : program), 0 <= trackcount p -> 0 <= trackcount p' ->
  track_count (codes p) <= trackcount p -> track_count (codes p') <= trackcount p' -> tlen e <= INF ->
  forall L L' vfuel vfuel' o body,
  let root := NCapture o 0 (-1) body in
  codes p = fst (compile cfg0 root) -> strings p = snd (compile cfg0 root) ->
  codes p' = fst (compile cfg0 (flip root)) -> strings p' = snd (compile cfg0 (flip root)) ->
  mirror_ok root = true -> supported2 root = true ->
  groups_ok2 (capsize p) root -> groups_ok2 (capsize p') root ->
  term_ok root = true -> Z.of_nat (term_fuel e root) <= INF ->
  forall rtl start prevlen x x', 0 <= start <= tlen e ->
  vm_find e p L vfuel rtl start prevlen = Ok x ->
  vm_find (mirror_env e) p' L' vfuel' (negb rtl) (tlen e - start) prevlen = Ok x' ->
  match x, x' with
  | None, None => True
  | Some s, Some s' => cm_mirrored e p p' s s'
  | _, _ => False
  end.
Proof. exact cm_vm_find_mirror. Qed.
Print Assumptions C15_vm_find_mirror_partial.

(* non-vacuity: (a)(b|c)* on "xabcb" against its flip on "bcbax" -- every hypothesis of
   C15_exec_mirror_total_partial holds, the two interpreter runs from 1 and 4 return group 2 = (2,1) (3,1) (4,1)
   and (2,1) (1,1) (0,1) (oldest first), the runs from 0 and 5 both fail, and the two scans return those states;
   and the balancing group (?<a>x)z(?<b-a>y) on "xzy", whose slot of a carries a balanceMatch marker on both sides. *)
Example C15_witness_exec := cm_demo.
Example C15_witness_exec_balance := cm_demo_balance.
(* vm_find left-to-right under a limit of 200 words against vm_find right-to-left without a limit *)
Example C15_witness_vm_find := cm_demo_vm_find.
