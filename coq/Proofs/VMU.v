(* The interpreter with unbounded stacks: [ustep] is VM.step applied to a state whose stack
   capacities have been re-padded so that no capacity check binds.  It reuses the validated
   VM.step verbatim; the link back to bounded capacities (a concrete step that succeeds is a ustep)
   is Proofs/VMLimitProofs.  compile_correct (Proofs/CompileProofs.v) is stated over [usteps]. *)
From Verif Require Import Base.Prelude Model.Tree Model.Spec Model.VM Gen.RunnerGen.
From Coq Require Import Relations ZifyBool.

Section U.
Variable e : env.
Variable p : program.
Hypothesis tc_nonneg : 0 <= trackcount p.

Definition pad : Z := trackcount p * G_ensure_factor + 16.

Definition mk (pc0 m t : Z) (T S C : list Z) (M : list (list Z)) : vm :=
  {| pc := pc0; mode := m; tp := t; track := T; tcap := 0; stack := S; scap := 0; crawl := C; mcaps := M |}.

Definition repad (s : vm) : vm :=
  {| pc := pc s; mode := mode s; tp := tp s; track := track s; tcap := zlen (track s) + pad;
     stack := stack s; scap := zlen (stack s) + pad; crawl := crawl s; mcaps := mcaps s |}.

Definition norm (s : vm) : vm := mk (pc s) (mode s) (tp s) (track s) (stack s) (crawl s) (mcaps s).

Definition ustep (s : vm) : res outcome :=
  match step e p (-1) (repad s) with
  | Ok (Next s') => Ok (Next (norm s'))
  | Ok (Done s') => Ok (Done (norm s'))
  | r => r
  end.

Definition ustep1 (s s' : vm) : Prop := ustep s = Ok (Next s').
Definition usteps : vm -> vm -> Prop := clos_refl_trans vm ustep1.

Lemma usteps_refl s : usteps s s. Proof. apply rt_refl. Qed.
Lemma usteps_one s s' : ustep1 s s' -> usteps s s'. Proof. apply rt_step. Qed.
Lemma usteps_trans a b c : usteps a b -> usteps b c -> usteps a c. Proof. apply rt_trans. Qed.
Lemma usteps_step a b c : ustep1 a b -> usteps b c -> usteps a c.
Proof. intros H1 H2. eapply rt_trans; [apply rt_step; exact H1 | exact H2]. Qed.


(* ---------- helpers evaluated on re-padded states ---------- *)

Lemma tpush_ok s ws : zlen (track s) + zlen ws <= tcap s -> tpush s ws = Ok (set_track s (ws ++ track s)).
Proof. intros H. unfold tpush. replace (tcap s <? zlen (track s) + zlen ws) with false by lia. reflexivity. Qed.
Lemma spush_ok s ws : zlen (stack s) + zlen ws <= scap s -> spush s ws = Ok (set_stack s (ws ++ stack s)).
Proof. intros H. unfold spush. replace (scap s <? zlen (stack s) + zlen ws) with false by lia. reflexivity. Qed.
Lemma advance_ok s i w : code_at p (pc s + i + 1) = Some w -> advance p s i = Ok (set_pc s (pc s + i + 1) 0).
Proof. intros H. unfold advance. rewrite H. reflexivity. Qed.
Lemma advance_at s i n w : n = pc s + i + 1 -> code_at p n = Some w -> advance p s i = Ok (set_pc s n 0).
Proof. intros -> H. apply (advance_ok s i w H). Qed.
Lemma opnd_at s i a v : a = pc s + i + 1 -> code_at p a = Some v -> opnd p s i = Ok v.
Proof. intros -> H. unfold opnd. rewrite H. reflexivity. Qed.
Lemma ensure_ok s : trackcount p * G_ensure_factor <= scap s - zlen (stack s) ->
  trackcount p * G_ensure_factor <= tcap s - zlen (track s) -> ensure_storage p (-1) s = Ok s.
Proof.
  intros H1 H2. unfold ensure_storage.
  replace (scap s - zlen (stack s) <? trackcount p * G_ensure_factor) with false by lia.
  replace (tcap s - zlen (track s) <? trackcount p * G_ensure_factor) with false by lia. reflexivity.
Qed.
Lemma goto_ok s n w : code_at p n = Some w ->
  trackcount p * G_ensure_factor <= scap s - zlen (stack s) ->
  trackcount p * G_ensure_factor <= tcap s - zlen (track s) -> goto p (-1) s n = Ok (set_pc s n 0).
Proof.
  intros H H1 H2. unfold goto. destruct (n <=? pc s).
  - rewrite ensure_ok by assumption. cbn [bind]. rewrite H. reflexivity.
  - cbn [bind]. rewrite H. reflexivity.
Qed.
(* backtrack on a state whose track is np :: T *)
Lemma backtrack_ok s np T w :
  track s = np :: T -> code_at p (Z.abs np) = Some w ->
  trackcount p * G_ensure_factor <= scap s - zlen (stack s) ->
  trackcount p * G_ensure_factor <= tcap s - zlen T ->
  backtrack p (-1) s = Ok (set_pc (set_track s T) (Z.abs np) (if np <? 0 then Back2Bit else BackBit)).
Proof.
  intros Ht Hc H1 H2. unfold backtrack. rewrite Ht.
  destruct (np <? 0) eqn:E.
  - assert (Ha : Z.abs np = - np) by lia. rewrite Ha in *. rewrite Hc.
    destruct (- np <? pc s); [rewrite ensure_ok by (cbn; assumption)|]; reflexivity.
  - assert (Ha : Z.abs np = np) by lia. rewrite Ha in *. rewrite Hc.
    destruct (np <? pc s); [rewrite ensure_ok by (cbn; assumption)|]; reflexivity.
Qed.

End U.

Lemma zlen_cons {A} (x : A) l : zlen (x :: l) = 1 + zlen l.
Proof. unfold zlen. cbn [length]. lia. Qed.
Lemma zlen_nil {A} : zlen (@nil A) = 0. Proof. reflexivity. Qed.
Lemma zlen_app {A} (a b : list A) : zlen (a ++ b) = zlen a + zlen b.
Proof. unfold zlen. rewrite app_length. lia. Qed.
Lemma zlen_nonneg {A} (l : list A) : 0 <= zlen l. Proof. unfold zlen. lia. Qed.

(* closes the numeric side conditions "enough room after re-padding" *)
Ltac room :=
  cbn [repad mk set_track set_stack set_tp set_pc set_caps pc mode tp track stack crawl mcaps tcap scap app];
  rewrite ?zlen_cons, ?zlen_nil, ?zlen_app; unfold pad, G_ensure_factor;
  repeat match goal with |- context [zlen ?l] => lazymatch goal with H : 0 <= zlen l |- _ => fail | _ => pose proof (zlen_nonneg l) end end;
  lia.
