(* The interpreter with unbounded stacks: [ustep] is VM.step applied to a state whose stack
   capacities have been re-padded so that no capacity check binds.  It reuses the validated
   VM.step verbatim; the link back to bounded capacities (a concrete step that succeeds is a ustep)
   is Proofs/VMLimitProofs.  compile_correct (Proofs/CompileProofs.v) is stated over [usteps]. *)
From Verif Require Import Base.Prelude Model.Tree Model.Spec Model.VM Gen.RunnerGen.
From Coq Require Import Relations ZifyBool.

Section U.
Variable e : env.
Variable p : program.
Hypothesis tc_nonneg : 0 <= trackcount p.

Definition pad : Z := trackcount p * G_ensure_factor + 16.

Definition mk (pc0 m t : Z) (T S C : list Z) (M : list (list Z)) : vm :=
  {| pc := pc0; mode := m; tp := t; track := T; tcap := 0; stack := S; scap := 0; crawl := C; mcaps := M |}.

Definition repad (s : vm) : vm :=
  {| pc := pc s; mode := mode s; tp := tp s; track := track s; tcap := zlen (track s) + pad;
     stack := stack s; scap := zlen (stack s) + pad; crawl := crawl s; mcaps := mcaps s |}.

Definition norm (s : vm) : vm := mk (pc s) (mode s) (tp s) (track s) (stack s) (crawl s) (mcaps s).

Definition ustep (s : vm) : res outcome :=
  match step e p (-1) (repad s) with
  | Ok (Next s') => Ok (Next (norm s'))
  | Ok (Done s') => Ok (Done (norm s'))
  | r => r
  end.

Definition ustep1 (s s' : vm) : Prop := ustep s = Ok (Next s').
Definition usteps : vm -> vm -> Prop := clos_refl_trans vm ustep1.

Lemma usteps_refl s : usteps s s. Proof. apply rt_refl. Qed.
Lemma usteps_one s s' : ustep1 s s' -> usteps s s'. Proof. apply rt_step. Qed.
Lemma usteps_trans a b c : usteps a b -> usteps b c -> usteps a c. Proof. apply rt_trans. Qed.
Lemma usteps_step a b c : ustep1 a b -> usteps b c -> usteps a c.
Proof. intros H1 H2. eapply rt_trans; [apply rt_step; exact H1 | exact H2]. Qed.

End U.
