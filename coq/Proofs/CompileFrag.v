(* Instance coverage of the compile_correct theorems: DECIDABLE versions of their structural hypotheses
   (root shape, supported / supported2, slot conditions, slot-map conditions, quick-program conditions),
   computed by the model leg 0104 (Extract/Drv01.v) on every real tree of the c01-writer corpus
   (harness leg c01-frag), and their soundness: a program whose flags are true IS inside the theorem. *)
From Verif Require Import Base.Prelude Model.Tree Model.Spec Model.VM Model.Writer
  Proofs.SpecBoundsProofs Proofs.MaskProofs Proofs.EraseProofs Proofs.CompileDefs
  Proofs.CompileBalDefs Proofs.CompileCapmap.
From Coq Require Import ZifyBool.

(* a boolean predicate at every node *)
Fixpoint sb_allb (P : node -> bool) (t : node) : bool :=
  P t &&
  match t with
  | NConcat _ l | NAlternate _ l =>
      (fix go (l : list node) : bool := match l with [] => true | x :: l' => sb_allb P x && go l' end) l
  | NLoop _ _ _ _ r | NCapture _ _ _ r | NGroup r | NPosLook _ r | NNegLook _ r | NAtomic r => sb_allb P r
  | NBackRefCond _ _ y no => sb_allb P y && match no with Some n => sb_allb P n | None => true end
  | NExprCond _ c y no => sb_allb P c && sb_allb P y && match no with Some n => sb_allb P n | None => true end
  | _ => true
  end.

Lemma sb_allb_sound (P : node -> bool) (Q : node -> Prop) : (forall t, P t = true -> Q t) ->
  forall t, sb_allb P t = true -> sb_all Q t.
Proof.
  intros HPQ.
  induction t as [kd o ch|kd lk o ch m n|o str|o g|an| | | |o l HF|o l HF|lazy o m n r IHr|o g u r IHr
                 |r IHr|o r IHr|o r IHr|r IHr|o g yes no IHy IHn|o cnd yes no IHc IHy IHn]
    using node_ind'; cbn [sb_allb sb_all]; intros H; apply andb_prop in H; destruct H as [H0 H];
    (split; [apply HPQ; exact H0|]); try exact I; try (apply IHr; exact H).
  - clear H0. induction HF as [|x l Hx HF IH]; [exact I|]. apply andb_prop in H. destruct H as [H1 H2]. split; [apply Hx; exact H1|apply IH; exact H2].
  - clear H0. induction HF as [|x l Hx HF IH]; [exact I|]. apply andb_prop in H. destruct H as [H1 H2]. split; [apply Hx; exact H1|apply IH; exact H2].
  - apply andb_prop in H. destruct H as [H1 H2]. split; [apply IHy; exact H1|].
    destruct no as [x|]; cbn [opt_all] in *; [apply IHn; exact H2|exact I].
  - apply andb_prop in H. destruct H as [H1 H2]. apply andb_prop in H1. destruct H1 as [H1 H3].
    split; [apply IHc; exact H1|]. split; [apply IHy; exact H3|].
    destruct no as [x|]; cbn [opt_all] in *; [apply IHn; exact H2|exact I].
Qed.

Definition in_slots (cs g : Z) : bool := (0 <=? g) && (g <? cs).

Definition grp_ok_node2b (cs : Z) (t : node) : bool :=
  match t with
  | NCapture _ g u _ => if u =? -1 then in_slots cs g else in_slots cs u && ((g =? -1) || in_slots cs g)
  | NRef _ g => in_slots cs g
  | NBackRefCond _ g _ _ => in_slots cs g
  | _ => true
  end.
Definition groups_ok2b (cs : Z) (t : node) : bool := sb_allb (grp_ok_node2b cs) t.

Lemma groups_ok2b_sound cs t : groups_ok2b cs t = true -> groups_ok2 cs t.
Proof.
  apply sb_allb_sound. intros n H. unfold in_slots in *.
  destruct n as [kd o ch|kd lk o ch m n0|o str|o g|an| | | |o l|o l|lazy o m n0 r|o g u r|r|o r|o r|r|o g yes no|o cnd yes no]; cbn [grp_ok_node2b grp_ok_node2] in *; unfold in_slots in *; try exact I; try lia.
  destruct (u =? -1); [lia|]. apply andb_prop in H. destruct H as [H1 H2]. split; [lia|].
  apply orb_prop in H2. destruct H2 as [H2|H2]; [left; lia|right; lia].
Qed.

Definition grp_ok_nodeb (cs : Z) (t : node) : bool :=
  match t with
  | NCapture _ g _ _ => in_slots cs g
  | NRef _ g => in_slots cs g
  | NBackRefCond _ g _ _ => in_slots cs g
  | _ => true
  end.
Definition groups_okb (cs : Z) (t : node) : bool := sb_allb (grp_ok_nodeb cs) t.
Lemma groups_okb_sound cs t : groups_okb cs t = true -> groups_ok cs t.
Proof.
  apply sb_allb_sound. intros n H. unfold in_slots in *. destruct n as [kd o ch|kd lk o ch m n0|o str|o g|an| | | |o l|o l|lazy o m n0 r|o g u r|r|o r|o r|r|o g yes no|o cnd yes no]; cbn [grp_ok_nodeb grp_ok_node] in *; unfold in_slots in *; try exact I; lia.
Qed.

Definition cm_Gb (cm : option (list (Z * Z))) (g : Z) : bool :=
  match cm with None => true | Some m => zmem g (map fst m) end.
Lemma cm_Gb_sound cm g : cm_Gb cm g = true -> cm_G cm g.
Proof. destruct cm as [m|]; cbn [cm_Gb cm_G]; [apply cm_zmem_in|intros _; exact I]. Qed.

Definition ren_ok_nodeb (cm : option (list (Z * Z))) (t : node) : bool :=
  match t with
  | NCapture _ g u _ => if u =? -1 then cm_Gb cm g else cm_Gb cm u && ((g =? -1) || cm_Gb cm g)
  | NRef _ g => cm_Gb cm g
  | NBackRefCond _ g _ _ => cm_Gb cm g
  | _ => true
  end.
Definition ren_okb (cm : option (list (Z * Z))) (t : node) : bool := sb_allb (ren_ok_nodeb cm) t.
Lemma ren_okb_sound cm t : ren_okb cm t = true -> ren_ok (cm_G cm) t.
Proof.
  apply sb_allb_sound. intros n H.
  destruct n as [kd o ch|kd lk o ch m n0|o str|o g|an| | | |o l|o l|lazy o m n0 r|o g u r|r|o r|o r|r|o g yes no|o cnd yes no]; cbn [ren_ok_nodeb ren_ok_node] in *; try exact I; try (apply cm_Gb_sound; exact H).
  destruct (u =? -1); [apply cm_Gb_sound; exact H|]. apply andb_prop in H. destruct H as [H1 H2].
  split; [apply cm_Gb_sound; exact H1|]. apply orb_prop in H2. destruct H2 as [H2|H2]; [left; lia|right; apply cm_Gb_sound; exact H2].
Qed.

Definition root_shape (t : node) : bool :=
  match t with NCapture _ g u _ => (g =? 0) && (u =? -1) | _ => false end.
Lemma root_shape_sound t : root_shape t = true -> exists o body, t = NCapture o 0 (-1) body.
Proof.
  destruct t as [kd o ch|kd lk o ch m n0|o str|o g|an| | | |o l|o l|lazy o m n0 r|o g u r|r|o r|o r|r|o g yes no|o cnd yes no]; cbn [root_shape]; try discriminate. intros H. apply andb_prop in H. destruct H as [H1 H2].
  assert (g = 0) by lia. assert (u = -1) by lia. subst. eexists _, _. reflexivity.
Qed.

Definition has_balancing (t : node) : bool :=
  negb (sb_allb (fun n => match n with NCapture _ _ u _ => u =? -1 | _ => true end) t).

(* every group number a tree mentions *)
Fixpoint tree_groups (t : node) : list Z :=
  match t with
  | NRef _ g => [g]
  | NConcat _ l | NAlternate _ l => flat_map tree_groups l
  | NLoop _ _ _ _ r | NGroup r | NPosLook _ r | NNegLook _ r | NAtomic r => tree_groups r
  | NCapture _ g u r => g :: u :: tree_groups r
  | NBackRefCond _ g y no => g :: tree_groups y ++ match no with Some n => tree_groups n | None => [] end
  | NExprCond _ c y no => tree_groups c ++ tree_groups y ++ match no with Some n => tree_groups n | None => [] end
  | _ => []
  end.

Lemma reads_in_groups g : forall t, reads g t = true -> In g (tree_groups t).
Proof.
  induction t as [kd o ch|kd lk o ch m n|o str|o g'|an| | | |o l HF|o l HF|lazy o m n r IHr|o g' u r IHr
                 |r IHr|o r IHr|o r IHr|r IHr|o g' yes no IHy IHn|o cnd yes no IHc IHy IHn]
    using node_ind'; cbn [reads tree_groups]; intros H; try discriminate; try (apply IHr; exact H).
  - left. lia.
  - apply existsb_exists in H. destruct H as (x & Hin & Hx). apply in_flat_map. exists x. split; [exact Hin|].
    rewrite Forall_forall in HF. apply HF; assumption.
  - apply existsb_exists in H. destruct H as (x & Hin & Hx). apply in_flat_map. exists x. split; [exact Hin|].
    rewrite Forall_forall in HF. apply HF; assumption.
  - apply orb_prop in H. destruct H as [H|H].
    + apply andb_prop in H. destruct H as [_ H]. right. left. lia.
    + right. right. apply IHr. exact H.
  - apply orb_prop in H. destruct H as [H|H]; [apply orb_prop in H; destruct H as [H|H]|].
    + left. lia.
    + right. apply in_or_app. left. apply IHy. exact H.
    + right. apply in_or_app. right. destruct no as [x|]; cbn [opt_b opt_all] in *; [apply IHn; exact H|discriminate].
  - apply orb_prop in H. destruct H as [H|H]; [apply orb_prop in H; destruct H as [H|H]|].
    + apply in_or_app. left. apply IHc. exact H.
    + apply in_or_app. right. apply in_or_app. left. apply IHy. exact H.
    + apply in_or_app. right. apply in_or_app. right.
      destruct no as [x|]; cbn [opt_b opt_all] in *; [apply IHn; exact H|discriminate].
Qed.

Definition reads_okb (cm : option (list (Z * Z))) (t : node) : bool :=
  forallb (fun g => negb (reads g t) || (0 <=? map_capnum {| capmap := cm; quick := None |} g)) (tree_groups t).
Lemma reads_okb_sound cm t : reads_okb cm t = true ->
  forall g, reads g t = true -> 0 <= map_capnum {| capmap := cm; quick := None |} g.
Proof.
  intros H g Hr. unfold reads_okb in H. rewrite forallb_forall in H.
  specialize (H g (reads_in_groups g t Hr)). rewrite Hr in H. cbn [negb orb] in H. lia.
Qed.

(* ---------- the flags of model leg 0104 ---------- *)
Definition frag_flags (cm : option (list (Z * Z))) (cs : Z) (t : node) : list bool :=
  let c := {| capmap := cm; quick := None |} in
  [ root_shape t;                                  (* 0 *)
    supported t;                                   (* 1 *)
    supported2 t;                                  (* 2 *)
    match cm with None => true | Some _ => false end; (* 3: dense *)
    cm_good cm;                                    (* 4 *)
    map_capnum c 0 =? 0;                           (* 5 *)
    ren_okb cm t;                                  (* 6 *)
    groups_ok2b cs (ren c t);                      (* 7 *)
    reads_okb cm t;                                (* 8 *)
    match write_quick cm cs t with Some _ => true | None => false end; (* 9 *)
    has_balancing t;                               (* 10 *)
    groups_okb cs t ].                             (* 11 *)

(* in the fragment of C01_compile_correct_exec_partial (supported, dense) *)
Definition in_thm1 (cm : option (list (Z * Z))) (cs : Z) (t : node) : bool :=
  root_shape t && supported t && match cm with None => true | Some _ => false end && groups_okb cs t.
(* ... of C01_compile_correct2_exec_partial (supported2, dense) *)
Definition in_thm2 (cm : option (list (Z * Z))) (cs : Z) (t : node) : bool :=
  root_shape t && supported2 t && match cm with None => true | Some _ => false end && groups_ok2b cs t.
(* ... of C01_compile_correct_capmap_exec_partial (any slot map) *)
Definition in_thm3 (cm : option (list (Z * Z))) (cs : Z) (t : node) : bool :=
  let c := {| capmap := cm; quick := None |} in
  root_shape t && supported2 t && cm_good cm && (map_capnum c 0 =? 0) && ren_okb cm t && groups_ok2b cs (ren c t).
(* ... of C01_compile_correct_write_quick_exec_partial (the quick program, when there is one) *)
Definition in_thm4 (cm : option (list (Z * Z))) (cs : Z) (t : node) : bool :=
  in_thm3 cm cs t && reads_okb cm t && match write_quick cm cs t with Some _ => true | None => false end.

Theorem in_thm1_sound cs t : in_thm1 None cs t = true ->
  exists o body, t = NCapture o 0 (-1) body /\ supported t = true /\ groups_ok cs t.
Proof.
  unfold in_thm1. intros H. repeat (apply andb_prop in H; destruct H as [H ?]).
  destruct (root_shape_sound t H) as (o & body & ->). exists o, body.
  split; [reflexivity|]. split; [assumption|apply groups_okb_sound; assumption].
Qed.

Theorem in_thm3_sound cm cs t : in_thm3 cm cs t = true ->
  let c := {| capmap := cm; quick := None |} in
  exists o body, t = NCapture o 0 (-1) body /\ supported2 t = true /\ cm_good cm = true /\ map_capnum c 0 = 0 /\
                 ren_ok (cm_G cm) t /\ groups_ok2 cs (ren c t).
Proof.
  unfold in_thm3. cbv zeta. intros H. repeat (apply andb_prop in H; destruct H as [H ?]).
  destruct (root_shape_sound t H) as (o & body & ->). exists o, body.
  split; [reflexivity|]. split; [assumption|]. split; [assumption|]. split; [lia|].
  split; [apply ren_okb_sound; assumption|apply groups_ok2b_sound; assumption].
Qed.

Theorem in_thm4_sound cm cs t : in_thm4 cm cs t = true ->
  in_thm3 cm cs t = true /\
  (forall g, reads g t = true -> 0 <= map_capnum {| capmap := cm; quick := None |} g) /\
  exists prog, write_quick cm cs t = Some prog.
Proof.
  unfold in_thm4. intros H. apply andb_prop in H. destruct H as [H H3]. apply andb_prop in H. destruct H as [H1 H2].
  split; [exact H1|]. split; [apply reads_okb_sound; exact H2|].
  destruct (write_quick cm cs t) as [q|]; [exists q; reflexivity|discriminate].
Qed.

Print Assumptions in_thm3_sound.
