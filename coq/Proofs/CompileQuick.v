(* compile_correct for the QUICK program (writer with quickCaptureSlots, the program IsMatch-style entry
   points run): captures of slots that nothing reads are not emitted.

   Method: composition, no new interpreter proof.
     C02 (Proofs/EraseProofs.v)   compile {| capmap := cm; quick := Some q |} t
                                    = compile {| capmap := cm; quick := None |} (erase keep t)
                                  and the reference search on (erase keep t) agrees with the one on t in
                                  position and in every KEPT group, when no erased group is read (unobs);
     step 2 (Proofs/CompileCapmap.v) the full program of (erase keep t) under the slot map cm is correct.
   Hence: whenever the interpreter returns from the quick program it is at the final Stop, at the position of
   Spec.attempt on the ORIGINAL tree, and the slot of every kept group -- group 0 in particular -- denotes that
   group's reference capture stack; when Spec.attempt fails, group 0 is unset.

   Side conditions beyond step 2's: keep 0 = true and unobs keep root.  Both are theorems of C02 for the q that
   syntax.Write really uses (q = captureSlotsInUse of the full program): compile_correct_write_quick_exec_partial. *)
From Verif Require Import Base.Prelude Model.Tree Model.Spec Model.VM Model.Writer Gen.RunnerGen
  Proofs.SpecProofs Proofs.SpecBoundsProofs Proofs.MaskProofs Proofs.EraseProofs Proofs.EraseLinkProofs
  Proofs.VMU Proofs.VMUOps2 Proofs.CompileBase Proofs.CompileDefs Proofs.CompileProofs
  Proofs.CompileBalDen Proofs.CompileBalBase Proofs.CompileBalDefs Proofs.CompileBalCapture Proofs.CompileBal
  Proofs.CompileCapmap.
From Coq Require Import Relations ZifyBool.

(* ---------- erasing captures keeps the side conditions ---------- *)
Lemma cq_supported2_list keep l : Forall (fun t => supported2 (erase keep t) = supported2 t) l ->
  supported2_list (map (erase keep) l) = supported2_list l.
Proof.
  induction 1 as [|x l Hx HF IH]; [reflexivity|]. cbn [map].
  change (supported2_list (erase keep x :: map (erase keep) l))
    with (supported2 (erase keep x) && supported2_list (map (erase keep) l)).
  change (supported2_list (x :: l)) with (supported2 x && supported2_list l).
  rewrite Hx, IH. reflexivity.
Qed.

Lemma cq_supported2_erase keep : forall t, supported2 (erase keep t) = supported2 t.
Proof.
  induction t as [kd o ch|kd lk o ch m n|o str|o g|an| | | |o l HF|o l HF|lazy o m n r IHr|o g u r IHr
                 |r IHr|o r IHr|o r IHr|r IHr|o g yes no IHy IHn|o cnd yes no IHc IHy IHn]
    using node_ind'; cbn [erase supported2]; try reflexivity; try assumption.
  - exact (cq_supported2_list keep l HF).
  - replace (match map (erase keep) l with [] => false | _ => true end) with (match l with [] => false | _ => true end)
      by (destruct l; reflexivity).
    f_equal. exact (cq_supported2_list keep l HF).
  - rewrite IHr. reflexivity.
  - destruct ((u =? -1) && negb (keep g)); cbn [supported2]; exact IHr.
  - rewrite IHy. destruct no as [x|]; cbn [mask_opt_node opt_all] in *; [rewrite IHn|]; reflexivity.
  - rewrite IHc, IHy. destruct no as [x|]; cbn [mask_opt_node opt_all] in *; [rewrite IHn|]; reflexivity.
Qed.

Lemma cq_sb_all_list P (f : node -> node) l :
  Forall (fun t => sb_all P t -> sb_all P (f t)) l -> sb_all_list P l -> sb_all_list P (map f l).
Proof.
  induction 1 as [|x l Hx HF IH]; intros H; [exact I|].
  destruct H as [H1 H2]. split; [exact (Hx H1)|exact (IH H2)].
Qed.

Lemma cq_ren_ok_erase G keep : forall t, ren_ok G t -> ren_ok G (erase keep t).
Proof.
  unfold ren_ok.
  induction t as [kd o ch|kd lk o ch m n|o str|o g|an| | | |o l HF|o l HF|lazy o m n r IHr|o g u r IHr
                 |r IHr|o r IHr|o r IHr|r IHr|o g yes no IHy IHn|o cnd yes no IHc IHy IHn]
    using node_ind'; cbn [erase]; intros H; try exact H.
  - destruct H as [H0 H]. split; [exact I|]. exact (cq_sb_all_list _ _ l HF H).
  - destruct H as [H0 H]. split; [exact I|]. exact (cq_sb_all_list _ _ l HF H).
  - destruct H as [H0 H]. split; [exact I|]. exact (IHr H).
  - destruct H as [H0 H]. destruct ((u =? -1) && negb (keep g)).
    + split; [exact I|]. exact (IHr H).
    + split; [exact H0|]. exact (IHr H).
  - destruct H as [H0 H]. split; [exact I|]. exact (IHr H).
  - destruct H as [H0 H]. split; [exact I|]. exact (IHr H).
  - destruct H as [H0 H]. split; [exact I|]. exact (IHr H).
  - destruct H as [H0 H]. split; [exact I|]. exact (IHr H).
  - destruct H as [H0 [Hy Hn]]. split; [exact H0|]. split; [exact (IHy Hy)|].
    destruct no as [x|]; cbn [mask_opt_node opt_all] in *; [exact (IHn Hn)|exact I].
  - destruct H as [H0 [Hc [Hy Hn]]]. split; [exact I|]. split; [exact (IHc Hc)|]. split; [exact (IHy Hy)|].
    destruct no as [x|]; cbn [mask_opt_node opt_all] in *; [exact (IHn Hn)|exact I].
Qed.

Lemma cq_groups_ok_erase cs mc keep : forall t,
  groups_ok2 cs (ren_with mc t) -> groups_ok2 cs (ren_with mc (erase keep t)).
Proof.
  unfold groups_ok2.
  induction t as [kd o ch|kd lk o ch m n|o str|o g|an| | | |o l HF|o l HF|lazy o m n r IHr|o g u r IHr
                 |r IHr|o r IHr|o r IHr|r IHr|o g yes no IHy IHn|o cnd yes no IHc IHy IHn]
    using node_ind'; cbn [erase ren_with]; intros H; try exact H.
  - destruct H as [H0 H]. split; [exact I|]. rewrite map_map.
    change (sb_all_list (grp_ok_node2 cs) (map (fun x => ren_with mc (erase keep x)) l)).
    change (sb_all_list (grp_ok_node2 cs) (map (ren_with mc) l)) in H.
    clear H0. induction HF as [|x l Hx HF IH]; [exact I|]. destruct H as [H1 H2]. split; [exact (Hx H1)|exact (IH H2)].
  - destruct H as [H0 H]. split; [exact I|]. rewrite map_map.
    change (sb_all_list (grp_ok_node2 cs) (map (fun x => ren_with mc (erase keep x)) l)).
    change (sb_all_list (grp_ok_node2 cs) (map (ren_with mc) l)) in H.
    clear H0. induction HF as [|x l Hx HF IH]; [exact I|]. destruct H as [H1 H2]. split; [exact (Hx H1)|exact (IH H2)].
  - destruct H as [H0 H]. split; [exact I|]. exact (IHr H).
  - destruct H as [H0 H]. destruct ((u =? -1) && negb (keep g)); cbn [ren_with].
    + split; [exact I|]. exact (IHr H).
    + split; [exact H0|]. exact (IHr H).
  - destruct H as [H0 H]. split; [exact I|]. exact (IHr H).
  - destruct H as [H0 H]. split; [exact I|]. exact (IHr H).
  - destruct H as [H0 H]. split; [exact I|]. exact (IHr H).
  - destruct H as [H0 H]. split; [exact I|]. exact (IHr H).
  - destruct H as [H0 [Hy Hn]]. split; [exact H0|]. split; [exact (IHy Hy)|].
    destruct no as [x|]; cbn [mask_opt_node opt_all] in *; [exact (IHn Hn)|exact I].
  - destruct H as [H0 [Hc [Hy Hn]]]. split; [exact I|]. split; [exact (IHc Hc)|]. split; [exact (IHy Hy)|].
    destruct no as [x|]; cbn [mask_opt_node opt_all] in *; [exact (IHn Hn)|exact I].
Qed.

Lemma cq_capmap_ok cm : cm_good cm = true -> capmap_ok cm.
Proof.
  destruct cm as [m|]; cbn [cm_good capmap_ok]; [|intros _; exact I].
  intros H. apply andb_prop in H. destruct H as [_ Hm1].
  apply Forall_forall. intros kv Hin E. apply (in_map snd) in Hin. rewrite E in Hin.
  apply cm_zmem_in in Hin. rewrite Hin in Hm1. discriminate.
Qed.

(* ---------- the quick program ---------- *)
Section Top.
Variable e : env.
Variable p : program.
Variable cm : option (list (Z * Z)).
Variable q : list bool.
Notation cq := (quick_cfg cm q).
Notation cf := (full_cfg cm).
Notation keep := (quick_keep cm q).

(* the slot of every KEPT group denotes that group's reference capture stack *)
Definition caps_rel_quick (cp : caps_t) (M : list (list Z)) : Prop :=
  zlen M = capsize p /\
  forall g, keep g = true -> cm_G cm g -> 0 <= map_capnum cf g < capsize p ->
    exists ps, nth (Z.to_nat (map_capnum cf g)) M [] = flat (rev ps) /\ Den ps (cap_get g cp).

Theorem compile_correct_quick_exec_partial :
  0 <= trackcount p -> tlen e <= INF ->
  forall L fuel vfuel o body t0 r s',
  let root := NCapture o 0 (-1) body in
  let M0 := repeat [] (Z.to_nat (capsize p)) in
  let stop := 2 + csize cq root in
  codes p = fst (compile cq root) -> strings p = snd (compile cq root) ->
  supported2 root = true -> cm_good cm = true -> map_capnum cf 0 = 0 ->
  keep 0 = true -> unobs keep root ->
  ren_ok (cm_G cm) root -> groups_ok2 (capsize p) (ren cf root) ->
  0 <= t0 <= tlen e -> Z.of_nat fuel <= INF ->
  attempt e fuel root t0 = Ok r ->
  exec_at e p L vfuel t0 = Ok s' ->
  pc s' = stop /\ mode s' = 0 /\
  match r with
  | Some q0 => tp s' = pos q0 /\ caps_rel_quick (caps q0) (mcaps s') /\ matched0 s' = true
  | None => mcaps s' = M0 /\ matched0 s' = false
  end.
Proof.
  intros Htc Htl L fuel vfuel o body t0 r s' root M0 stop Hcodes Hstr Hs Hgood H0 Hk0 Hun Hok Hg Ht0 Hf Hatt Hex.
  pose proof (cq_capmap_ok cm Hgood) as Hcok.
  pose proof (er_capmap_ok_bal_ok cm Hcok root) as Hbal.
  assert (Her : erase keep root = NCapture o 0 (-1) (erase keep body)).
  { unfold root. cbn [erase]. rewrite Hk0. reflexivity. }
  pose proof (erase_attempt e keep fuel root t0 Hun) as Hsim. rewrite Hatt in Hsim.
  destruct (attempt e fuel (erase keep root) t0) as [r'| | |] eqn:Hatt'; cbn [rrel] in Hsim; try contradiction.
  rewrite Her in Hatt'.
  rewrite (erase_compile cm q root Hbal), Her in Hcodes, Hstr.
  assert (Hs' : supported2 (NCapture o 0 (-1) (erase keep body)) = true).
  { rewrite <- Her, cq_supported2_erase. exact Hs. }
  assert (Hok' : ren_ok (cm_G cm) (NCapture o 0 (-1) (erase keep body))).
  { rewrite <- Her. apply cq_ren_ok_erase. exact Hok. }
  assert (Hg' : groups_ok2 (capsize p) (ren cf (NCapture o 0 (-1) (erase keep body)))).
  { rewrite <- Her. unfold ren. apply cq_groups_ok_erase. exact Hg. }
  destruct (compile_correct_capmap_exec_partial e p cm Htc Htl L fuel vfuel o (erase keep body) t0 r' s'
              Hcodes Hstr Hs' Hgood H0 Hok' Hg' Ht0 Hf Hatt' Hex) as (Hpc & Hmd & Hres).
  split. { unfold stop. rewrite (erase_csize cm q root Hbal), Her. exact Hpc. }
  split; [exact Hmd|].
  destruct r as [q0|], r' as [q'|]; cbn [opt_agree] in Hsim; try contradiction.
  - destruct Hres as (Htp & Hcr & Hm0). destruct Hsim as [Hpq Hcq].
    split; [congruence|]. split; [|exact Hm0].
    destruct Hcr as [Hl Hc]. split; [exact Hl|].
    intros g Hkg HG Hslot. destruct (Hc g HG Hslot) as (ps & Ea & Hd). exists ps. split; [exact Ea|].
    rewrite (Hcq g Hkg). exact Hd.
  - exact Hres.
Qed.

End Top.

Print Assumptions compile_correct_quick_exec_partial.

(* ... for the quick program syntax.Write really produces: q = captureSlotsInUse of the full program.
   keep 0 and unobs are then theorems (EraseLinkProofs.quick_keep_slot0 / quick_keep_unobs). *)
Theorem compile_correct_write_quick_exec_partial :
  forall (e : env) (p : program) cm csz, 0 <= trackcount p -> tlen e <= INF ->
  forall L fuel vfuel o body t0 r s' prog,
  let root := NCapture o 0 (-1) body in
  let qv := slots_in_use (fst (write_full cm root)) csz in
  let M0 := repeat [] (Z.to_nat (capsize p)) in
  write_quick cm csz root = Some prog ->
  codes p = prog -> strings p = snd (compile (quick_cfg cm qv) root) ->
  supported2 root = true -> cm_good cm = true -> map_capnum (full_cfg cm) 0 = 0 ->
  (forall g, reads g root = true -> 0 <= map_capnum (full_cfg cm) g) ->
  ren_ok (cm_G cm) root -> groups_ok2 (capsize p) (ren (full_cfg cm) root) ->
  0 <= t0 <= tlen e -> Z.of_nat fuel <= INF ->
  attempt e fuel root t0 = Ok r ->
  exec_at e p L vfuel t0 = Ok s' ->
  pc s' = 2 + csize (quick_cfg cm qv) root /\ mode s' = 0 /\
  match r with
  | Some q0 => tp s' = pos q0 /\ caps_rel_quick p cm qv (caps q0) (mcaps s') /\ matched0 s' = true
  | None => mcaps s' = M0 /\ matched0 s' = false
  end.
Proof.
  intros e p cm csz Htc Htl L fuel vfuel o body t0 r s' prog root qv M0 Hw Hcodes Hstr Hs Hgood H0 Hpos Hok Hg Ht0 Hf Hatt Hex.
  pose proof (er_capmap_ok_bal_ok cm (cq_capmap_ok cm Hgood) root) as Hbal.
  assert (Hprog : prog = fst (compile (quick_cfg cm qv) root)).
  { unfold write_quick in Hw. cbv zeta in Hw. destruct (existsb negb _); [|discriminate Hw].
    injection Hw as Hw. symmetry. exact Hw. }
  apply (compile_correct_quick_exec_partial e p cm qv Htc Htl L fuel vfuel o body t0 r s'); try assumption.
  - rewrite Hcodes. exact Hprog.
  - apply (quick_keep_slot0 cm csz root 0 Hbal H0).
  - apply (quick_keep_unobs cm csz root Hbal Hpos).
Qed.

Print Assumptions compile_correct_write_quick_exec_partial.

(* ---------- a concrete instance: (a)(b)\1 on "aba" -- slot 2 is unobservable and not captured ---------- *)
Example cquick_demo :
  let root := NCapture 0 0 (-1) (NConcat 0 [NCapture 0 1 (-1) (NChar COne 0 97); NCapture 0 2 (-1) (NChar COne 0 98); NRef 0 1]) in
  let qv := slots_in_use (fst (write_full None root)) 3 in
  let e := cc_demo_env2 [97; 98; 97] in
  qv = [true; true; false] /\
  (exists prog, write_quick None 3 root = Some prog /\
     let p := {| codes := prog; strings := snd (compile (quick_cfg None qv) root);
                 trackcount := track_count prog; capsize := 3 |} in
     attempt e 20 root 0 = Ok (Some {| pos := 3; caps := [(1, [(0, 1)]); (2, [(1, 1)]); (0, [(0, 3)])] |}) /\
     exists s', exec_at e p (-1) 5 0 = Ok s' /\ tp s' = 3 /\ mcaps s' = [[0; 3]; [0; 1]; []]).
Proof.
  cbv zeta. split; [vm_compute; reflexivity|]. eexists. split; [vm_compute; reflexivity|].
  split; [vm_compute; reflexivity|]. eexists. split; [vm_compute; reflexivity|]. split; reflexivity.
Qed.
