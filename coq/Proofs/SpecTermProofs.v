(* Termination of the reference search Model/Spec.v: enough fuel always exists.

   [sem e fuel t s] spends its fuel on DEPTH only (every recursive call gets fuel-1; a loop spends one
   unit per iteration), so the fuel a tree needs is  depth + (iterations of its longest-running loop).

   A.  [tm_dir_ok d t]  every consuming node of t outside lookarounds / conditions runs in direction d
       [term_ok t]      the body of every NLoop of t (lookarounds included) is tm_dir_ok for ONE d, and
                        single-character loops have a non-negative minimum.
       Under term_ok a loop body never moves against its direction, the empty-iteration rule of
       [iter] stops the loop at the first iteration (past the minimum) that does not move, and so a
       loop runs at most  minimum + tlen + 2  iterations:
         term_fuel e t   = 1 + max over the children, loops add  Z.to_nat m + tlen e + 2
         spec_sem_total  : term_ok t -> st_ok e s -> term_fuel e t <= fuel -> exists l, sem e fuel t s = Ok l
   B.  WITHOUT any side condition the search still terminates, because [iter] also counts:
       it stops when count reaches limit <= INF.  That bound ([term_fuel_any]) is of the order of 2^31
       per loop, i.e. OUTSIDE the counter range  Z.of_nat fuel <= INF  every compile theorem asks for;
       [tm_osc_needs_more_than_INF] is a tree that Analysis.shape_ok admits (the loop sits inside a
       lookaround, where shape_ok asks nothing) and whose search returns Fuel for every fuel <= INF.
       So shape_ok alone is not the right side condition; term_ok is.
   C.  corollaries for attempt / find / attemptk / findk. *)
From Verif Require Import Base.Prelude Model.Tree Model.Spec Model.Analysis
  Proofs.SpecProofs Proofs.SpecBoundsProofs Proofs.MaskProofs.
From Coq Require Import ZifyBool.

(* ------------------------------------------------------------------------------------------ *)
(* the side condition                                                                          *)

Definition tm_opt (f : node -> bool) (no : option node) : bool :=
  match no with Some n => f n | None => true end.

(* every consuming node outside lookarounds and outside the condition of an expression conditional
   (their effect on the position is undone) runs in direction d (true = right-to-left).
   Unlike Analysis.shape_ok nothing is asked of loop counts, empty alternations, missing branches. *)
Fixpoint tm_dir_ok (d : bool) (t : node) : bool :=
  match t with
  | NChar _ o _ => Bool.eqb (is_rtl o) d
  | NCharLoop _ _ o _ _ _ => Bool.eqb (is_rtl o) d
  | NMulti o _ => Bool.eqb (is_rtl o) d
  | NRef o _ => Bool.eqb (is_rtl o) d
  | NConcat _ l => forallb (tm_dir_ok d) l
  | NAlternate _ l => forallb (tm_dir_ok d) l
  | NLoop _ _ _ _ r => tm_dir_ok d r
  | NCapture _ _ _ r => tm_dir_ok d r
  | NGroup r => tm_dir_ok d r
  | NAtomic r => tm_dir_ok d r
  | NPosLook _ _ => true
  | NNegLook _ _ => true
  | NBackRefCond _ _ yes no => tm_dir_ok d yes && tm_opt (tm_dir_ok d) no
  | NExprCond _ _ yes no => tm_dir_ok d yes && tm_opt (tm_dir_ok d) no
  | NAnchor _ | NNothing | NEmpty | NBump => true
  end.

(* every loop body, wherever it sits, is one-directional; single-character loops have 0 <= m *)
Fixpoint term_ok (t : node) : bool :=
  match t with
  | NCharLoop _ _ _ _ m _ => 0 <=? m
  | NConcat _ l => forallb term_ok l
  | NAlternate _ l => forallb term_ok l
  | NLoop _ _ _ _ r => (tm_dir_ok false r || tm_dir_ok true r) && term_ok r
  | NCapture _ _ _ r => term_ok r
  | NGroup r => term_ok r
  | NAtomic r => term_ok r
  | NPosLook _ r => term_ok r
  | NNegLook _ r => term_ok r
  | NBackRefCond _ _ yes no => term_ok yes && tm_opt term_ok no
  | NExprCond _ c yes no => term_ok c && term_ok yes && tm_opt term_ok no
  | _ => true
  end.

(* the fuel bound: [tl] = text length *)
Fixpoint term_fuel_n (tl : nat) (t : node) : nat :=
  S (match t with
     | NConcat _ l | NAlternate _ l =>
         (fix go (l : list node) : nat :=
            match l with [] => O | x :: l' => Nat.max (term_fuel_n tl x) (go l') end) l
     | NLoop _ _ m _ r => Nat.max (term_fuel_n tl r) (Z.to_nat m + tl + 2)
     | NCapture _ _ _ r | NGroup r | NPosLook _ r | NNegLook _ r | NAtomic r => term_fuel_n tl r
     | NBackRefCond _ _ y no =>
         Nat.max (term_fuel_n tl y) (match no with Some n => term_fuel_n tl n | None => O end)
     | NExprCond _ c y no =>
         Nat.max (term_fuel_n tl c)
           (Nat.max (term_fuel_n tl y) (match no with Some n => term_fuel_n tl n | None => O end))
     | _ => O
     end).

Definition term_fuel (e : env) (t : node) : nat := term_fuel_n (Z.to_nat (tlen e)) t.

Definition tm_fuel_list (tl : nat) (l : list node) : nat :=
  (fix go (l : list node) : nat :=
     match l with [] => O | x :: l' => Nat.max (term_fuel_n tl x) (go l') end) l.

Lemma tm_fuel_list_in tl : forall l x, In x l -> (term_fuel_n tl x <= tm_fuel_list tl l)%nat.
Proof.
  induction l as [|y l IH]; intros x Hin; [contradiction|].
  cbn [tm_fuel_list]. fold (tm_fuel_list tl l). destruct Hin as [->|Hin]; [lia|].
  specialize (IH x Hin). lia.
Qed.

(* the text length enters the bound additively: term_fuel e t <= (bound for the empty text) + tlen e;
   leg c01-frag reports the first summand for every exported tree *)
Lemma tm_fuel_text_additive tl : forall t, (term_fuel_n tl t <= term_fuel_n 0 t + tl)%nat.
Proof.
  induction t using node_ind'; cbn [term_fuel_n]; try lia.
  - fold (tm_fuel_list tl l). fold (tm_fuel_list 0 l).
    enough (tm_fuel_list tl l <= tm_fuel_list 0 l + tl)%nat by lia.
    induction H as [|x l Hx Hl IH]; cbn [tm_fuel_list]; [lia|].
    fold (tm_fuel_list tl l). fold (tm_fuel_list 0 l). lia.
  - fold (tm_fuel_list tl l). fold (tm_fuel_list 0 l).
    enough (tm_fuel_list tl l <= tm_fuel_list 0 l + tl)%nat by lia.
    induction H as [|x l Hx Hl IH]; cbn [tm_fuel_list]; [lia|].
    fold (tm_fuel_list tl l). fold (tm_fuel_list 0 l). lia.
  - destruct no as [n|]; cbn [opt_all] in H; lia.
  - destruct no as [n|]; cbn [opt_all] in H; lia.
Qed.

Corollary tm_fuel_in_range (e : env) t :
  Z.of_nat (term_fuel_n 0 t) + tlen e <= INF -> Z.of_nat (term_fuel e t) <= INF.
Proof.
  intros H. pose proof (tm_fuel_text_additive (Z.to_nat (tlen e)) t) as A.
  unfold term_fuel. assert (Z.of_nat (Z.to_nat (tlen e)) = tlen e) by (unfold tlen, zlen; lia). lia.
Qed.

(* ------------------------------------------------------------------------------------------ *)
(* old predicate => new predicate                                                              *)

Lemma tm_forallb_impl (f g : node -> bool) l :
  Forall (fun x => f x = true -> g x = true) l -> forallb f l = true -> forallb g l = true.
Proof.
  induction 1 as [|x l Hx Hl IH]; cbn [forallb]; [reflexivity|].
  intros H. apply andb_prop in H. destruct H as [H1 H2]. rewrite (Hx H1), (IH H2). reflexivity.
Qed.

Lemma tm_shape_dir_ok (d : bool) : forall t, shape_ok d t = true -> tm_dir_ok d t = true.
Proof.
  induction t using node_ind'; cbn [shape_ok tm_dir_ok]; intros Hs; try reflexivity; try exact Hs.
  - apply andb_prop in Hs. destruct Hs as [Hs _]. apply andb_prop in Hs. destruct Hs as [Hs _]. exact Hs.
  - revert Hs. apply tm_forallb_impl. exact H.
  - destruct l as [|x l]; [discriminate Hs|]. revert Hs. apply tm_forallb_impl. exact H.
  - apply andb_prop in Hs. destruct Hs as [_ Hs]. apply IHt. exact Hs.
  - apply IHt. exact Hs.
  - apply IHt. exact Hs.
  - apply IHt. exact Hs.
  - apply andb_prop in Hs. destruct Hs as [H1 H2]. rewrite (IHt H1). cbn [andb].
    destruct no as [n|]; [|discriminate H2]. cbn [tm_opt opt_all] in *. apply H. exact H2.
  - apply andb_prop in Hs. destruct Hs as [H1 H2]. rewrite (IHt2 H1). cbn [andb].
    destruct no as [n|]; [|discriminate H2]. cbn [tm_opt opt_all] in *. apply H. exact H2.
Qed.

(* no lookaround and no expression conditional anywhere: the part of a tree on which shape_ok is silent *)
Fixpoint tm_look_free (t : node) : bool :=
  match t with
  | NConcat _ l | NAlternate _ l => forallb tm_look_free l
  | NLoop _ _ _ _ r | NCapture _ _ _ r | NGroup r | NAtomic r => tm_look_free r
  | NPosLook _ _ | NNegLook _ _ | NExprCond _ _ _ _ => false
  | NBackRefCond _ _ yes no => tm_look_free yes && tm_opt tm_look_free no
  | _ => true
  end.

Lemma tm_forallb_impl2 (f1 f2 g : node -> bool) l :
  Forall (fun x => f1 x = true -> f2 x = true -> g x = true) l ->
  forallb f1 l = true -> forallb f2 l = true -> forallb g l = true.
Proof.
  induction 1 as [|x l Hx Hl IH]; cbn [forallb]; [reflexivity|].
  intros H H'. apply andb_prop in H. destruct H as [H1 H2]. apply andb_prop in H'. destruct H' as [H1' H2'].
  rewrite (Hx H1 H1'), (IH H2 H2'). reflexivity.
Qed.

(* on a tree without lookarounds the old predicate implies the new one *)
Lemma tm_shape_term_ok (d : bool) : forall t,
  shape_ok d t = true -> tm_look_free t = true -> term_ok t = true.
Proof.
  induction t using node_ind'; cbn [shape_ok tm_look_free term_ok]; intros Hs Hf; try reflexivity;
    try discriminate Hf.
  - apply andb_prop in Hs. destruct Hs as [Hs _]. apply andb_prop in Hs. destruct Hs as [_ Hs]. exact Hs.
  - revert Hs Hf. apply tm_forallb_impl2. exact H.
  - destruct l as [|x l]; [discriminate Hs|]. revert Hs Hf. apply tm_forallb_impl2. exact H.
  - apply andb_prop in Hs. destruct Hs as [_ Hs]. rewrite (IHt Hs Hf).
    pose proof (tm_shape_dir_ok d t Hs) as Hd. destruct d; rewrite Hd; cbn; rewrite ?orb_true_r; reflexivity.
  - apply IHt; assumption.
  - apply IHt; assumption.
  - apply IHt; assumption.
  - apply andb_prop in Hs. destruct Hs as [H1 H2]. apply andb_prop in Hf. destruct Hf as [F1 F2].
    rewrite (IHt H1 F1). cbn [andb].
    destruct no as [n|]; [|discriminate H2]. cbn [tm_opt opt_all] in *. apply H; assumption.
Qed.

(* term_ok contains the side condition of the bounds theorem *)
Lemma tm_term_min_ok : forall t, term_ok t = true -> loops_min_ok t.
Proof.
  unfold loops_min_ok.
  induction t using node_ind'; cbn [term_ok]; intros Hs; cbn [sb_all sb_min_ok];
    try (split; exact I); try (split; [lia|exact I]).
  - split; [exact I|]. induction H as [|x l Hx Hl IH]; [exact I|].
    cbn [forallb] in Hs. apply andb_prop in Hs. destruct Hs as [H1 H2]. split; [apply Hx; exact H1|apply IH; exact H2].
  - split; [exact I|]. induction H as [|x l Hx Hl IH]; [exact I|].
    cbn [forallb] in Hs. apply andb_prop in Hs. destruct Hs as [H1 H2]. split; [apply Hx; exact H1|apply IH; exact H2].
  - apply andb_prop in Hs. destruct Hs as [_ Hs]. split; [exact I|apply IHt; exact Hs].
  - split; [exact I|apply IHt; exact Hs].
  - split; [exact I|apply IHt; exact Hs].
  - split; [exact I|apply IHt; exact Hs].
  - split; [exact I|apply IHt; exact Hs].
  - split; [exact I|apply IHt; exact Hs].
  - apply andb_prop in Hs. destruct Hs as [H1 H2]. split; [exact I|]. split; [apply IHt; exact H1|].
    destruct no as [n|]; [|exact I]. cbn [tm_opt opt_all] in *. apply H. exact H2.
  - apply andb_prop in Hs. destruct Hs as [Hs H3]. apply andb_prop in Hs. destruct Hs as [H1 H2].
    split; [exact I|]. split; [apply IHt1; exact H1|]. split; [apply IHt2; exact H2|].
    destruct no as [n|]; [|exact I]. cbn [tm_opt opt_all] in *. apply H. exact H3.
Qed.

(* ------------------------------------------------------------------------------------------ *)
(* a one-directional tree never moves against its direction                                    *)

Section Dir.
Variable e : env.
Variable d : bool.

(* y is at or beyond s in direction d *)
Definition tm_adv (s y : st) : Prop := if d then pos y <= pos s else pos s <= pos y.
Definition tm_R (s y : st) : Prop := st_ok e s -> st_ok e y /\ tm_adv s y.

Lemma tm_R_refl s : tm_R s s.
Proof. intros Hs. split; [exact Hs|]. unfold tm_adv. destruct d; lia. Qed.

Lemma tm_R_trans a b c : tm_R a b -> tm_R b c -> tm_R a c.
Proof.
  intros Hab Hbc Ha. destruct (Hab Ha) as [Hb Aab]. destruct (Hbc Hb) as [Hc Abc].
  split; [exact Hc|]. unfold tm_adv in *. destruct d; lia.
Qed.

Lemma tm_R_intro s l :
  (st_ok e s -> Forall (st_ok e) l /\ Forall (tm_adv s) l) -> Forall (tm_R s) l.
Proof.
  intros H. apply Forall_forall. intros y Hy Hs. destruct (H Hs) as [F1 F2].
  rewrite Forall_forall in F1, F2. split; [apply F1|apply F2]; exact Hy.
Qed.

Lemma tm_leaf_adv f t s l :
  tm_dir_ok d t = true -> sb_min_ok t -> sb_leaf t = true -> st_ok e s ->
  sem e (S f) t s = Ok l -> Forall (tm_adv s) l.
Proof.
  intros Hd Hm Hl [Hp Hc] H.
  assert (Hself : tm_adv s s) by (unfold tm_adv; destruct d; lia).
  assert (Hone : forall x, tm_adv s x -> Forall (tm_adv s) [x]) by (intros x Hx; constructor; [exact Hx|constructor]).
  destruct t; cbn [sb_leaf] in Hl; try discriminate; cbn [sem] in H; injection H as <-; cbn [tm_dir_ok] in Hd;
    try apply eqb_prop in Hd.
  - (* NChar *)
    destruct ((0 <? avail e o (pos s)) && char_test e k c (next_char e o (pos s))); [|constructor].
    apply Hone. unfold tm_adv, dir. cbn [with_pos pos]. rewrite Hd. destruct d; lia.
  - (* NCharLoop *)
    cbn [sb_min_ok] in Hm. unfold sem_charloop.
    set (cap := if n =? INF then avail e o (pos s) else Z.min n (avail e o (pos s))).
    set (r := run_len e k c o (Z.to_nat cap) (pos s)).
    assert (Hj : forall j, m <= j -> tm_adv s (with_pos s (pos s + dir o * j))).
    { intros j Hjm. unfold tm_adv, dir. cbn [with_pos pos]. rewrite Hd. destruct d; lia. }
    destruct (r <? m) eqn:Erm; [constructor|].
    destruct l0.
    + apply Forall_forall. intros x Hx. apply in_map_iff in Hx. destruct Hx as (j & <- & Hin).
      apply sb_count_down_in in Hin. apply Hj. lia.
    + apply Forall_forall. intros x Hx. apply in_map_iff in Hx. destruct Hx as (j & <- & Hin).
      apply sb_count_up_in in Hin. apply Hj. lia.
    + apply Hone, Hj. lia.
  - (* NMulti *)
    unfold sem_multi. destruct (avail e o (pos s) <? zlen s0); [constructor|].
    destruct (str_match_at _ _ _ _); [|constructor].
    apply Hone. pose proof (Zle_0_nat (length s0)). unfold tm_adv, dir, zlen in *. cbn [with_pos pos].
    rewrite Hd. destruct d; lia.
  - (* NRef *)
    unfold sem_ref. pose proof (sb_caps_ok_get e g (caps s) Hc) as Fg.
    destruct (cap_get g (caps s)) as [|[i len] rest].
    + destruct (ecma e); [apply Hone; exact Hself|constructor].
    + inversion Fg as [|? ? Hiv _]; subst. unfold sb_iv_ok in Hiv. cbn [fst snd] in Hiv.
      destruct (avail e o (pos s) <? len); [constructor|].
      destruct (ref_match_at _ _ _ _ _); [|constructor].
      apply Hone. unfold tm_adv, dir. cbn [with_pos pos]. rewrite Hd. destruct d; lia.
  - destruct (anchor_ok e a (pos s)); [apply Hone; exact Hself|constructor].
  - constructor.
  - apply Hone; exact Hself.
  - apply Hone; exact Hself.
Qed.

Lemma tm_same_pos_R s y : (st_ok e s -> st_ok e y) -> pos y = pos s -> tm_R s y.
Proof. intros H Hp Hs. split; [apply H; exact Hs|]. unfold tm_adv. rewrite Hp. destruct d; lia. Qed.

Theorem tm_sem_rel : forall fuel t s l,
  tm_dir_ok d t = true -> loops_min_ok t -> sem e fuel t s = Ok l -> Forall (tm_R s) l.
Proof.
  induction fuel as [|f IH]; intros t s l Hd HP H; [discriminate H|].
  pose proof (sb_all_here sb_min_ok t HP) as Ht.
  pose proof (fun Hs => sb_sem_in_bounds e (S f) t s l HP H Hs) as Hin.
  destruct t as [kd o c|kd lk o c m n|o str|o g|a| | | |o cl|o cl|lazy o m n r|o g u r|r|o r|o r|r
                |o g yes no|o c yes no];
    try (apply tm_R_intro; intros Hs; split; [exact (Hin Hs)|exact (tm_leaf_adv f _ s l Hd Ht eq_refl Hs H)]);
    cbn [sem] in H; unfold loops_min_ok in HP; cbn [sb_all] in HP; cbn [tm_dir_ok] in Hd; clear Hin.
  - (* NConcat *)
    destruct HP as [_ HP]. clear Ht. revert s l H. induction cl as [|x cl IHl]; intros s l H.
    + injection H as <-. constructor; [apply tm_R_refl|constructor].
    + destruct HP as [Hx Hcl]. cbn [forallb] in Hd. apply andb_prop in Hd. destruct Hd as [Hdx Hdl].
      revert H. apply (sb_bindr_rel tm_R tm_R_trans).
      * intros la. apply IH; assumption.
      * intros a l'. apply IHl; assumption.
  - (* NAlternate *)
    destruct HP as [_ HP]. clear Ht. revert l H. induction cl as [|x cl IHl]; intros l H.
    + injection H as <-. constructor.
    + destruct HP as [Hx Hcl]. cbn [forallb] in Hd. apply andb_prop in Hd. destruct Hd as [Hdx Hdl].
      revert H. apply sb_appr_rel.
      * intros la. apply IH; assumption.
      * intros y. apply IHl; assumption.
  - (* NLoop *)
    destruct HP as [_ HP].
    assert (HI : forall lazy limit s mark count l,
               iter f (sem e f r) lazy limit s mark count = Ok l -> Forall (tm_R s) l).
    { apply (sb_iter_rel tm_R tm_R_refl tm_R_trans). intros s0 l0. apply IH; assumption. }
    destruct (m =? 0); [exact (HI _ _ _ _ _ _ H)|].
    revert H. apply (sb_bindr_rel tm_R tm_R_trans); [intros la; apply IH; assumption|].
    intros a l'. apply HI.
  - (* NCapture: st_ok of the results by the bounds theorem of the whole node, the position is the body's *)
    assert (HPn : loops_min_ok (NCapture o g u r)) by (unfold loops_min_ok; cbn [sb_all]; exact HP).
    destruct HP as [_ HP].
    assert (Hsem : sem e (S f) (NCapture o g u r) s = Ok l) by exact H.
    apply tm_R_intro. intros Hs. split; [exact (sb_sem_in_bounds e (S f) _ s l HPn Hsem Hs)|].
    clear Hsem HPn.
    assert (G : forall la, sem e f r s = Ok la -> Forall (tm_adv s) la).
    { intros la Hla. pose proof (IH r s la Hd HP Hla) as F. eapply Forall_impl; [|exact F].
      intros y Hy. exact (proj2 (Hy Hs)). }
    destruct (u =? -1).
    + apply sp_bindr_ok in H. destruct H as [la [Hla H]]. apply sb_bindl_singleton in H. subst l.
      pose proof (G la Hla) as F. apply Forall_forall. intros y Hy. apply in_map_iff in Hy.
      destruct Hy as (x & <- & Hx). rewrite Forall_forall in F. exact (F x Hx).
    + apply sp_bindr_ok in H. destruct H as [la [Hla H]].
      pose proof (G la Hla) as F. rewrite Forall_forall in F.
      eapply sb_bindl_forall; [|exact H]. intros x l' Hx Hl'. cbv beta in Hl'.
      destruct (cap_get u (caps x)) as [|top rest]; injection Hl' as <-; [constructor|].
      constructor; [|constructor]. exact (F x Hx).
  - (* NGroup *) destruct HP as [_ HP]. exact (IH _ _ _ Hd HP H).
  - (* NPosLook *)
    assert (HPn : loops_min_ok (NPosLook o r)) by (unfold loops_min_ok; cbn [sb_all]; exact HP).
    assert (Hsem : sem e (S f) (NPosLook o r) s = Ok l) by exact H.
    apply sp_bind_ok in H. destruct H as [l1 [H1 H]]. injection H as <-.
    apply tm_R_intro. intros Hs. split; [exact (sb_sem_in_bounds e (S f) _ s _ HPn Hsem Hs)|].
    apply Forall_forall. intros y Hy. apply in_map_iff in Hy. destruct Hy as (x & <- & _).
    unfold tm_adv. cbn [with_pos pos]. destruct d; lia.
  - (* NNegLook *)
    apply sp_bind_ok in H. destruct H as [l1 [H1 H]]. injection H as <-.
    destruct l1; constructor; [apply tm_R_refl|constructor].
  - (* NAtomic *)
    destruct HP as [_ HP]. revert H. apply sb_first_only_rel. intros x. apply IH; assumption.
  - (* NBackRefCond *)
    destruct HP as [_ [Hy Hn]]. apply andb_prop in Hd. destruct Hd as [Hdy Hdn].
    destruct (is_matched g (caps s)); [exact (IH _ _ _ Hdy Hy H)|].
    destruct no as [n|]; [exact (IH _ _ _ Hdn Hn H)|].
    injection H as <-. constructor; [apply tm_R_refl|constructor].
  - (* NExprCond *)
    destruct HP as [_ [Hc [Hy Hn]]]. apply andb_prop in Hd. destruct Hd as [Hdy Hdn].
    apply sp_bind_ok in H. destruct H as [l1 [H1 H]].
    apply sp_first_only_ok in H1. destruct H1 as (l0 & H0 & ->).
    destruct l0 as [|s' l0].
    + destruct no as [n|]; [exact (IH _ _ _ Hdn Hn H)|].
      injection H as <-. constructor; [apply tm_R_refl|constructor].
    + apply (sb_forall_trans tm_R tm_R_trans) with (a := with_pos s' (pos s)).
      * apply tm_same_pos_R; [|reflexivity]. intros Hs.
        pose proof (sb_sem_in_bounds e f c s _ Hc H0 Hs) as F. inversion F as [|? ? [_ Hc'] _]; subst.
        destruct Hs as [Hp _]. split; [exact Hp|exact Hc'].
      * exact (IH _ _ _ Hdy Hy H).
Qed.

(* the form used below *)
Corollary tm_dir_mono fuel t s l :
  tm_dir_ok d t = true -> loops_min_ok t -> st_ok e s -> sem e fuel t s = Ok l ->
  Forall (fun y => st_ok e y /\ tm_adv s y) l.
Proof.
  intros Hd HP Hs H. pose proof (tm_sem_rel fuel t s l Hd HP H) as F.
  eapply Forall_impl; [|exact F]. intros y Hy. exact (Hy Hs).
Qed.

End Dir.

(* ------------------------------------------------------------------------------------------ *)
(* totality of the result-list combinators                                                     *)

Lemma tm_bindl_total {A B} (f : A -> res (list B)) : forall la,
  (forall a, In a la -> exists l, f a = Ok l) -> exists l, bindl la f = Ok l.
Proof.
  induction la as [|a la IH]; intros H; cbn [bindl]; [eexists; reflexivity|].
  destruct (H a (or_introl eq_refl)) as [x Hx].
  destruct IH as [y Hy]; [intros a' Ha'; apply H; right; exact Ha'|].
  rewrite Hx, Hy. cbn [bind]. eexists; reflexivity.
Qed.

Lemma tm_bindr_total {A B} (r : res (list A)) (f : A -> res (list B)) la :
  r = Ok la -> (forall a, In a la -> exists l, f a = Ok l) -> exists l, bindr r f = Ok l.
Proof. intros -> H. unfold bindr. cbn [bind]. apply tm_bindl_total. exact H. Qed.

Lemma tm_appr_total {A} (a b : res (list A)) :
  (exists x, a = Ok x) -> (exists y, b = Ok y) -> exists l, appr a b = Ok l.
Proof. intros [x ->] [y ->]. unfold appr. cbn [bind]. eexists; reflexivity. Qed.

Lemma tm_first_only_total {A} (r : res (list A)) : (exists x, r = Ok x) -> exists l, first_only r = Ok l.
Proof. intros [x ->]. unfold first_only. cbn [bind]. eexists; reflexivity. Qed.

(* named forms of the two local fixpoints of [sem] *)
Definition tm_seq (e : env) (f : nat) : list node -> st -> res (list st) :=
  fix seq (l : list node) (s : st) : res (list st) :=
    match l with [] => Ok [s] | x :: l' => bindr (sem e f x s) (seq l') end.
Definition tm_alt (e : env) (f : nat) (s : st) : list node -> res (list st) :=
  fix alt (l : list node) : res (list st) :=
    match l with [] => Ok [] | x :: l' => appr (sem e f x s) (alt l') end.

Lemma tm_sem_concat e f o l s : sem e (S f) (NConcat o l) s = tm_seq e f l s.
Proof. reflexivity. Qed.
Lemma tm_sem_alt e f o l s : sem e (S f) (NAlternate o l) s = tm_alt e f s l.
Proof. reflexivity. Qed.
Lemma tm_sem_loop e f lazy o m n r s :
  sem e (S f) (NLoop lazy o m n r) s =
  (if m =? 0 then iter f (sem e f r) lazy (if n =? INF then INF else n - m) s (-1) 0
   else bindr (sem e f r s)
          (fun s' => iter f (sem e f r) lazy (if n =? INF then INF else n - m) s' (pos s) (1 - m))).
Proof. reflexivity. Qed.

(* ------------------------------------------------------------------------------------------ *)
(* A. the loop under a one-directional body                                                    *)

Section IterTotal.
Variable e : env.
Variable d : bool.
Variable body : st -> res (list st).
Hypothesis Hbody : forall s, st_ok e s -> exists l, body s = Ok l /\ Forall (fun y => st_ok e y /\ tm_adv d s y) l.

(* room left in direction d *)
Definition tm_rem (s : st) : Z := if d then pos s else tlen e - pos s.

(* past the minimum: an iteration that does not move ends the loop, one that moves uses up room *)
Lemma tm_iter_total_nonneg : forall fuel lazy limit s mark count,
  0 <= count -> st_ok e s ->
  (1 <= fuel)%nat -> (pos s <> mark -> tm_rem s + 2 <= Z.of_nat fuel) ->
  exists l, iter fuel body lazy limit s mark count = Ok l.
Proof.
  induction fuel as [|f IH]; intros lazy limit s mark count Hc Hs H1 Hf; [lia|].
  cbn [iter].
  assert (Hagain : pos s <> mark -> exists la,
    bindr (body s) (fun s' => iter f body lazy limit s' (pos s) (count + 1)) = Ok la).
  { intros Hne. specialize (Hf Hne). destruct (Hbody s Hs) as (lb & Hlb & F).
    apply (tm_bindr_total _ _ lb Hlb). intros a Ha. rewrite Forall_forall in F.
    destruct (F a Ha) as [Hoka Hadv].
    assert (Hr : 0 <= tm_rem s) by (unfold tm_rem; destruct Hs as [Hp _]; destruct d; lia).
    apply IH; [lia|exact Hoka|lia|].
    intros Hne2. unfold tm_rem, tm_adv in *. destruct d; lia. }
  destruct lazy.
  - replace (count <? 0) with false by lia.
    apply tm_appr_total; [eexists; reflexivity|].
    destruct (count <? limit); cbn [andb]; [|eexists; reflexivity].
    destruct (pos s =? mark) eqn:E; cbn [negb]; [eexists; reflexivity|]. apply Hagain. lia.
  - destruct ((limit <=? count) || ((pos s =? mark) && (0 <=? count))) eqn:E; [eexists; reflexivity|].
    apply tm_appr_total; [|eexists; reflexivity]. apply Hagain. lia.
Qed.

(* before the minimum every iteration runs, whatever it consumes *)
Lemma tm_iter_total : forall fuel lazy limit s mark count,
  st_ok e s -> Z.max 0 (- count) + tlen e + 2 <= Z.of_nat fuel ->
  exists l, iter fuel body lazy limit s mark count = Ok l.
Proof.
  induction fuel as [|f IH]; intros lazy limit s mark count Hs Hf.
  { destruct Hs as [Hp _]. lia. }
  destruct (Z_lt_le_dec count 0) as [Hneg|Hpos].
  2:{ apply tm_iter_total_nonneg; [exact Hpos|exact Hs|lia|].
      intros _. unfold tm_rem. destruct Hs as [Hp _]. destruct d; lia. }
  cbn [iter].
  assert (Hagain : exists la,
    bindr (body s) (fun s' => iter f body lazy limit s' (pos s) (count + 1)) = Ok la).
  { destruct (Hbody s Hs) as (lb & Hlb & F).
    apply (tm_bindr_total _ _ lb Hlb). intros a Ha. rewrite Forall_forall in F.
    destruct (F a Ha) as [Hoka _]. apply IH; [exact Hoka|lia]. }
  destruct lazy.
  - replace (count <? 0) with true by lia. exact Hagain.
  - destruct ((limit <=? count) || ((pos s =? mark) && (0 <=? count))); [eexists; reflexivity|].
    apply tm_appr_total; [exact Hagain|eexists; reflexivity].
Qed.

End IterTotal.

(* ------------------------------------------------------------------------------------------ *)
(* A. the main theorem                                                                         *)

Section Total.
Variable e : env.

Definition tm_P (t : node) : Prop :=
  term_ok t = true -> forall f, (term_fuel e t <= f)%nat -> forall s, st_ok e s ->
  exists l, sem e f t s = Ok l.

Lemma tm_tlen_nat : Z.of_nat (Z.to_nat (tlen e)) = tlen e.
Proof. unfold tlen, zlen. lia. Qed.

Lemma tm_total_all : forall t, tm_P t.
Proof.
  induction t using node_ind'; unfold tm_P; intros Hok f Hf q Hq;
    unfold term_fuel in Hf; cbn [term_fuel_n] in Hf;
    (destruct f as [|f]; [lia|]); try (cbn [sem]; eexists; reflexivity).
  - (* NConcat *)
    rewrite tm_sem_concat. cbn [term_ok] in Hok. fold (tm_fuel_list (Z.to_nat (tlen e)) l) in Hf.
    assert (Hfl : forall x, In x l -> (term_fuel e x <= f)%nat).
    { intros x Hx. pose proof (tm_fuel_list_in (Z.to_nat (tlen e)) l x Hx). unfold term_fuel. lia. }
    clear Hf. revert q Hq. induction H as [|x l Hx Hl IHl]; intros q Hq; cbn [tm_seq]; [eexists; reflexivity|].
    cbn [forallb] in Hok. apply andb_prop in Hok. destruct Hok as [Hokx Hokl].
    destruct (Hx Hokx f (Hfl x (or_introl eq_refl)) q Hq) as [la Hla].
    apply (tm_bindr_total _ _ la Hla). intros a Ha.
    pose proof (sb_sem_in_bounds e f x q la (tm_term_min_ok x Hokx) Hla Hq) as F. rewrite Forall_forall in F.
    apply IHl; [exact Hokl|intros y Hy; apply Hfl; right; exact Hy|apply F; exact Ha].
  - (* NAlternate *)
    rewrite tm_sem_alt. cbn [term_ok] in Hok. fold (tm_fuel_list (Z.to_nat (tlen e)) l) in Hf.
    assert (Hfl : forall x, In x l -> (term_fuel e x <= f)%nat).
    { intros x Hx. pose proof (tm_fuel_list_in (Z.to_nat (tlen e)) l x Hx). unfold term_fuel. lia. }
    clear Hf. induction H as [|x l Hx Hl IHl]; cbn [tm_alt]; [eexists; reflexivity|].
    cbn [forallb] in Hok. apply andb_prop in Hok. destruct Hok as [Hokx Hokl].
    apply tm_appr_total; [exact (Hx Hokx f (Hfl x (or_introl eq_refl)) q Hq)|].
    apply IHl; [exact Hokl|intros y Hy; apply Hfl; right; exact Hy].
  - (* NLoop *)
    rewrite tm_sem_loop. cbn [term_ok] in Hok. apply andb_prop in Hok. destruct Hok as [Hdir Hokr].
    assert (Hfr : (term_fuel e t <= f)%nat) by (unfold term_fuel; lia).
    assert (Hfi : Z.max 0 m + tlen e + 2 <= Z.of_nat f) by (pose proof tm_tlen_nat; lia).
    assert (Hd : exists d, tm_dir_ok d t = true).
    { destruct (tm_dir_ok false t) eqn:E; [exists false; exact E|exists true; exact Hdir]. }
    destruct Hd as [d Hd].
    assert (Hbody : forall s0, st_ok e s0 ->
              exists l0, sem e f t s0 = Ok l0 /\ Forall (fun y => st_ok e y /\ tm_adv d s0 y) l0).
    { intros s0 Hs0. destruct (IHt Hokr f Hfr s0 Hs0) as [l0 Hl0]. exists l0. split; [exact Hl0|].
      exact (tm_dir_mono e d f t s0 l0 Hd (tm_term_min_ok t Hokr) Hs0 Hl0). }
    destruct (m =? 0) eqn:Em.
    + apply (tm_iter_total e d (sem e f t) Hbody); [exact Hq|lia].
    + destruct (Hbody q Hq) as (la & Hla & F). apply (tm_bindr_total _ _ la Hla). intros a Ha.
      rewrite Forall_forall in F. destruct (F a Ha) as [Hoka _].
      apply (tm_iter_total e d (sem e f t) Hbody); [exact Hoka|lia].
  - (* NCapture *)
    cbn [sem]. cbn [term_ok] in Hok. destruct (IHt Hok f ltac:(unfold term_fuel; lia) q Hq) as [la Hla].
    destruct (u =? -1); apply (tm_bindr_total _ _ la Hla); intros a Ha; [eexists; reflexivity|].
    destruct (cap_get u (caps a)); eexists; reflexivity.
  - (* NGroup *) cbn [sem]. cbn [term_ok] in Hok. exact (IHt Hok f ltac:(unfold term_fuel; lia) q Hq).
  - (* NPosLook *)
    cbn [sem]. cbn [term_ok] in Hok. destruct (IHt Hok f ltac:(unfold term_fuel; lia) q Hq) as [la Hla].
    rewrite Hla. unfold first_only. cbn [bind]. eexists; reflexivity.
  - (* NNegLook *)
    cbn [sem]. cbn [term_ok] in Hok. destruct (IHt Hok f ltac:(unfold term_fuel; lia) q Hq) as [la Hla].
    rewrite Hla. cbn [bind]. eexists; reflexivity.
  - (* NAtomic *)
    cbn [sem]. cbn [term_ok] in Hok. apply tm_first_only_total.
    exact (IHt Hok f ltac:(unfold term_fuel; lia) q Hq).
  - (* NBackRefCond *)
    cbn [sem]. cbn [term_ok] in Hok. apply andb_prop in Hok. destruct Hok as [Hoky Hokn].
    destruct (is_matched g (caps q)); [exact (IHt Hoky f ltac:(unfold term_fuel; lia) q Hq)|].
    destruct no as [n|]; [|eexists; reflexivity]. cbn [opt_all tm_opt] in *.
    exact (H Hokn f ltac:(unfold term_fuel; lia) q Hq).
  - (* NExprCond *)
    cbn [sem]. cbn [term_ok] in Hok. apply andb_prop in Hok. destruct Hok as [Hok Hokn].
    apply andb_prop in Hok. destruct Hok as [Hokc Hoky].
    destruct (IHt1 Hokc f ltac:(unfold term_fuel; lia) q Hq) as [lc Hlc].
    rewrite Hlc. unfold first_only. cbn [bind].
    pose proof (sb_sem_in_bounds e f t1 q lc (tm_term_min_ok t1 Hokc) Hlc Hq) as F.
    destruct lc as [|q' lc].
    + destruct no as [n|]; [|eexists; reflexivity]. cbn [opt_all tm_opt] in *.
      exact (H Hokn f ltac:(unfold term_fuel; lia) q Hq).
    + apply (IHt2 Hoky f ltac:(unfold term_fuel; lia)).
      inversion F as [|? ? [_ Hc'] _]; subst. destruct Hq as [Hp _]. split; [exact Hp|exact Hc'].
Qed.

(* every tree with one-directional loop bodies, every in-range state: the list-valued reference
   semantics answers with fuel [term_fuel e t], hence with any larger fuel *)
Theorem spec_sem_total : forall t s,
  term_ok t = true -> st_ok e s ->
  forall fuel, (term_fuel e t <= fuel)%nat -> exists l, sem e fuel t s = Ok l.
Proof. intros t s Hok Hs fuel Hf. exact (tm_total_all t Hok fuel Hf s Hs). Qed.

(* the form asked for: an explicit fuel, and every larger fuel gives THE SAME list *)
Corollary spec_sem_total_stable : forall t s,
  term_ok t = true -> st_ok e s ->
  exists l, forall fuel, (term_fuel e t <= fuel)%nat -> sem e fuel t s = Ok l.
Proof.
  intros t s Hok Hs. destruct (spec_sem_total t s Hok Hs (term_fuel e t) (Nat.le_refl _)) as [l Hl].
  exists l. intros fuel Hf. exact (spec_sem_fuel_mono e _ _ Hf t s l Hl).
Qed.

End Total.

(* ------------------------------------------------------------------------------------------ *)
(* C. attempt / find and their continuation-passing versions                                   *)

Section Search.
Variable e : env.

Theorem spec_attempt_total : forall root p,
  term_ok root = true -> 0 <= p <= tlen e ->
  forall fuel, (term_fuel e root <= fuel)%nat ->
  exists r, attempt e fuel root p = Ok r /\ attemptk e fuel root p = Ok r.
Proof.
  intros root p Hok Hp fuel Hf.
  destruct (spec_sem_total e root _ Hok (sb_init_ok e p Hp) fuel Hf) as [l Hl].
  assert (Ha : attempt e fuel root p = Ok (match l with [] => None | s :: _ => Some s end)).
  { unfold attempt. rewrite Hl. reflexivity. }
  eexists. split; [exact Ha|]. apply attemptk_attempt. exact Ha.
Qed.

Lemma tm_scan_total root (rtl : bool) fuel :
  term_ok root = true -> (term_fuel e root <= fuel)%nat ->
  forall n p, 0 <= p <= tlen e -> exists r, scan_from e fuel n root rtl p = Ok r.
Proof.
  intros Hok Hf. induction n as [|n IH]; intros p Hp; cbn [scan_from]; [eexists; reflexivity|].
  destruct (spec_attempt_total root p Hok Hp fuel Hf) as (r & Hr & _). rewrite Hr. cbn [bind].
  destruct r as [s|]; [eexists; reflexivity|].
  destruct (if rtl then p <=? 0 else tlen e <=? p) eqn:E; [eexists; reflexivity|].
  apply IH. destruct rtl; lia.
Qed.

Theorem spec_find_total : forall root (rtl : bool) start prevlen,
  term_ok root = true -> 0 <= start <= tlen e ->
  forall fuel, (term_fuel e root <= fuel)%nat ->
  exists r, find e fuel root rtl start prevlen = Ok r /\ findk e fuel root rtl start prevlen = Ok r.
Proof.
  intros root rtl start prevlen Hok Hs fuel Hf.
  assert (Hfind : exists r, find e fuel root rtl start prevlen = Ok r).
  { unfold find.
    destruct ((prevlen =? 0) && (start =? (if rtl then 0 else tlen e))) eqn:E; [eexists; reflexivity|].
    apply (tm_scan_total root rtl fuel Hok Hf). destruct (prevlen =? 0), rtl; cbn [andb] in E; lia. }
  destruct Hfind as [r Hr]. exists r. split; [exact Hr|]. apply findk_find. exact Hr.
Qed.

End Search.

(* ------------------------------------------------------------------------------------------ *)
(* B. without any side condition: the loop also COUNTS, so it stops -- but only after          *)
(*    limit - count iterations, of the order of 2^31 when n = INF                              *)

Definition tm_loop_iters (m n : Z) : nat :=
  let limit := if n =? INF then INF else n - m in
  let c0 := if m =? 0 then 0 else 1 - m in
  Z.to_nat (Z.max 0 (limit - c0) + Z.max 0 (- c0) + 1).

Fixpoint term_fuel_any (t : node) : nat :=
  S (match t with
     | NConcat _ l | NAlternate _ l =>
         (fix go (l : list node) : nat :=
            match l with [] => O | x :: l' => Nat.max (term_fuel_any x) (go l') end) l
     | NLoop _ _ m n r => Nat.max (term_fuel_any r) (tm_loop_iters m n)
     | NCapture _ _ _ r | NGroup r | NPosLook _ r | NNegLook _ r | NAtomic r => term_fuel_any r
     | NBackRefCond _ _ y no =>
         Nat.max (term_fuel_any y) (match no with Some n => term_fuel_any n | None => O end)
     | NExprCond _ c y no =>
         Nat.max (term_fuel_any c)
           (Nat.max (term_fuel_any y) (match no with Some n => term_fuel_any n | None => O end))
     | _ => O
     end).

Definition tm_fuel_any_list (l : list node) : nat :=
  (fix go (l : list node) : nat :=
     match l with [] => O | x :: l' => Nat.max (term_fuel_any x) (go l') end) l.

Lemma tm_fuel_any_list_in : forall l x, In x l -> (term_fuel_any x <= tm_fuel_any_list l)%nat.
Proof.
  induction l as [|y l IH]; intros x Hin; [contradiction|].
  cbn [tm_fuel_any_list]. fold (tm_fuel_any_list l). destruct Hin as [->|Hin]; [lia|].
  specialize (IH x Hin). lia.
Qed.

Lemma tm_iter_count_total (body : st -> res (list st)) :
  (forall s, exists l, body s = Ok l) ->
  forall fuel lazy limit s mark count,
    Z.max 0 (limit - count) + Z.max 0 (- count) + 1 <= Z.of_nat fuel ->
    exists l, iter fuel body lazy limit s mark count = Ok l.
Proof.
  intros Hbody. induction fuel as [|f IH]; intros lazy limit s mark count Hf; [lia|].
  cbn [iter].
  assert (Hagain : count < 0 \/ count < limit -> exists la,
    bindr (body s) (fun s' => iter f body lazy limit s' (pos s) (count + 1)) = Ok la).
  { intros Hc. destruct (Hbody s) as [lb Hlb]. apply (tm_bindr_total _ _ lb Hlb). intros a _. apply IH. lia. }
  destruct lazy.
  - destruct (count <? 0) eqn:Ec; [apply Hagain; lia|].
    apply tm_appr_total; [eexists; reflexivity|].
    destruct (count <? limit) eqn:El; cbn [andb]; [|eexists; reflexivity].
    destruct (negb (pos s =? mark)); [apply Hagain; lia|eexists; reflexivity].
  - destruct ((limit <=? count) || ((pos s =? mark) && (0 <=? count))) eqn:E; [eexists; reflexivity|].
    apply tm_appr_total; [|eexists; reflexivity]. apply Hagain. lia.
Qed.

Theorem spec_sem_total_any (e : env) : forall t fuel, (term_fuel_any t <= fuel)%nat ->
  forall s, exists l, sem e fuel t s = Ok l.
Proof.
  induction t using node_ind'; intros f Hf q; cbn [term_fuel_any] in Hf;
    (destruct f as [|f]; [lia|]); try (cbn [sem]; eexists; reflexivity).
  - (* NConcat *)
    rewrite tm_sem_concat. fold (tm_fuel_any_list l) in Hf.
    assert (Hfl : forall x, In x l -> (term_fuel_any x <= f)%nat).
    { intros x Hx. pose proof (tm_fuel_any_list_in l x Hx). lia. }
    clear Hf. revert q. induction H as [|x l Hx Hl IHl]; intros q; cbn [tm_seq]; [eexists; reflexivity|].
    destruct (Hx f (Hfl x (or_introl eq_refl)) q) as [la Hla].
    apply (tm_bindr_total _ _ la Hla). intros a _. apply IHl. intros y Hy. apply Hfl. right. exact Hy.
  - (* NAlternate *)
    rewrite tm_sem_alt. fold (tm_fuel_any_list l) in Hf.
    assert (Hfl : forall x, In x l -> (term_fuel_any x <= f)%nat).
    { intros x Hx. pose proof (tm_fuel_any_list_in l x Hx). lia. }
    clear Hf. induction H as [|x l Hx Hl IHl]; cbn [tm_alt]; [eexists; reflexivity|].
    apply tm_appr_total; [exact (Hx f (Hfl x (or_introl eq_refl)) q)|].
    apply IHl. intros y Hy. apply Hfl. right. exact Hy.
  - (* NLoop *)
    rewrite tm_sem_loop.
    assert (Hbody : forall s0, exists l0, sem e f t s0 = Ok l0) by (intros s0; apply IHt; lia).
    assert (Hfi : (tm_loop_iters m n <= f)%nat) by lia. unfold tm_loop_iters in Hfi. cbv zeta in Hfi.
    destruct (m =? 0) eqn:Em.
    + apply (tm_iter_count_total _ Hbody). lia.
    + destruct (Hbody q) as [la Hla]. apply (tm_bindr_total _ _ la Hla). intros a _.
      apply (tm_iter_count_total _ Hbody). lia.
  - (* NCapture *)
    cbn [sem]. destruct (IHt f ltac:(lia) q) as [la Hla].
    destruct (u =? -1); apply (tm_bindr_total _ _ la Hla); intros a Ha; [eexists; reflexivity|].
    destruct (cap_get u (caps a)); eexists; reflexivity.
  - (* NGroup *) cbn [sem]. exact (IHt f ltac:(lia) q).
  - (* NPosLook *)
    cbn [sem]. destruct (IHt f ltac:(lia) q) as [la Hla].
    rewrite Hla. unfold first_only. cbn [bind]. eexists; reflexivity.
  - (* NNegLook *)
    cbn [sem]. destruct (IHt f ltac:(lia) q) as [la Hla]. rewrite Hla. cbn [bind]. eexists; reflexivity.
  - (* NAtomic *) cbn [sem]. apply tm_first_only_total. exact (IHt f ltac:(lia) q).
  - (* NBackRefCond *)
    cbn [sem]. destruct (is_matched g (caps q)); [exact (IHt f ltac:(lia) q)|].
    destruct no as [n|]; [|eexists; reflexivity]. cbn [opt_all] in *. exact (H f ltac:(lia) q).
  - (* NExprCond *)
    cbn [sem]. destruct (IHt1 f ltac:(lia) q) as [lc Hlc]. rewrite Hlc. unfold first_only. cbn [bind].
    destruct lc as [|s' lc].
    + destruct no as [n|]; [|eexists; reflexivity]. cbn [opt_all] in *. exact (H f ltac:(lia) q).
    + apply (IHt2 f ltac:(lia)).
Qed.

(* the unconditional search: every tree, every text, every start offset *)
Theorem spec_find_total_any (e : env) : forall root (rtl : bool) start prevlen fuel,
  (term_fuel_any root <= fuel)%nat ->
  exists r, find e fuel root rtl start prevlen = Ok r /\ findk e fuel root rtl start prevlen = Ok r.
Proof.
  intros root rtl start prevlen fuel Hf.
  assert (Hatt : forall p, exists r, attempt e fuel root p = Ok r).
  { intros p. unfold attempt. destruct (spec_sem_total_any e root fuel Hf {| pos := p; caps := [] |}) as [l Hl].
    rewrite Hl. cbn [bind]. eexists; reflexivity. }
  assert (Hscan : forall n p, exists r, scan_from e fuel n root rtl p = Ok r).
  { induction n as [|n IH]; intros p; cbn [scan_from]; [eexists; reflexivity|].
    destruct (Hatt p) as [r Hr]. rewrite Hr. cbn [bind]. destruct r as [s|]; [eexists; reflexivity|].
    destruct (if rtl then p <=? 0 else tlen e <=? p); [eexists; reflexivity|apply IH]. }
  assert (Hfind : exists r, find e fuel root rtl start prevlen = Ok r).
  { unfold find. destruct ((prevlen =? 0) && (start =? (if rtl then 0 else tlen e))); [eexists; reflexivity|].
    apply Hscan. }
  destruct Hfind as [r Hr]. exists r. split; [exact Hr|]. apply findk_find. exact Hr.
Qed.

(* ------------------------------------------------------------------------------------------ *)
(* why shape_ok is not enough: an oscillating loop body inside a lookaround                    *)

Definition tm_demo_env (t : list Z) : env :=
  {| txt := t; tstart := 0; ecma := false; endz_strict := false; set_in := fun _ _ => false;
     lower := fun x => x; is_word := fun _ => false; is_eword := fun _ => false |}.

(* (?(1) <right-to-left a> (?<-1>) | <left-to-right a> (?<1>) ): moves right and sets group 1 when it is
   unset, moves left and unsets it when it is set *)
Definition tm_osc_body : node :=
  NBackRefCond 0 1
    (NConcat 0 [NChar COne 64 97; NCapture 0 (-1) 1 NEmpty])
    (Some (NConcat 0 [NChar COne 0 97; NCapture 0 1 (-1) NEmpty])).
Definition tm_osc_loop : node := NLoop false 0 0 INF tm_osc_body.
Definition tm_osc_tree : node := NPosLook 0 tm_osc_loop.

Definition tm_osc_s0 : st := {| pos := 0; caps := [] |}.
Definition tm_osc_A : st := {| pos := 1; caps := [(1, [(1, 0)])] |}.
Definition tm_osc_B : st := {| pos := 0; caps := [(1, [])] |}.

(* Analysis.shape_ok accepts it in either direction (nothing is asked inside a lookaround); the loop
   body is in neither direction *)
Example tm_osc_shape :
  shape_ok false tm_osc_tree = true /\ shape_ok true tm_osc_tree = true /\
  tm_dir_ok false tm_osc_body = false /\ tm_dir_ok true tm_osc_body = false /\
  term_ok tm_osc_tree = false.
Proof. vm_compute. repeat split; reflexivity. Qed.

Lemma tm_osc_body_steps (s s' : st) :
  (forall f, (f < 4)%nat -> sem (tm_demo_env [97]) f tm_osc_body s = Fuel) ->
  sem (tm_demo_env [97]) 4 tm_osc_body s = Ok [s'] ->
  forall f, sem (tm_demo_env [97]) f tm_osc_body s = Fuel \/ sem (tm_demo_env [97]) f tm_osc_body s = Ok [s'].
Proof.
  intros Hlow H4 f. destruct (le_lt_dec 4 f) as [Hle|Hlt].
  - right. exact (spec_sem_fuel_mono _ 4 f Hle _ _ _ H4).
  - left. apply Hlow. exact Hlt.
Qed.

Ltac tm_osc_steps :=
  apply tm_osc_body_steps;
  [intros f0 Hf0; destruct f0 as [|[|[|[|f0]]]]; [vm_compute; reflexivity ..|lia]|vm_compute; reflexivity].

(* the two states alternate for ever; only the iteration counter reaching INF could stop the loop *)
Lemma tm_osc_iter (body : st -> res (list st)) :
  (body tm_osc_A = Fuel \/ body tm_osc_A = Ok [tm_osc_B]) ->
  (body tm_osc_B = Fuel \/ body tm_osc_B = Ok [tm_osc_A]) ->
  forall fi count, 0 <= count -> count + Z.of_nat fi <= INF ->
    iter fi body false INF tm_osc_A 0 count = Fuel /\ iter fi body false INF tm_osc_B 1 count = Fuel.
Proof.
  intros HA HB. induction fi as [|fi IH]; intros count Hc Hf; [split; reflexivity|].
  destruct (IH (count + 1) ltac:(lia) ltac:(lia)) as [IA IB].
  cbn [iter]. replace (INF <=? count) with false by lia. replace (0 <=? count) with true by lia.
  cbn [pos tm_osc_A tm_osc_B]. change (1 =? 0) with false. change (0 =? 1) with false. cbn [orb andb].
  split.
  - destruct HA as [->| ->]; [reflexivity|]. unfold bindr, appr. cbn [bind bindl].
    change (pos tm_osc_A) with 1 in IB. cbn [pos tm_osc_A] in IB. rewrite IB. reflexivity.
  - destruct HB as [->| ->]; [reflexivity|]. unfold bindr, appr. cbn [bind bindl].
    cbn [pos tm_osc_B] in IA. rewrite IA. reflexivity.
Qed.

Theorem tm_osc_needs_more_than_INF :
  forall fuel, Z.of_nat fuel <= INF -> sem (tm_demo_env [97]) fuel tm_osc_tree tm_osc_s0 = Fuel.
Proof.
  intros fuel Hf. destruct fuel as [|[|[|f]]]; try reflexivity.
  set (e := tm_demo_env [97]).
  assert (HA : sem e (S f) tm_osc_body tm_osc_A = Fuel \/ sem e (S f) tm_osc_body tm_osc_A = Ok [tm_osc_B])
    by tm_osc_steps.
  assert (HB : sem e (S f) tm_osc_body tm_osc_B = Fuel \/ sem e (S f) tm_osc_body tm_osc_B = Ok [tm_osc_A])
    by tm_osc_steps.
  assert (H0 : sem e (S f) tm_osc_body tm_osc_s0 = Fuel \/ sem e (S f) tm_osc_body tm_osc_s0 = Ok [tm_osc_A])
    by tm_osc_steps.
  destruct (tm_osc_iter (sem e (S f) tm_osc_body) HA HB f 1 ltac:(lia) ltac:(lia)) as [IA _].
  change (sem e (S (S (S f))) tm_osc_tree tm_osc_s0)
    with (do l <- first_only (sem e (S (S f)) tm_osc_loop tm_osc_s0) ;
          Ok (map (fun s' => with_pos s' (pos tm_osc_s0)) l)).
  unfold tm_osc_loop. rewrite tm_sem_loop. change (0 =? 0) with true. cbv iota.
  change (INF =? INF) with true. cbv iota. cbn [iter].
  change (INF <=? 0) with false. cbn [pos tm_osc_s0]. change (0 =? -1) with false. cbn [orb andb].
  destruct H0 as [->| ->]; [reflexivity|]. unfold bindr, appr, first_only. cbn [bind bindl].
  cbn [pos tm_osc_A] in IA. change (0 + 1) with 1. rewrite IA. reflexivity.
Qed.

(* ... and yet it does terminate (the counter reaches INF after 2^31 iterations): B applies *)
Corollary tm_osc_terminates_eventually :
  exists fuel l, sem (tm_demo_env [97]) fuel tm_osc_tree tm_osc_s0 = Ok l.
Proof.
  exists (term_fuel_any tm_osc_tree). exact (spec_sem_total_any _ tm_osc_tree _ (Nat.le_refl _) tm_osc_s0).
Qed.

(* ------------------------------------------------------------------------------------------ *)
(* non-vacuity: the bound on small trees                                                       *)

(* the pattern ( a* )* on "aab": a nullable body under an unbounded loop -- the empty-iteration rule ends it *)
Definition tm_ex_star_star : node :=
  NLoop false 0 0 INF (NCapture 0 1 (-1) (NCharLoop COne LGreedy 0 97 0 INF)).
(* (?:ab){2,3} on "ababab" *)
Definition tm_ex_counted : node := NLoop false 0 2 3 (NMulti 0 [97; 98]).
(* right-to-left lazy (?:a|b)+? inside a lookbehind, after a left-to-right prefix *)
Definition tm_ex_lookbehind : node :=
  NConcat 0 [NMulti 0 [97; 98];
             NPosLook 64 (NLoop true 64 1 INF (NAlternate 64 [NChar COne 64 97; NChar COne 64 98]))].

Example tm_ex_fuel_values :
  term_ok tm_ex_star_star = true /\ term_fuel (tm_demo_env [97; 97; 98]) tm_ex_star_star = 6%nat /\
  term_ok tm_ex_counted = true /\ term_fuel (tm_demo_env [97; 98; 97; 98; 97; 98]) tm_ex_counted = 11%nat /\
  term_ok tm_ex_lookbehind = true /\ term_fuel (tm_demo_env [97; 98]) tm_ex_lookbehind = 8%nat.
Proof. vm_compute. repeat split; reflexivity. Qed.

Example tm_ex_star_star_runs :
  let e := tm_demo_env [97; 97; 98] in
  sem e (term_fuel e tm_ex_star_star) tm_ex_star_star {| pos := 0; caps := [] |} =
    Ok [{| pos := 2; caps := [(1, [(2, 0); (0, 2)])] |};
        {| pos := 2; caps := [(1, [(0, 2)])] |};
        {| pos := 2; caps := [(1, [(2, 0); (1, 1); (0, 1)])] |};
        {| pos := 2; caps := [(1, [(1, 1); (0, 1)])] |};
        {| pos := 1; caps := [(1, [(1, 0); (0, 1)])] |};
        {| pos := 1; caps := [(1, [(0, 1)])] |};
        {| pos := 0; caps := [(1, [(0, 0)])] |};
        {| pos := 0; caps := [] |}] /\
  sem e (term_fuel e tm_ex_star_star - 3) tm_ex_star_star {| pos := 0; caps := [] |} = Fuel.
Proof. vm_compute. split; reflexivity. Qed.

Example tm_ex_counted_runs :
  let e := tm_demo_env [97; 98; 97; 98; 97; 98] in
  sem e (term_fuel e tm_ex_counted) tm_ex_counted {| pos := 0; caps := [] |} =
    Ok [{| pos := 6; caps := [] |}; {| pos := 4; caps := [] |}] /\
  attempt e (term_fuel e tm_ex_counted) tm_ex_counted 1 = Ok None.
Proof. vm_compute. split; reflexivity. Qed.

Example tm_ex_lookbehind_runs :
  let e := tm_demo_env [97; 98] in
  find e (term_fuel e tm_ex_lookbehind) tm_ex_lookbehind false 0 (-1) = Ok (Some {| pos := 2; caps := [] |}) /\
  findk e (term_fuel e tm_ex_lookbehind) tm_ex_lookbehind false 0 (-1) = Ok (Some {| pos := 2; caps := [] |}).
Proof. vm_compute. split; reflexivity. Qed.
