(* Proofs about Model/CharClass.v: lookup paths, canonicalize, the add* mutators, singleton
   reduction, MayOverlap. *)
From Verif Require Import Base.Prelude Model.CharClass Proofs.CharClassRanges.
From Coq Require Import ZifyBool Permutation.
Ltac Zify.zify_post_hook ::= Z.div_mod_to_equations.

(* induction over the subtraction chain *)
Section ClsInd.
  Variable P : cls -> Prop.
  Hypothesis Hnone : forall rs cs ng an asc, P (Cls rs cs None ng an asc).
  Hypothesis Hsome : forall rs cs s ng an asc, P s -> P (Cls rs cs (Some s) ng an asc).
  Fixpoint cls_induction (c : cls) : P c :=
    match c with
    | Cls rs cs sb ng an asc =>
      match sb with
      | None => Hnone rs cs ng an asc
      | Some s => Hsome rs cs s ng an asc (cls_induction s)
      end
    end.
End ClsInd.

Definition valid_rune (ch : Z) : Prop := 0 <= ch <= max_rune.

Section Proofs.
  Variable cat_in : Z -> Z -> bool.

  (* ---------------------------------------------------------------- reference membership *)
  Definition cat_accepts (k : bool * Z) (ch : Z) : bool := xorb (fst k) (cat_in (snd k) ch).
  Definition cats_in (cs : list (bool * Z)) (ch : Z) : bool := existsb (fun k => cat_accepts k ch) cs.

  (* before subtraction *)
  Definition top_in (c : cls) (ch : Z) : bool :=
    xorb (neg c) (mem (ranges c) ch || cats_in (cats c) ch).

  (* plain set algebra on the representation: no fast path, no early exit, no bitmap *)
  Fixpoint plain_in (c : cls) (ch : Z) : bool :=
    match c with
    | Cls rs cs sb ng _ _ =>
      xorb ng (mem rs ch || cats_in cs ch) &&
      negb (match sb with Some s => plain_in s ch | None => false end)
    end.

  Definition sub_in (c : cls) (ch : Z) : bool :=
    match sub c with Some s => plain_in s ch | None => false end.

  Lemma plain_in_top c ch : plain_in c ch = top_in c ch && negb (sub_in c ch).
  Proof. destruct c; reflexivity. Qed.

  Lemma char_in_categories_spec cs ch : char_in_categories cat_in cs ch = cats_in cs ch.
  Proof.
    induction cs as [|[ng name] t IH]; [reflexivity|].
    cbn [char_in_categories cats_in existsb]. unfold cat_accepts at 1; cbn [fst snd].
    fold (cats_in t ch). rewrite IH. destruct (cat_in name ch), ng; reflexivity.
  Qed.

  (* every level has canonical ranges *)
  Fixpoint canonical (c : cls) : Prop :=
    match c with
    | Cls rs _ sb _ _ _ => canonical_ranges rs /\ match sb with Some s => canonical s | None => True end
    end.

  (* every bitmap present is the one prepareASCIIBitmap computes *)
  Fixpoint bitmaps_ok (c : cls) : Prop :=
    match c with
    | Cls rs cs sb ng an asc =>
      match asc with Some bm => bm = ascii_bitmap cat_in (Cls rs cs sb ng an asc) | None => True end /\
      match sb with Some s => bitmaps_ok s | None => True end
    end.

  (* ---------------------------------------------------------------- the bitmap *)
  Lemma testbit_one_shift m k : 0 <= m -> 0 <= k -> Z.testbit (Z.shiftl 1 m) k = (k =? m).
  Proof.
    intros Hm Hk. rewrite Z.shiftl_1_l. rewrite Z.pow2_bits_eqb by lia. apply Z.eqb_sym.
  Qed.

  Lemma bitmap_word_spec p base : base mod 64 = 0 -> 0 <= base ->
    forall n w k, (n <= 64)%nat -> 0 <= k ->
      Z.testbit (bitmap_word p base n w) k = Z.testbit w k || ((k <? Z.of_nat n) && p (base + k)).
  Proof.
    intros Hb Hb0. induction n as [|n IH]; intros w k Hn Hk.
    - cbn. replace (k <? 0) with false by lia. rewrite orb_false_r. reflexivity.
    - cbn [bitmap_word]. rewrite IH by lia.
      assert (Hi : (base + Z.of_nat n) mod 64 = Z.of_nat n).
      { rewrite Z.add_mod by lia. rewrite Hb. rewrite Z.add_0_l. rewrite Z.mod_mod by lia. apply Z.mod_small. lia. }
      rewrite Hi.
      destruct (p (base + Z.of_nat n)) eqn:Ep.
      + rewrite Z.lor_spec. rewrite testbit_one_shift by lia.
        destruct (k =? Z.of_nat n) eqn:Ek.
        * assert (k = Z.of_nat n) by lia. subst k. rewrite Ep.
          replace (Z.of_nat n <? Z.of_nat (S n)) with true by lia. cbn. rewrite !orb_true_r. reflexivity.
        * rewrite orb_false_r. f_equal.
          destruct (k <? Z.of_nat n) eqn:E1.
          -- replace (k <? Z.of_nat (S n)) with true by lia. reflexivity.
          -- replace (k <? Z.of_nat (S n)) with false by lia. reflexivity.
      + destruct (k =? Z.of_nat n) eqn:Ek.
        * assert (k = Z.of_nat n) by lia. subst k. rewrite Ep. rewrite !andb_false_r. reflexivity.
        * f_equal. destruct (k <? Z.of_nat n) eqn:E1.
          -- replace (k <? Z.of_nat (S n)) with true by lia. reflexivity.
          -- replace (k <? Z.of_nat (S n)) with false by lia. reflexivity.
  Qed.

  Lemma bitmap_test_spec c ch : 0 <= ch < 128 ->
    bitmap_test (ascii_bitmap cat_in c) ch = char_in_slow cat_in c ch.
  Proof.
    intros Hc. unfold bitmap_test, ascii_bitmap; cbn [fst snd].
    destruct (ch / 64 =? 0) eqn:E.
    - assert (0 <= ch < 64) by lia.
      rewrite bitmap_word_spec by (try reflexivity; lia).
      rewrite Z.mod_small by lia. rewrite Z.bits_0. cbn [orb].
      replace (ch <? Z.of_nat 64) with true by lia. reflexivity.
    - assert (64 <= ch < 128) by lia.
      rewrite bitmap_word_spec by (try reflexivity; lia).
      rewrite Z.bits_0. cbn [orb].
      replace (ch mod 64) with (ch - 64) by lia.
      replace (ch - 64 <? Z.of_nat 64) with true by lia.
      replace (64 + (ch - 64)) with ch by lia. reflexivity.
  Qed.

  (* ---------------------------------------------------------------- all lookup paths = plain membership *)
  Lemma char_in_unfold c ch :
    char_in cat_in c ch =
    match ascii c with
    | Some bm => if (0 <=? ch) && (ch <? 128) then bitmap_test bm ch else char_in_slow cat_in c ch
    | None => char_in_slow cat_in c ch
    end.
  Proof. reflexivity. Qed.

  Lemma char_in_slow_unfold rs cs sb ng an asc ch :
    char_in_slow cat_in (Cls rs cs sb ng an asc) ch =
    let v := in_ranges rs ch in
    let v := if negb v then (match cs with [] => v | _ => char_in_categories cat_in cs ch end) else v in
    let v := if ng then negb v else v in
    if v then match sb with Some s => negb (char_in cat_in s ch) | None => v end else v.
  Proof. reflexivity. Qed.

  Lemma lookup_agree c : canonical c -> bitmaps_ok c ->
    forall ch, char_in_slow cat_in c ch = plain_in c ch /\ char_in cat_in c ch = plain_in c ch.
  Proof.
    induction c as [rs cs ng an asc | rs cs s ng an asc IH] using cls_induction; intros Hc Hb ch.
    - cbn in Hc, Hb. destruct Hc as [Hc _]. destruct Hb as [Hb _].
      assert (Hs : char_in_slow cat_in (Cls rs cs None ng an asc) ch = plain_in (Cls rs cs None ng an asc) ch).
      { rewrite char_in_slow_unfold. cbn zeta. rewrite (in_ranges_canonical rs ch Hc).
        cbn [plain_in]. rewrite andb_true_r.
        replace (if negb (mem rs ch) then match cs with [] => mem rs ch | _ :: _ => char_in_categories cat_in cs ch end else mem rs ch)
          with (mem rs ch || cats_in cs ch).
        2:{ destruct (mem rs ch); cbn; [reflexivity|]. destruct cs; [reflexivity|]. rewrite char_in_categories_spec. reflexivity. }
        destruct ng, (mem rs ch || cats_in cs ch); reflexivity. }
      split; [exact Hs|].
      rewrite char_in_unfold. cbn [ascii]. destruct asc as [bm|]; [|exact Hs].
      destruct ((0 <=? ch) && (ch <? 128)) eqn:E; [|exact Hs].
      rewrite Hb. rewrite bitmap_test_spec by lia. exact Hs.
    - cbn in Hc, Hb. destruct Hc as [Hc Hcs]. destruct Hb as [Hb Hbs].
      destruct (IH Hcs Hbs ch) as [_ IH2].
      assert (Hs : char_in_slow cat_in (Cls rs cs (Some s) ng an asc) ch = plain_in (Cls rs cs (Some s) ng an asc) ch).
      { rewrite char_in_slow_unfold. cbn zeta. rewrite (in_ranges_canonical rs ch Hc).
        cbn [plain_in]. rewrite IH2.
        replace (if negb (mem rs ch) then match cs with [] => mem rs ch | _ :: _ => char_in_categories cat_in cs ch end else mem rs ch)
          with (mem rs ch || cats_in cs ch).
        2:{ destruct (mem rs ch); cbn; [reflexivity|]. destruct cs; [reflexivity|]. rewrite char_in_categories_spec. reflexivity. }
        destruct ng, (mem rs ch || cats_in cs ch); reflexivity. }
      split; [exact Hs|].
      rewrite char_in_unfold. cbn [ascii]. destruct asc as [bm|]; [|exact Hs].
      destruct ((0 <=? ch) && (ch <? 128)) eqn:E; [|exact Hs].
      rewrite Hb. rewrite bitmap_test_spec by lia. exact Hs.
  Qed.

  (* the individual range paths, on any canonical list *)
  Lemma range_paths_agree rs ch : canonical_ranges rs ->
    linear_scan rs ch = mem rs ch /\ binary_scan rs ch = mem rs ch.
  Proof.
    intros H. destruct (canonical_sorted_from rs H) as [p Hp].
    split; [eapply linear_scan_sorted|eapply binary_scan_sorted]; eauto.
  Qed.

  (* prepareASCIIBitmap keeps the set and produces correct bitmaps *)
  Lemma prepare_bitmaps_ok c : bitmaps_ok c -> bitmaps_ok (prepare_ascii_bitmap cat_in c).
  Proof.
    induction c as [rs cs ng an asc | rs cs s ng an asc IH] using cls_induction; intros Hb.
    - cbn [prepare_ascii_bitmap]. destruct asc; [exact Hb|]. cbn. auto.
    - cbn [prepare_ascii_bitmap]. destruct asc; [exact Hb|].
      cbn in Hb. destruct Hb as [_ Hb]. cbn [bitmaps_ok]. split; [reflexivity|]. apply IH. exact Hb.
  Qed.

  Lemma prepare_plain_in c ch : plain_in (prepare_ascii_bitmap cat_in c) ch = plain_in c ch.
  Proof.
    induction c as [rs cs ng an asc | rs cs s ng an asc IH] using cls_induction.
    - cbn [prepare_ascii_bitmap]. destruct asc; reflexivity.
    - cbn [prepare_ascii_bitmap]. destruct asc; [reflexivity|]. cbn [plain_in]. rewrite IH. reflexivity.
  Qed.

  Lemma prepare_canonical c : canonical c -> canonical (prepare_ascii_bitmap cat_in c).
  Proof.
    induction c as [rs cs ng an asc | rs cs s ng an asc IH] using cls_induction; intros Hc.
    - cbn [prepare_ascii_bitmap]. destruct asc; exact Hc.
    - cbn [prepare_ascii_bitmap]. destruct asc; [exact Hc|]. cbn in *. intuition.
  Qed.

  (* ---------------------------------------------------------------- canonicalize *)
  (* c' represents the same set as c on valid runes, with the same subtraction and bitmap,
     and its ranges are well-formed and canonical *)
  Definition same_set (c c' : cls) : Prop :=
    sub c' = sub c /\ ascii c' = ascii c /\ wf_ranges (ranges c') /\ canonical_ranges (ranges c') /\
    forall ch, valid_rune ch -> top_in c' ch = top_in c ch.

  Lemma same_set_refl c : wf_ranges (ranges c) -> canonical_ranges (ranges c) -> same_set c c.
  Proof. unfold same_set. auto. Qed.

  Lemma same_set_trans c1 c2 c3 : same_set c1 c2 -> same_set c2 c3 -> same_set c1 c3.
  Proof.
    unfold same_set. intros (A1 & A2 & A3 & A4 & A5) (B1 & B2 & B3 & B4 & B5).
    repeat split; try congruence; auto. intros ch Hv. rewrite B5, A5; auto.
  Qed.

  Lemma wf_single a b : 0 <= a -> a <= b -> b <= max_rune -> wf_ranges [(a, b)].
  Proof. intros. constructor; [repeat split; auto|constructor]. Qed.

  Lemma normal_form_1_ok c : wf_ranges (ranges c) -> canonical_ranges (ranges c) ->
    same_set c (normal_form_1 c).
  Proof.
    intros Hw Hc. destruct c as [rs cs sb ng an asc]. unfold normal_form_1. cbn [neg no_sub no_cats sub cats ranges] in *.
    destruct ng; [apply same_set_refl; auto|].
    destruct sb; [apply same_set_refl; auto|].
    destruct cs; [|apply same_set_refl; auto]. cbn [negb andb no_sub no_cats sub cats neg ranges].
    destruct rs as [|[a0 b0] [|[a1 b1] [|r3 t]]]; try (apply same_set_refl; auto).
    - (* one range *)
      inversion Hw as [|? ? W1 _]; subst. destruct W1 as (V1 & V2 & V3); cbn [fst snd] in *.
      destruct (a0 =? 0) eqn:E0.
      + destruct (b0 =? max_rune - 1) eqn:E1; [|apply same_set_refl; auto].
        unfold same_set, set_neg, set_ranges; cbn [sub ascii ranges cats neg anything].
        repeat split; auto; [apply wf_single; unfold max_rune; lia|cbn; unfold max_rune; lia|].
        intros ch [Hv1 Hv2]. unfold top_in, mem, in_range, cats_in; cbn [neg ranges cats existsb fst snd]. unfold max_rune in *. lia.
      + destruct (a0 =? 1) eqn:E1; [|apply same_set_refl; auto].
        destruct (b0 >=? max_rune) eqn:E2; [|apply same_set_refl; auto].
        unfold same_set, set_neg, set_ranges; cbn [sub ascii ranges cats neg anything].
        repeat split; auto; [apply wf_single; unfold max_rune; lia|cbn; lia|].
        intros ch [Hv1 Hv2]. unfold top_in, mem, in_range, cats_in; cbn [neg ranges cats existsb fst snd]. unfold max_rune in *. lia.
    - (* two ranges *)
      inversion Hw as [|? ? W1 W2]; subst. inversion W2 as [|? ? W3 _]; subst.
      destruct W1 as (V1 & V2 & V3); destruct W3 as (U1 & U2 & U3); cbn [fst snd] in *.
      destruct ((a0 =? 0) && (b1 >=? max_rune) && (b0 <? a1 - 1)) eqn:E; [|apply same_set_refl; auto].
      unfold same_set, set_neg, set_ranges; cbn [sub ascii ranges cats neg anything].
      repeat split; auto; [apply wf_single; lia|cbn; lia|].
      intros ch [Hv1 Hv2]. unfold top_in, mem, in_range, cats_in; cbn [neg ranges cats existsb fst snd]. lia.
  Qed.

  Lemma make_anything_top c ch : valid_rune ch -> top_in (make_anything c) ch = negb (neg c).
  Proof.
    intros [H1 H2]. unfold top_in, make_anything, mem, in_range, cats_in; cbn [neg ranges cats existsb fst snd].
    replace ((0 <=? ch) && (ch <=? max_rune)) with true by lia. destruct (neg c); reflexivity.
  Qed.

  Lemma make_anything_shape c : sub (make_anything c) = sub c /\ ascii (make_anything c) = ascii c /\
    wf_ranges (ranges (make_anything c)) /\ canonical_ranges (ranges (make_anything c)).
  Proof. unfold make_anything; cbn. repeat split; auto; [apply wf_single; unfold max_rune; lia|unfold max_rune; lia]. Qed.

  Lemma normal_form_2_ok c : wf_ranges (ranges c) -> canonical_ranges (ranges c) ->
    same_set c (normal_form_2 c).
  Proof.
    intros Hw Hc. unfold normal_form_2.
    destruct (negb (neg c) && no_sub c) eqn:E; [|apply same_set_refl; auto].
    destruct (ranges c) as [|[a b] [|r2 t]] eqn:Er; try (apply same_set_refl; rewrite ?Er; auto).
    destruct ((a =? 0) && (b >=? max_rune)) eqn:E2; [|apply same_set_refl; rewrite ?Er; auto].
    destruct (make_anything_shape c) as (S1 & S2 & S3 & S4).
    unfold same_set. split; [exact S1|split; [exact S2|split; [exact S3|split; [exact S4|]]]].
    intros ch Hv. rewrite make_anything_top by auto.
    destruct Hv as [Hv1 Hv2]. unfold top_in. rewrite Er. unfold mem, in_range; cbn [existsb fst snd].
    destruct (neg c); [discriminate|]. replace ((a <=? ch) && (ch <=? b)) with true by lia. reflexivity.
  Qed.

  Lemma normal_form_3_ok c : wf_ranges (ranges c) -> canonical_ranges (ranges c) ->
    same_set c (normal_form_3 cat_in c).
  Proof.
    intros Hw Hc. unfold normal_form_3.
    destruct (negb (neg c) && no_sub c && negb (no_cats c)) eqn:E; [|apply same_set_refl; auto].
    destruct (ranges c) as [|[a0 b0] [|[a1 b1] [|r3 t]]] eqn:Er; try (apply same_set_refl; rewrite ?Er; auto).
    destruct ((a0 =? 0) && (b0 + 2 =? a1) && (b1 =? max_rune)) eqn:E2; [|apply same_set_refl; rewrite ?Er; auto].
    inversion Hw as [|? ? W1 W2]; subst. inversion W2 as [|? ? W3 _]; subst.
    destruct W1 as (V1 & V2 & V3); destruct W3 as (U1 & U2 & U3); cbn [fst snd] in *.
    assert (Hn : neg c = false) by (destruct (neg c); [discriminate|reflexivity]).
    rewrite char_in_categories_spec.
    destruct (cats_in (cats c) (b0 + 1)) eqn:Eg.
    - destruct (make_anything_shape c) as (S1 & S2 & S3 & S4).
      unfold same_set. split; [exact S1|split; [exact S2|split; [exact S3|split; [exact S4|]]]].
      intros ch Hv. rewrite make_anything_top by auto. rewrite Hn.
      destruct Hv as [Hv1 Hv2]. unfold top_in. rewrite Er, Hn. unfold mem, in_range; cbn [existsb fst snd negb xorb].
      destruct (ch =? b0 + 1) eqn:Ec.
      + assert (ch = b0 + 1) by lia. subst ch. rewrite Eg. rewrite !orb_true_r. reflexivity.
      + replace ((a0 <=? ch) && (ch <=? b0) || ((a1 <=? ch) && (ch <=? b1) || false)) with true by lia. reflexivity.
    - unfold same_set, set_cats, set_neg, set_ranges; cbn [sub ascii ranges cats neg anything].
      repeat split; auto; [apply wf_single; lia|cbn; lia|].
      intros ch [Hv1 Hv2]. unfold top_in at 1. cbn [neg ranges cats]. unfold top_in. rewrite Er, Hn.
      unfold mem, in_range, cats_in at 1; cbn [existsb fst snd].
      destruct (ch =? b0 + 1) eqn:Ec.
      + assert (ch = b0 + 1) by lia. subst ch. rewrite Eg.
        replace ((a0 <=? b0 + 1) && (b0 + 1 <=? b0)) with false by lia.
        replace ((a1 <=? b0 + 1) && (b0 + 1 <=? b1)) with false by lia.
        replace ((b0 + 1 <=? b0 + 1) && (b0 + 1 <=? b0 + 1)) with true by lia. reflexivity.
      + replace ((b0 + 1 <=? ch) && (ch <=? b0 + 1)) with false by lia.
        replace ((a0 <=? ch) && (ch <=? b0) || ((a1 <=? ch) && (ch <=? b1) || false)) with true by lia. reflexivity.
  Qed.

  Lemma merged_ok c : wf_ranges (ranges c) -> same_set c (set_ranges c (merged (ranges c))).
  Proof.
    intros Hw. unfold same_set, set_ranges; cbn [sub ascii ranges cats neg].
    repeat split; auto; [apply merged_wf; auto|apply merged_canonical; auto|].
    intros ch _. unfold top_in; cbn [neg ranges cats]. rewrite merged_mem by auto. reflexivity.
  Qed.

  Lemma canonicalize_unfold c :
    canonicalize cat_in c =
    match ranges c with
    | [] => c
    | _ => normal_form_3 cat_in (normal_form_2 (normal_form_1 (set_ranges c (merged (ranges c)))))
    end.
  Proof.
    destruct c as [rs cs sb ng an asc]. unfold canonicalize; cbn [ranges].
    destruct rs as [|r1 [|r2 t]]; reflexivity.
  Qed.

  Lemma canonicalize_same_set c : wf_ranges (ranges c) -> same_set c (canonicalize cat_in c).
  Proof.
    intros Hw. rewrite canonicalize_unfold.
    destruct (ranges c) as [|r t] eqn:Er.
    - apply same_set_refl; rewrite Er; [constructor|exact I].
    - rewrite <- Er in *.
      pose proof (merged_ok c Hw) as H0. set (c0 := set_ranges c (merged (ranges c))) in *.
      assert (H1 : same_set c0 (normal_form_1 c0)) by (apply normal_form_1_ok; apply H0).
      set (c1 := normal_form_1 c0) in *.
      assert (H2 : same_set c1 (normal_form_2 c1)) by (apply normal_form_2_ok; apply H1).
      set (c2 := normal_form_2 c1) in *.
      assert (H3 : same_set c2 (normal_form_3 cat_in c2)) by (apply normal_form_3_ok; apply H2).
      eapply same_set_trans; [|exact H3]. eapply same_set_trans; [|exact H2]. eapply same_set_trans; eauto.
  Qed.

  Lemma same_set_plain c c' ch : same_set c c' -> valid_rune ch -> plain_in c' ch = plain_in c ch.
  Proof.
    intros (S1 & _ & _ & _ & S5) Hv. rewrite !plain_in_top. rewrite S5 by auto.
    unfold sub_in. rewrite S1. reflexivity.
  Qed.

  (* canonicalize_preserves, canonical_sorted *)
  Lemma canonicalize_plain_in c ch : wf_ranges (ranges c) -> valid_rune ch ->
    plain_in (canonicalize cat_in c) ch = plain_in c ch.
  Proof. intros Hw Hv. eapply same_set_plain; eauto. apply canonicalize_same_set; auto. Qed.

  Lemma canonicalize_canonical_ranges c : wf_ranges (ranges c) ->
    canonical_ranges (ranges (canonicalize cat_in c)) /\ wf_ranges (ranges (canonicalize cat_in c)).
  Proof. intros Hw. destruct (canonicalize_same_set c Hw) as (_ & _ & A & B & _). auto. Qed.

  Lemma canonicalize_sub c : sub (canonicalize cat_in c) = sub c /\ ascii (canonicalize cat_in c) = ascii c.
  Proof.
    rewrite canonicalize_unfold. destruct (ranges c) eqn:Er; [auto|].
    assert (G : forall x, sub (normal_form_1 x) = sub x /\ ascii (normal_form_1 x) = ascii x).
    { intros x. unfold normal_form_1. destruct (negb (neg x) && no_sub x && no_cats x); [|auto].
      destruct (ranges x) as [|[a0 b0] [|[a1 b1] [|]]]; auto.
      - destruct (a0 =? 0); [destruct (b0 =? max_rune - 1); auto|]. destruct (a0 =? 1); [destruct (b0 >=? max_rune)|]; auto.
      - destruct ((a0 =? 0) && (b1 >=? max_rune) && (b0 <? a1 - 1)); auto. }
    assert (G2 : forall x, sub (normal_form_2 x) = sub x /\ ascii (normal_form_2 x) = ascii x).
    { intros x. unfold normal_form_2. destruct (negb (neg x) && no_sub x); [|auto].
      destruct (ranges x) as [|[a0 b0] [|]]; auto. destruct ((a0 =? 0) && (b0 >=? max_rune)); auto. }
    assert (G3 : forall x, sub (normal_form_3 cat_in x) = sub x /\ ascii (normal_form_3 cat_in x) = ascii x).
    { intros x. unfold normal_form_3. destruct (negb (neg x) && no_sub x && negb (no_cats x)); [|auto].
      destruct (ranges x) as [|[a0 b0] [|[a1 b1] [|]]]; auto.
      destruct ((a0 =? 0) && (b0 + 2 =? a1) && (b1 =? max_rune)); auto.
      destruct (char_in_categories cat_in (cats x) (b0 + 1)); auto. }
    split.
    - rewrite (proj1 (G3 _)), (proj1 (G2 _)), (proj1 (G _)). reflexivity.
    - rewrite (proj2 (G3 _)), (proj2 (G2 _)), (proj2 (G _)). reflexivity.
  Qed.

End Proofs.
