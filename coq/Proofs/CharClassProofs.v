(* Proofs about Model/CharClass.v: lookup paths, canonicalize, the add* mutators, singleton
   reduction, MayOverlap. *)
From Verif Require Import Base.Prelude Model.CharClass Proofs.CharClassRanges.
From Coq Require Import ZifyBool Permutation.
Ltac Zify.zify_post_hook ::= Z.div_mod_to_equations.

(* induction over the subtraction chain *)
Section ClsInd.
  Variable P : cls -> Prop.
  Hypothesis Hnone : forall rs cs ng an asc, P (Cls rs cs None ng an asc).
  Hypothesis Hsome : forall rs cs s ng an asc, P s -> P (Cls rs cs (Some s) ng an asc).
  Fixpoint cls_induction (c : cls) : P c :=
    match c with
    | Cls rs cs sb ng an asc =>
      match sb with
      | None => Hnone rs cs ng an asc
      | Some s => Hsome rs cs s ng an asc (cls_induction s)
      end
    end.
End ClsInd.

Definition valid_rune (ch : Z) : Prop := 0 <= ch <= max_rune.

Section Proofs.
  Variable cat_in : Z -> Z -> bool.

  (* ---------------------------------------------------------------- reference membership *)
  Definition cat_accepts (k : bool * Z) (ch : Z) : bool := xorb (fst k) (cat_in (snd k) ch).
  Definition cats_in (cs : list (bool * Z)) (ch : Z) : bool := existsb (fun k => cat_accepts k ch) cs.

  (* before subtraction *)
  Definition top_in (c : cls) (ch : Z) : bool :=
    xorb (neg c) (mem (ranges c) ch || cats_in (cats c) ch).

  (* plain set algebra on the representation: no fast path, no early exit, no bitmap *)
  Fixpoint plain_in (c : cls) (ch : Z) : bool :=
    match c with
    | Cls rs cs sb ng _ _ =>
      xorb ng (mem rs ch || cats_in cs ch) &&
      negb (match sb with Some s => plain_in s ch | None => false end)
    end.

  Definition sub_in (c : cls) (ch : Z) : bool :=
    match sub c with Some s => plain_in s ch | None => false end.

  Lemma plain_in_top c ch : plain_in c ch = top_in c ch && negb (sub_in c ch).
  Proof. destruct c; reflexivity. Qed.

  Lemma char_in_categories_spec cs ch : char_in_categories cat_in cs ch = cats_in cs ch.
  Proof.
    induction cs as [|[ng name] t IH]; [reflexivity|].
    cbn [char_in_categories cats_in existsb]. unfold cat_accepts at 1; cbn [fst snd].
    fold (cats_in t ch). rewrite IH. destruct (cat_in name ch), ng; reflexivity.
  Qed.

  (* every level has canonical ranges *)
  Fixpoint canonical (c : cls) : Prop :=
    match c with
    | Cls rs _ sb _ _ _ => canonical_ranges rs /\ match sb with Some s => canonical s | None => True end
    end.

  (* every bitmap present is the one prepareASCIIBitmap computes *)
  Fixpoint bitmaps_ok (c : cls) : Prop :=
    match c with
    | Cls rs cs sb ng an asc =>
      match asc with Some bm => bm = ascii_bitmap cat_in (Cls rs cs sb ng an asc) | None => True end /\
      match sb with Some s => bitmaps_ok s | None => True end
    end.

  (* ---------------------------------------------------------------- the bitmap *)
  Lemma testbit_one_shift m k : 0 <= m -> 0 <= k -> Z.testbit (Z.shiftl 1 m) k = (k =? m).
  Proof.
    intros Hm Hk. rewrite Z.shiftl_1_l. rewrite Z.pow2_bits_eqb by lia. apply Z.eqb_sym.
  Qed.

  Lemma bitmap_word_spec p base : base mod 64 = 0 -> 0 <= base ->
    forall n w k, (n <= 64)%nat -> 0 <= k ->
      Z.testbit (bitmap_word p base n w) k = Z.testbit w k || ((k <? Z.of_nat n) && p (base + k)).
  Proof.
    intros Hb Hb0. induction n as [|n IH]; intros w k Hn Hk.
    - cbn. replace (k <? 0) with false by lia. rewrite orb_false_r. reflexivity.
    - cbn [bitmap_word]. rewrite IH by lia.
      assert (Hi : (base + Z.of_nat n) mod 64 = Z.of_nat n).
      { rewrite Z.add_mod by lia. rewrite Hb. rewrite Z.add_0_l. rewrite Z.mod_mod by lia. apply Z.mod_small. lia. }
      rewrite Hi.
      destruct (p (base + Z.of_nat n)) eqn:Ep.
      + rewrite Z.lor_spec. rewrite testbit_one_shift by lia.
        destruct (k =? Z.of_nat n) eqn:Ek.
        * assert (k = Z.of_nat n) by lia. subst k. rewrite Ep.
          replace (Z.of_nat n <? Z.of_nat (S n)) with true by lia. cbn. rewrite !orb_true_r. reflexivity.
        * rewrite orb_false_r. f_equal.
          destruct (k <? Z.of_nat n) eqn:E1.
          -- replace (k <? Z.of_nat (S n)) with true by lia. reflexivity.
          -- replace (k <? Z.of_nat (S n)) with false by lia. reflexivity.
      + destruct (k =? Z.of_nat n) eqn:Ek.
        * assert (k = Z.of_nat n) by lia. subst k. rewrite Ep. rewrite !andb_false_r. reflexivity.
        * f_equal. destruct (k <? Z.of_nat n) eqn:E1.
          -- replace (k <? Z.of_nat (S n)) with true by lia. reflexivity.
          -- replace (k <? Z.of_nat (S n)) with false by lia. reflexivity.
  Qed.

  Lemma bitmap_test_spec c ch : 0 <= ch < 128 ->
    bitmap_test (ascii_bitmap cat_in c) ch = char_in_slow cat_in c ch.
  Proof.
    intros Hc. unfold bitmap_test, ascii_bitmap; cbn [fst snd].
    destruct (ch / 64 =? 0) eqn:E.
    - assert (0 <= ch < 64) by lia.
      rewrite bitmap_word_spec by (try reflexivity; lia).
      rewrite Z.mod_small by lia. rewrite Z.bits_0. cbn [orb].
      replace (ch <? Z.of_nat 64) with true by lia. reflexivity.
    - assert (64 <= ch < 128) by lia.
      rewrite bitmap_word_spec by (try reflexivity; lia).
      rewrite Z.bits_0. cbn [orb].
      replace (ch mod 64) with (ch - 64) by lia.
      replace (ch - 64 <? Z.of_nat 64) with true by lia.
      replace (64 + (ch - 64)) with ch by lia. reflexivity.
  Qed.

  (* ---------------------------------------------------------------- all lookup paths = plain membership *)
  Lemma char_in_unfold c ch :
    char_in cat_in c ch =
    match ascii c with
    | Some bm => if (0 <=? ch) && (ch <? 128) then bitmap_test bm ch else char_in_slow cat_in c ch
    | None => char_in_slow cat_in c ch
    end.
  Proof. reflexivity. Qed.

  Lemma char_in_slow_unfold rs cs sb ng an asc ch :
    char_in_slow cat_in (Cls rs cs sb ng an asc) ch =
    let v := in_ranges rs ch in
    let v := if negb v then (match cs with [] => v | _ => char_in_categories cat_in cs ch end) else v in
    let v := if ng then negb v else v in
    if v then match sb with Some s => negb (char_in cat_in s ch) | None => v end else v.
  Proof. reflexivity. Qed.

  Lemma lookup_agree c : canonical c -> bitmaps_ok c ->
    forall ch, char_in_slow cat_in c ch = plain_in c ch /\ char_in cat_in c ch = plain_in c ch.
  Proof.
    induction c as [rs cs ng an asc | rs cs s ng an asc IH] using cls_induction; intros Hc Hb ch.
    - cbn in Hc, Hb. destruct Hc as [Hc _]. destruct Hb as [Hb _].
      assert (Hs : char_in_slow cat_in (Cls rs cs None ng an asc) ch = plain_in (Cls rs cs None ng an asc) ch).
      { rewrite char_in_slow_unfold. cbn zeta. rewrite (in_ranges_canonical rs ch Hc).
        cbn [plain_in]. rewrite andb_true_r.
        replace (if negb (mem rs ch) then match cs with [] => mem rs ch | _ :: _ => char_in_categories cat_in cs ch end else mem rs ch)
          with (mem rs ch || cats_in cs ch).
        2:{ destruct (mem rs ch); cbn; [reflexivity|]. destruct cs; [reflexivity|]. rewrite char_in_categories_spec. reflexivity. }
        destruct ng, (mem rs ch || cats_in cs ch); reflexivity. }
      split; [exact Hs|].
      rewrite char_in_unfold. cbn [ascii]. destruct asc as [bm|]; [|exact Hs].
      destruct ((0 <=? ch) && (ch <? 128)) eqn:E; [|exact Hs].
      rewrite Hb. rewrite bitmap_test_spec by lia. exact Hs.
    - cbn in Hc, Hb. destruct Hc as [Hc Hcs]. destruct Hb as [Hb Hbs].
      destruct (IH Hcs Hbs ch) as [_ IH2].
      assert (Hs : char_in_slow cat_in (Cls rs cs (Some s) ng an asc) ch = plain_in (Cls rs cs (Some s) ng an asc) ch).
      { rewrite char_in_slow_unfold. cbn zeta. rewrite (in_ranges_canonical rs ch Hc).
        cbn [plain_in]. rewrite IH2.
        replace (if negb (mem rs ch) then match cs with [] => mem rs ch | _ :: _ => char_in_categories cat_in cs ch end else mem rs ch)
          with (mem rs ch || cats_in cs ch).
        2:{ destruct (mem rs ch); cbn; [reflexivity|]. destruct cs; [reflexivity|]. rewrite char_in_categories_spec. reflexivity. }
        destruct ng, (mem rs ch || cats_in cs ch); reflexivity. }
      split; [exact Hs|].
      rewrite char_in_unfold. cbn [ascii]. destruct asc as [bm|]; [|exact Hs].
      destruct ((0 <=? ch) && (ch <? 128)) eqn:E; [|exact Hs].
      rewrite Hb. rewrite bitmap_test_spec by lia. exact Hs.
  Qed.

  (* the individual range paths, on any canonical list *)
  Lemma range_paths_agree rs ch : canonical_ranges rs ->
    linear_scan rs ch = mem rs ch /\ binary_scan rs ch = mem rs ch.
  Proof.
    intros H. destruct (canonical_sorted_from rs H) as [p Hp].
    split; [eapply linear_scan_sorted|eapply binary_scan_sorted]; eauto.
  Qed.

  (* prepareASCIIBitmap keeps the set and produces correct bitmaps *)
  Lemma prepare_bitmaps_ok c : bitmaps_ok c -> bitmaps_ok (prepare_ascii_bitmap cat_in c).
  Proof.
    induction c as [rs cs ng an asc | rs cs s ng an asc IH] using cls_induction; intros Hb.
    - cbn [prepare_ascii_bitmap]. destruct asc; [exact Hb|]. cbn. auto.
    - cbn [prepare_ascii_bitmap]. destruct asc; [exact Hb|].
      cbn in Hb. destruct Hb as [_ Hb]. cbn [bitmaps_ok]. split; [reflexivity|]. apply IH. exact Hb.
  Qed.

  Lemma prepare_plain_in c ch : plain_in (prepare_ascii_bitmap cat_in c) ch = plain_in c ch.
  Proof.
    induction c as [rs cs ng an asc | rs cs s ng an asc IH] using cls_induction.
    - cbn [prepare_ascii_bitmap]. destruct asc; reflexivity.
    - cbn [prepare_ascii_bitmap]. destruct asc; [reflexivity|]. cbn [plain_in]. rewrite IH. reflexivity.
  Qed.

  Lemma prepare_canonical c : canonical c -> canonical (prepare_ascii_bitmap cat_in c).
  Proof.
    induction c as [rs cs ng an asc | rs cs s ng an asc IH] using cls_induction; intros Hc.
    - cbn [prepare_ascii_bitmap]. destruct asc; exact Hc.
    - cbn [prepare_ascii_bitmap]. destruct asc; [exact Hc|]. cbn in *. intuition.
  Qed.

  (* ---------------------------------------------------------------- canonicalize *)
  (* c' represents the same set as c on valid runes, with the same subtraction and bitmap,
     and its ranges are well-formed and canonical *)
  Definition same_set (c c' : cls) : Prop :=
    sub c' = sub c /\ ascii c' = ascii c /\ wf_ranges (ranges c') /\ canonical_ranges (ranges c') /\
    forall ch, valid_rune ch -> top_in c' ch = top_in c ch.

  Lemma same_set_refl c : wf_ranges (ranges c) -> canonical_ranges (ranges c) -> same_set c c.
  Proof. unfold same_set. auto. Qed.

  Lemma same_set_trans c1 c2 c3 : same_set c1 c2 -> same_set c2 c3 -> same_set c1 c3.
  Proof.
    unfold same_set. intros (A1 & A2 & A3 & A4 & A5) (B1 & B2 & B3 & B4 & B5).
    repeat split; try congruence; auto. intros ch Hv. rewrite B5, A5; auto.
  Qed.

  Lemma wf_single a b : 0 <= a -> a <= b -> b <= max_rune -> wf_ranges [(a, b)].
  Proof. intros. constructor; [repeat split; auto|constructor]. Qed.

  Lemma normal_form_1_ok c : wf_ranges (ranges c) -> canonical_ranges (ranges c) ->
    same_set c (normal_form_1 c).
  Proof.
    intros Hw Hc. destruct c as [rs cs sb ng an asc]. unfold normal_form_1. cbn [neg no_sub no_cats sub cats ranges] in *.
    destruct ng; [apply same_set_refl; auto|].
    destruct sb; [apply same_set_refl; auto|].
    destruct cs; [|apply same_set_refl; auto]. cbn [negb andb no_sub no_cats sub cats neg ranges].
    destruct rs as [|[a0 b0] [|[a1 b1] [|r3 t]]]; try (apply same_set_refl; auto).
    - (* one range *)
      inversion Hw as [|? ? W1 _]; subst. destruct W1 as (V1 & V2 & V3); cbn [fst snd] in *.
      destruct (a0 =? 0) eqn:E0.
      + destruct (b0 =? max_rune - 1) eqn:E1; [|apply same_set_refl; auto].
        unfold same_set, set_neg, set_ranges; cbn [sub ascii ranges cats neg anything].
        repeat split; auto; [apply wf_single; unfold max_rune; lia|cbn; unfold max_rune; lia|].
        intros ch [Hv1 Hv2]. unfold top_in, mem, in_range, cats_in; cbn [neg ranges cats existsb fst snd]. unfold max_rune in *. lia.
      + destruct (a0 =? 1) eqn:E1; [|apply same_set_refl; auto].
        destruct (b0 >=? max_rune) eqn:E2; [|apply same_set_refl; auto].
        unfold same_set, set_neg, set_ranges; cbn [sub ascii ranges cats neg anything].
        repeat split; auto; [apply wf_single; unfold max_rune; lia|cbn; lia|].
        intros ch [Hv1 Hv2]. unfold top_in, mem, in_range, cats_in; cbn [neg ranges cats existsb fst snd]. unfold max_rune in *. lia.
    - (* two ranges *)
      inversion Hw as [|? ? W1 W2]; subst. inversion W2 as [|? ? W3 _]; subst.
      destruct W1 as (V1 & V2 & V3); destruct W3 as (U1 & U2 & U3); cbn [fst snd] in *.
      destruct ((a0 =? 0) && (b1 >=? max_rune) && (b0 <? a1 - 1)) eqn:E; [|apply same_set_refl; auto].
      unfold same_set, set_neg, set_ranges; cbn [sub ascii ranges cats neg anything].
      repeat split; auto; [apply wf_single; lia|cbn; lia|].
      intros ch [Hv1 Hv2]. unfold top_in, mem, in_range, cats_in; cbn [neg ranges cats existsb fst snd]. lia.
  Qed.

  Lemma make_anything_top c ch : valid_rune ch -> top_in (make_anything c) ch = negb (neg c).
  Proof.
    intros [H1 H2]. unfold top_in, make_anything, mem, in_range, cats_in; cbn [neg ranges cats existsb fst snd].
    replace ((0 <=? ch) && (ch <=? max_rune)) with true by lia. destruct (neg c); reflexivity.
  Qed.

  Lemma make_anything_shape c : sub (make_anything c) = sub c /\ ascii (make_anything c) = ascii c /\
    wf_ranges (ranges (make_anything c)) /\ canonical_ranges (ranges (make_anything c)).
  Proof. unfold make_anything; cbn. repeat split; auto; [apply wf_single; unfold max_rune; lia|unfold max_rune; lia]. Qed.

  Lemma normal_form_2_ok c : wf_ranges (ranges c) -> canonical_ranges (ranges c) ->
    same_set c (normal_form_2 c).
  Proof.
    intros Hw Hc. unfold normal_form_2.
    destruct (negb (neg c) && no_sub c) eqn:E; [|apply same_set_refl; auto].
    destruct (ranges c) as [|[a b] [|r2 t]] eqn:Er; try (apply same_set_refl; rewrite ?Er; auto).
    destruct ((a =? 0) && (b >=? max_rune)) eqn:E2; [|apply same_set_refl; rewrite ?Er; auto].
    destruct (make_anything_shape c) as (S1 & S2 & S3 & S4).
    unfold same_set. split; [exact S1|split; [exact S2|split; [exact S3|split; [exact S4|]]]].
    intros ch Hv. rewrite make_anything_top by auto.
    destruct Hv as [Hv1 Hv2]. unfold top_in. rewrite Er. unfold mem, in_range; cbn [existsb fst snd].
    destruct (neg c); [discriminate|]. replace ((a <=? ch) && (ch <=? b)) with true by lia. reflexivity.
  Qed.

  Lemma normal_form_3_ok c : wf_ranges (ranges c) -> canonical_ranges (ranges c) ->
    same_set c (normal_form_3 cat_in c).
  Proof.
    intros Hw Hc. unfold normal_form_3.
    destruct (negb (neg c) && no_sub c && negb (no_cats c)) eqn:E; [|apply same_set_refl; auto].
    destruct (ranges c) as [|[a0 b0] [|[a1 b1] [|r3 t]]] eqn:Er; try (apply same_set_refl; rewrite ?Er; auto).
    destruct ((a0 =? 0) && (b0 + 2 =? a1) && (b1 =? max_rune)) eqn:E2; [|apply same_set_refl; rewrite ?Er; auto].
    inversion Hw as [|? ? W1 W2]; subst. inversion W2 as [|? ? W3 _]; subst.
    destruct W1 as (V1 & V2 & V3); destruct W3 as (U1 & U2 & U3); cbn [fst snd] in *.
    assert (Hn : neg c = false) by (destruct (neg c); [discriminate|reflexivity]).
    rewrite char_in_categories_spec.
    destruct (cats_in (cats c) (b0 + 1)) eqn:Eg.
    - destruct (make_anything_shape c) as (S1 & S2 & S3 & S4).
      unfold same_set. split; [exact S1|split; [exact S2|split; [exact S3|split; [exact S4|]]]].
      intros ch Hv. rewrite make_anything_top by auto. rewrite Hn.
      destruct Hv as [Hv1 Hv2]. unfold top_in. rewrite Er, Hn. unfold mem, in_range; cbn [existsb fst snd negb xorb].
      destruct (ch =? b0 + 1) eqn:Ec.
      + assert (ch = b0 + 1) by lia. subst ch. rewrite Eg. rewrite !orb_true_r. reflexivity.
      + replace ((a0 <=? ch) && (ch <=? b0) || ((a1 <=? ch) && (ch <=? b1) || false)) with true by lia. reflexivity.
    - unfold same_set, set_cats, set_neg, set_ranges; cbn [sub ascii ranges cats neg anything].
      repeat split; auto; [apply wf_single; lia|cbn; lia|].
      intros ch [Hv1 Hv2]. unfold top_in at 1. cbn [neg ranges cats]. unfold top_in. rewrite Er, Hn.
      unfold mem, in_range, cats_in at 1; cbn [existsb fst snd].
      destruct (ch =? b0 + 1) eqn:Ec.
      + assert (ch = b0 + 1) by lia. subst ch. rewrite Eg.
        replace ((a0 <=? b0 + 1) && (b0 + 1 <=? b0)) with false by lia.
        replace ((a1 <=? b0 + 1) && (b0 + 1 <=? b1)) with false by lia.
        replace ((b0 + 1 <=? b0 + 1) && (b0 + 1 <=? b0 + 1)) with true by lia. reflexivity.
      + replace ((b0 + 1 <=? ch) && (ch <=? b0 + 1)) with false by lia.
        replace ((a0 <=? ch) && (ch <=? b0) || ((a1 <=? ch) && (ch <=? b1) || false)) with true by lia. reflexivity.
  Qed.

  Lemma merged_ok c : wf_ranges (ranges c) -> same_set c (set_ranges c (merged (ranges c))).
  Proof.
    intros Hw. unfold same_set, set_ranges; cbn [sub ascii ranges cats neg].
    repeat split; auto; [apply merged_wf; auto|apply merged_canonical; auto|].
    intros ch _. unfold top_in; cbn [neg ranges cats]. rewrite merged_mem by auto. reflexivity.
  Qed.

  Lemma canonicalize_unfold c :
    canonicalize cat_in c =
    match ranges c with
    | [] => c
    | _ => normal_form_3 cat_in (normal_form_2 (normal_form_1 (set_ranges c (merged (ranges c)))))
    end.
  Proof.
    destruct c as [rs cs sb ng an asc]. unfold canonicalize; cbn [ranges].
    destruct rs as [|r1 [|r2 t]]; reflexivity.
  Qed.

  Lemma canonicalize_same_set c : wf_ranges (ranges c) -> same_set c (canonicalize cat_in c).
  Proof.
    intros Hw. rewrite canonicalize_unfold.
    destruct (ranges c) as [|r t] eqn:Er.
    - apply same_set_refl; rewrite Er; [constructor|exact I].
    - rewrite <- Er in *.
      pose proof (merged_ok c Hw) as H0. set (c0 := set_ranges c (merged (ranges c))) in *.
      assert (H1 : same_set c0 (normal_form_1 c0)) by (apply normal_form_1_ok; apply H0).
      set (c1 := normal_form_1 c0) in *.
      assert (H2 : same_set c1 (normal_form_2 c1)) by (apply normal_form_2_ok; apply H1).
      set (c2 := normal_form_2 c1) in *.
      assert (H3 : same_set c2 (normal_form_3 cat_in c2)) by (apply normal_form_3_ok; apply H2).
      eapply same_set_trans; [|exact H3]. eapply same_set_trans; [|exact H2]. eapply same_set_trans; eauto.
  Qed.

  Lemma same_set_plain c c' ch : same_set c c' -> valid_rune ch -> plain_in c' ch = plain_in c ch.
  Proof.
    intros (S1 & _ & _ & _ & S5) Hv. rewrite !plain_in_top. rewrite S5 by auto.
    unfold sub_in. rewrite S1. reflexivity.
  Qed.

  (* canonicalize_preserves, canonical_sorted *)
  Lemma canonicalize_plain_in c ch : wf_ranges (ranges c) -> valid_rune ch ->
    plain_in (canonicalize cat_in c) ch = plain_in c ch.
  Proof. intros Hw Hv. eapply same_set_plain; eauto. apply canonicalize_same_set; auto. Qed.

  Lemma canonicalize_canonical_ranges c : wf_ranges (ranges c) ->
    canonical_ranges (ranges (canonicalize cat_in c)) /\ wf_ranges (ranges (canonicalize cat_in c)).
  Proof. intros Hw. destruct (canonicalize_same_set c Hw) as (_ & _ & A & B & _). auto. Qed.

  Lemma canonicalize_sub c : sub (canonicalize cat_in c) = sub c /\ ascii (canonicalize cat_in c) = ascii c.
  Proof.
    rewrite canonicalize_unfold. destruct (ranges c) eqn:Er; [auto|].
    assert (G : forall x, sub (normal_form_1 x) = sub x /\ ascii (normal_form_1 x) = ascii x).
    { intros x. unfold normal_form_1. destruct (negb (neg x) && no_sub x && no_cats x); [|auto].
      destruct (ranges x) as [|[a0 b0] [|[a1 b1] [|]]]; auto.
      - destruct (a0 =? 0); [destruct (b0 =? max_rune - 1); auto|]. destruct (a0 =? 1); [destruct (b0 >=? max_rune)|]; auto.
      - destruct ((a0 =? 0) && (b1 >=? max_rune) && (b0 <? a1 - 1)); auto. }
    assert (G2 : forall x, sub (normal_form_2 x) = sub x /\ ascii (normal_form_2 x) = ascii x).
    { intros x. unfold normal_form_2. destruct (negb (neg x) && no_sub x); [|auto].
      destruct (ranges x) as [|[a0 b0] [|]]; auto. destruct ((a0 =? 0) && (b0 >=? max_rune)); auto. }
    assert (G3 : forall x, sub (normal_form_3 cat_in x) = sub x /\ ascii (normal_form_3 cat_in x) = ascii x).
    { intros x. unfold normal_form_3. destruct (negb (neg x) && no_sub x && negb (no_cats x)); [|auto].
      destruct (ranges x) as [|[a0 b0] [|[a1 b1] [|]]]; auto.
      destruct ((a0 =? 0) && (b0 + 2 =? a1) && (b1 =? max_rune)); auto.
      destruct (char_in_categories cat_in (cats x) (b0 + 1)); auto. }
    split.
    - rewrite (proj1 (G3 _)), (proj1 (G2 _)), (proj1 (G _)). reflexivity.
    - rewrite (proj2 (G3 _)), (proj2 (G2 _)), (proj2 (G _)). reflexivity.
  Qed.

  (* ---------------------------------------------------------------- mutators *)
  Definition body (c : cls) (ch : Z) : bool := mem (ranges c) ch || cats_in (cats c) ch.

  Lemma top_in_body c ch : top_in c ch = xorb (neg c) (body c ch).
  Proof. reflexivity. Qed.

  (* the "anything" flag is only ever set together with the full range *)
  Definition any_inv (c : cls) : Prop := anything c = true -> ranges c = [(0, max_rune)].

  Lemma any_inv_body c ch : any_inv c -> anything c = true -> valid_rune ch -> body c ch = true.
  Proof.
    intros Hi Ha [H1 H2]. unfold body. rewrite (Hi Ha). unfold mem, in_range; cbn [existsb fst snd].
    replace ((0 <=? ch) && (ch <=? max_rune)) with true by lia. reflexivity.
  Qed.

  Lemma cats_in_app l1 l2 ch : cats_in (l1 ++ l2) ch = cats_in l1 ch || cats_in l2 ch.
  Proof. unfold cats_in. apply existsb_app. Qed.

  Lemma cats_in_cons k l ch : cats_in (k :: l) ch = cat_accepts k ch || cats_in l ch.
  Proof. reflexivity. Qed.

  Lemma find_cat_some name l b : find_cat name l = Some b -> In (b, name) l.
  Proof.
    induction l as [|[ng n] t IH]; cbn; [discriminate|].
    destruct (n =? name) eqn:E; [|auto]. intros H; injection H as ->. left. f_equal. lia.
  Qed.

  Lemma cats_in_In k l ch : In k l -> cat_accepts k ch = true -> cats_in l ch = true.
  Proof. intros Hin Ha. unfold cats_in. apply existsb_exists. exists k; auto. Qed.

  (* what addCategories leaves alone *)
  Lemma add_categories_loop_shape l : forall c,
    sub (add_categories_loop c l) = sub c /\ ascii (add_categories_loop c l) = ascii c /\
    neg (add_categories_loop c l) = neg c /\
    (wf_ranges (ranges c) -> wf_ranges (ranges (add_categories_loop c l))) /\
    (any_inv c -> any_inv (add_categories_loop c l)).
  Proof.
    induction l as [|[ng name] t IH]; intros c; cbn [add_categories_loop]; [tauto|].
    destruct (find_cat name (cats c)) as [ng2|].
    - destruct (Bool.eqb ng ng2); [apply IH|].
      unfold make_anything; cbn. repeat split; auto.
      intros _. apply wf_single; unfold max_rune; lia.
    - destruct (IH (set_cats c (cats c ++ [(ng, name)]))) as (A & B & C & D & E). cbn in *. tauto.
  Qed.

  Lemma add_categories_loop_top l : forall c ch, valid_rune ch ->
    top_in (add_categories_loop c l) ch = xorb (neg c) (body c ch || cats_in l ch).
  Proof.
    induction l as [|[ng name] t IH]; intros c ch Hv; cbn [add_categories_loop].
    - unfold cats_in; cbn. rewrite orb_false_r. reflexivity.
    - rewrite cats_in_cons.
      destruct (find_cat name (cats c)) as [ng2|] eqn:Ef.
      + apply find_cat_some in Ef.
        destruct (Bool.eqb ng ng2) eqn:Eb.
        * apply Bool.eqb_prop in Eb. subst ng2. rewrite IH by auto. f_equal.
          destruct (cat_accepts (ng, name) ch) eqn:Ea; [|reflexivity].
          unfold body. rewrite (cats_in_In _ _ _ Ef Ea). rewrite !orb_true_r. reflexivity.
        * rewrite make_anything_top by auto.
          assert (Hb : cats_in (cats c) ch || cat_accepts (ng, name) ch = true).
          { destruct (cat_accepts (ng, name) ch) eqn:Ea; [apply orb_true_r|].
            rewrite (cats_in_In _ _ ch Ef); [reflexivity|].
            unfold cat_accepts in *; cbn [fst snd] in *. destruct ng, ng2, (cat_in name ch); cbn in *; congruence. }
          unfold body.
          destruct (cats_in (cats c) ch), (cat_accepts (ng, name) ch); cbn in Hb; try discriminate;
            rewrite ?orb_true_r; cbn; destruct (neg c); reflexivity.
      + rewrite IH by auto. cbn [neg set_cats]. f_equal. unfold body; cbn [ranges cats set_cats].
        rewrite cats_in_app. rewrite cats_in_cons. unfold cats_in at 3; cbn [existsb].
        rewrite orb_false_r. rewrite !orb_assoc. reflexivity.
  Qed.

  (* add_categories_union (with "X and not-X => anything") *)
  Lemma add_categories_top c l ch : any_inv c -> valid_rune ch ->
    top_in (add_categories c l) ch = xorb (neg c) (body c ch || cats_in l ch).
  Proof.
    intros Hi Hv. unfold add_categories. destruct (anything c) eqn:Ea.
    - rewrite top_in_body. rewrite (any_inv_body c ch Hi Ea Hv). reflexivity.
    - apply add_categories_loop_top; auto.
  Qed.

  Lemma add_categories_shape c l :
    sub (add_categories c l) = sub c /\ ascii (add_categories c l) = ascii c /\
    neg (add_categories c l) = neg c /\
    (wf_ranges (ranges c) -> wf_ranges (ranges (add_categories c l))) /\
    (any_inv c -> any_inv (add_categories c l)).
  Proof. unfold add_categories. destruct (anything c); [tauto|apply add_categories_loop_shape]. Qed.

  Lemma wf_ranges_app l1 l2 : wf_ranges l1 -> wf_ranges l2 -> wf_ranges (l1 ++ l2).
  Proof. unfold wf_ranges. intros. apply Forall_app; auto. Qed.

  (* canonicalize keeps the anything invariant *)
  Lemma nf_any_inv c : any_inv c -> wf_ranges (ranges c) ->
    any_inv (normal_form_3 cat_in (normal_form_2 (normal_form_1 c))).
  Proof.
    intros Hi Hw.
    assert (G1 : any_inv (normal_form_1 c)).
    { unfold normal_form_1. destruct (negb (neg c) && no_sub c && no_cats c); [|exact Hi].
      destruct (ranges c) as [|[a0 b0] [|[a1 b1] [|]]] eqn:Er; try exact Hi.
      - destruct (a0 =? 0) eqn:E0.
        + destruct (b0 =? max_rune - 1) eqn:E1; [|exact Hi].
          intros Ha. cbn in Ha. specialize (Hi Ha). rewrite Er in Hi. injection Hi as -> ->. unfold max_rune in *. lia.
        + destruct (a0 =? 1) eqn:E1; [|exact Hi]. destruct (b0 >=? max_rune); [|exact Hi].
          intros Ha. cbn in Ha. specialize (Hi Ha). rewrite Er in Hi. injection Hi as -> ->. lia.
      - destruct ((a0 =? 0) && (b1 >=? max_rune) && (b0 <? a1 - 1)); [|exact Hi].
        intros Ha. cbn in Ha. specialize (Hi Ha). rewrite Er in Hi. discriminate. }
    set (c1 := normal_form_1 c) in *.
    assert (G2 : any_inv (normal_form_2 c1)).
    { unfold normal_form_2. destruct (negb (neg c1) && no_sub c1); [|exact G1].
      destruct (ranges c1) as [|[a0 b0] [|]] eqn:Er; try exact G1.
      destruct ((a0 =? 0) && (b0 >=? max_rune)); [|exact G1]. intros _. reflexivity. }
    set (c2 := normal_form_2 c1) in *.
    unfold normal_form_3. destruct (negb (neg c2) && no_sub c2 && negb (no_cats c2)); [|exact G2].
    destruct (ranges c2) as [|[a0 b0] [|[a1 b1] [|]]] eqn:Er; try exact G2.
    destruct ((a0 =? 0) && (b0 + 2 =? a1) && (b1 =? max_rune)); [|exact G2].
    destruct (char_in_categories cat_in (cats c2) (b0 + 1)).
    - intros _. reflexivity.
    - intros Ha. cbn in Ha. specialize (G2 Ha). rewrite Er in G2. discriminate.
  Qed.

  (* a canonical, well-formed list that contains [0, MaxRune] is exactly that range *)
  Lemma canonical_full rs : wf_ranges rs -> canonical_ranges rs ->
    (forall ch, valid_rune ch -> mem rs ch = true) -> rs = [(0, max_rune)].
  Proof.
    intros Hw Hc Hall. destruct rs as [|[a b] t].
    - specialize (Hall 0). cbn in Hall. unfold valid_rune, max_rune in Hall. assert (false = true) by (apply Hall; lia). discriminate.
    - cbn in Hc. destruct Hc as [Hab Hs]. inversion Hw as [|? ? W1 W2]; subst. destruct W1 as (V1 & V2 & V3); cbn [fst snd] in *.
      assert (Ha : a = 0).
      { pose proof (Hall 0 ltac:(unfold valid_rune, max_rune; lia)) as H0. rewrite mem_cons in H0.
        rewrite (sorted_from_mem_false b t 0 Hs) in H0 by lia. unfold in_range in H0; cbn [fst snd] in H0. lia. }
      subst a.
      destruct (b =? max_rune) eqn:Eb.
      + assert (b = max_rune) by lia. subst b. f_equal.
        destruct t as [|[x y] t']; [reflexivity|]. cbn in Hs. inversion W2 as [|? ? W3 _]; subst. destruct W3 as (U1 & U2 & U3); cbn [fst snd] in *. exfalso; unfold max_rune in *; lia.
      + pose proof (Hall (b + 1) ltac:(unfold valid_rune; lia)) as H1. rewrite mem_cons in H1.
        rewrite (sorted_from_mem_false b t (b + 1) Hs) in H1 by lia. unfold in_range in H1; cbn [fst snd] in H1. lia.
  Qed.

  Definition any_sem (c : cls) : Prop :=
    anything c = true -> forall ch, valid_rune ch -> mem (ranges c) ch = true.

  Lemma any_inv_sem c : any_inv c -> any_sem c.
  Proof.
    intros Hi Ha ch [H1 H2]. rewrite (Hi Ha). unfold mem, in_range; cbn [existsb fst snd]. lia.
  Qed.

  Lemma canonicalize_any_inv c : any_sem c -> wf_ranges (ranges c) -> any_inv (canonicalize cat_in c).
  Proof.
    intros Hi Hw. rewrite canonicalize_unfold. destruct (ranges c) as [|r t] eqn:Er.
    - intros Ha. specialize (Hi Ha 0). rewrite Er in Hi. cbn in Hi.
      assert (false = true) by (apply Hi; unfold valid_rune, max_rune; lia). discriminate.
    - rewrite <- Er in *. apply nf_any_inv.
      + intros Ha. cbn [anything set_ranges] in Ha. cbn [ranges set_ranges].
        apply canonical_full; [apply merged_wf; auto|apply merged_canonical; auto|].
        intros ch Hv. rewrite merged_mem by auto. apply Hi; auto.
      + cbn [ranges set_ranges]. apply merged_wf; auto.
  Qed.

  (* add_range_union *)
  Lemma add_range_top c lo hi ch : wf_ranges (ranges c) -> 0 <= lo -> lo <= hi -> hi <= max_rune -> valid_rune ch ->
    top_in (add_range cat_in c lo hi) ch = xorb (neg c) (body c ch || ((lo <=? ch) && (ch <=? hi))).
  Proof.
    intros Hw H0 H1 H2 Hv. unfold add_range.
    assert (Hw' : wf_ranges (ranges (set_ranges c (ranges c ++ [(lo, hi)])))).
    { cbn [ranges set_ranges]. apply wf_ranges_app; auto. apply wf_single; auto. }
    destruct (canonicalize_same_set _ Hw') as (_ & _ & _ & _ & S5). rewrite S5 by auto.
    unfold top_in, body; cbn [neg ranges cats set_ranges]. rewrite mem_app.
    unfold mem at 2, in_range; cbn [existsb fst snd]. rewrite orb_false_r.
    f_equal. destruct (mem (ranges c) ch), (cats_in (cats c) ch), ((lo <=? ch) && (ch <=? hi)); reflexivity.
  Qed.

  Lemma add_range_shape c lo hi : wf_ranges (ranges c) -> 0 <= lo -> lo <= hi -> hi <= max_rune ->
    sub (add_range cat_in c lo hi) = sub c /\ ascii (add_range cat_in c lo hi) = ascii c /\
    wf_ranges (ranges (add_range cat_in c lo hi)) /\ canonical_ranges (ranges (add_range cat_in c lo hi)) /\
    (any_inv c -> any_inv (add_range cat_in c lo hi)).
  Proof.
    intros Hw H0 H1 H2. unfold add_range.
    assert (Hw' : wf_ranges (ranges (set_ranges c (ranges c ++ [(lo, hi)])))).
    { cbn [ranges set_ranges]. apply wf_ranges_app; auto. apply wf_single; auto. }
    destruct (canonicalize_same_set _ Hw') as (S1 & S2 & S3 & S4 & _).
    repeat split; auto.
    intros Hi. apply canonicalize_any_inv; auto.
    intros Ha ch Hv. cbn [anything set_ranges] in Ha. cbn [ranges set_ranges]. rewrite mem_app.
    rewrite (any_inv_sem c Hi Ha ch Hv). reflexivity.
  Qed.

  (* what a canonicalizing mutator guarantees about its result *)
  Definition mut_ok (c c' : cls) : Prop :=
    sub c' = sub c /\ ascii c' = ascii c /\ wf_ranges (ranges c') /\ canonical_ranges (ranges c') /\ any_inv c'.

  Lemma canonicalize_mut_ok c : wf_ranges (ranges c) -> any_sem c -> mut_ok c (canonicalize cat_in c).
  Proof.
    intros Hw Hs. destruct (canonicalize_same_set c Hw) as (S1 & S2 & S3 & S4 & _).
    unfold mut_ok. repeat split; auto. apply canonicalize_any_inv; auto.
  Qed.

  Lemma add_ranges_top c rs ch : any_inv c -> wf_ranges (ranges c) -> wf_ranges rs -> valid_rune ch ->
    top_in (add_ranges cat_in c rs) ch = xorb (neg c) (body c ch || mem rs ch).
  Proof.
    intros Hi Hw Hr Hv. unfold add_ranges. destruct (anything c) eqn:Ea.
    - rewrite top_in_body. rewrite (any_inv_body c ch Hi Ea Hv). reflexivity.
    - assert (Hw' : wf_ranges (ranges (set_ranges c (ranges c ++ rs)))) by (cbn [ranges set_ranges]; apply wf_ranges_app; auto).
      destruct (canonicalize_same_set _ Hw') as (_ & _ & _ & _ & S5). rewrite S5 by auto.
      unfold top_in, body; cbn [neg ranges cats set_ranges]. rewrite mem_app. f_equal.
      destruct (mem (ranges c) ch), (cats_in (cats c) ch), (mem rs ch); reflexivity.
  Qed.

  Lemma add_ranges_ok c rs : any_inv c -> wf_ranges (ranges c) -> canonical_ranges (ranges c) -> wf_ranges rs ->
    mut_ok c (add_ranges cat_in c rs).
  Proof.
    intros Hi Hw Hc Hr. unfold add_ranges. destruct (anything c) eqn:Ea.
    - unfold mut_ok. auto.
    - apply (canonicalize_mut_ok (set_ranges c (ranges c ++ rs))).
      + cbn [ranges set_ranges]; apply wf_ranges_app; auto.
      + intros Ha. cbn in Ha. congruence.
  Qed.

  (* addNegativeRanges: the incoming ranges are ascending and end before MaxRune - 1 *)
  Fixpoint ordered (hi : Z) (rs : list (Z * Z)) : Prop :=
    hi < max_rune /\
    match rs with
    | [] => True
    | (a, b) :: t => hi <= a /\ a <= b /\ ordered (b + 1) t
    end.

  Lemma ordered_mem_false rs : forall hi ch, ordered hi rs -> ch < hi -> mem rs ch = false.
  Proof.
    induction rs as [|[a b] t IH]; intros hi ch Ho Hc; [reflexivity|].
    cbn in Ho. destruct Ho as (O0 & O1 & O2 & O3). rewrite mem_cons. unfold in_range; cbn [fst snd].
    rewrite (IH (b + 1) ch O3) by lia. lia.
  Qed.

  Lemma negative_ranges_mem rs : forall hi ch, ordered hi rs ->
    mem (negative_ranges hi rs) ch = (hi <=? ch) && (ch <=? max_rune) && negb (mem rs ch).
  Proof.
    induction rs as [|[a b] t IH]; intros hi ch Ho.
    - cbn in Ho. cbn [negative_ranges]. replace (hi <? max_rune) with true by lia.
      unfold mem, in_range; cbn [existsb fst snd]. lia.
    - cbn in Ho. destruct Ho as (O0 & O1 & O2 & O3). cbn [negative_ranges]. rewrite mem_app.
      rewrite (IH (b + 1) ch O3). rewrite mem_cons. unfold in_range; cbn [fst snd].
      assert (Hb : b + 1 < max_rune) by (destruct t as [|[x y] t']; cbn in O3; lia).
      destruct (hi <? a) eqn:E.
      + unfold mem at 1, in_range; cbn [existsb fst snd].
        destruct (ch <? b + 1) eqn:E2.
        * rewrite (ordered_mem_false t (b + 1) ch O3) by lia. lia.
        * destruct (mem t ch); lia.
      + unfold mem at 1; cbn [existsb].
        destruct (ch <? b + 1) eqn:E2.
        * rewrite (ordered_mem_false t (b + 1) ch O3) by lia. lia.
        * destruct (mem t ch); lia.
  Qed.

  Lemma negative_ranges_wf rs : forall hi, 0 <= hi -> ordered hi rs -> wf_ranges (negative_ranges hi rs).
  Proof.
    induction rs as [|[a b] t IH]; intros hi H0 Ho.
    - cbn in Ho. cbn [negative_ranges]. destruct (hi <? max_rune) eqn:E; [|constructor].
      apply wf_single; lia.
    - cbn in Ho. destruct Ho as (O0 & O1 & O2 & O3). cbn [negative_ranges]. apply wf_ranges_app.
      + destruct (hi <? a) eqn:E; [|constructor]. apply wf_single; try lia.
        assert (b + 1 < max_rune) by (destruct t as [|[x y] t']; cbn in O3; lia). lia.
      + apply IH; [lia|exact O3].
  Qed.

  Lemma add_negative_ranges_top c rs ch : any_inv c -> wf_ranges (ranges c) -> ordered 0 rs -> valid_rune ch ->
    top_in (add_negative_ranges cat_in c rs) ch = xorb (neg c) (body c ch || negb (mem rs ch)).
  Proof.
    intros Hi Hw Ho Hv. unfold add_negative_ranges. destruct (anything c) eqn:Ea.
    - rewrite top_in_body. rewrite (any_inv_body c ch Hi Ea Hv). reflexivity.
    - pose proof (negative_ranges_wf rs 0 ltac:(lia) Ho) as Hn.
      assert (Hw' : wf_ranges (ranges (set_ranges c (ranges c ++ negative_ranges 0 rs)))) by (cbn [ranges set_ranges]; apply wf_ranges_app; auto).
      destruct (canonicalize_same_set _ Hw') as (_ & _ & _ & _ & S5). rewrite S5 by auto.
      unfold top_in, body; cbn [neg ranges cats set_ranges]. rewrite mem_app. rewrite negative_ranges_mem by auto.
      destruct Hv as [Hv1 Hv2]. replace ((0 <=? ch) && (ch <=? max_rune)) with true by lia. cbn [andb]. f_equal.
      destruct (mem (ranges c) ch), (cats_in (cats c) ch), (mem rs ch); reflexivity.
  Qed.

  Lemma add_negative_ranges_ok c rs : any_inv c -> wf_ranges (ranges c) -> canonical_ranges (ranges c) -> ordered 0 rs ->
    mut_ok c (add_negative_ranges cat_in c rs).
  Proof.
    intros Hi Hw Hc Ho. unfold add_negative_ranges. destruct (anything c) eqn:Ea.
    - unfold mut_ok. auto.
    - apply (canonicalize_mut_ok (set_ranges c (ranges c ++ negative_ranges 0 rs))).
      + cbn [ranges set_ranges]; apply wf_ranges_app; auto. apply negative_ranges_wf; [lia|auto].
      + intros Ha. cbn in Ha. congruence.
  Qed.

  Lemma add_range_ok c lo hi : any_inv c -> wf_ranges (ranges c) -> 0 <= lo -> lo <= hi -> hi <= max_rune ->
    mut_ok c (add_range cat_in c lo hi).
  Proof.
    intros Hi Hw H0 H1 H2. destruct (add_range_shape c lo hi Hw H0 H1 H2) as (A & B & C & D & E).
    unfold mut_ok. split; [exact A|split; [exact B|split; [exact C|split; [exact D|exact (E Hi)]]]].
  Qed.

  (* add_set_union *)
  Lemma add_set_top c s ch : any_inv c -> any_inv s -> wf_ranges (ranges c) -> wf_ranges (ranges s) -> valid_rune ch ->
    top_in (add_set cat_in c s) ch = xorb (neg c) (body c ch || body s ch).
  Proof.
    intros Hi His Hw Hws Hv. unfold add_set. destruct (anything c) eqn:Ea.
    - rewrite top_in_body. rewrite (any_inv_body c ch Hi Ea Hv). reflexivity.
    - destruct (anything s) eqn:Eas.
      + rewrite make_anything_top by auto. rewrite (any_inv_body s ch His Eas Hv). rewrite orb_true_r.
        destruct (neg c); reflexivity.
      + set (c1 := set_ranges c (ranges c ++ ranges s)).
        assert (Hi1 : any_inv c1) by (intros Ha; cbn in Ha; congruence).
        destruct (add_categories_shape c1 (cats s)) as (A & B & C & D & E).
        assert (Hw1 : wf_ranges (ranges c1)) by (cbn [ranges set_ranges c1]; apply wf_ranges_app; auto).
        destruct (canonicalize_same_set _ (D Hw1)) as (_ & _ & _ & _ & S5). rewrite S5 by auto.
        rewrite add_categories_top by auto. cbn [neg set_ranges c1]. f_equal.
        unfold body; cbn [ranges cats set_ranges c1]. rewrite mem_app.
        destruct (mem (ranges c) ch), (cats_in (cats c) ch), (mem (ranges s) ch), (cats_in (cats s) ch); reflexivity.
  Qed.

  (* ---------------------------------------------------------------- singleton reduction *)
  Lemma is_singleton_spec c : is_singleton c = true ->
    exists a an asc, c = Cls [(a, a)] [] None false an asc.
  Proof.
    destruct c as [rs cs sb ng an asc]. unfold is_singleton, no_cats, no_sub, single_range; cbn [neg cats sub ranges].
    destruct ng; [discriminate|]. destruct cs; [|discriminate]. destruct sb; [discriminate|].
    destruct rs as [|[a b] [|]]; try discriminate. cbn. intros H. assert (a = b) by lia. subst b. eauto.
  Qed.

  Lemma is_singleton_inverse_spec c : is_singleton_inverse c = true ->
    exists a an asc, c = Cls [(a, a)] [] None true an asc.
  Proof.
    destruct c as [rs cs sb ng an asc]. unfold is_singleton_inverse, no_cats, no_sub, single_range; cbn [neg cats sub ranges].
    destruct ng; [|discriminate]. destruct cs; [|discriminate]. destruct sb; [discriminate|].
    destruct rs as [|[a b] [|]]; try discriminate. cbn. intros H. assert (a = b) by lia. subst b. eauto.
  Qed.

  Lemma reduce_set_sound c r : bitmaps_ok c -> reduce_set c = Ok r ->
    forall ch, reduced_in cat_in r ch = char_in cat_in c ch.
  Proof.
    intros Hb Hr ch. unfold reduce_set in Hr.
    destruct (is_singleton c) eqn:E1.
    - destruct (is_singleton_spec c E1) as (a & an & asc & ->). cbn in Hr. injection Hr as <-.
      destruct (lookup_agree (Cls [(a, a)] [] None false an asc)) with (ch := ch) as [_ H2]; [cbn; auto with zarith|exact Hb|].
      rewrite H2. cbn [reduced_in plain_in]. unfold mem, cats_in, in_range; cbn [existsb fst snd]. lia.
    - destruct (is_singleton_inverse c) eqn:E2.
      + destruct (is_singleton_inverse_spec c E2) as (a & an & asc & ->). cbn in Hr. injection Hr as <-.
        destruct (lookup_agree (Cls [(a, a)] [] None true an asc)) with (ch := ch) as [_ H2]; [cbn; auto with zarith|exact Hb|].
        rewrite H2. cbn [reduced_in plain_in]. unfold mem, cats_in, in_range; cbn [existsb fst snd]. lia.
      + injection Hr as <-. reflexivity.
  Qed.

  (* ---------------------------------------------------------------- statements used by Properties/C16.v *)
  Lemma lookup_paths_agree c ch : canonical c -> bitmaps_ok c ->
    char_in cat_in c ch = plain_in c ch /\
    char_in_slow cat_in c ch = plain_in c ch /\
    char_in cat_in (prepare_ascii_bitmap cat_in c) ch = plain_in c ch /\
    (match ascii c with Some bm => 0 <= ch < 128 -> bitmap_test bm ch = plain_in c ch | None => True end) /\
    linear_scan (ranges c) ch = mem (ranges c) ch /\
    binary_scan (ranges c) ch = mem (ranges c) ch.
  Proof.
    intros Hc Hb. destruct (lookup_agree c Hc Hb ch) as [L1 L2].
    split; [exact L2|]. split; [exact L1|]. split.
    - destruct (lookup_agree _ (prepare_canonical c Hc) (prepare_bitmaps_ok c Hb) ch) as [_ L3].
      rewrite L3. apply prepare_plain_in.
    - split.
      + destruct c as [rs cs sb ng an asc]. cbn [ascii]. destruct asc as [bm|]; [|exact I].
        intros Hr. cbn in Hb. destruct Hb as [Hb _]. rewrite Hb. rewrite bitmap_test_spec by auto. exact L1.
      + apply range_paths_agree. destruct c; cbn in Hc; tauto.
  Qed.

  Lemma add_range_union c lo hi ch :
    neg c = false -> wf_ranges (ranges c) -> 0 <= lo -> lo <= hi -> hi <= max_rune -> valid_rune ch ->
    plain_in (add_range cat_in c lo hi) ch =
    (body c ch || ((lo <=? ch) && (ch <=? hi))) && negb (sub_in c ch).
  Proof.
    intros Hn Hw H0 H1 H2 Hv. rewrite plain_in_top. rewrite add_range_top by auto. rewrite Hn.
    unfold sub_in. destruct (add_range_shape c lo hi Hw H0 H1 H2) as (A & _). rewrite A.
    destruct (body c ch || (lo <=? ch) && (ch <=? hi)); reflexivity.
  Qed.

  Lemma add_set_sub c s : sub (add_set cat_in c s) = sub c.
  Proof.
    unfold add_set. destruct (anything c); [reflexivity|]. destruct (anything s); [reflexivity|].
    rewrite (proj1 (canonicalize_sub _)).
    destruct (add_categories_shape (set_ranges c (ranges c ++ ranges s)) (cats s)) as (A & _). rewrite A. reflexivity.
  Qed.

  Lemma add_set_union c s ch :
    neg c = false -> any_inv c -> any_inv s -> wf_ranges (ranges c) -> wf_ranges (ranges s) -> valid_rune ch ->
    plain_in (add_set cat_in c s) ch = (body c ch || body s ch) && negb (sub_in c ch).
  Proof.
    intros Hn Hi His Hw Hws Hv. rewrite plain_in_top. rewrite add_set_top by auto. rewrite Hn.
    unfold sub_in. rewrite add_set_sub. destruct (body c ch || body s ch); reflexivity.
  Qed.

  Lemma add_categories_union c l ch :
    neg c = false -> any_inv c -> valid_rune ch ->
    plain_in (add_categories c l) ch = (body c ch || cats_in l ch) && negb (sub_in c ch).
  Proof.
    intros Hn Hi Hv. rewrite plain_in_top. rewrite add_categories_top by auto. rewrite Hn.
    unfold sub_in. destruct (add_categories_shape c l) as (A & _). rewrite A.
    destruct (body c ch || cats_in l ch); reflexivity.
  Qed.

  (* "X and not-X" makes the class match every valid rune *)
  Lemma add_categories_clash c ng name ch :
    neg c = false -> sub c = None -> any_inv c -> valid_rune ch -> In (ng, name) (cats c) ->
    plain_in (add_categories c [(negb ng, name)]) ch = true.
  Proof.
    intros Hn Hs Hi Hv Hin. rewrite add_categories_union by auto. unfold sub_in. rewrite Hs. rewrite andb_true_r.
    unfold body. unfold cats_in at 2; cbn [existsb]. rewrite orb_false_r.
    destruct (cat_accepts (negb ng, name) ch) eqn:E; [apply orb_true_r|].
    rewrite (cats_in_In (ng, name) (cats c) ch Hin); [rewrite orb_true_r; reflexivity|].
    unfold cat_accepts in *; cbn [fst snd] in *. destruct ng, (cat_in name ch); cbn in *; congruence.
  Qed.

End Proofs.
