(* [caps_rel2 / leadsg2 / ok_node2] version of Proofs/CompileRef.v for compile_correct2 (balancing captures,
   see Proofs/CompileBal.v): the same lemmas and proofs over the marker-aware capture relation of
   Proofs/CompileBalDen.v.  Lemma names: cc_X -> c2_X. *)
(* compile_correct, stage 4c: back-references NRef. *)
From Verif Require Import Base.Prelude Model.Tree Model.Spec Model.VM Model.Writer Gen.RunnerGen
  Proofs.SpecProofs Proofs.SpecBoundsProofs Proofs.MaskProofs
  Proofs.VMU Proofs.VMUOps Proofs.VMUOps2 Proofs.VMUOps6 Proofs.VMUOps7 Proofs.CompileBase Proofs.CompileDefs Proofs.CompileBalDen Proofs.CompileBalBase Proofs.CompileBalDefs
  Proofs.CapFacts.
From Coq Require Import Relations ZifyBool.

Section CC.
Variable e : env.
Variable p : program.
Hypothesis tc_nonneg : 0 <= trackcount p.

Notation rsteps := (VMUOps2.rsteps e p).
Notation leadsg2 := (CompileBalBase.leadsg2 e p).
Notation has_code := (CompileBase.has_code p).
Notation track_ok := (CompileBase.track_ok p).
Notation caps_rel2 := (CompileBalDen.caps_rel2 p).
Notation code_ex := (CompileDefs.code_ex p).
Notation tbl_ok := (CompileDefs.tbl_ok p).
Notation ok_node2 := (CompileBalDefs.ok_node2 e p).

Lemma c2_ref f o g : 0 <= g < capsize p -> ok_node2 (S f) (NRef o g).
Proof.
  intros Hg s res Hsem Hst a tbl T S0 C M Hc Hex Hk Hr Htb.
  cbn [sem] in Hsem. injection Hsem as <-.
  cbn [emit csize fst] in Hc, Hex |- *.
  unfold map_capnum in Hc. cbn [capmap cfg0] in Hc. replace (g =? -1) with false in Hc by lia.
  apply has_code_cons in Hc. destruct Hc as [H0 Hc]. apply has_code_cons in Hc. destruct Hc as [H1 _].
  destruct Hex as [w2 H2]. destruct Hst as [Hp Hcs].
  pose proof (bd_matched p (caps s) M g Hr Hg) as Hm. unfold is_matched in Hm.
  pose proof Hk as (np & T' & HT & w3 & H3).
  unfold sem_ref.
  destruct (cap_get g (caps s)) as [|[i len] rest] eqn:Eg.
  - destruct (ecma e) eqn:Ee.
    + apply leadsg2_leaf; [exact Hk|exact Hr|]. eapply rs_ref_unset_ecma; try exact tc_nonneg; eassumption.
    + eapply leadsg2_fail; [exact HT|]. rewrite HT. eapply rs_ref_unset; try exact tc_nonneg; eassumption.
  - destruct (bd_caps_index_length e p (caps s) M g i len rest Hr Hg Hcs Eg) as (Hix & Hln & Hi & Hl & Hil).
    assert (Hres : (if avail e o (pos s) <? len then []
                    else if ref_match_at e (is_ci o) (Z.to_nat len) i (if is_rtl o then pos s - len else pos s)
                         then [with_pos s (pos s + dir o * len)] else []) =
                   if ref_cond e o i len (pos s) then [with_pos s (pos s + dir o * len)] else []).
    { unfold ref_cond. destruct (avail e o (pos s) <? len); reflexivity. }
    cbv zeta. rewrite Hres. destruct (ref_cond e o i len (pos s)) eqn:Ec.
    + apply leadsg2_leaf; [exact Hk|exact Hr|]. cbn [pos with_pos].
      eapply rs_ref_set_ok with (i := i) (len := len) (g := g); try exact tc_nonneg; eassumption.
    + eapply leadsg2_fail; [exact HT|]. rewrite HT.
      eapply rs_ref_set_fail with (i := i) (len := len) (g := g); try exact tc_nonneg; eassumption.
Qed.

End CC.
