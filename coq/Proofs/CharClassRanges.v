(* Range lists of Model/CharClass.v: plain membership, the two lookup paths, sort and merge. *)
From Verif Require Import Base.Prelude Model.CharClass.
From Coq Require Import ZifyBool Permutation.

(* plain membership of a rune in an arbitrary list of ranges *)
Definition in_range (r : Z * Z) (ch : Z) : bool := (fst r <=? ch) && (ch <=? snd r).
Definition mem (rs : list (Z * Z)) (ch : Z) : bool := existsb (fun r => in_range r ch) rs.

(* every range lies inside [0, MaxRune] and is not empty *)
Definition wf_range (r : Z * Z) : Prop := 0 <= fst r /\ fst r <= snd r /\ snd r <= max_rune.
Definition wf_ranges (rs : list (Z * Z)) : Prop := Forall wf_range rs.

(* sorted, pairwise disjoint and not even adjacent; every range non-empty *)
Fixpoint sorted_from (prev : Z) (rs : list (Z * Z)) : Prop :=
  match rs with
  | [] => True
  | (a, b) :: t => prev + 1 < a /\ a <= b /\ sorted_from b t
  end.
Definition canonical_ranges (rs : list (Z * Z)) : Prop :=
  match rs with
  | [] => True
  | (a, b) :: t => a <= b /\ sorted_from b t
  end.

Lemma mem_app l1 l2 ch : mem (l1 ++ l2) ch = mem l1 ch || mem l2 ch.
Proof. unfold mem. apply existsb_app. Qed.

Lemma mem_cons r l ch : mem (r :: l) ch = in_range r ch || mem l ch.
Proof. reflexivity. Qed.

Lemma mem_true_iff rs ch : mem rs ch = true <-> exists r, In r rs /\ fst r <= ch <= snd r.
Proof.
  unfold mem. rewrite existsb_exists. unfold in_range.
  split; intros [r [Hin H]]; exists r; split; auto; lia.
Qed.

Lemma mem_perm l1 l2 ch : Permutation l1 l2 -> mem l1 ch = mem l2 ch.
Proof.
  intros HP. apply eq_true_iff_eq. rewrite !mem_true_iff.
  split; intros [r [Hin H]]; exists r; split; auto.
  - eapply Permutation_in; eauto.
  - eapply Permutation_in; [apply Permutation_sym|]; eauto.
Qed.

Lemma sorted_from_weaken p q rs : q <= p -> sorted_from p rs -> sorted_from q rs.
Proof. destruct rs as [|[a b] t]; cbn; [auto|]. intros; intuition lia. Qed.

Lemma sorted_from_mem_false p rs ch : sorted_from p rs -> ch <= p + 1 -> mem rs ch = false.
Proof.
  revert p. induction rs as [|[a b] t IH]; intros p Hs Hc; [reflexivity|].
  cbn in Hs. destruct Hs as (H1 & H2 & H3).
  rewrite mem_cons. unfold in_range; cbn [fst snd].
  rewrite (IH b H3) by lia. lia.
Qed.

Lemma canonical_sorted_from rs : canonical_ranges rs -> exists p, sorted_from p rs.
Proof.
  destruct rs as [|[a b] t]; cbn; [exists 0; exact I|].
  intros [H1 H2]. exists (a - 2). repeat split; auto; lia.
Qed.

Lemma sorted_from_canonical p rs : sorted_from p rs -> canonical_ranges rs.
Proof. destruct rs as [|[a b] t]; cbn; intuition. Qed.

(* ---------------------------------------------------------------- linear scan *)
Lemma linear_scan_sorted p rs ch : sorted_from p rs -> linear_scan rs ch = mem rs ch.
Proof.
  revert p. induction rs as [|[a b] t IH]; intros p Hs; [reflexivity|].
  cbn in Hs. destruct Hs as (H1 & H2 & H3).
  cbn [linear_scan]. rewrite mem_cons. unfold in_range; cbn [fst snd].
  destruct (ch <? a) eqn:E1.
  - rewrite (sorted_from_mem_false b t ch H3) by lia. lia.
  - destruct (ch <=? b) eqn:E2.
    + replace (a <=? ch) with true by lia. reflexivity.
    + rewrite (IH b H3). replace (a <=? ch) with true by lia. reflexivity.
Qed.

(* ---------------------------------------------------------------- binary search *)
(* number of ranges whose first is <= ch (a prefix, on a sorted list) *)
Fixpoint count_le (rs : list (Z * Z)) (ch : Z) : nat :=
  match rs with
  | [] => O
  | (a, _) :: t => if a <=? ch then S (count_le t ch) else O
  end.

Lemma count_le_length rs ch : (count_le rs ch <= length rs)%nat.
Proof. induction rs as [|[a b] t IH]; cbn; [lia|]. destruct (a <=? ch); lia. Qed.

Lemma sorted_nth_first p rs ch : sorted_from p rs ->
  forall i a b, nth_error rs i = Some (a, b) -> (a <=? ch) = (i <? count_le rs ch)%nat.
Proof.
  revert p. induction rs as [|[a0 b0] t IH]; intros p Hs i a b Hn.
  - destruct i; discriminate.
  - cbn in Hs. destruct Hs as (H1 & H2 & H3).
    destruct i as [|i]; cbn in Hn.
    + injection Hn as -> ->. cbn [count_le]. destruct (a <=? ch) eqn:E; cbn; lia.
    + cbn [count_le]. destruct (a0 <=? ch) eqn:E.
      * rewrite (IH b0 H3 i a b Hn). apply eq_true_iff_eq. rewrite !Nat.ltb_lt. lia.
      * (* everything later starts after b0 >= a0 > ch *)
        assert (Hm : forall j x y, nth_error t j = Some (x, y) -> b0 < x).
        { clear -H3. revert b0 H3. induction t as [|[x0 y0] t IH]; intros b0 H3 j x y Hj.
          - destruct j; discriminate.
          - cbn in H3. destruct H3 as (K1 & K2 & K3). destruct j; cbn in Hj.
            + injection Hj as -> ->. lia.
            + specialize (IH y0 K3 j x y Hj). lia. }
        specialize (Hm i a b Hn). cbn. lia.
Qed.

Lemma znth_nth_error {A} (l : list A) i : 0 <= i -> znth l i = nth_error l (Z.to_nat i).
Proof. intros H. unfold znth. replace (i <? 0) with false by lia. reflexivity. Qed.

Lemma bsearch_spec p rs ch : sorted_from p rs ->
  forall fuel lo hi,
    0 <= lo <= Z.of_nat (count_le rs ch) -> Z.of_nat (count_le rs ch) <= hi <= zlen rs ->
    (Z.to_nat (hi - lo) <= fuel)%nat ->
    bsearch fuel rs ch lo hi = Z.of_nat (count_le rs ch).
Proof.
  intros Hs. induction fuel as [|f IH]; intros lo hi Hlo Hhi Hf.
  - cbn. lia.
  - cbn [bsearch]. destruct (lo <? hi) eqn:E; [|lia].
    assert (Hmid : lo <= (lo + hi) / 2 < hi) by (split; [apply Z.div_le_lower_bound|apply Z.div_lt_upper_bound]; lia).
    rewrite znth_nth_error by lia.
    destruct (nth_error rs (Z.to_nat ((lo + hi) / 2))) as [[a b]|] eqn:En.
    + pose proof (sorted_nth_first p rs ch Hs _ a b En) as Hc.
      destruct (a <=? ch) eqn:Ea.
      * symmetry in Hc. apply Nat.ltb_lt in Hc. apply IH; lia.
      * symmetry in Hc. apply Nat.ltb_ge in Hc. apply IH; lia.
    + apply nth_error_None in En. unfold zlen in Hhi. lia.
Qed.

Lemma mem_count_le p rs ch : sorted_from p rs ->
  mem rs ch = match count_le rs ch with
              | O => false
              | S k => match nth_error rs k with Some (_, b) => ch <=? b | None => false end
              end.
Proof.
  revert p. induction rs as [|[a b] t IH]; intros p Hs; [reflexivity|].
  cbn in Hs. destruct Hs as (H1 & H2 & H3).
  rewrite mem_cons. unfold in_range; cbn [fst snd count_le].
  destruct (a <=? ch) eqn:Ea.
  - rewrite (IH b H3). destruct (count_le t ch) as [|k] eqn:Ek.
    + cbn. lia.
    + cbn [nth_error]. destruct (nth_error t k) as [[x y]|] eqn:En.
      * (* ch >= x > b + 1 *)
        pose proof (sorted_nth_first b t ch H3 k x y En) as Hc. rewrite Ek in Hc.
        replace (k <? S k)%nat with true in Hc by (symmetry; apply Nat.ltb_lt; lia).
        assert (b < x).
        { clear -H3 En. revert b k H3 En. induction t as [|[x0 y0] t IH]; intros b k H3 En.
          - destruct k; discriminate.
          - cbn in H3. destruct H3 as (K1 & K2 & K3). destruct k; cbn in En.
            + injection En as -> ->. lia.
            + specialize (IH y0 k K3 En). lia. }
        lia.
      * apply nth_error_None in En. pose proof (count_le_length t ch). lia.
  - rewrite (sorted_from_mem_false b t ch H3) by lia. reflexivity.
Qed.

Lemma binary_scan_sorted p rs ch : sorted_from p rs -> binary_scan rs ch = mem rs ch.
Proof.
  intros Hs. unfold binary_scan.
  pose proof (count_le_length rs ch) as Hl.
  rewrite (bsearch_spec p rs ch Hs) by (unfold zlen; lia).
  rewrite (mem_count_le p rs ch Hs).
  destruct (count_le rs ch) as [|k] eqn:Ek; [reflexivity|].
  replace (0 <? Z.of_nat (S k)) with true by lia.
  rewrite znth_nth_error by lia. replace (Z.to_nat (Z.of_nat (S k) - 1)) with k by lia.
  reflexivity.
Qed.

(* extra fuel changes nothing (the model passes length rs) *)
Lemma bsearch_fuel_stable p rs ch fuel : sorted_from p rs -> (length rs <= fuel)%nat ->
  bsearch fuel rs ch 0 (zlen rs) = bsearch (length rs) rs ch 0 (zlen rs).
Proof.
  intros Hs Hf. pose proof (count_le_length rs ch).
  rewrite !(bsearch_spec p rs ch Hs) by (unfold zlen; lia). reflexivity.
Qed.

Lemma in_ranges_sorted p rs ch : sorted_from p rs -> in_ranges rs ch = mem rs ch.
Proof.
  intros Hs. unfold in_ranges. destruct rs as [|r t]; [reflexivity|].
  destruct (zlen (r :: t) <=? 4).
  - apply (linear_scan_sorted p); exact Hs.
  - apply (binary_scan_sorted p); exact Hs.
Qed.

Lemma in_ranges_canonical rs ch : canonical_ranges rs -> in_ranges rs ch = mem rs ch.
Proof. intros H. destruct (canonical_sorted_from rs H) as [p Hp]. eapply in_ranges_sorted; eauto. Qed.

(* ---------------------------------------------------------------- sort *)
Lemma insert_range_perm r l : Permutation (r :: l) (insert_range r l).
Proof.
  induction l as [|h t IH]; cbn; [apply Permutation_refl|].
  destruct (fst r <? fst h); [apply Permutation_refl|].
  eapply Permutation_trans; [apply perm_swap|]. apply perm_skip. exact IH.
Qed.

Lemma sort_ranges_perm l : Permutation l (sort_ranges l).
Proof.
  induction l as [|h t IH]; cbn; [apply Permutation_refl|].
  eapply Permutation_trans; [apply perm_skip; exact IH|]. apply insert_range_perm.
Qed.

(* sorted by first (weakly) *)
Fixpoint first_sorted (lo : Z) (rs : list (Z * Z)) : Prop :=
  match rs with
  | [] => True
  | (a, _) :: t => lo <= a /\ first_sorted a t
  end.

Lemma first_sorted_weaken lo lo' rs : lo' <= lo -> first_sorted lo rs -> first_sorted lo' rs.
Proof. destruct rs as [|[a b] t]; cbn; [auto|]. intros; intuition lia. Qed.

Lemma insert_range_sorted r l lo : lo <= fst r -> first_sorted lo l -> first_sorted lo (insert_range r l).
Proof.
  revert lo. induction l as [|[a b] t IH]; intros lo Hr Hs; destruct r as [x y]; cbn [fst] in *.
  - cbn. auto with zarith.
  - cbn in Hs. destruct Hs as [H1 H2]. cbn [insert_range fst].
    destruct (x <? a) eqn:E.
    + cbn. repeat split; auto; lia.
    + cbn. split; [auto|]. apply (IH a); cbn [fst]; [lia|exact H2].
Qed.

Lemma sort_ranges_sorted l : Forall (fun r => 0 <= fst r) l -> first_sorted 0 (sort_ranges l).
Proof.
  induction 1 as [|h t Hh Ht IH]; cbn; [exact I|]. apply insert_range_sorted; auto.
Qed.

Lemma sort_ranges_length l : length (sort_ranges l) = length l.
Proof. symmetry. apply Permutation_length. apply sort_ranges_perm. Qed.

Lemma wf_ranges_perm l1 l2 : Permutation l1 l2 -> wf_ranges l1 -> wf_ranges l2.
Proof. intros HP H. unfold wf_ranges in *. rewrite Forall_forall in *. intros x Hx. apply H. eapply Permutation_in; [apply Permutation_sym|]; eauto. Qed.

(* ---------------------------------------------------------------- merge *)
Lemma merge_ranges_mem : forall rest first last ch,
  first <= last -> last <= max_rune -> first_sorted first rest -> wf_ranges rest ->
  mem (merge_ranges first last rest) ch = mem ((first, last) :: rest) ch.
Proof.
  induction rest as [|[a b] t IH]; intros first last ch Hfl Hlm Hs Hw; [reflexivity|].
  cbn in Hs. destruct Hs as [Hs1 Hs2]. inversion Hw as [|? ? Hw1 Hw2]; subst.
  destruct Hw1 as (W1 & W2 & W3); cbn [fst snd] in *.
  cbn [merge_ranges].
  destruct (last >=? max_rune) eqn:E1.
  - (* done: whatever follows lies inside [first, last] *)
    rewrite !mem_cons. unfold in_range at 1 2 3; cbn [fst snd mem existsb].
    assert (Ht : mem t ch = true -> first <= ch <= last).
    { rewrite mem_true_iff. intros [r [Hin Hr]]. unfold wf_ranges in Hw2. rewrite Forall_forall in Hw2.
      destruct (Hw2 r Hin) as (V1 & V2 & V3).
      assert (a <= fst r).
      { clear -Hs2 Hin. revert a Hs2. induction t as [|[x y] t IH]; intros a Hs2; [destruct Hin|].
        cbn in Hs2. destruct Hs2 as [K1 K2]. destruct Hin as [<-|Hin]; cbn [fst]; [lia|].
        specialize (IH Hin x K2). lia. }
      lia. }
    destruct (mem t ch) eqn:Em; [specialize (Ht eq_refl)|]; lia.
  - destruct (a >? last + 1) eqn:E2.
    + rewrite mem_cons. rewrite (IH a b ch) by (auto; lia). reflexivity.
    + rewrite (IH first (if last <? b then b else last) ch); [| destruct (last <? b); lia | destruct (last <? b); lia | |exact Hw2].
      * rewrite !mem_cons. unfold in_range; cbn [fst snd]. destruct (last <? b) eqn:E3; lia.
      * eapply first_sorted_weaken; [|exact Hs2]. lia.
Qed.

Lemma merge_ranges_sorted : forall rest first last p,
  p + 1 < first -> first <= last -> first_sorted first rest -> wf_ranges rest ->
  sorted_from p (merge_ranges first last rest).
Proof.
  induction rest as [|[a b] t IH]; intros first last p Hp Hfl Hs Hw.
  - cbn. auto.
  - cbn in Hs. destruct Hs as [Hs1 Hs2]. inversion Hw as [|? ? Hw1 Hw2]; subst.
    destruct Hw1 as (W1 & W2 & W3); cbn [fst snd] in *.
    cbn [merge_ranges]. destruct (last >=? max_rune); [cbn; auto|].
    destruct (a >? last + 1) eqn:E2.
    + cbn [sorted_from]. repeat split; auto. apply IH; auto; lia.
    + apply IH; auto; [destruct (last <? b); lia|]. eapply first_sorted_weaken; [|exact Hs2]. lia.
Qed.

Lemma merge_ranges_wf : forall rest first last,
  0 <= first -> first <= last -> last <= max_rune -> wf_ranges rest ->
  wf_ranges (merge_ranges first last rest).
Proof.
  induction rest as [|[a b] t IH]; intros first last H0 Hfl Hlm Hw.
  - constructor; [|constructor]. repeat split; auto.
  - inversion Hw as [|? ? Hw1 Hw2]; subst. destruct Hw1 as (W1 & W2 & W3); cbn [fst snd] in *.
    cbn [merge_ranges]. destruct (last >=? max_rune).
    + constructor; [|constructor]. repeat split; auto.
    + destruct (a >? last + 1).
      * constructor; [repeat split; auto|]. apply IH; auto.
      * apply IH; auto; destruct (last <? b) eqn:E3; lia.
Qed.

(* the range part of canonicalize *)
Definition merged (rs : list (Z * Z)) : list (Z * Z) :=
  match rs with
  | [] => []
  | [r] => [r]
  | _ => merge_sorted (sort_ranges rs)
  end.

Lemma first_sorted_cons_inv lo a b t : first_sorted lo ((a, b) :: t) -> first_sorted a t.
Proof. cbn. tauto. Qed.

Lemma merged_mem rs ch : wf_ranges rs -> mem (merged rs) ch = mem rs ch.
Proof.
  intros Hw. destruct rs as [|r1 [|r2 t]]; [reflexivity..|]. unfold merged.
  set (l := r1 :: r2 :: t) in *.
  pose proof (sort_ranges_perm l) as HP.
  rewrite (mem_perm l _ ch HP).
  pose proof (wf_ranges_perm _ _ HP Hw) as Hw'.
  assert (Hs : first_sorted 0 (sort_ranges l)).
  { apply sort_ranges_sorted. unfold wf_ranges in Hw. eapply Forall_impl; [|exact Hw]. intros x [? _]; auto. }
  destruct (sort_ranges l) as [|[a b] [|r' t']] eqn:El; [reflexivity..|].
  cbn [merge_sorted]. inversion Hw' as [|? ? W1 W2]; subst. destruct W1 as (V1 & V2 & V3); cbn [fst snd] in *.
  apply merge_ranges_mem; auto. eapply first_sorted_cons_inv; eauto.
Qed.

Lemma merged_canonical rs : wf_ranges rs -> canonical_ranges (merged rs).
Proof.
  intros Hw. destruct rs as [|r1 [|r2 t]]; [exact I| |].
  - inversion Hw as [|? ? W1 W2]; subst. destruct r1 as [a b]. destruct W1 as (V1 & V2 & V3). cbn. auto.
  - unfold merged. set (l := r1 :: r2 :: t) in *.
    pose proof (sort_ranges_perm l) as HP.
    pose proof (wf_ranges_perm _ _ HP Hw) as Hw'.
    assert (Hs : first_sorted 0 (sort_ranges l)).
    { apply sort_ranges_sorted. unfold wf_ranges in Hw. eapply Forall_impl; [|exact Hw]. intros x [? _]; auto. }
    destruct (sort_ranges l) as [|[a b] [|r' t']] eqn:El; [exact I| |].
    + inversion Hw' as [|? ? W1 W2]; subst. destruct W1 as (V1 & V2 & V3). cbn in *. auto.
    + cbn [merge_sorted]. inversion Hw' as [|? ? W1 W2]; subst. destruct W1 as (V1 & V2 & V3); cbn [fst snd] in *.
      apply (sorted_from_canonical (a - 2)). apply merge_ranges_sorted; auto; [lia|].
      eapply first_sorted_cons_inv; eauto.
Qed.

Lemma merged_wf rs : wf_ranges rs -> wf_ranges (merged rs).
Proof.
  intros Hw. destruct rs as [|r1 [|r2 t]]; [exact Hw..|].
  unfold merged. set (l := r1 :: r2 :: t) in *.
  pose proof (wf_ranges_perm _ _ (sort_ranges_perm l) Hw) as Hw'.
  destruct (sort_ranges l) as [|[a b] [|r' t']] eqn:El; [exact Hw'..|].
  cbn [merge_sorted]. inversion Hw' as [|? ? W1 W2]; subst. destruct W1 as (V1 & V2 & V3); cbn [fst snd] in *.
  apply merge_ranges_wf; auto.
Qed.
