(* [caps_rel2 / leadsg2 / ok_node2] version of Proofs/CompileLoop.v for compile_correct2 (balancing captures,
   see Proofs/CompileBal.v): the same lemmas and proofs over the marker-aware capture relation of
   Proofs/CompileBalDen.v.  Lemma names: cc_X -> c2_X. *)
(* compile_correct, stage 2: the general loop NLoop, all four code shapes
   (Branchmark / Lazybranchmark when n = INF and m <= 1; Branchcount / Lazybranchcount otherwise).
   The iteration invariant [iter_ok] is stated at the loop's test instruction, with the grouping
   stack holding the mark (and count); its failure state has the same stack frame (mark/count as
   they were when the test was entered), which the prelude's Back entry then pops. *)
From Verif Require Import Base.Prelude Model.Tree Model.Spec Model.VM Model.Writer Gen.RunnerGen
  Proofs.SpecProofs Proofs.SpecBoundsProofs Proofs.MaskProofs
  Proofs.VMU Proofs.VMUOps Proofs.VMUOps2 Proofs.VMUOps6 Proofs.VMUOps3 Proofs.CompileBase Proofs.CompileDefs Proofs.CompileLoop Proofs.CompileBalDen Proofs.CompileBalBase Proofs.CompileBalDefs.
From Coq Require Import Relations ZifyBool.

Section CC.
Variable e : env.
Variable p : program.
Hypothesis tc_nonneg : 0 <= trackcount p.

Notation rsteps := (VMUOps2.rsteps e p).
Notation leadsg2 := (CompileBalBase.leadsg2 e p).
Notation has_code := (CompileBase.has_code p).
Notation track_ok := (CompileBase.track_ok p).
Notation caps_rel2 := (CompileBalDen.caps_rel2 p).

Notation code_ex := (CompileDefs.code_ex p).
Notation tbl_ok := (CompileDefs.tbl_ok p).
Notation ok_node2 := (CompileBalDefs.ok_node2 e p).
Notation ok_at2 := (CompileBalDefs.ok_at2 e p).

(* one result that leaves the frame F; re-entering F fails back into the base *)
Lemma leadsg2_one b T Ss Sf C M0 s q F :
  track_ok (F ++ T) -> caps_rel2 (caps q) M0 ->
  (forall np T'' t, F ++ T = np :: T'' ->
     exists np' T3 t', T = np' :: T3 /\ rsteps (bkr np t T'' Ss C M0) (bkr np' t' T3 Sf C M0)) ->
  rsteps s (mkr b 0 (pos q) (F ++ T) Ss C M0) ->
  leadsg2 b T Ss Sf C M0 s [q].
Proof.
  intros Hk Hc Hb Hs. exists F, [], M0. cbn [app unwind].
  repeat (split; [first [assumption|reflexivity]|]).
  intros np T'' t HT. destruct (Hb np T'' t HT) as (np' & T3 & t' & HT3 & Hs3).
  exists np', T3, t'. split; assumption.
Qed.


Section Shape.
Variable f : nat.
Variable r : node.
Variable lazy : bool.
Variable limit : Z.
Variable cntd : bool.
Variables lbody ltest exit : Z.
Variable tbl : list (list Z).
Hypothesis Hr_ok : ok_node2 f r.
Hypothesis Hsr : supported2 r = true.
Hypothesis Hcb : has_code lbody (fst (emit cfg0 r lbody tbl)).
Hypothesis Htb : tbl_ok (snd (emit cfg0 r lbody tbl)).
Hypothesis Hlt : ltest = lbody + csize cfg0 r.
Hypothesis Hext : code_ex ltest.

Definition side2 (count : Z) (fi : nat) : Prop :=
  cntd = false -> 0 <= count /\ count + Z.of_nat fi <= INF /\ limit = INF.

Definition iter_ok_at2 (fi : nat) : Prop :=
  forall s mark count res, iter fi (sem e f r) lazy limit s mark count = Ok res -> st_ok e s ->
    side2 count fi ->
    forall T S C M, track_ok T -> caps_rel2 (caps s) M ->
      leadsg2 exit T S (stkf cntd lazy mark count (pos s) ++ S) C M
             (mkr ltest 0 (pos s) T (stk cntd mark count ++ S) C M) res.

(* run the body once more, then iterate on each of its results *)
Lemma c2_again fi : iter_ok_at2 fi ->
  forall s c' ra,
    bindr (sem e f r s) (fun s' => iter fi (sem e f r) lazy limit s' (pos s) c') = Ok ra ->
    st_ok e s -> side2 c' fi ->
    forall T S C M, track_ok T -> caps_rel2 (caps s) M ->
      leadsg2 exit T S (stk cntd (pos s) c' ++ S) C M
             (mkr lbody 0 (pos s) T (stk cntd (pos s) c' ++ S) C M) ra.
Proof.
  intros IH s c' ra Hra Hst Hside T S C M Hk Hr.
  apply sp_bindr_ok in Hra. destruct Hra as [la [Hla Hb]].
  eapply leadsg2_bindl with (m := ltest) (Ss1 := stk cntd (pos s) c' ++ S); [|exact Hb|].
  - rewrite Hlt. apply (Hr_ok s la Hla Hst lbody tbl T (stk cntd (pos s) c' ++ S) C M); try assumption.
    rewrite <- Hlt. exact Hext.
  - intros q rq T' C' M' Hin Hq Hcq Hu Hkq.
    assert (Hstq : st_ok e q) by (eapply c2_res_ok_in; eassumption).
    pose proof (IH q (pos s) c' rq Hq Hstq Hside (T' ++ T) S (C' ++ C) M' Hkq Hcq) as G.
    rewrite stkf_eq in G by (destruct Hst as [Hp _]; lia). exact G.
Qed.

End Shape.

(* ---------- greedy, uncounted: Branchmark ---------- *)
Lemma c2_iter_bm f r lbody ltest tbl :
  ok_node2 f r -> supported2 r = true -> has_code lbody (fst (emit cfg0 r lbody tbl)) ->
  tbl_ok (snd (emit cfg0 r lbody tbl)) ->
  ltest = lbody + csize cfg0 r ->
  code_at p ltest = Some Branchmark -> code_at p (ltest + 1) = Some lbody -> code_ex (ltest + 2) ->
  0 < ltest -> code_ex lbody ->
  forall fi, iter_ok_at2 f r false INF false ltest (ltest + 2) fi.
Proof.
  intros Hr_ok Hsr Hcb Htb Hlt H0 H1 [w2 H2] Hpos [wb Hwb].
  induction fi as [|fi IH]; intros s mark count res Hit Hst Hside T S C M Hk Hr; [discriminate Hit|].
  destruct (Hside eq_refl) as (Hc0 & Hcf & _).
  cbn [iter] in Hit. cbn [stk stkf app andb].
  replace (INF <=? count) with false in Hit by lia. replace (0 <=? count) with true in Hit by lia.
  cbn [orb] in Hit. rewrite andb_true_r in Hit.
  assert (Htail : leadsg2 (ltest + 2) T S (mark :: S) C M
                         (mkr (ltest + 2) 0 (pos s) (- ltest :: mark :: T) S C M) [s]).
  { apply leadsg2_one with (F := [- ltest; mark]).
    - cbn [app]. eapply track_ok_cons. rewrite Z.abs_opp, Z.abs_eq by lia. exact H0.
    - exact Hr.
    - intros np T'' t HT. cbn [app] in HT. injection HT as <- <-.
      destruct Hk as (np' & T3 & -> & w3 & Hw3). exists np', T3, t. split; [reflexivity|].
      rewrite bkr_neg by exact Hpos. eapply rs_branchmark_back2; try exact tc_nonneg; eassumption.
    - apply rsteps_refl. }
  destruct (pos s =? mark) eqn:Em.
  - injection Hit as <-. apply Z.eqb_eq in Em. eapply leadsg2_pre; [|exact Htail]. rewrite <- Em.
    eapply rs_branchmark_empty; try exact tc_nonneg; eassumption.
  - apply sp_appr_ok in Hit. destruct Hit as (ra & y & Hra & Hy & ->). injection Hy as <-.
    eapply leadsg2_pre. { eapply rs_branchmark_loop; try exact tc_nonneg; try eassumption. lia. }
    eapply leadsg2_app with (T1 := [ltest; pos s; mark]) (Cx := []) (Sf1 := pos s :: S) (M1 := M); [|reflexivity|].
    + apply (c2_again f r false INF false lbody ltest (ltest + 2) tbl Hr_ok Hsr Hcb Htb Hlt (ex_intro _ _ H0) fi IH
               s (count + 1) ra Hra Hst).
      * intros _. repeat split; lia.
      * cbn [app]. eapply track_ok_cons. rewrite Z.abs_eq by lia. exact H0.
      * exact Hr.
    + intros np T' t HT. cbn [app] in HT. injection HT as <- <-.
      rewrite bkr_pos by lia. eapply leadsg2_pre; [|exact Htail].
      eapply rs_branchmark_back; try exact tc_nonneg; eassumption.
Qed.

(* ---------- lazy, uncounted: Lazybranchmark ---------- *)
Lemma c2_iter_lbm f r lbody ltest tbl :
  ok_node2 f r -> supported2 r = true -> has_code lbody (fst (emit cfg0 r lbody tbl)) ->
  tbl_ok (snd (emit cfg0 r lbody tbl)) ->
  ltest = lbody + csize cfg0 r ->
  code_at p ltest = Some Lazybranchmark -> code_at p (ltest + 1) = Some lbody -> code_ex (ltest + 2) ->
  0 < ltest -> code_ex lbody ->
  forall fi, iter_ok_at2 f r true INF false ltest (ltest + 2) fi.
Proof.
  intros Hr_ok Hsr Hcb Htb Hlt H0 H1 [w2 H2] Hpos [wb Hwb].
  induction fi as [|fi IH]; intros s mark count res Hit Hst Hside T S C M Hk Hr; [discriminate Hit|].
  destruct (Hside eq_refl) as (Hc0 & Hcf & _).
  cbn [iter] in Hit. cbn [stk stkf app andb].
  replace (count <? 0) with false in Hit by lia. replace (count <? INF) with true in Hit by lia.
  cbn [andb] in Hit.
  apply sp_appr_ok in Hit. destruct Hit as (x & ra & Hx & Hra & ->). injection Hx as <-. cbn [app].
  pose proof Hk as (np' & T3 & HT3 & w3 & Hw3).
  destruct Hst as [Hp Hcs]. assert (Hst : st_ok e s) by (split; assumption).
  destruct (pos s =? mark) eqn:Em; cbn [negb] in Hra.
  - injection Hra as <-. apply Z.eqb_eq in Em.
    replace (mark =? -1) with false by lia.
    apply leadsg2_one with (F := [- ltest; 0; mark]).
    + cbn [app]. eapply track_ok_cons. rewrite Z.abs_opp, Z.abs_eq by lia. exact H0.
    + exact Hr.
    + intros np T'' t HT. cbn [app] in HT. injection HT as <- <-.
      exists np', T3, t. split; [exact HT3|]. rewrite HT3.
      rewrite bkr_neg by exact Hpos. eapply rs_lazybranchmark_back2_keep; try exact tc_nonneg; eassumption.
    + rewrite <- Em. eapply rs_lazybranchmark_empty; try exact tc_nonneg; eassumption.
  - set (mark' := if mark =? -1 then pos s else mark).
    exists [ltest; pos s; mark'], [], M. cbn [app unwind].
    split; [exact Hr|]. split; [reflexivity|].
    split. { eapply track_ok_cons. rewrite Z.abs_eq by lia. exact H0. }
    split. { eapply rs_lazybranchmark_fwd; try exact tc_nonneg; try eassumption. lia. }
    intros np T'' t HT. injection HT as <- <-. rewrite bkr_pos by lia.
    eapply leadsg2_pre. { eapply rs_lazybranchmark_back; try exact tc_nonneg; eassumption. }
    rewrite <- (app_nil_r ra).
    eapply leadsg2_app with (T1 := [- ltest; 1; mark']) (Cx := []) (Sf1 := pos s :: S) (M1 := M); [|reflexivity|].
    + apply (c2_again f r true INF false lbody ltest (ltest + 2) tbl Hr_ok Hsr Hcb Htb Hlt (ex_intro _ _ H0) fi IH
               s (count + 1) ra Hra Hst).
      * intros _. repeat split; lia.
      * cbn [app]. eapply track_ok_cons. rewrite Z.abs_opp, Z.abs_eq by lia. exact H0.
      * exact Hr.
    + intros np T' t0 HT. cbn [app] in HT. injection HT as <- <-.
      rewrite bkr_neg by exact Hpos. eapply leadsg2_fail; [exact HT3|]. rewrite HT3.
      eapply rs_lazybranchmark_back2_pop; try exact tc_nonneg; eassumption.
Qed.

(* ---------- greedy, counted: Branchcount ---------- *)
Lemma c2_iter_bc f r limit lbody ltest tbl :
  ok_node2 f r -> supported2 r = true -> has_code lbody (fst (emit cfg0 r lbody tbl)) ->
  tbl_ok (snd (emit cfg0 r lbody tbl)) ->
  ltest = lbody + csize cfg0 r ->
  code_at p ltest = Some Branchcount -> code_at p (ltest + 1) = Some lbody -> code_at p (ltest + 2) = Some limit ->
  code_ex (ltest + 3) -> 0 < ltest -> code_ex lbody ->
  forall fi, iter_ok_at2 f r false limit true ltest (ltest + 3) fi.
Proof.
  intros Hr_ok Hsr Hcb Htb Hlt H0 H1 H2 [w3 H3] Hpos [wb Hwb].
  induction fi as [|fi IH]; intros s mark count res Hit Hst Hside T S C M Hk Hr; [discriminate Hit|].
  cbn [iter] in Hit. cbn [stk stkf app].
  pose proof Hk as (np' & T3 & HT3 & w4 & Hw4).
  assert (Htail : leadsg2 (ltest + 3) T S (count :: mark :: S) C M
                         (mkr (ltest + 3) 0 (pos s) (- ltest :: count :: mark :: T) S C M) [s]).
  { apply leadsg2_one with (F := [- ltest; count; mark]).
    - cbn [app]. eapply track_ok_cons. rewrite Z.abs_opp, Z.abs_eq by lia. exact H0.
    - exact Hr.
    - intros np T'' t HT. cbn [app] in HT. injection HT as <- <-.
      exists np', T3, t. split; [exact HT3|]. rewrite HT3.
      rewrite bkr_neg by exact Hpos. eapply rs_branchcount_back2; try exact tc_nonneg; eassumption.
    - apply rsteps_refl. }
  destruct ((limit <=? count) || ((pos s =? mark) && (0 <=? count))) eqn:Ec.
  - injection Hit as <-. eapply leadsg2_pre; [|exact Htail].
    eapply rs_branchcount_exit; try exact tc_nonneg; eassumption.
  - apply sp_appr_ok in Hit. destruct Hit as (ra & y & Hra & Hy & ->). injection Hy as <-.
    eapply leadsg2_pre. { eapply rs_branchcount_loop; try exact tc_nonneg; eassumption. }
    eapply leadsg2_app with (T1 := [ltest; mark]) (Cx := []) (Sf1 := count + 1 :: pos s :: S) (M1 := M); [|reflexivity|].
    + apply (c2_again f r false limit true lbody ltest (ltest + 3) tbl Hr_ok Hsr Hcb Htb Hlt (ex_intro _ _ H0) fi IH
               s (count + 1) ra Hra Hst).
      * intros Hx. discriminate Hx.
      * cbn [app]. eapply track_ok_cons. rewrite Z.abs_eq by lia. exact H0.
      * exact Hr.
    + intros np T' t HT. cbn [app] in HT. injection HT as <- <-.
      rewrite bkr_pos by lia. destruct (0 <=? count) eqn:E0.
      * eapply leadsg2_pre; [|exact Htail].
        replace count with (count + 1 - 1) at 2 by lia.
        eapply rs_branchcount_back_pos; try exact tc_nonneg; try eassumption. lia.
      * eapply leadsg2_fail; [exact HT3|]. rewrite HT3.
        replace count with (count + 1 - 1) at 2 by lia.
        eapply rs_branchcount_back_neg; try exact tc_nonneg; try eassumption. lia.
Qed.

(* ---------- lazy, counted: Lazybranchcount ---------- *)
Lemma c2_iter_lbc f r limit lbody ltest tbl :
  ok_node2 f r -> supported2 r = true -> has_code lbody (fst (emit cfg0 r lbody tbl)) ->
  tbl_ok (snd (emit cfg0 r lbody tbl)) ->
  ltest = lbody + csize cfg0 r ->
  code_at p ltest = Some Lazybranchcount -> code_at p (ltest + 1) = Some lbody -> code_at p (ltest + 2) = Some limit ->
  code_ex (ltest + 3) -> 0 < ltest -> code_ex lbody ->
  forall fi, iter_ok_at2 f r true limit true ltest (ltest + 3) fi.
Proof.
  intros Hr_ok Hsr Hcb Htb Hlt H0 H1 H2 [w3 H3] Hpos [wb Hwb].
  induction fi as [|fi IH]; intros s mark count res Hit Hst Hside T S C M Hk Hr; [discriminate Hit|].
  cbn [iter] in Hit. cbn [stk stkf app].
  pose proof Hk as (np' & T3 & HT3 & w4 & Hw4).
  (* the body-then-iterate part, entered with frame [-ltest; mark] *)
  assert (Hagain : forall ra,
    bindr (sem e f r s) (fun s' => iter fi (sem e f r) true limit s' (pos s) (count + 1)) = Ok ra ->
    leadsg2 (ltest + 3) T S (count :: mark :: S) C M
           (mkr lbody 0 (pos s) (- ltest :: mark :: T) (count + 1 :: pos s :: S) C M) ra).
  { intros ra Hra. rewrite <- (app_nil_r ra).
    eapply leadsg2_app with (T1 := [- ltest; mark]) (Cx := []) (Sf1 := count + 1 :: pos s :: S) (M1 := M); [|reflexivity|].
    + apply (c2_again f r true limit true lbody ltest (ltest + 3) tbl Hr_ok Hsr Hcb Htb Hlt (ex_intro _ _ H0) fi IH
               s (count + 1) ra Hra Hst).
      * intros Hx. discriminate Hx.
      * cbn [app]. eapply track_ok_cons. rewrite Z.abs_opp, Z.abs_eq by lia. exact H0.
      * exact Hr.
    + intros np T' t HT. cbn [app] in HT. injection HT as <- <-.
      rewrite bkr_neg by exact Hpos. eapply leadsg2_fail; [exact HT3|]. rewrite HT3.
      replace count with (count + 1 - 1) at 2 by lia.
      eapply rs_lazybranchcount_back2; try exact tc_nonneg; eassumption. }
  destruct (count <? 0) eqn:Ec.
  - eapply leadsg2_pre; [|apply Hagain; exact Hit].
    eapply rs_lazybranchcount_loop; try exact tc_nonneg; try eassumption. lia.
  - apply sp_appr_ok in Hit. destruct Hit as (x & ra & Hx & Hra & ->). injection Hx as <-. cbn [app].
    exists [ltest; pos s; count; mark], [], M. cbn [app unwind].
    split; [exact Hr|]. split; [reflexivity|].
    split. { eapply track_ok_cons. rewrite Z.abs_eq by lia. exact H0. }
    split. { eapply rs_lazybranchcount_exit; try exact tc_nonneg; try eassumption. lia. }
    intros np T'' t HT. injection HT as <- <-. rewrite bkr_pos by lia.
    destruct ((count <? limit) && negb (pos s =? mark)) eqn:E2.
    + eapply leadsg2_pre; [|apply Hagain; exact Hra].
      eapply rs_lazybranchcount_back_again; try exact tc_nonneg; eassumption.
    + injection Hra as <-. eapply leadsg2_fail; [exact HT3|]. rewrite HT3.
      eapply rs_lazybranchcount_back_fail; try exact tc_nonneg; eassumption.
Qed.

(* ---------- assembling the loop: prelude, (Goto), body, test ---------- *)
Lemma c2_loop_core f r lazy limit cntd m a lbody ltest exit tbl :
  ok_node2 f r -> supported2 r = true -> has_code lbody (fst (emit cfg0 r lbody tbl)) ->
  tbl_ok (snd (emit cfg0 r lbody tbl)) ->
  ltest = lbody + csize cfg0 r -> code_ex ltest -> code_at p a <> None ->
  (forall fi, iter_ok_at2 f r lazy limit cntd ltest exit fi) ->
  side2 limit cntd (if m =? 0 then 0 else 1 - m) f ->
  (m = 0 -> forall t T S C M, rsteps (mkr a 0 t T S C M) (mkr ltest 0 t (a :: T) (stk cntd (-1) 0 ++ S) C M)) ->
  (m <> 0 -> forall t T S C M, rsteps (mkr a 0 t T S C M) (mkr lbody 0 t (a :: T) (stk cntd t (1 - m) ++ S) C M)) ->
  (forall t np T' mk ct tt S C M w3, code_at p (Z.abs np) = Some w3 ->
     rsteps (mkr a BackBit t (np :: T') (stkf cntd lazy mk ct tt ++ S) C M) (bkr np t T' S C M)) ->
  forall s res,
    (if m =? 0 then iter f (sem e f r) lazy limit s (-1) 0
     else bindr (sem e f r s) (fun s' => iter f (sem e f r) lazy limit s' (pos s) (1 - m))) = Ok res ->
    st_ok e s ->
    forall T S C M, track_ok T -> caps_rel2 (caps s) M ->
      leadsg2 exit T S S C M (mkr a 0 (pos s) T S C M) res.
Proof.
  intros Hr_ok Hsr Hcb Htb Hlt Hext Ha Hiter Hside Hpre0 Hpre1 Hback s res Hsem Hst T S C M Hk Hr.
  assert (Ha0 : 0 <= a).
  { destruct (code_at p a) as [w|] eqn:E; [|congruence]. eapply code_at_nonneg. exact E. }
  assert (Hka : track_ok (a :: T)).
  { destruct (code_at p a) as [w|] eqn:E; [|congruence]. eapply track_ok_cons. rewrite Z.abs_eq by lia. exact E. }
  pose proof Hk as (np' & T3 & HT3 & w3 & Hw3).
  rewrite <- (app_nil_r res).
  destruct (m =? 0) eqn:Em.
  - apply Z.eqb_eq in Em. eapply leadsg2_pre; [apply Hpre0; exact Em|].
    eapply leadsg2_app with (T1 := [a]) (Cx := []) (Sf1 := stkf cntd lazy (-1) 0 (pos s) ++ S) (M1 := M); [|reflexivity|].
    + apply (Hiter f s (-1) 0 res Hsem Hst Hside ([a] ++ T) S C M Hka Hr).
    + intros np T' t HT. cbn [app] in HT. injection HT as <- <-. rewrite bkr_pos by exact Ha0.
      eapply leadsg2_fail; [exact HT3|]. rewrite HT3. eapply Hback. exact Hw3.
  - apply Z.eqb_neq in Em. eapply leadsg2_pre; [apply Hpre1; exact Em|].
    eapply leadsg2_app with (T1 := [a]) (Cx := []) (Sf1 := stk cntd (pos s) (1 - m) ++ S) (M1 := M); [|reflexivity|].
    + apply (c2_again f r lazy limit cntd lbody ltest exit tbl Hr_ok Hsr Hcb Htb Hlt Hext f (Hiter f)
               s (1 - m) res Hsem Hst Hside ([a] ++ T) S C M Hka Hr).
    + intros np T' t HT. cbn [app] in HT. injection HT as <- <-. rewrite bkr_pos by exact Ha0.
      eapply leadsg2_fail; [exact HT3|]. rewrite HT3.
      rewrite <- (stkf_eq cntd lazy (pos s) (1 - m) 0) by (destruct Hst as [Hp _]; lia).
      eapply Hback. exact Hw3.
Qed.


Lemma c2_loop f lazy o m n r : Z.of_nat f <= INF -> ok_node2 f r -> supported2 r = true -> 0 <= m -> n <= INF ->
  ok_node2 (S f) (NLoop lazy o m n r).
Proof.
  intros Hf Hr_ok Hsr Hm Hn s res Hsem Hst a tbl T S C M Hc Hex Hk Hr Htb.
  rewrite cc_sem_loop in Hsem.
  set (limit := if n =? INF then INF else n - m) in *.
  cbn [emit csize] in Hc, Hex, Htb |- *. cbv zeta in Hc, Htb.
  destruct (counted m n) eqn:Ec; destruct (m =? 0) eqn:Em.
  - (* Nullcount 0 ; Goto ltest ; body ; Branchcount *)
    change (zlen [Nullcount; 0]) with 2 in Hc, Htb.
    pose proof (emit_length cfg0 r (a + 2 + 2) tbl) as Lr.
    destruct (emit cfg0 r (a + 2 + 2) tbl) as [cr t1] eqn:Er. cbn [fst snd] in Lr, Hc, Htb. rewrite ?Lr in Hc.
    cbn [app] in Hc.
    apply has_code_cons in Hc. destruct Hc as [H0 Hc]. apply has_code_cons in Hc. destruct Hc as [H1 Hc].
    apply has_code_cons in Hc. destruct Hc as [Hg0 Hc]. apply has_code_cons in Hc. destruct Hc as [Hg1 Hc].
    apply has_code_app in Hc. destruct Hc as [Hcr Hc]. rewrite Lr in Hc.
    apply has_code_cons in Hc. destruct Hc as [Ht0 Hc]. apply has_code_cons in Hc. destruct Hc as [Ht1 Hc].
    apply has_code_cons in Hc. destruct Hc as [Ht2 _].
    replace (a + 1 + 1 + 1 + 1) with (a + 2 + 2) in * by lia.
    replace (a + 1 + 1) with (a + 2) in * by lia.
    set (lbody := a + 2 + 2) in *. set (ltest := lbody + csize cfg0 r) in *.
    replace (ltest + 1 + 1) with (ltest + 2) in * by lia.
    replace (a + (2 + 2 + csize cfg0 r + 3)) with (ltest + 3) in * by (unfold ltest, lbody; lia).
    pose proof (code_at_nonneg p _ _ H0) as Ha0.
    assert (Hlt0 : 0 < ltest) by (unfold ltest, lbody; pose proof (emit_length cfg0 r 0 []); pose proof (zlen_nonneg (fst (emit cfg0 r 0 []))); lia).
    assert (Hexb : code_ex lbody) by (eapply cc_code_ex_start; [exact Hcr|]; rewrite Lr; eexists; exact Ht0).
    apply Z.eqb_eq in Em. subst m.
    assert (Hiter : forall fi, iter_ok_at2 f r lazy limit true ltest (ltest + 3) fi).
    { destruct lazy.
      - eapply c2_iter_lbc with (lbody := lbody) (tbl := tbl); try eassumption; try reflexivity;
          try (rewrite Er; exact Hcr); try (rewrite Er; exact Htb); try exact Ht0.
      - eapply c2_iter_bc with (lbody := lbody) (tbl := tbl); try eassumption; try reflexivity;
          try (rewrite Er; exact Hcr); try (rewrite Er; exact Htb); try exact Ht0. }
    apply (c2_loop_core f r lazy limit true 0 a lbody ltest (ltest + 3) tbl Hr_ok Hsr); try assumption.
    + rewrite Er. exact Hcr.
    + rewrite Er. exact Htb.
    + reflexivity.
    + eexists; exact Ht0.
    + congruence.
    + intros Hx; discriminate Hx.
    + intros _ t T0 S0 C0 M0. cbn [stk app].
      eapply rsteps_trans; [eapply rs_nullcount; try exact tc_nonneg; eassumption|].
      eapply rs_goto; try exact tc_nonneg; eassumption.
    + intros Hx. congruence.
    + intros t np T' mk ct tt S0 C0 M0 w3 Hw3. cbn [stkf app].
      eapply rs_count_back; try exact tc_nonneg; try eassumption. right. reflexivity.
  - (* Setcount (1-m) ; body ; Branchcount *)
    change (zlen [Setcount; 1 - m]) with 2 in Hc, Htb.
    pose proof (emit_length cfg0 r (a + 2 + 0) tbl) as Lr.
    destruct (emit cfg0 r (a + 2 + 0) tbl) as [cr t1] eqn:Er. cbn [fst snd] in Lr, Hc, Htb. rewrite ?Lr in Hc.
    cbn [app] in Hc.
    apply has_code_cons in Hc. destruct Hc as [H0 Hc]. apply has_code_cons in Hc. destruct Hc as [H1 Hc].
    apply has_code_app in Hc. destruct Hc as [Hcr Hc]. rewrite Lr in Hc.
    apply has_code_cons in Hc. destruct Hc as [Ht0 Hc]. apply has_code_cons in Hc. destruct Hc as [Ht1 Hc].
    apply has_code_cons in Hc. destruct Hc as [Ht2 _].
    replace (a + 1 + 1) with (a + 2) in * by lia. replace (a + 2 + 0) with (a + 2) in * by lia.
    set (lbody := a + 2) in *. set (ltest := lbody + csize cfg0 r) in *.
    replace (ltest + 1 + 1) with (ltest + 2) in * by lia.
    replace (a + (2 + 0 + csize cfg0 r + 3)) with (ltest + 3) in * by (unfold ltest, lbody; lia).
    pose proof (code_at_nonneg p _ _ H0) as Ha0.
    assert (Hlt0 : 0 < ltest) by (unfold ltest, lbody; pose proof (emit_length cfg0 r 0 []); pose proof (zlen_nonneg (fst (emit cfg0 r 0 []))); lia).
    assert (Hexb : code_ex lbody) by (eapply cc_code_ex_start; [exact Hcr|]; rewrite Lr; eexists; exact Ht0).
    apply Z.eqb_neq in Em.
    assert (Hiter : forall fi, iter_ok_at2 f r lazy limit true ltest (ltest + 3) fi).
    { destruct lazy.
      - eapply c2_iter_lbc with (lbody := lbody) (tbl := tbl); try eassumption; try reflexivity;
          try (rewrite Er; exact Hcr); try (rewrite Er; exact Htb); try exact Ht0.
      - eapply c2_iter_bc with (lbody := lbody) (tbl := tbl); try eassumption; try reflexivity;
          try (rewrite Er; exact Hcr); try (rewrite Er; exact Htb); try exact Ht0. }
    replace (m =? 0) with false in Hsem by lia.
    apply (c2_loop_core f r lazy limit true m a lbody ltest (ltest + 3) tbl Hr_ok Hsr); try assumption.
    + rewrite Er. exact Hcr.
    + rewrite Er. exact Htb.
    + reflexivity.
    + eexists; exact Ht0.
    + congruence.
    + intros Hx; discriminate Hx.
    + intros Hx. congruence.
    + intros _ t T0 S0 C0 M0. cbn [stk app]. destruct Hexb as [wb Hwb].
      eapply rs_setcount; try exact tc_nonneg; eassumption.
    + intros t np T' mk ct tt S0 C0 M0 w3 Hw3. cbn [stkf app].
      eapply rs_count_back; try exact tc_nonneg; try eassumption. left. reflexivity.
    + replace (m =? 0) with false by lia. exact Hsem.
  - (* Nullmark ; Goto ltest ; body ; Branchmark *)
    change (zlen [Nullmark]) with 1 in Hc, Htb.
    pose proof (emit_length cfg0 r (a + 1 + 2) tbl) as Lr.
    destruct (emit cfg0 r (a + 1 + 2) tbl) as [cr t1] eqn:Er. cbn [fst snd] in Lr, Hc, Htb. rewrite ?Lr in Hc.
    cbn [app] in Hc.
    apply has_code_cons in Hc. destruct Hc as [H0 Hc].
    apply has_code_cons in Hc. destruct Hc as [Hg0 Hc]. apply has_code_cons in Hc. destruct Hc as [Hg1 Hc].
    apply has_code_app in Hc. destruct Hc as [Hcr Hc]. rewrite Lr in Hc.
    apply has_code_cons in Hc. destruct Hc as [Ht0 Hc]. apply has_code_cons in Hc. destruct Hc as [Ht1 _].
    replace (a + 1 + 1 + 1) with (a + 1 + 2) in * by lia.
    set (lbody := a + 1 + 2) in *. set (ltest := lbody + csize cfg0 r) in *.
    replace (a + (1 + 2 + csize cfg0 r + 2)) with (ltest + 2) in * by (unfold ltest, lbody; lia).
    pose proof (code_at_nonneg p _ _ H0) as Ha0.
    assert (Hlt0 : 0 < ltest) by (unfold ltest, lbody; pose proof (emit_length cfg0 r 0 []); pose proof (zlen_nonneg (fst (emit cfg0 r 0 []))); lia).
    assert (Hexb : code_ex lbody) by (eapply cc_code_ex_start; [exact Hcr|]; rewrite Lr; eexists; exact Ht0).
    apply Z.eqb_eq in Em. subst m.
    unfold counted in Ec. apply orb_false_elim in Ec. destruct Ec as [En Em1].
    assert (Hlim : limit = INF) by (unfold limit; replace (n =? INF) with true by lia; reflexivity).
    rewrite Hlim in *.
    assert (Hiter : forall fi, iter_ok_at2 f r lazy INF false ltest (ltest + 2) fi).
    { destruct lazy.
      - eapply c2_iter_lbm with (lbody := lbody) (tbl := tbl); try eassumption; try reflexivity;
          try (rewrite Er; exact Hcr); try (rewrite Er; exact Htb); try exact Ht0.
      - eapply c2_iter_bm with (lbody := lbody) (tbl := tbl); try eassumption; try reflexivity;
          try (rewrite Er; exact Hcr); try (rewrite Er; exact Htb); try exact Ht0. }
    apply (c2_loop_core f r lazy INF false 0 a lbody ltest (ltest + 2) tbl Hr_ok Hsr); try assumption.
    + rewrite Er. exact Hcr.
    + rewrite Er. exact Htb.
    + reflexivity.
    + eexists; exact Ht0.
    + congruence.
    + intros _. cbn. repeat split; lia.
    + intros _ t T0 S0 C0 M0. cbn [stk app].
      eapply rsteps_trans; [eapply rs_nullmark; try exact tc_nonneg; eassumption|].
      eapply rs_goto; try exact tc_nonneg; eassumption.
    + intros Hx. congruence.
    + intros t np T' mk ct tt S0 C0 M0 w3 Hw3. cbn [stkf app].
      eapply rs_mark_back; try exact tc_nonneg; try eassumption. right. reflexivity.
  - (* Setmark ; body ; Branchmark  (m = 1) *)
    change (zlen [Setmark]) with 1 in Hc, Htb.
    pose proof (emit_length cfg0 r (a + 1 + 0) tbl) as Lr.
    destruct (emit cfg0 r (a + 1 + 0) tbl) as [cr t1] eqn:Er. cbn [fst snd] in Lr, Hc, Htb. rewrite ?Lr in Hc.
    cbn [app] in Hc.
    apply has_code_cons in Hc. destruct Hc as [H0 Hc].
    apply has_code_app in Hc. destruct Hc as [Hcr Hc]. rewrite Lr in Hc.
    apply has_code_cons in Hc. destruct Hc as [Ht0 Hc]. apply has_code_cons in Hc. destruct Hc as [Ht1 _].
    replace (a + 1 + 0) with (a + 1) in * by lia.
    set (lbody := a + 1) in *. set (ltest := lbody + csize cfg0 r) in *.
    replace (a + (1 + 0 + csize cfg0 r + 2)) with (ltest + 2) in * by (unfold ltest, lbody; lia).
    pose proof (code_at_nonneg p _ _ H0) as Ha0.
    assert (Hlt0 : 0 < ltest) by (unfold ltest, lbody; pose proof (emit_length cfg0 r 0 []); pose proof (zlen_nonneg (fst (emit cfg0 r 0 []))); lia).
    assert (Hexb : code_ex lbody) by (eapply cc_code_ex_start; [exact Hcr|]; rewrite Lr; eexists; exact Ht0).
    apply Z.eqb_neq in Em.
    unfold counted in Ec. apply orb_false_elim in Ec. destruct Ec as [En Em1].
    assert (Hm1 : m = 1) by lia. subst m.
    assert (Hlim : limit = INF) by (unfold limit; replace (n =? INF) with true by lia; reflexivity).
    rewrite Hlim in *.
    assert (Hiter : forall fi, iter_ok_at2 f r lazy INF false ltest (ltest + 2) fi).
    { destruct lazy.
      - eapply c2_iter_lbm with (lbody := lbody) (tbl := tbl); try eassumption; try reflexivity;
          try (rewrite Er; exact Hcr); try (rewrite Er; exact Htb); try exact Ht0.
      - eapply c2_iter_bm with (lbody := lbody) (tbl := tbl); try eassumption; try reflexivity;
          try (rewrite Er; exact Hcr); try (rewrite Er; exact Htb); try exact Ht0. }
    apply (c2_loop_core f r lazy INF false 1 a lbody ltest (ltest + 2) tbl Hr_ok Hsr); try assumption.
    + rewrite Er. exact Hcr.
    + rewrite Er. exact Htb.
    + reflexivity.
    + eexists; exact Ht0.
    + congruence.
    + intros _. cbn. repeat split; lia.
    + intros Hx. discriminate Hx.
    + intros _ t T0 S0 C0 M0. cbn [stk app]. destruct Hexb as [wb Hwb].
      eapply rs_setmark; try exact tc_nonneg; eassumption.
    + intros t np T' mk ct tt S0 C0 M0 w3 Hw3. cbn [stkf app].
      eapply rs_mark_back; try exact tc_nonneg; try eassumption. left. reflexivity.
Qed.

End CC.
