(* C12, part E: calls and histories.  C11: every interleaving of the atomic actions. *)
From Verif Require Import Base.Prelude Model.Pool Proofs.PoolStackProofs Proofs.PoolRunnerProofs
  Proofs.PoolStateProofs Proofs.PoolSimProofs.

Section Histories.
Variable E : env.
Hypothesis WF : env_wf E.

(* one call, on any legal shared state, with any answers of the pools *)
Lemma call_fresh : forall fuel o g ch,
  gstate_ok E g ->
  snd (call E fuel o g ch) = fresh_result E fuel o /\ gstate_ok E (fst (call E fuel o g ch)).
Proof.
  intros fuel o g ch G. unfold call, fresh_result.
  apply (sim_run_ideal E (entry E fuel o) (entry E fuel o) (entry_sim E WF fuel o) g ch G).
Qed.

(* "a freshly compiled Regexp": the state right after Compile, pools empty *)
Lemma fresh_result_on_fresh_state : forall fuel o nre rs bs ch,
  snd (call E fuel o (gstate0 nre rs bs) ch) = fresh_result E fuel o.
Proof. intros. apply call_fresh. apply gstate0_ok. Qed.

Fixpoint calls_of (h : list hstep) : list op :=
  match h with
  | [] => []
  | HCall o _ :: h' => o :: calls_of h'
  | HGc _ :: h' => calls_of h'
  end.

Lemma history_fresh : forall fuel h g,
  gstate_ok E g ->
  snd (run_history E fuel h g) = map (fresh_result E fuel) (calls_of h) /\
  gstate_ok E (fst (run_history E fuel h g)).
Proof.
  induction h as [|[o ch|f] h IH]; intros g G; cbn [run_history calls_of map].
  - cbn; auto.
  - destruct (call_fresh fuel o g ch G) as [V G1].
    destruct (call E fuel o g ch) as [g1 v]; cbn [fst snd] in *.
    destruct (IH g1 G1) as [VS G2].
    destruct (run_history E fuel h g1) as [g2 vs]; cbn [fst snd] in *.
    subst. auto.
  - apply IH. apply gc_ok; auto.
Qed.

(* ---------- C11 ---------- *)

(* what a goroutine's record looks like at any moment of any schedule: the calls already finished returned
   their fresh results, the call in progress is related to a program whose fresh value is its fresh result *)
Definition tinv (fuel : nat) (ops0 : list op) (t : thread) : Prop :=
  exists dn cur,
    ops0 = dn ++ cur ++ t_rest t /\
    t_done t = rev (map (fresh_result E fuel) dn) /\
    match t_cur t with
    | None => cur = []
    | Some p => exists o q, cur = [o] /\ sim E p q /\ ideal q = fresh_result E fuel o
    end.

(* head inversions of sim, by induction on the derivation (the right-hand side may carry extra puts) *)
Lemma sim_head_ret : forall {A} (v : A) q, sim E (Ret v) q -> ideal q = v.
Proof.
  intros A v q H. remember (Ret v) as p eqn:P. induction H; inversion P; subst; cbn [ideal]; auto.
Qed.
Lemma sim_head_getr : forall {A} re (k : runner -> prog A) q, sim E (GetRunner re k) q ->
  forall r, runner_ok (e_cfg E re) r -> exists q', sim E (k r) q' /\ ideal q' = ideal q.
Proof.
  intros A re k q H. remember (GetRunner re k) as p eqn:P.
  induction H; inversion P; subst; intros r R; cbn [ideal].
  - exists (k2 (fresh_runner O)). split; [apply H; auto using fresh_runner_ok|reflexivity].
  - apply IHsim; auto.
  - apply IHsim; auto.
Qed.
Lemma sim_head_putr : forall {A} re r (k : prog A) q, sim E (PutRunner re r k) q ->
  runner_ok (e_cfg E re) r /\ exists q', sim E k q' /\ ideal q' = ideal q.
Proof.
  intros A re r k q H. remember (PutRunner re r k) as p eqn:P.
  induction H; inversion P; subst; cbn [ideal].
  - split; [assumption|]. exists k2; auto.
  - apply IHsim; auto.
  - apply IHsim; auto.
Qed.
Lemma sim_head_getb : forall {A} bk n m (k : buffer -> bool -> prog A) q, sim E (GetBuf bk n m k) q ->
  forall b pooled, n <= b_cap b -> exists q', sim E (k b pooled) q' /\ ideal q' = ideal q.
Proof.
  intros A bk n m k q H. remember (GetBuf bk n m k) as p eqn:P.
  induction H; inversion P; subst; intros b0 pooled B; cbn [ideal].
  - eexists. split; [apply H; auto; apply fresh_buf_fits|reflexivity].
  - apply IHsim; auto.
  - apply IHsim; auto.
Qed.
Lemma sim_head_putb : forall {A} bk b (k : prog A) q, sim E (PutBuf bk b k) q ->
  exists q', sim E k q' /\ ideal q' = ideal q.
Proof.
  intros A bk b k q H. remember (PutBuf bk b k) as p eqn:P.
  induction H; inversion P; subst; cbn [ideal].
  - exists q; auto.
  - apply IHsim; auto.
  - apply IHsim; auto.
Qed.
Lemma sim_head_cget : forall {A} re key (k : option rdata -> prog A) q, sim E (CacheGet re key k) q ->
  forall o, coh E re key o -> exists q', sim E (k o) q' /\ ideal q' = ideal q.
Proof.
  intros A re key k q H. remember (CacheGet re key k) as p eqn:P.
  induction H; inversion P; subst; intros o C; cbn [ideal].
  - apply IHsim; auto.
  - exists (k2 None). split; [apply H; [exact C|exact I]|reflexivity].
  - apply IHsim; auto.
Qed.
Lemma sim_head_cadd : forall {A} re key d (k : prog A) q, sim E (CacheAdd re key d k) q ->
  e_parse_repl E re key = Ok d /\ exists q', sim E k q' /\ ideal q' = ideal q.
Proof.
  intros A re key d k q H. remember (CacheAdd re key d k) as p eqn:P.
  induction H; inversion P; subst; cbn [ideal].
  - apply IHsim; auto.
  - split; [assumption|]. exists q; auto.
  - apply IHsim; auto.
Qed.

Lemma tstep_inv : forall fuel ops0 g t pk,
  gstate_ok E g -> tinv fuel ops0 t ->
  gstate_ok E (fst (fst (tstep E fuel g t pk))) /\ tinv fuel ops0 (snd (fst (tstep E fuel g t pk))).
Proof.
  intros fuel ops0 g t pk G (dn & cur & O & D & C). unfold tstep.
  destruct (t_cur t) as [p|] eqn:TC.
  - destruct C as (o & q & Cur & S & I0). subst cur.
    destruct p as [v|re k|re r k|bk n m k|bk b k|re key k|re key d k].
    + (* the call returns *)
      cbn [fst snd]. split; [exact G|].
      exists (dn ++ [o]), []. cbn [t_rest t_done t_cur]. split; [rewrite <- app_assoc; exact O|]. split; [|reflexivity].
      rewrite map_app, rev_app_distr. cbn. rewrite <- D. f_equal.
      rewrite <- I0. symmetry. apply sim_head_ret; assumption.
    + pose proof (act_get_runner_ok E g re pk G) as [G1 R1].
      destruct (act_get_runner g re pk) as [g1 r]; cbn [fst snd] in *.
      split; [exact G1|]. destruct (sim_head_getr re k q S r R1) as (q' & S' & I').
      exists dn, [o]. cbn [t_rest t_done t_cur]. split; [exact O|]. split; [exact D|]. exists o, q'. split; [reflexivity|]. split; [exact S'|congruence].
    + destruct (sim_head_putr re r k q S) as (R & q' & S' & I').
      destruct (owns (r_id r) (t_owned t)); cbn [fst snd].
      * split; [apply act_put_runner_ok; auto|].
        exists dn, [o]. cbn [t_rest t_done t_cur]. split; [exact O|]. split; [exact D|]. exists o, q'. split; [reflexivity|]. split; [exact S'|congruence].
      * split; [exact G|]. exists dn, [o]. rewrite TC. split; [exact O|]. split; [exact D|]. exists o, q. auto.
    + pose proof (act_get_buf_ok E g bk n m pk G) as GB.
      destruct (act_get_buf g bk n m pk) as [[g1 b] pooled]. destruct GB as [G1 B1]. cbn [fst snd].
      split; [exact G1|]. destruct (sim_head_getb bk n m k q S b pooled B1) as (q' & S' & I').
      exists dn, [o]. cbn [t_rest t_done t_cur]. split; [exact O|]. split; [exact D|]. exists o, q'. split; [reflexivity|]. split; [exact S'|congruence].
    + destruct (sim_head_putb bk b k q S) as (q' & S' & I').
      destruct (owns (b_id b) (t_owned t)); cbn [fst snd].
      * split; [apply act_put_buf_ok; auto|].
        exists dn, [o]. cbn [t_rest t_done t_cur]. split; [exact O|]. split; [exact D|]. exists o, q'. split; [reflexivity|]. split; [exact S'|congruence].
      * split; [exact G|]. exists dn, [o]. rewrite TC. split; [exact O|]. split; [exact D|]. exists o, q. auto.
    + pose proof (act_cache_get_ok E g re key G) as [G1 C1].
      destruct (act_cache_get g re key) as [g1 oo]; cbn [fst snd] in *.
      split; [exact G1|]. destruct (sim_head_cget re key k q S oo C1) as (q' & S' & I').
      exists dn, [o]. cbn [t_rest t_done t_cur]. split; [exact O|]. split; [exact D|]. exists o, q'. split; [reflexivity|]. split; [exact S'|congruence].
    + destruct (sim_head_cadd re key d k q S) as (P & q' & S' & I'). cbn [fst snd].
      split; [apply act_cache_add_ok; auto|].
      exists dn, [o]. cbn [t_rest t_done t_cur]. split; [exact O|]. split; [exact D|]. exists o, q'. split; [reflexivity|]. split; [exact S'|congruence].
  - subst cur. cbn [app] in O. destruct (t_rest t) as [|o rest] eqn:TR; cbn [fst snd].
    + split; [exact G|]. exists dn, []. rewrite TC, TR. auto.
    + split; [exact G|]. exists dn, [o]. cbn [t_rest t_done t_cur]. split; [exact O|]. split; [exact D|].
      exists o, (entry E fuel o). split; [reflexivity|]. split; [apply entry_sim; assumption|reflexivity].
Qed.

Lemma Forall2_upd_nth : forall {A B} (P : A -> B -> Prop) l1 l2 i y,
  Forall2 P l1 l2 -> (forall x, nth_error l1 i = Some x -> P x y) -> Forall2 P l1 (upd_nth i y l2).
Proof.
  intros A B P l1 l2 i y H. revert i. induction H; intros i Hy; [destruct i; constructor|].
  destruct i; cbn [upd_nth]; constructor; auto; try (apply Hy; reflexivity); try (apply IHForall2; intros z Z; apply Hy; exact Z).
Qed.
Lemma Forall2_nth_error : forall {A B} (P : A -> B -> Prop) l1 l2 i y,
  Forall2 P l1 l2 -> nth_error l2 i = Some y -> exists x, nth_error l1 i = Some x /\ P x y.
Proof.
  intros A B P l1 l2 i y H. revert i. induction H; intros i Hy; [destruct i; discriminate|].
  destruct i; cbn in *; [inversion Hy; subst; eauto|auto].
Qed.

Definition cinv (fuel : nat) (opss : list (list op)) (c : config) : Prop :=
  gstate_ok E (c_g c) /\ Forall2 (tinv fuel) opss (c_threads c).

Lemma cstep_inv : forall fuel opss c i pk, cinv fuel opss c -> cinv fuel opss (cstep E fuel c i pk).
Proof.
  intros fuel opss c i pk [G T]. unfold cstep. destruct (nth_error (c_threads c) i) as [t|] eqn:N; [|split; auto].
  destruct (Forall2_nth_error _ _ _ _ _ T N) as (ops0 & N0 & TI).
  pose proof (tstep_inv fuel ops0 (c_g c) t pk G TI) as [G1 T1].
  destruct (tstep E fuel (c_g c) t pk) as [[g1 t1] bad]; cbn [fst snd] in *.
  split; cbn [c_g c_threads]; [exact G1|].
  apply Forall2_upd_nth; auto. intros x X. rewrite N0 in X. inversion X; subst. exact T1.
Qed.

Lemma run_sched_inv : forall fuel opss sched c, cinv fuel opss c -> cinv fuel opss (run_sched E fuel c sched).
Proof.
  induction sched as [|[i pk] s IH]; intros c H; cbn [run_sched]; auto. apply IH. apply cstep_inv; auto.
Qed.

Lemma spawn_inv : forall fuel ops, tinv fuel ops (spawn ops).
Proof. intros. exists [], []. cbn. auto. Qed.

End Histories.

(* ---------- final forms used by Properties/C12.v and C11.v ---------- *)

Section Final.
Variable E : env.
Hypothesis WF : env_wf E.

Theorem history_independent : forall fuel nre rsizes bsizes h,
  snd (run_history E fuel h (gstate0 nre rsizes bsizes)) = map (fresh_result E fuel) (calls_of h).
Proof. intros. apply history_fresh; auto. apply gstate0_ok. Qed.

Theorem history_independent_any_state : forall fuel h g,
  gstate_ok E g -> snd (run_history E fuel h g) = map (fresh_result E fuel) (calls_of h).
Proof. intros. apply history_fresh; auto. Qed.

Theorem call_independent_of_state : forall fuel o g1 ch1 g2 ch2,
  gstate_ok E g1 -> gstate_ok E g2 -> snd (call E fuel o g1 ch1) = snd (call E fuel o g2 ch2).
Proof.
  intros fuel o g1 ch1 g2 ch2 G1 G2.
  destruct (call_fresh E WF fuel o g1 ch1 G1) as [A _]. destruct (call_fresh E WF fuel o g2 ch2 G2) as [B _]. congruence.
Qed.

Theorem state_ok_preserved : forall fuel o g ch, gstate_ok E g -> gstate_ok E (fst (call E fuel o g ch)).
Proof. intros. apply call_fresh; auto. Qed.

(* every scan, whatever its outcome (match, no match, stack limit, timeout, index fault), leaves the runner in
   a state that putRunner turns into a legal pooled runner *)
Theorem runner_ok_preserved : forall re r a,
  runner_inv (e_cfg E re) r -> runner_ok (e_cfg E re) (put_reset (fst (do_scan E re r a))).
Proof.
  intros re r a H. apply put_reset_ok. destruct WF as (W1 & _).
  apply (scan_facts (e_cfg E re) (e_interp E re) (e_deadline E) r a (W1 re) H).
Qed.

Theorem call_independent_of_runner : forall re r1 r2 a,
  runner_ok (e_cfg E re) r1 -> runner_ok (e_cfg E re) r2 -> snd (do_scan E re r1 a) = snd (do_scan E re r2 a).
Proof.
  intros re r1 r2 a O1 O2. destruct WF as (W1 & W2 & _). unfold do_scan.
  apply scan_independent; auto; try apply O1; try apply O2.
  destruct O1 as (_ & X & _), O2 as (_ & Y & _). congruence.
Qed.

Theorem buffers_transparent : forall g bk s maxsz pk,
  gstate_ok E g ->
  let '(g1, b, pooled) := act_get_buf g bk (zlen s) maxsz pk in
  zlen s <= b_cap b /\ exists b1, decode_into E b s = Some (b1, e_decode E s).
Proof.
  intros g bk s maxsz pk G. pose proof (act_get_buf_ok E g bk (zlen s) maxsz pk G) as H.
  destruct (act_get_buf g bk (zlen s) maxsz pk) as [[g1 b] pooled]. destruct H as [_ B]. split; [exact B|].
  destruct (decode_into_spec E b s WF B) as (b1 & D & _). eauto.
Qed.

Theorem interleaving_eq_sequential : forall fuel nre rsizes bsizes opss sched,
  let c := run_sched E fuel {| c_g := gstate0 nre rsizes bsizes; c_threads := map spawn opss; c_fault := false |} sched in
  forall i t, nth_error (c_threads c) i = Some t ->
  exists ops dn cur,
    nth_error opss i = Some ops /\ ops = dn ++ cur ++ t_rest t /\
    rev (t_done t) = map (fresh_result E fuel) dn /\
    (t_cur t = None -> cur = []).
Proof.
  intros fuel nre rsizes bsizes opss sched c i t N.
  assert (I0 : cinv E fuel opss {| c_g := gstate0 nre rsizes bsizes; c_threads := map spawn opss; c_fault := false |}).
  { split; cbn [c_g c_threads]; [apply gstate0_ok|].
    clear. induction opss; cbn; constructor; auto using spawn_inv. }
  pose proof (run_sched_inv E WF fuel opss sched _ I0) as [G T]. fold c in T.
  destruct (Forall2_nth_error _ _ _ _ _ T N) as (ops & N0 & (dn & cur & O & D & C)).
  exists ops, dn, cur. split; [exact N0|]. split; [exact O|]. split.
  - rewrite D. apply rev_involutive.
  - intros X. rewrite X in C. exact C.
Qed.

End Final.

Lemma init_match_resets :
  forall cfg r a, cfg_wf cfg -> runner_inv cfg r ->
  forall dl pos,
    view_of (start_watch dl (set_textpos (init_match cfg (sa_info a) (scan_header cfg r a)) pos)) (sa_quick a)
    = Some (canonical_view cfg (r_code r) a pos).
Proof. intros cfg r a W H. exact (proj2 (proj2 (proj2 (proj2 (proj2 (proj2 (prepared cfg r a W H))))))). Qed.

Lemma size_class_selection :
  forall sizes needed maxsz idx, pool_index sizes needed maxsz = Some idx ->
    needed <= nth idx sizes 0 /\ (idx < length sizes)%nat /\ maxsz <> 0 /\ (0 < maxsz -> nth idx sizes 0 <= maxsz).
Proof.
  intros sizes needed maxsz idx H. destruct (pool_index_spec _ _ _ _ H) as [A B].
  split; [exact A|]. split; [exact B|]. split.
  - intros X. subst. discriminate.
  - intros M. exact (pool_index_max _ _ _ _ M H).
Qed.

Lemma cache_coherent_preserved :
  forall (E : env) re key d c, cache_ok E re c ->
    cache_ok E re (fst (cache_get key c)) /\
    (e_parse_repl E re key = Ok d -> cache_ok E re (cache_add (cfg_cache_max (e_cfg E re)) key d c)).
Proof.
  intros E re key d c H. split; [exact (proj1 (cache_get_ok E re key c H))|].
  intros P. exact (cache_add_ok E re key d c H P).
Qed.

Lemma lru_capacity :
  forall (E : env) re c, cache_ok E re c ->
    NoDup (map fst c) /\ (0 < cfg_cache_max (e_cfg E re) -> zlen c <= cfg_cache_max (e_cfg E re)).
Proof. intros E re c (_ & N & L). split; assumption. Qed.

Section Final2.
Variable E : env.
Hypothesis WF : env_wf E.

Lemma init_cinv : forall fuel nre rsizes bsizes opss,
  cinv E fuel opss {| c_g := gstate0 nre rsizes bsizes; c_threads := map spawn opss; c_fault := false |}.
Proof.
  intros. split; cbn [c_g c_threads]; [apply gstate0_ok|].
  induction opss; cbn; constructor; auto using spawn_inv.
Qed.

Theorem finished_goroutine : forall fuel nre rsizes bsizes opss sched,
  let c := run_sched E fuel {| c_g := gstate0 nre rsizes bsizes; c_threads := map spawn opss; c_fault := false |} sched in
  forall i t ops, nth_error (c_threads c) i = Some t -> nth_error opss i = Some ops ->
    t_cur t = None -> t_rest t = [] -> rev (t_done t) = map (fresh_result E fuel) ops.
Proof.
  intros fuel nre rsizes bsizes opss sched c i t ops N N0 TC TR.
  destruct (interleaving_eq_sequential E WF fuel nre rsizes bsizes opss sched i t N) as (ops' & dn & cur & A & B & C & D).
  rewrite N0 in A. injection A as A. rewrite <- A in B. rewrite (D TC), TR in B. cbn in B. rewrite app_nil_r in B.
  rewrite B. exact C.
Qed.

Theorem shared_state_ok : forall fuel nre rsizes bsizes opss sched,
  gstate_ok E (c_g (run_sched E fuel {| c_g := gstate0 nre rsizes bsizes; c_threads := map spawn opss;
                                       c_fault := false |} sched)).
Proof. intros. apply (run_sched_inv E WF fuel opss sched _ (init_cinv fuel nre rsizes bsizes opss)). Qed.

End Final2.
