(* IgnoreCase, general class-level statement: for ANY class whose code-point members lie in the good
   part of the finite table (Model/FoldD.v), addLowercase followed by addCaseEquivalences yields
   exactly the closure of the members under the SimpleFold orbit relation.  The oracles are arbitrary
   functions that agree with the table on its domain. *)
From Coq Require Import FMapPositive ZifyBool.
From Verif Require Import Base.Prelude Model.CharClass Model.FoldD
  Proofs.CharClassRanges Proofs.CharClassProofs Proofs.CharClassFold Proofs.CharClassFoldThm.

Definition orb (x : Z) : list Z := orbit fold_t orbit_fuel x.

Definition op_apply (op data x : Z) : Z :=
  if op =? 0 then data else if op =? 1 then x + data
  else if op =? 2 then Z.lor x 1 else if op =? 3 then x + Z.land x 1 else x.

(* a rune of the table on which ToLower and the lcTable entry covering it (if any) stay inside its orbit *)
Definition good_pt (x : Z) : bool :=
  zmem x dom_t && zmem (lower_t x) (orb x) &&
  forallb (fun e : Z * Z * Z * Z =>
             let '(lmin, lmax, op, data) := e in
             negb ((lmin <=? x) && (x <=? lmax)) || zmem (op_apply op data x) (orb x)) lc_table.

Definition good_dom : list Z := filter good_pt dom_t.

(* closed facts about the table *)
Definition rel_ok : bool :=
  forallb (fun x =>
    forallb (fun y => zmem y dom_t && zmem x (orb y) &&
                      forallb (fun z => zmem z (orb x)) (orb y)) (orb x) &&
    match case_equivalences fold_t orbit_fuel x with
    | Ok l => zlist_eqb (x :: l) (orb x)
    | _ => false
    end &&
    (0 <=? x) && (x <? max_rune - 1) && zmem (lower_t x) dom_t) dom_t.
Lemma rel_ok_true : rel_ok = true.
Proof. vm_compute. reflexivity. Qed.

Definition lc_sorted_ok : bool :=
  (fix go (l : list (Z * Z * Z * Z)) (prev : Z) : bool :=
     match l with
     | [] => true
     | (lmin, lmax, _, _) :: t => (prev <? lmin) && (lmin <=? lmax) && go t lmax
     end) lc_table (-1).
Lemma lc_sorted_true : lc_sorted_ok = true.
Proof. vm_compute. reflexivity. Qed.

(* which runes of the table are not good (for the report): U+0130 and the ones below *)
Definition bad_pts : list Z := filter (fun x => negb (good_pt x)) dom_t.

Lemma zlist_eqb_eq a : forall b, zlist_eqb a b = true -> a = b.
Proof.
  induction a as [|x a IH]; intros [|y b]; cbn; try discriminate; [reflexivity|].
  intros H. apply andb_prop in H. destruct H as [H1 H2]. rewrite (IH b H2). f_equal. lia.
Qed.

Section Rel.
  (* facts about one table rune, extracted from rel_ok *)
  Lemma rel_facts x : In x dom_t ->
    (forall y, In y (orb x) -> In y dom_t /\ In x (orb y) /\ forall z, In z (orb y) -> In z (orb x)) /\
    (exists l, case_equivalences fold_t orbit_fuel x = Ok l /\ x :: l = orb x) /\
    0 <= x < max_rune - 1 /\ In (lower_t x) dom_t.
  Proof.
    intros Hx. pose proof rel_ok_true as H. unfold rel_ok in H. rewrite forallb_forall in H.
    specialize (H x Hx).
    do 4 (apply andb_prop in H; let H' := fresh "K" in destruct H as [H H']).
    split; [|split; [|split]].
    - intros y Hy. rewrite forallb_forall in H. specialize (H y Hy).
      do 2 (apply andb_prop in H; let H' := fresh "J" in destruct H as [H H']).
      split; [apply zmem_In; exact H|]. split; [apply zmem_In; exact J0|].
      intros z Hz. rewrite forallb_forall in J. apply zmem_In. apply J. exact Hz.
    - destruct (case_equivalences fold_t orbit_fuel x) as [l| | |]; try discriminate.
      exists l. split; [reflexivity|]. apply zlist_eqb_eq. exact K2.
    - lia.
    - apply zmem_In. exact K.
  Qed.

  Lemma orb_refl x : In x (orb x).
  Proof. unfold orb, orbit. left. reflexivity. Qed.
End Rel.

(* ---------------------------------------------------------------- lcTable search *)
Definition lc_keys : list Z := map (fun e : Z * Z * Z * Z => let '(_, lmax, _, _) := e in lmax) lc_table.

Fixpoint incr (prev : Z) (ks : list Z) : bool :=
  match ks with
  | [] => true
  | k :: t => (prev <? k) && incr k t
  end.

Fixpoint count_lt (ks : list Z) (t : Z) : nat :=
  match ks with
  | [] => O
  | k :: ks' => if k <? t then S (count_lt ks' t) else O
  end.

Lemma count_lt_length ks t : (count_lt ks t <= length ks)%nat.
Proof. induction ks as [|k ks IH]; cbn; [lia|]. destruct (k <? t); lia. Qed.

Lemma incr_above p ks : incr p ks = true -> forall i k, nth_error ks i = Some k -> p < k.
Proof.
  revert p. induction ks as [|k0 ks IH]; intros p H i k Hn; [destruct i; discriminate|].
  cbn in H. apply andb_prop in H. destruct H as [H1 H2]. destruct i; cbn in Hn.
  - injection Hn as ->. lia.
  - specialize (IH k0 H2 i k Hn). lia.
Qed.

Lemma incr_nth p ks t : incr p ks = true ->
  forall i k, nth_error ks i = Some k -> (k <? t) = (i <? count_lt ks t)%nat.
Proof.
  revert p. induction ks as [|k0 ks IH]; intros p H i k Hn; [destruct i; discriminate|].
  cbn in H. apply andb_prop in H. destruct H as [H1 H2]. cbn [count_lt].
  destruct i; cbn in Hn.
  - injection Hn as ->. destruct (k <? t); reflexivity.
  - destruct (k0 <? t) eqn:E.
    + rewrite (IH k0 H2 i k Hn). apply eq_true_iff_eq. rewrite !Nat.ltb_lt. lia.
    + pose proof (incr_above k0 ks H2 i k Hn). cbn. lia.
Qed.

Lemma lc_keys_incr : incr (-1) lc_keys = true.
Proof. vm_compute. reflexivity. Qed.

Lemma znth_lc_keys i : znth lc_keys i =
  match znth lc_table i with Some (_, lmax, _, _) => Some lmax | None => None end.
Proof.
  unfold znth. destruct (i <? 0); [reflexivity|]. unfold lc_keys. rewrite nth_error_map.
  destruct (nth_error lc_table (Z.to_nat i)) as [[[[a b] c] d]|]; reflexivity.
Qed.

Lemma lc_bsearch_spec t : forall fuel i imax,
  0 <= i <= Z.of_nat (count_lt lc_keys t) -> Z.of_nat (count_lt lc_keys t) <= imax <= zlen lc_table ->
  (Z.to_nat (imax - i) <= fuel)%nat ->
  lc_bsearch fuel t i imax = Z.of_nat (count_lt lc_keys t).
Proof.
  induction fuel as [|f IH]; intros i imax Hi Hm Hf.
  - cbn [lc_bsearch]. lia.
  - cbn [lc_bsearch]. destruct (i <? imax) eqn:E; [|lia].
    assert (Hmid : i <= (i + imax) / 2 < imax) by (split; [apply Z.div_le_lower_bound|apply Z.div_lt_upper_bound]; lia).
    pose proof (znth_lc_keys ((i + imax) / 2)) as Hk.
    destruct (znth lc_table ((i + imax) / 2)) as [[[[lmin lmax] op] data]|] eqn:En.
    + unfold znth in Hk. replace ((i + imax) / 2 <? 0) with false in Hk by lia.
      pose proof (incr_nth (-1) lc_keys t lc_keys_incr _ lmax Hk) as Hc.
      destruct (lmax <? t) eqn:El.
      * symmetry in Hc. apply Nat.ltb_lt in Hc. apply IH; lia.
      * symmetry in Hc. apply Nat.ltb_ge in Hc. apply IH; lia.
    + unfold znth in En. replace ((i + imax) / 2 <? 0) with false in En by lia.
      apply nth_error_None in En. unfold zlen in Hm. lia.
Qed.

(* entries from the start index on end at or after t *)
Lemma skipn_count_lt_ge : forall (tbl : list (Z * Z * Z * Z)) p t,
  incr p (map (fun e : Z * Z * Z * Z => let '(_, lmax, _, _) := e in lmax) tbl) = true ->
  forall e, In e (skipn (count_lt (map (fun e : Z * Z * Z * Z => let '(_, lmax, _, _) := e in lmax) tbl) t) tbl) ->
            let '(_, lmax, _, _) := e in t <= lmax.
Proof.
  induction tbl as [|[[[lmin lmax] op] data] tbl IH]; intros p t Hi e He; [destruct He|].
  cbn [map incr] in Hi. apply andb_prop in Hi. destruct Hi as [H1 H2].
  cbn [map count_lt] in He. destruct (lmax <? t) eqn:E.
  - cbn [skipn] in He. apply (IH lmax t H2 e He).
  - cbn [skipn] in He. destruct He as [<-|He]; [lia|].
    (* later entries have larger lmax *)
    destruct e as [[[lmin' lmax'] op'] data'].
    apply In_nth_error in He. destruct He as [n Hn].
    assert (Hk : nth_error (map (fun e : Z * Z * Z * Z => let '(_, lmax, _, _) := e in lmax) tbl) n = Some lmax')
      by (rewrite nth_error_map, Hn; reflexivity).
    pose proof (incr_above lmax _ H2 n lmax' Hk). lia.
Qed.

Lemma in_skipn' {A} n : forall (l : list A) x, In x (skipn n l) -> In x l.
Proof.
  induction n as [|n IH]; intros l x H; [exact H|]. destruct l as [|h t]; [destruct H|].
  right. apply IH. exact H.
Qed.

Definition entry_covers (e : Z * Z * Z * Z) (x : Z) : Prop := let '(lmin, lmax, _, _) := e in lmin <= x <= lmax.
Definition entry_op (e : Z * Z * Z * Z) (x : Z) : Z := let '(_, _, op, data) := e in op_apply op data x.

(* every range lc_scan emits comes from an entry overlapping [a, b] and is the image of the overlap's endpoints *)
Lemma lc_scan_shape a b : a <= b -> forall tbl,
  (forall e, In e tbl -> let '(_, lmax, _, _) := e in a <= lmax) ->
  (forall e, In e tbl -> let '(lmin, lmax, _, _) := e in lmin <= lmax) ->
  forall p q, In (p, q) (lc_scan tbl a b) ->
    exists e mn mx, In e tbl /\ entry_covers e mn /\ entry_covers e mx /\ a <= mn /\ mn <= mx /\ mx <= b /\
                    p = entry_op e mn /\ q = entry_op e mx.
Proof.
  intros Hab tbl. induction tbl as [|[[[lmin lmax] op] data] tbl IH]; intros Hge Hle p q Hin; [destruct Hin|].
  cbn [lc_scan] in Hin.
  pose proof (Hge _ (or_introl eq_refl)) as G1. pose proof (Hle _ (or_introl eq_refl)) as G2. cbn in G1, G2.
  destruct (lmin >? b) eqn:E0; [destruct Hin|].
  set (mn := if lmin <? a then a else lmin) in *. set (mx := if lmax >? b then b else lmax) in *.
  assert (Hmn : a <= mn /\ lmin <= mn <= lmax /\ mn <= mx /\ mx <= b /\ lmin <= mx <= lmax).
  { unfold mn, mx. destruct (lmin <? a) eqn:E1, (lmax >? b) eqn:E2; lia. }
  assert (Hsh : exists p' q', (p', q') = (op_apply op data mn, op_apply op data mx) /\
                In (p, q) ((if (p' <? a) || (q' >? b) then [(p', q')] else []) ++ lc_scan tbl a b)).
  { unfold op_apply.
    destruct (op =? 0); [|destruct (op =? 1); [|destruct (op =? 2); [|destruct (op =? 3)]]];
      eexists; eexists; (split; [reflexivity|exact Hin]). }
  destruct Hsh as (p' & q' & Hpq & Hin'). clear Hin.
  apply in_app_or in Hin'. destruct Hin' as [Hin|Hin].
  - exists (lmin, lmax, op, data), mn, mx. split; [left; reflexivity|].
    destruct ((p' <? a) || (q' >? b)); [|destruct Hin].
    destruct Hin as [Hin|[]]. rewrite Hpq in Hin. injection Hin as <- <-.
    cbn [entry_covers entry_op]. repeat split; lia.
  - destruct (IH (fun e He => Hge e (or_intror He)) (fun e He => Hle e (or_intror He)) p q Hin)
      as (e & mn' & mx' & H1 & H2).
    exists e, mn', mx'. split; [right; exact H1|exact H2].
Qed.

(* the table's entries are well-formed *)
Lemma lc_table_wf : forall e, In e lc_table -> let '(lmin, lmax, _, _) := e in lmin <= lmax.
Proof.
  assert (H : forallb (fun e : Z * Z * Z * Z => let '(lmin, lmax, _, _) := e in lmin <=? lmax) lc_table = true)
    by (vm_compute; reflexivity).
  rewrite forallb_forall in H. intros [[[lmin lmax] op] data] He. specialize (H _ He). cbn in H. lia.
Qed.

Lemma lowercase_range_shape a b p q : a <= b -> In (p, q) (lowercase_range a b) ->
  exists e mn mx, In e lc_table /\ entry_covers e mn /\ entry_covers e mx /\ a <= mn /\ mn <= mx /\ mx <= b /\
                  p = entry_op e mn /\ q = entry_op e mx.
Proof.
  unfold lowercase_range. intros Hab Hin.
  pose proof (count_lt_length lc_keys a) as Hl.
  assert (Hlen : length lc_keys = length lc_table) by (unfold lc_keys; apply map_length).
  rewrite (lc_bsearch_spec a) in Hin by (unfold zlen; lia).
  rewrite Nat2Z.id in Hin.
  destruct (lc_scan_shape a b Hab (skipn (count_lt lc_keys a) lc_table)) with (p := p) (q := q)
    as (e & mn & mx & H1 & H2); auto.
  - intros e He. apply (skipn_count_lt_ge lc_table (-1) a lc_keys_incr e He).
  - intros e He. apply lc_table_wf. eapply in_skipn'; eauto.
  - exists e, mn, mx. split; [eapply in_skipn'; eauto|exact H2].
Qed.
