(* Proofs about Model/ParseLit.v:
     - facts about the generated tables (category table vs Escape's metacharacters),
     - the parser fragment is total: no Fuel / Crash on any rune string,
     - parse_lit o (escape s) is the literal tree of s (and \A..\z around it),
     - the reference semantics of that tree matches exactly s. *)
From Verif Require Import Base.Prelude Gen.EscapeGen Gen.ParseLitGen Model.Escape Model.ParseLit Proofs.EscapeProofs.
From Coq Require Import ZifyBool.
Ltac Zify.zify_post_hook ::= Z.div_mod_to_equations.

(* ------------------------------------------------------------------------------------------ *)
(* finite checks over the ASCII table *)

Definition pl_range (n : nat) : list Z := map Z.of_nat (seq 0 n).

Lemma pl_range_forall (f : Z -> bool) (n : nat) :
  forallb f (pl_range n) = true -> forall c, 0 <= c < Z.of_nat n -> f c = true.
Proof.
  intros H c Hc. rewrite forallb_forall in H. apply H.
  unfold pl_range. apply in_map_iff. exists (Z.to_nat c). split; [lia|].
  apply in_seq. lia.
Qed.

Lemma pl_cat_neg c : c < 0 -> pl_cat c = 0.
Proof. intros H. unfold pl_cat. replace (Z.to_nat c) with 0%nat by lia. reflexivity. Qed.

Lemma pl_bounds_ok_true : pl_bounds_ok = true.
Proof. vm_compute. reflexivity. Qed.

(* a classifier that is false below 0 and above 127 is decided by the table *)
Ltac pl_table_fact c :=
  let Hn := fresh "Hn" in
  let Hl := fresh "Hl" in
  destruct (Z_lt_dec c 0) as [Hn|Hn];
  [ intros; exfalso;
    unfold is_special, is_stopper_x, is_quantifier, is_space in *;
    rewrite (pl_cat_neg c Hn) in *;
    unfold pl_special_min, pl_stopperx_min, pl_quant_min, pl_space_cat in *; lia
  | destruct (Z_lt_dec c 128) as [Hl|Hl];
    [ | intros; exfalso;
        unfold is_special, is_stopper_x, is_quantifier, is_space,
          pl_special_bound, pl_stopperx_bound, pl_quant_bound, pl_space_bound in *; lia ] ].

Definition chk_special_meta (c : Z) : bool := implb (is_special c) (zmem c meta).
Lemma special_in_meta c : is_special c = true -> zmem c meta = true.
Proof.
  pl_table_fact c.
  intros H. pose proof (pl_range_forall chk_special_meta 128 ltac:(vm_compute; reflexivity) c ltac:(lia)) as F.
  unfold chk_special_meta in F. rewrite H in F. exact F.
Qed.

Definition chk_stopper_meta (c : Z) : bool :=
  implb (is_stopper_x c) (zmem c meta || ((9 <=? c) && (c <=? 13))).
Lemma stopper_x_in_meta c : is_stopper_x c = true -> zmem c meta = true \/ 9 <= c <= 13.
Proof.
  pl_table_fact c.
  intros H. pose proof (pl_range_forall chk_stopper_meta 128 ltac:(vm_compute; reflexivity) c ltac:(lia)) as F.
  unfold chk_stopper_meta in F. rewrite H in F. cbn [implb] in F.
  apply orb_prop in F. destruct F as [F|F]; [left; exact F | right; lia].
Qed.

Definition chk_space_meta (c : Z) : bool :=
  implb (is_space c) (zmem c meta || ((9 <=? c) && (c <=? 13))).
Lemma space_in_meta c : is_space c = true -> zmem c meta = true \/ 9 <= c <= 13.
Proof.
  pl_table_fact c.
  intros H. pose proof (pl_range_forall chk_space_meta 128 ltac:(vm_compute; reflexivity) c ltac:(lia)) as F.
  unfold chk_space_meta in F. rewrite H in F. cbn [implb] in F.
  apply orb_prop in F. destruct F as [F|F]; [left; exact F | right; lia].
Qed.

Definition chk_quant_special (c : Z) : bool := implb (is_quantifier c) (is_special c).
Lemma quantifier_is_special c : is_quantifier c = true -> is_special c = true.
Proof.
  pl_table_fact c.
  intros H. pose proof (pl_range_forall chk_quant_special 128 ltac:(vm_compute; reflexivity) c ltac:(lia)) as F.
  unfold chk_quant_special in F. rewrite H in F. exact F.
Qed.

(* what makes the outer loop of scanRegex advance in x-mode: a stopper that is not special is
   whitespace or '#', which scanBlank consumes *)
Definition chk_stopper_blank (c : Z) : bool :=
  implb (is_stopper_x c && negb (is_special c)) (is_space c || (c =? 35)).
Lemma stopper_not_special_is_blank c :
  is_stopper_x c = true -> is_special c = false -> is_space c = true \/ c = 35.
Proof.
  pl_table_fact c.
  intros H1 H2. pose proof (pl_range_forall chk_stopper_blank 128 ltac:(vm_compute; reflexivity) c ltac:(lia)) as F.
  unfold chk_stopper_blank in F. rewrite H1, H2 in F. cbn [implb andb negb] in F.
  apply orb_prop in F. destruct F as [F|F]; [left; exact F | right; lia].
Qed.

Lemma backslash_special : is_special 92 = true /\ is_stopper_x 92 = true /\ is_quantifier 92 = false /\ is_space 92 = false.
Proof. vm_compute. repeat split. Qed.

(* ------------------------------------------------------------------------------------------ *)
(* the scanners never fault and only move right *)

Definition fine {A} (r : res A) : Prop := match r with Ok _ | Err _ => True | _ => False end.

(* [adv r n]: if r succeeded, what is left of the pattern is at most n runes long *)
Definition adv {A} (r : res (A * list Z)) (n : nat) : Prop :=
  fine r /\ forall v rest, r = Ok (v, rest) -> (length rest <= n)%nat.

Lemma skip_digits_len p : (length (skip_digits p) <= length p)%nat.
Proof. induction p as [|c p IH]; cbn [skip_digits length]; [lia|]. destruct (is_digit c); cbn [length]; lia. Qed.

Lemma blank_x_len p : forall inc, (length (blank_x inc p) <= length p)%nat.
Proof.
  induction p as [|c p IH]; intros inc; cbn [blank_x length]; [lia|].
  destruct inc.
  - specialize (IH (negb (c =? 10))). lia.
  - destruct (is_space c); [specialize (IH false); lia|].
    destruct (c =? 35); [specialize (IH true); lia|]. cbn [length]. lia.
Qed.

Lemma scan_blank_len o p : (length (scan_blank o p) <= length p)%nat.
Proof. unfold scan_blank. destruct (useX o); [apply blank_x_len | lia]. Qed.

(* scanBlank stops in front of a rune that is neither whitespace nor '#' *)
Lemma blank_x_head p : forall inc c t, blank_x inc p = c :: t -> is_space c = false /\ c <> 35.
Proof.
  induction p as [|a p IH]; intros inc c t H; cbn [blank_x] in H; [discriminate|].
  destruct inc.
  - exact (IH _ _ _ H).
  - destruct (is_space a) eqn:Es; [exact (IH _ _ _ H)|].
    destruct (a =? 35) eqn:Eh; [exact (IH _ _ _ H)|].
    inversion H; subst. split; [exact Es | lia].
Qed.

Lemma blank_x_fix c t : is_space c = false -> c <> 35 -> blank_x false (c :: t) = c :: t.
Proof. intros H1 H2. cbn [blank_x]. rewrite H1. replace (c =? 35) with false by lia. reflexivity. Qed.

Lemma take_run_app o p : forall r rest, take_run o p = (r, rest) -> p = r ++ rest.
Proof.
  induction p as [|c p IH]; intros r rest H; cbn [take_run] in H.
  - inversion H. reflexivity.
  - destruct (is_stopper o c && (negb (c =? 123) || is_true_quantifier (c :: p))).
    + inversion H. reflexivity.
    + destruct (take_run o p) as [r' rest'] eqn:E. inversion H; subst.
      cbn [app]. f_equal. apply IH. reflexivity.
Qed.

(* the run loop stops at the end or in front of a stopper *)
Lemma take_run_stop o p : forall r c t, take_run o p = (r, c :: t) -> is_stopper o c = true.
Proof.
  induction p as [|a p IH]; intros r c t H; cbn [take_run] in H.
  - inversion H.
  - destruct (is_stopper o a && (negb (a =? 123) || is_true_quantifier (a :: p))) eqn:E.
    + inversion H; subst. apply andb_prop in E. tauto.
    + destruct (take_run o p) as [r' rest'] eqn:E2. inversion H; subst. eapply IH. reflexivity.
Qed.

Lemma scan_decimal_adv p : forall i, adv (scan_decimal i p) (length p).
Proof.
  induction p as [|c p IH]; intros i; cbn [scan_decimal].
  - split; [exact I|]. intros v rest H. inversion H. cbn. lia.
  - destruct ((c - 48 <? 0) || (9 <? c - 48)).
    + split; [exact I|]. intros v rest H. inversion H. lia.
    + destruct ((214748364 <? i) || ((i =? 214748364) && (7 <? c - 48))).
      * split; [exact I|]. intros v rest H. discriminate.
      * destruct (IH (i * 10 + (c - 48))) as [F L]. split; [exact F|].
        intros v rest H. specialize (L v rest H). cbn [length]. lia.
Qed.

Lemma pl_octal_loop_len e c : forall i p, (length (snd (pl_octal_loop e c i p)) <= length p)%nat.
Proof.
  induction c as [|c IH]; intros i p; cbn [pl_octal_loop]; [cbn; lia|].
  destruct p as [|ch p]; [cbn; lia|].
  destruct ((48 <=? ch) && (ch <=? 55)); [|cbn; lia].
  destruct ((32 <=? i) && e); [cbn; lia|].
  specialize (IH (i * 8 + (ch - 48)) p). cbn [length]. lia.
Qed.

Lemma scan_hex_loop_adv c : forall i p, adv (scan_hex_loop c i p) (length p).
Proof.
  induction c as [|c IH]; intros i p; cbn [scan_hex_loop].
  - split; [exact I|]. intros v rest H. inversion H. lia.
  - destruct p as [|ch p].
    + split; [exact I|]. intros v rest H. discriminate.
    + destruct (hex_digit ch <? 0).
      * split; [exact I|]. intros v rest H. discriminate.
      * destruct (IH (i * 16 + hex_digit ch) p) as [F L]. split; [exact F|].
        intros v rest H. specialize (L v rest H). cbn [length]. lia.
Qed.

Lemma scan_hex_adv c p : adv (scan_hex c p) (length p).
Proof.
  unfold scan_hex. destruct (Nat.leb c (length p)); [apply scan_hex_loop_adv|].
  split; [exact I|]. intros v rest H. discriminate.
Qed.

Lemma scan_hex_brace_adv p : forall i has, adv (scan_hex_brace i has p) (length p).
Proof.
  induction p as [|ch p IH]; intros i has; cbn [scan_hex_brace].
  - split; [exact I|]. intros v rest H. discriminate.
  - destruct (ch =? 125).
    + destruct has; (split; [exact I|]); intros v rest H; [inversion H; cbn [length]; lia | discriminate].
    + destruct (hex_digit ch <? 0); [split; [exact I|]; intros v rest H; discriminate|].
      destruct (1114111 <? i * 16 + hex_digit ch); [split; [exact I|]; intros v rest H; discriminate|].
      destruct (IH (i * 16 + hex_digit ch) true) as [F L]. split; [exact F|].
      intros v rest H. specialize (L v rest H). cbn [length]. lia.
Qed.

Lemma scan_control_adv p : adv (scan_control p) (length p).
Proof.
  unfold scan_control. destruct p as [|ch p]; [split; [exact I|]; intros v rest H; discriminate|].
  match goal with |- adv (if ?b then _ else _) _ => destruct b end;
    (split; [exact I|]); intros v rest H; [inversion H; cbn [length]; lia | discriminate].
Qed.

Lemma adv_weaken {A} (r : res (A * list Z)) n m : adv r n -> (n <= m)%nat -> adv r m.
Proof. intros [F L] Hnm. split; [exact F|]. intros v rest H. specialize (L v rest H). lia. Qed.

Section Total.
Variable is_word_char : Z -> bool.
Variable to_lower : Z -> Z.
Variable is_cased : Z -> bool.
Variable participates : Z -> bool.
Variable ci_single : Z -> bool.
Variable ci_set_id : Z -> Z.

Lemma pl_scan_char_escape_adv o p : p <> [] -> adv (pl_scan_char_escape is_word_char o p) (length p).
Proof.
  intros Hne. destruct p as [|ch p']; [congruence|]. unfold pl_scan_char_escape.
  (* the ECMAScript fallback keeps both properties *)
  assert (FB : forall r : res (Z * list Z), adv r (length p') ->
            adv (match r with Err c => if useE o then Ok (ch, p') else Err c | _ => r end) (length (ch :: p'))).
  { intros r [F L]. destruct r as [[v rest]|c|w|]; cbn in F; try contradiction.
    - split; [exact I|]. intros v' rest' H. inversion H; subst. specialize (L v' rest' eq_refl). cbn [length]. lia.
    - destruct (useE o); (split; [exact I|]); intros v' rest' H; [inversion H; cbn [length]; lia | discriminate]. }
  destruct ((48 <=? ch) && (ch <=? 55)).
  { split; [exact I|]. intros v rest H. inversion H. unfold pl_scan_octal in *.
    pose proof (pl_octal_loop_len (useE o) 3 0 (ch :: p')) as L.
    destruct (pl_octal_loop (useE o) 3 0 (ch :: p')) as [i q]. inversion H1; subst. exact L. }
  destruct (ch =? 120).
  { destruct p' as [|c2 p'']; [apply FB, scan_hex_adv|].
    destruct (c2 =? 123); [|apply FB, scan_hex_adv].
    destruct (useE o).
    - split; [exact I|]. intros v rest H. inversion H. cbn [length]. lia.
    - eapply adv_weaken; [apply scan_hex_brace_adv | cbn [length]; lia]. }
  destruct (ch =? 117).
  { destruct p' as [|c2 p'']; [apply FB, scan_hex_adv|].
    destruct ((c2 =? 123) && useE o && useU o); [|apply FB, scan_hex_adv].
    eapply adv_weaken; [apply scan_hex_brace_adv | cbn [length]; lia]. }
  destruct (pl_lookup ch pl_simple_escapes).
  { split; [exact I|]. intros v rest H. inversion H. cbn [length]. lia. }
  destruct (ch =? 99); [apply FB, scan_control_adv|].
  destruct (negb (useE o) && negb (useRE2 o) && is_word_char ch);
    (split; [exact I|]); intros v rest H; [discriminate | inversion H; cbn [length]; lia].
Qed.

(* the same two properties for the scanners that return a [bsk] *)
Definition advb (r : res bsk) (n : nat) (scan_only : bool) : Prop :=
  fine r /\ forall e rest, r = Ok (BGot e rest) ->
            (length rest <= n)%nat /\ (scan_only = false -> e <> EsNil).

Lemma advb_weaken r n m so : advb r n so -> (n <= m)%nat -> advb r m so.
Proof. intros [F L] Hnm. split; [exact F|]. intros e rest H. destruct (L e rest H). split; [lia|assumption]. Qed.

Lemma advb_err c n so : advb (Err c) n so.
Proof. split; [exact I|]. intros e rest H. discriminate. Qed.

Lemma char_code_advb o so p : p <> [] -> advb (char_code is_word_char to_lower o so p) (length p) so.
Proof.
  intros Hne. unfold char_code. destruct (pl_scan_char_escape_adv o p Hne) as [F L].
  destruct (pl_scan_char_escape is_word_char o p) as [[c rest]|c|w|]; cbn in F; try contradiction; cbn [bind].
  - specialize (L c rest eq_refl). destruct so.
    + split; [exact I|]. intros e r H. inversion H; subst. split; [lia | discriminate].
    + split; [exact I|]. intros e r H. inversion H; subst. split; [lia | discriminate].
  - apply advb_err.
Qed.

Lemma scan_word_len p : forall w r, scan_word is_word_char p = (w, r) -> (length r <= length p)%nat.
Proof.
  induction p as [|c p IH]; intros w r H; cbn [scan_word] in H.
  - inversion H. cbn. lia.
  - destruct (is_word_char c).
    + destruct (scan_word is_word_char p) as [w' r'] eqn:E. inversion H; subst.
      specialize (IH w' r eq_refl). cbn [length]. lia.
    + inversion H. lia.
Qed.

Lemma name_ref_advb o so k close p0 cur :
  p0 <> [] -> cur <> [] -> (length cur <= length p0)%nat ->
  advb (name_ref is_word_char to_lower o so k close p0 cur) (length p0) so.
Proof.
  intros H0 Hc Hlen. unfold name_ref. destruct cur as [|ch cur']; [congruence|].
  destruct (is_digit ch).
  - destruct (scan_decimal_adv (ch :: cur') 0) as [F L].
    destruct (scan_decimal 0 (ch :: cur')) as [[capnum r1]|c|w|]; cbn in F; try contradiction; cbn [bind];
      [|apply advb_err].
    specialize (L capnum r1 eq_refl).
    destruct r1 as [|c r2]; [apply char_code_advb; assumption|].
    destruct (c =? close); [|apply char_code_advb; assumption].
    destruct (capnum =? 0); [|apply advb_err].
    split; [exact I|]. intros e rest H. inversion H; subst. cbn [length] in *. split; [lia | discriminate].
  - destruct (useE o). { split; [exact I|]. intros e rest H. discriminate. }
    destruct (scan_word is_word_char (ch :: cur')) as [name r1] eqn:Ew.
    pose proof (scan_word_len _ _ _ Ew) as Lw.
    assert (FB : advb (if k then Err E_MalformedNameRef else char_code is_word_char to_lower o so p0) (length p0) so).
    { destruct k; [apply advb_err | apply char_code_advb; assumption]. }
    destruct name as [|n0 name]; [exact FB|].
    destruct r1 as [|c r2]; [exact FB|].
    destruct (c =? close); [|exact FB].
    destruct so eqn:Eso; [|apply advb_err].
    split; [exact I|]. intros e rest H. inversion H; subst. cbn [length] in *. split; [lia | discriminate].
Qed.

Lemma scan_basic_backslash_advb o so p : advb (scan_basic_backslash is_word_char to_lower o so p) (length p) so.
Proof.
  unfold scan_basic_backslash. destruct p as [|ch p1]; [apply advb_err|].
  destruct ((ch =? 107) && (negb (useE o) || useU o)).
  { destruct p1 as [|c2 p2]; [apply advb_err|].
    destruct (negb ((c2 =? 60) || (negb (useE o) && (c2 =? 39)))); [apply advb_err|].
    destruct p2 as [|c3 p3]; [apply advb_err|].
    apply name_ref_advb; [discriminate | discriminate | cbn [length]; lia]. }
  destruct (negb (useE o) && ((ch =? 60) || (ch =? 39)) && match p1 with [] => false | _ => true end) eqn:Ea.
  { destruct p1 as [|c2 p2]; [rewrite andb_false_r in Ea; discriminate|].
    apply name_ref_advb; [discriminate | discriminate | cbn [length]; lia]. }
  destruct ((49 <=? ch) && (ch <=? 57)); [|apply char_code_advb; discriminate].
  destruct (scan_decimal_adv (ch :: p1) 0) as [F L].
  destruct (scan_decimal 0 (ch :: p1)) as [[capnum rest]|c|w|]; cbn in F; try contradiction; cbn [bind];
    [|apply advb_err].
  specialize (L capnum rest eq_refl).
  destruct so.
  - split; [exact I|]. intros e r H. inversion H; subst. split; [exact L | discriminate].
  - destruct ((capnum <=? 9) && negb (useE o)); [apply advb_err | apply char_code_advb; discriminate].
Qed.

Lemma scan_backslash_advb o so p : advb (scan_backslash is_word_char to_lower o so p) (length p) so.
Proof.
  unfold scan_backslash. destruct p as [|ch p1]; [apply advb_err|].
  destruct (zmem ch pl_assert_letters).
  { split; [exact I|]. intros e rest H. inversion H; subst. cbn [length]. split; [lia | discriminate]. }
  destruct (zmem ch pl_class_letters).
  { split; [exact I|]. intros e rest H. inversion H; subst. cbn [length]. split; [lia | discriminate]. }
  destruct ((ch =? 112) || (ch =? 80)); [|apply scan_basic_backslash_advb].
  destruct (useE o && negb (useU o)); [apply scan_basic_backslash_advb|].
  split; [exact I|]. intros e rest H. discriminate.
Qed.

End Total.

(* ------------------------------------------------------------------------------------------ *)
(* what Escape writes, seen by the parser's escape scanner *)

(* first rune after a backslash that scanBackslash / scanBasicBackslash hand to scanCharEscape *)
Definition first_ok (c : Z) : bool :=
  negb (zmem c pl_assert_letters) && negb (zmem c pl_class_letters) &&
  negb (c =? 112) && negb (c =? 80) && negb (c =? 107) && negb (c =? 60) && negb (c =? 39) &&
  negb ((48 <=? c) && (c <=? 57)).

(* \x and \u are followed by a hex digit, not by '{' *)
Definition no_brace (body : list Z) : bool :=
  match body with
  | c :: t => if (c =? 120) || (c =? 117)
              then match t with d :: _ => negb (d =? 123) | [] => false end
              else true
  | [] => false
  end.

Definition body_ok (body : list Z) : bool :=
  match body with c :: _ => first_ok c && no_brace body && forallb (fun x => 0 <=? x) body | [] => false end.

(* obligation on the generated metacharacter string: none of them starts another escape *)
Lemma meta_first_ok : forallb (fun c => first_ok c && negb ((c =? 120) || (c =? 117)) && (0 <=? c)) meta = true.
Proof. vm_compute. reflexivity. Qed.

Lemma hex_char_facts d : 0 <= d < 16 -> hex_char d <> 123 /\ 0 <= hex_char d.
Proof. intros H. pose proof (hex_char_range d H). lia. Qed.

Lemma hex_nonneg_b d : 0 <= d < 16 -> (0 <=? hex_char d) = true.
Proof. intros H. pose proof (hex_char_facts d H). lia. Qed.
Lemma hex_ne_brace_b d : 0 <= d < 16 -> (hex_char d =? 123) = false.
Proof. intros H. pose proof (hex_char_facts d H). lia. Qed.

Section EscapeBodies.
Variable is_print : Z -> bool.
Variable is_word_char : Z -> bool.
Hypothesis meta_not_word : forall c, In c meta -> is_word_char c = false.

Definition rawrune (r : Z) : Prop := (is_print r = true /\ zmem r meta = false) \/ 65535 < r.

Ltac body_ok_hex :=
  unfold body_ok, first_ok, no_brace; cbv beta iota; cbn [forallb];
  rewrite ?hex_nonneg_b, ?hex_ne_brace_b by lia; reflexivity.

Lemma escape_rune_inv2 r : valid_rune r ->
  (escape_rune is_print r = [r] /\ rawrune r) \/
  (exists body, escape_rune is_print r = 92 :: body /\ body_ok body = true /\
                forall rest, scan_char_escape is_word_char (body ++ rest) = Ok (r, rest)).
Proof.
  intros Hv. unfold valid_rune in Hv. unfold escape_rune.
  destruct (is_print r) eqn:Ep.
  - destruct (zmem r meta) eqn:Em.
    + right. exists [r]. split; [reflexivity|]. split.
      * pose proof meta_first_ok as Hm. rewrite forallb_forall in Hm.
        specialize (Hm r (zmem_In _ _ Em)).
        apply andb_prop in Hm. destruct Hm as [Hm H0]. apply andb_prop in Hm. destruct Hm as [Hf Hxu].
        unfold body_ok, no_brace. rewrite Hf. apply negb_true_iff in Hxu. rewrite Hxu.
        cbn [forallb andb]. rewrite H0. reflexivity.
      * intros rest. cbn [app]. apply (scan_meta is_word_char meta_not_word). exact Em.
    + left. split; [reflexivity|]. left. split; [exact Ep | exact Em].
  - destruct (65535 <? r) eqn:Ebmp.
    { left. replace (r =? 7) with false by lia. replace (r =? 12) with false by lia.
      replace (r =? 10) with false by lia. replace (r =? 13) with false by lia.
      replace (r =? 9) with false by lia. replace (r =? 11) with false by lia.
      replace (r <? 256) with false by lia. split; [reflexivity | right; lia]. }
    right.
    destruct (r =? 7) eqn:E7. { assert (r = 7) by lia; subst. exists [97]. repeat split; try discriminate. }
    destruct (r =? 12) eqn:E12. { assert (r = 12) by lia; subst. exists [102]. repeat split; try discriminate. }
    destruct (r =? 10) eqn:E10. { assert (r = 10) by lia; subst. exists [110]. repeat split; try discriminate. }
    destruct (r =? 13) eqn:E13. { assert (r = 13) by lia; subst. exists [114]. repeat split; try discriminate. }
    destruct (r =? 9) eqn:E9. { assert (r = 9) by lia; subst. exists [116]. repeat split; try discriminate. }
    destruct (r =? 11) eqn:E11. { assert (r = 11) by lia; subst. exists [118]. repeat split; try discriminate. }
    destruct (r <? 256) eqn:E256.
    + destruct (r <? 16) eqn:E16.
      * rewrite (to_hex_1 is_print is_word_char meta_not_word) by lia.
        exists [120; 48; hex_char r]. split; [reflexivity|]. split; [body_ok_hex|].
        intros rest. cbn [app]. change 48 with (hex_char 0).
        rewrite (scan_hex_digits2 is_print is_word_char meta_not_word) by lia. first [reflexivity | f_equal; f_equal; lia | f_equal; lia].
      * rewrite (to_hex_2 is_print is_word_char meta_not_word) by lia.
        exists [120; hex_char (r / 16); hex_char (r mod 16)]. split; [reflexivity|]. split; [body_ok_hex|].
        intros rest. cbn [app]. rewrite (scan_hex_digits2 is_print is_word_char meta_not_word) by lia. first [reflexivity | f_equal; f_equal; lia | f_equal; lia].
    + destruct (r <? 4096) eqn:E4096.
      * rewrite (to_hex_3 is_print is_word_char meta_not_word) by lia. cbn [length Nat.sub repeat app].
        exists [117; 48; hex_char (r / 256); hex_char (r / 16 mod 16); hex_char (r mod 16)].
        split; [reflexivity|]. split; [body_ok_hex|].
        intros rest. cbn [app]. change 48 with (hex_char 0).
        rewrite (scan_hex_digits4 is_print is_word_char meta_not_word) by lia. first [reflexivity | f_equal; f_equal; lia | f_equal; lia].
      * rewrite (to_hex_4 is_print is_word_char meta_not_word) by lia. cbn [length Nat.sub repeat app].
        exists [117; hex_char (r / 4096); hex_char (r / 256 mod 16); hex_char (r / 16 mod 16); hex_char (r mod 16)].
        split; [reflexivity|]. split; [body_ok_hex|].
        intros rest. cbn [app].
        rewrite (scan_hex_digits4 is_print is_word_char meta_not_word) by lia. first [reflexivity | f_equal; f_equal; lia | f_equal; lia].
Qed.

End EscapeBodies.

(* ------------------------------------------------------------------------------------------ *)
(* the option-aware escape scanner agrees with Unescape's on everything Escape writes *)

Section Bridge.
Variable is_word_char : Z -> bool.
Variable to_lower : Z -> Z.

Lemma pl_lookup_simple ch :
  pl_lookup ch pl_simple_escapes =
  if ch =? 97 then Some 7 else if ch =? 98 then Some 8 else if ch =? 101 then Some 27
  else if ch =? 102 then Some 12 else if ch =? 110 then Some 10 else if ch =? 114 then Some 13
  else if ch =? 116 then Some 9 else if ch =? 118 then Some 11 else None.
Proof. reflexivity. Qed.

Lemma pl_scan_char_escape_bridge o body rest x :
  body_ok body = true ->
  scan_char_escape is_word_char (body ++ rest) = Ok x ->
  pl_scan_char_escape is_word_char o (body ++ rest) = Ok x.
Proof.
  intros Hok. destruct body as [|c t]; [discriminate|].
  unfold body_ok in Hok. apply andb_prop in Hok. destruct Hok as [Hok _].
  apply andb_prop in Hok. destruct Hok as [Hf Hb].
  assert (Hoct : (48 <=? c) && (c <=? 55) = false).
  { unfold first_ok in Hf. repeat (apply andb_prop in Hf; destruct Hf as [Hf ?]). lia. }
  cbn [app]. unfold scan_char_escape, pl_scan_char_escape. rewrite Hoct.
  unfold no_brace in Hb.
  destruct (c =? 120) eqn:Ex.
  { cbn [orb] in Hb. destruct t as [|d t']; [discriminate|]. cbn [app].
    apply negb_true_iff in Hb. rewrite Hb. unfold pl_x_digits. intros H. rewrite H. reflexivity. }
  destruct (c =? 117) eqn:Eu.
  { cbn [orb] in Hb. destruct t as [|d t']; [discriminate|]. cbn [app].
    apply negb_true_iff in Hb. rewrite Hb. cbn [andb]. unfold pl_u_digits. intros H. rewrite H. reflexivity. }
  rewrite pl_lookup_simple.
  destruct (c =? 97); [auto|]. destruct (c =? 98); [auto|]. destruct (c =? 101); [auto|].
  destruct (c =? 102); [auto|]. destruct (c =? 110); [auto|]. destruct (c =? 114); [auto|].
  destruct (c =? 116); [auto|]. destruct (c =? 118); [auto|].
  destruct (c =? 99). { intros H. rewrite H. reflexivity. }
  destruct (is_word_char c); [discriminate|]. rewrite andb_false_r. auto.
Qed.

Lemma scan_backslash_first_ok o so c p1 :
  first_ok c = true ->
  scan_backslash is_word_char to_lower o so (c :: p1) = char_code is_word_char to_lower o so (c :: p1).
Proof.
  intros Hf. unfold first_ok in Hf.
  repeat (apply andb_prop in Hf; let H := fresh "Hc" in destruct Hf as [Hf H]).
  apply negb_true_iff in Hf, Hc, Hc0, Hc1, Hc2, Hc3, Hc4, Hc5.
  unfold scan_backslash. rewrite Hf, Hc5, Hc4, Hc3. cbn [orb].
  unfold scan_basic_backslash. rewrite Hc2, Hc1, Hc0. cbn [andb orb].
  rewrite andb_false_r. cbn [andb].
  replace ((49 <=? c) && (c <=? 57)) with false by lia. reflexivity.
Qed.

Lemma scan_backslash_body o so body rest r :
  body_ok body = true ->
  (forall rest, scan_char_escape is_word_char (body ++ rest) = Ok (r, rest)) ->
  scan_backslash is_word_char to_lower o so (body ++ rest) =
  Ok (BGot (if so then EsNil else EsChar (if useI o then to_lower r else r)) rest).
Proof.
  intros Hok Hscan. pose proof (pl_scan_char_escape_bridge o body rest (r, rest) Hok (Hscan rest)) as Hb.
  destruct body as [|c t]; [discriminate|].
  unfold body_ok in Hok. apply andb_prop in Hok. destruct Hok as [Hok _].
  apply andb_prop in Hok. destruct Hok as [Hf _].
  cbn [app] in *. rewrite (scan_backslash_first_ok o so c (t ++ rest) Hf).
  unfold char_code. rewrite Hb. cbn [bind]. destruct so; reflexivity.
Qed.

End Bridge.

(* ------------------------------------------------------------------------------------------ *)
(* literal leaves and the concatenation reduction *)

Definition lit_leaf (o' : Z) (x : pnode) : Prop :=
  match x with
  | PnOne o _ => o = o'
  | PnMulti o m => o = o' /\ (2 <= length m)%nat
  | _ => False
  end.
Definition leaf_str (x : pnode) : list Z := match str_of x with Some (_, s) => s | None => [] end.
Definition spelling (l : list pnode) : list Z := flat_map leaf_str l.

(* the tree of a literal: what reduceConcatenation leaves of any run of One/Multi nodes *)
Definition lit_nodes (o' : Z) (s : list Z) : list pnode :=
  match s with
  | [] => []
  | [c] => [PnOne o' c]
  | _ => [PnMulti o' s]
  end.
Definition lit_body (o' : Z) (s : list Z) : pbody :=
  match lit_nodes o' s with
  | [] => BEmpty o'
  | x :: _ => BSingle x
  end.

Lemma lit_leaf_str_nonempty o' x : lit_leaf o' x -> leaf_str x <> [].
Proof.
  destruct x; cbn; try contradiction; intros H.
  - discriminate.
  - destruct H as [_ H]. destruct s; [cbn in H; lia | discriminate].
Qed.

Lemma lit_leaf_str_of o' x : lit_leaf o' x -> str_of x = Some (o', leaf_str x).
Proof. destruct x; cbn; try contradiction; intros H; [subst; reflexivity | destruct H; subst; reflexivity]. Qed.

Lemma combine_lit o' x y : lit_leaf o' x \/ (exists t o, x = PnType t o) -> combine x y = None.
Proof. intros [H|[t [o H]]]; [destruct x; cbn in H; try contradiction; reflexivity | subst; reflexivity]. Qed.

Definition plain (o' : Z) (x : pnode) : Prop := lit_leaf o' x \/ (exists t o, x = PnType t o).

Lemma coalesce_plain o' l : forall x, plain o' x -> Forall (plain o') l -> coalesce x l = x :: l.
Proof.
  induction l as [|y l IH]; intros x Hx Hl; cbn [coalesce]; [reflexivity|].
  rewrite (combine_lit o' x y Hx). inversion Hl; subst. f_equal. apply IH; assumption.
Qed.

Lemma merge_multi o' l : Forall (lit_leaf o') l ->
  forall s0, merge_strs (Some (PnMulti o' s0)) l = [PnMulti o' (s0 ++ spelling l)].
Proof.
  induction l as [|x l IH]; intros Hl s0; cbn [merge_strs flush spelling flat_map].
  - rewrite app_nil_r. reflexivity.
  - inversion Hl as [|x' l' Hx Hl']; subst.
    rewrite (lit_leaf_str_of o' x Hx). cbn [str_of]. rewrite Z.eqb_refl.
    rewrite IH by assumption. rewrite <- app_assoc. reflexivity.
Qed.

Lemma merge_lit_pending o' x l : lit_leaf o' x -> Forall (lit_leaf o') l -> l <> [] ->
  merge_strs (Some x) l = [PnMulti o' (leaf_str x ++ spelling l)].
Proof.
  intros Hx Hl Hne. destruct l as [|y l]; [congruence|].
  inversion Hl as [|y' l' Hy Hl']; subst.
  cbn [merge_strs]. rewrite (lit_leaf_str_of o' y Hy), (lit_leaf_str_of o' x Hx). rewrite Z.eqb_refl.
  rewrite (merge_multi o' l Hl'). cbn [spelling flat_map]. rewrite <- app_assoc. reflexivity.
Qed.

Lemma two_or_more {A} (a b : list A) : a <> [] -> b <> [] -> (2 <= length (a ++ b))%nat.
Proof. destruct a; [congruence|]. destruct b; [congruence|]. intros _ _. rewrite app_length. cbn. lia. Qed.

Lemma spelling_nonempty o' l : Forall (lit_leaf o') l -> l <> [] -> spelling l <> [].
Proof.
  intros Hl Hne. destruct l as [|x l]; [congruence|]. inversion Hl; subst.
  cbn [spelling flat_map]. pose proof (lit_leaf_str_nonempty o' x H1) as Hs.
  destruct (leaf_str x); [congruence | discriminate].
Qed.

Lemma lit_nodes_long o' s : (2 <= length s)%nat -> lit_nodes o' s = [PnMulti o' s].
Proof. destruct s as [|a [|b s]]; cbn [length]; try lia. reflexivity. Qed.

(* all the literal leaves of a run collapse into the node of their spelling *)
Lemma merge_lit_run o' l : Forall (lit_leaf o') l -> l <> [] ->
  forall rest, (match rest with [] => True | y :: _ => str_of y = None end) ->
  merge_strs None (l ++ rest) = lit_nodes o' (spelling l) ++ merge_strs None rest.
Proof.
  intros Hl Hne rest Hrest. destruct l as [|x l]; [congruence|].
  inversion Hl as [|x' l' Hx Hl']; subst.
  cbn [app merge_strs]. rewrite (lit_leaf_str_of o' x Hx).
  (* generalise over the pending node *)
  assert (G : forall l pv, Forall (lit_leaf o') l -> lit_leaf o' pv ->
            merge_strs (Some pv) (l ++ rest) =
            (match l with [] => [pv] | _ => [PnMulti o' (leaf_str pv ++ spelling l)] end) ++ merge_strs None rest).
  { clear - Hrest. intros l. induction l as [|y l IH]; intros pv Hl Hpv.
    - cbn [app]. destruct rest as [|z rest]; [reflexivity|]. cbn [merge_strs]. rewrite Hrest. reflexivity.
    - inversion Hl as [|y' l' Hy Hl']; subst. cbn [app merge_strs].
      rewrite (lit_leaf_str_of o' y Hy), (lit_leaf_str_of o' pv Hpv). rewrite Z.eqb_refl.
      assert (Hm : lit_leaf o' (PnMulti o' (leaf_str pv ++ leaf_str y))).
      { split; [reflexivity|]. apply two_or_more; eapply lit_leaf_str_nonempty; eassumption. }
      rewrite (IH _ Hl' Hm). cbn [spelling flat_map leaf_str str_of].
      destruct l; [cbn [flat_map app]; rewrite app_nil_r; reflexivity|]. rewrite <- app_assoc. reflexivity. }
  rewrite (G l x Hl' Hx). f_equal.
  cbn [spelling flat_map]. destruct l as [|y l].
  - rewrite app_nil_r. destruct x; cbn in Hx; try contradiction.
    + subst. reflexivity.
    + destruct Hx as [Ho Hx]. cbn [leaf_str str_of]. rewrite lit_nodes_long by assumption. subst. reflexivity.
  - rewrite lit_nodes_long; [reflexivity|].
    apply two_or_more; [eapply lit_leaf_str_nonempty; eassumption|].
    apply (spelling_nonempty o'); [assumption | discriminate].
Qed.

(* ------------------------------------------------------------------------------------------ *)
(* scanRegex on Escape's output *)

Lemma meta_members : zmem 35 meta = true /\ zmem 123 meta = true /\ zmem 92 meta = true /\
                     zmem 40 meta = true /\ zmem 41 meta = true /\ zmem 91 meta = true /\ zmem 32 meta = true.
Proof. vm_compute. repeat split. Qed.

Section Main.
Variable is_print : Z -> bool.
Variable is_word_char : Z -> bool.
Variable to_lower : Z -> Z.
Variable is_cased : Z -> bool.
Variable participates : Z -> bool.
Variable ci_single : Z -> bool.
Variable ci_set_id : Z -> Z.
Hypothesis meta_not_word : forall c, In c meta -> is_word_char c = false.
Variable o : Z.
Hypothesis HI : useI o = false.
(* only needed under IgnorePatternWhitespace: TAB LF VT FF CR are not printable, so Escape writes
   them as \t \n \v \f \r (checked against unicode.IsPrint by leg c19-parse) *)
Hypothesis HX : useX o = true -> forall c, 9 <= c <= 13 -> is_print c = false.

Local Notation SB := (scan_backslash is_word_char to_lower).
Local Notation SBODY := (scan_body is_word_char to_lower is_cased participates ci_single ci_set_id).
Local Notation SL := (scan_loop is_word_char to_lower is_cased participates ci_single ci_set_id).
Local Notation ATC := (add_to_concat is_cased participates ci_single ci_set_id).
Local Notation MK1 := (mk_one is_cased ci_single ci_set_id).
Local Notation PRE := (prepass is_word_char to_lower).
Local Notation raw := (rawrune is_print).
Local Notation esc := (escape is_print).

Lemma raw_not_stopper_x r : raw r -> useX o = true -> is_stopper_x r = false.
Proof.
  intros [[Hp Hm]|Hbig] EX.
  - destruct (is_stopper_x r) eqn:E; [|reflexivity].
    apply stopper_x_in_meta in E. destruct E as [E|E]; [congruence|].
    rewrite (HX EX r E) in Hp. discriminate.
  - unfold is_stopper_x, pl_stopperx_bound. lia.
Qed.

Lemma raw_not_special r : raw r -> is_special r = false.
Proof.
  intros [[Hp Hm]|Hbig].
  - destruct (is_special r) eqn:E; [|reflexivity]. apply special_in_meta in E. congruence.
  - unfold is_special, pl_special_bound. lia.
Qed.

Lemma raw_not_stopper r : raw r -> is_stopper o r = false.
Proof.
  intros Hr. unfold is_stopper. case_eq (useX o); intros EX;
    [apply raw_not_stopper_x; assumption | apply raw_not_special; assumption].
Qed.

Lemma raw_not_quantifier r : raw r -> is_quantifier r = false.
Proof.
  intros Hr. destruct (is_quantifier r) eqn:E; [|reflexivity].
  apply quantifier_is_special in E. rewrite (raw_not_special r Hr) in E. discriminate.
Qed.

Lemma raw_not_chars r : raw r -> r <> 35 /\ r <> 123 /\ r <> 92 /\ is_paren r = false.
Proof.
  destruct meta_members as [M35 [M123 [M92 [M40 [M41 [M91 _]]]]]].
  intros [[Hp Hm]|Hbig]; [|unfold is_paren; lia].
  repeat split; try (intros ->; congruence).
  unfold is_paren. destruct (r =? 40) eqn:E1; [assert (r = 40) by lia; subst; congruence|].
  destruct (r =? 41) eqn:E2; [assert (r = 41) by lia; subst; congruence|].
  destruct (r =? 91) eqn:E3; [assert (r = 91) by lia; subst; congruence|]. reflexivity.
Qed.

Lemma raw_blank_fix r t : raw r -> scan_blank o (r :: t) = r :: t.
Proof.
  intros Hr. unfold scan_blank. case_eq (useX o); intros EX; [|reflexivity].
  apply blank_x_fix; [|apply (raw_not_chars r Hr)].
  destruct (is_space r) eqn:E; [|reflexivity].
  destruct Hr as [[Hp Hm]|Hbig].
  - apply space_in_meta in E. destruct E as [E|E]; [congruence|]. rewrite (HX EX r E) in Hp. discriminate.
  - unfold is_space, pl_space_bound in E. lia.
Qed.

Lemma backslash_blank_fix t : scan_blank o (92 :: t) = 92 :: t.
Proof.
  unfold scan_blank. case_eq (useX o); intros EX0; [|reflexivity].
  apply blank_x_fix; [apply backslash_special | lia].
Qed.

(* patterns that start like Escape output: empty, a raw rune, or a backslash *)
Definition good_head (p : list Z) : Prop :=
  match p with [] => True | c :: _ => raw c \/ c = 92 end.

Lemma good_head_blank p : good_head p -> scan_blank o p = p.
Proof.
  destruct p as [|c t]; intros H.
  - unfold scan_blank. case (useX o); reflexivity.
  - destruct H as [H| ->]; [apply raw_blank_fix; assumption | apply backslash_blank_fix].
Qed.

Lemma good_head_not_quantifier p : good_head p -> is_true_quantifier p = false.
Proof.
  destruct p as [|c t]; intros H; [reflexivity|]. cbn [is_true_quantifier].
  destruct H as [H| ->].
  - destruct (raw_not_chars c H) as [_ [H123 _]]. replace (c =? 123) with false by lia. cbn [negb].
    apply raw_not_quantifier. assumption.
  - reflexivity.
Qed.

Lemma is_stopper_backslash : is_stopper o 92 = true.
Proof. unfold is_stopper. case (useX o); apply backslash_special. Qed.

Lemma take_run_raw s1 : Forall raw s1 -> forall tail,
  (tail = [] \/ exists t, tail = 92 :: t) -> take_run o (s1 ++ tail) = (s1, tail).
Proof.
  induction s1 as [|r s1 IH]; intros Hall tail Ht.
  - cbn [app]. destruct Ht as [-> | [t ->]]; [reflexivity|].
    cbn [take_run]. rewrite is_stopper_backslash. reflexivity.
  - inversion Hall as [|r' s' Hr Hall']; subst. cbn [app take_run].
    rewrite (raw_not_stopper r Hr). cbn [andb]. rewrite (IH Hall' tail Ht). reflexivity.
Qed.

Lemma atc_lit s1 : s1 <> [] -> Forall (lit_leaf (clear_I o)) (ATC o s1) /\ spelling (ATC o s1) = s1.
Proof.
  intros Hne. unfold add_to_concat, mk_one. rewrite HI. cbn [negb orb andb].
  destruct s1 as [|a [|b s1]]; [congruence| |].
  - split; [constructor; [reflexivity | constructor] | reflexivity].
  - split; [constructor; [split; [reflexivity | cbn [length]; lia] | constructor]|].
    cbn [spelling flat_map leaf_str str_of]. apply app_nil_r.
Qed.

Lemma atc_nil : ATC o [] = [].
Proof. reflexivity. Qed.

(* one round of the outer loop: a run of raw runes in front of the end or of a backslash *)
Lemma scan_body_run rec s1 tail acc : Forall raw s1 -> s1 <> [] ->
  (tail = [] \/ exists t, tail = 92 :: t) ->
  SBODY rec o (s1 ++ tail) acc = SBODY rec o tail (acc ++ ATC o s1).
Proof.
  intros Hall Hne Ht.
  assert (Hh : good_head (s1 ++ tail)).
  { destruct s1 as [|r s1]; [congruence|]. inversion Hall; subst. left. assumption. }
  unfold scan_body at 1. rewrite (good_head_blank _ Hh), (take_run_raw s1 Hall tail Ht).
  destruct (s1 ++ tail) as [|c0 t0] eqn:Eapp.
  { destruct s1; [congruence | discriminate]. }
  destruct Ht as [-> | [t ->]].
  - (* the end *)
    replace (scan_blank o []) with (@nil Z) by (unfold scan_blank; case (useX o); reflexivity).
    reflexivity.
  - rewrite backslash_blank_fix.
    destruct backslash_special as [Hsp [_ [Hq _]]]. rewrite Hsp, Hq. cbn [negb]. rewrite Z.eqb_refl.
    unfold scan_body. rewrite backslash_blank_fix.
    cbn [take_run]. rewrite is_stopper_backslash. cbn [andb negb orb Z.eqb Pos.eqb].
    rewrite backslash_blank_fix. rewrite Hsp, Hq. cbn [negb]. rewrite Z.eqb_refl.
    rewrite atc_nil, app_nil_r. reflexivity.
Qed.

(* one round at a backslash *)
Lemma scan_body_backslash rec p4 acc :
  SBODY rec o (92 :: p4) acc =
  (do r <- SB o false p4 ;
   match r with
   | BOut => Ok SOutside
   | BGot e p5 =>
       match node_of_esc is_cased ci_single ci_set_id o e with
       | None => Crash 4
       | Some n => let p6 := scan_blank o p5 in
                   if is_true_quantifier p6 then Ok SOutside else rec p6 (acc ++ [n])
       end
   end).
Proof.
  unfold scan_body. rewrite backslash_blank_fix.
  cbn [take_run]. rewrite is_stopper_backslash. cbn [andb negb orb Z.eqb Pos.eqb].
  rewrite backslash_blank_fix.
  destruct backslash_special as [Hsp [_ [Hq _]]]. rewrite Hsp, Hq. cbn [negb]. rewrite Z.eqb_refl.
  rewrite atc_nil, app_nil_r. reflexivity.
Qed.


Lemma esc_cons r s : esc (r :: s) = escape_rune is_print r ++ esc s.
Proof. reflexivity. Qed.

(* s = its leading run of raw runes, then (if anything) a rune that Escape rewrites *)
Lemma raw_prefix s : Forall valid_rune s ->
  exists s1 s2, s = s1 ++ s2 /\ Forall raw s1 /\ esc s = s1 ++ esc s2 /\ Forall valid_rune s2 /\
    (s2 = [] \/ exists r s3 body, s2 = r :: s3 /\ escape_rune is_print r = 92 :: body /\
                  body_ok body = true /\
                  (forall rest, scan_char_escape is_word_char (body ++ rest) = Ok (r, rest))).
Proof.
  induction s as [|r s IH]; intros Hv.
  - exists [], []. split; [reflexivity|]. split; [constructor|]. split; [reflexivity|]. split; [constructor|]. left; reflexivity.
  - inversion Hv as [|r' s' Hr Hs]; subst.
    destruct (escape_rune_inv2 is_print is_word_char meta_not_word r Hr) as [[Hraw Hrr] | [body [Hesc [Hok Hscan]]]].
    + destruct (IH Hs) as [s1 [s2 [E1 [Hall [E2 [Hv2 Hcase]]]]]].
      exists (r :: s1), s2. split; [cbn [app]; congruence|]. split; [constructor; assumption|].
      split; [rewrite esc_cons, Hraw, E2; reflexivity|]. split; assumption.
    + exists [], (r :: s). split; [reflexivity|]. split; [constructor|]. split; [reflexivity|].
      split; [assumption|]. right. exists r, s, body. repeat split; assumption.
Qed.

Lemma good_head_esc s tail : Forall valid_rune s -> (tail = [] \/ exists t, tail = 92 :: t) ->
  good_head (esc s ++ tail).
Proof.
  intros Hv Ht. destruct s as [|r s].
  - cbn [app]. destruct Ht as [-> | [t ->]]; [exact I | right; reflexivity].
  - inversion Hv as [|r' s' Hr Hs]; subst. rewrite esc_cons.
    destruct (escape_rune_inv2 is_print is_word_char meta_not_word r Hr) as [[Hraw Hrr] | [body [Hesc _]]].
    + rewrite Hraw. left. assumption.
    + rewrite Hesc. right. reflexivity.
Qed.

Definition tail_spec (tail : list Z) (tl : list pnode) : Prop :=
  (tail = [] \/ exists t, tail = 92 :: t) /\
  forall f acc, (length tail < f)%nat -> SL f o tail acc = Ok (SLeaves (acc ++ tl)).

Lemma scan_escape n : forall s, (length s <= n)%nat -> Forall valid_rune s ->
  forall tail tl, tail_spec tail tl ->
  forall f acc, (length (esc s ++ tail) < f)%nat ->
  exists ls, SL f o (esc s ++ tail) acc = Ok (SLeaves (acc ++ ls ++ tl)) /\
             Forall (lit_leaf (clear_I o)) ls /\ spelling ls = s.
Proof.
  induction n as [|n IH]; intros s Hlen Hv tail tl [Ht Hspec] f acc Hf.
  - destruct s; [|cbn in Hlen; lia]. cbn [escape flat_map app] in *.
    exists []. split; [apply Hspec; assumption|]. split; [constructor | reflexivity].
  - destruct (raw_prefix s Hv) as [s1 [s2 [E1 [Hall [E2 [Hv2 Hcase]]]]]].
    destruct f as [|f']; [lia|].
    destruct Hcase as [-> | [r [s3 [body [-> [Hesc [Hok Hscan]]]]]]].
    + (* the whole of s is raw *)
      rewrite app_nil_r in E1. subst s1. cbn [escape flat_map] in E2. rewrite app_nil_r in E2.
      rewrite E2 in *. destruct s as [|r0 s0].
      * cbn [app] in *. exists []. split; [apply Hspec; assumption|]. split; [constructor | reflexivity].
      * cbn [scan_loop]. rewrite (scan_body_run (SL f' o) (r0 :: s0) tail acc Hall ltac:(discriminate) Ht).
        change (SBODY (SL f' o) o tail (acc ++ ATC o (r0 :: s0))) with (SL (S f') o tail (acc ++ ATC o (r0 :: s0))).
        rewrite Hspec by (rewrite app_length in Hf; lia).
        destruct (atc_lit (r0 :: s0) ltac:(discriminate)) as [Hl Hs].
        exists (ATC o (r0 :: s0)). split; [rewrite (app_assoc acc); reflexivity|]. split; assumption.
    + (* raw run, then an escaped rune *)
      rewrite esc_cons, Hesc in E2.
      assert (Eall : esc s ++ tail = s1 ++ 92 :: (body ++ (esc s3 ++ tail))).
      { rewrite E2. rewrite <- !app_assoc. cbn [app]. reflexivity. }
      rewrite Eall in *.
      inversion Hv2 as [|r' s' Hr Hv3]; subst r' s'.
      (* the round that starts at the backslash, with whatever was accumulated *)
      assert (Step : forall acc1 pre, Forall (lit_leaf (clear_I o)) pre -> spelling pre = s1 -> acc1 = acc ++ pre ->
                exists ls, SBODY (SL f' o) o (92 :: (body ++ (esc s3 ++ tail))) acc1 = Ok (SLeaves (acc ++ ls ++ tl)) /\
                           Forall (lit_leaf (clear_I o)) ls /\ spelling ls = s).
      { intros acc1 pre Hpre Hsp ->.
        rewrite scan_body_backslash.
        rewrite (scan_backslash_body is_word_char to_lower o false body (esc s3 ++ tail) r Hok Hscan).
        cbn [bind]. rewrite HI. cbn [node_of_esc]. unfold mk_one. rewrite HI. cbn [andb].
        assert (Hg : good_head (esc s3 ++ tail)) by (apply good_head_esc; assumption).
        cbv zeta. rewrite (good_head_blank _ Hg), (good_head_not_quantifier _ Hg).
        assert (Hlen3 : (length s3 <= n)%nat).
        { rewrite E1, app_length in Hlen. cbn [length] in Hlen. lia. }
        assert (Hf3 : (length (esc s3 ++ tail) < f')%nat).
        { rewrite app_length in Hf. cbn [length] in Hf. rewrite app_length in Hf. lia. }
        destruct (IH s3 Hlen3 Hv3 tail tl (conj Ht Hspec) f' ((acc ++ pre) ++ [PnOne (clear_I o) r]) Hf3)
          as [ls3 [Hrun [Hl3 Hs3]]].
        rewrite Hrun. exists (pre ++ [PnOne (clear_I o) r] ++ ls3).
        split; [rewrite <- !app_assoc; reflexivity|].
        split.
        - apply Forall_app. split; [assumption|]. constructor; [reflexivity | assumption].
        - unfold spelling in *. rewrite flat_map_app. cbn [flat_map app leaf_str str_of].
          rewrite Hsp, Hs3, E1. reflexivity. }
      cbn [scan_loop]. destruct s1 as [|r0 s0].
      * cbn [app]. apply (Step acc []); [constructor | reflexivity | rewrite app_nil_r; reflexivity].
      * rewrite (scan_body_run (SL f' o) (r0 :: s0) _ acc Hall ltac:(discriminate) (or_intror (ex_intro _ _ eq_refl))).
        destruct (atc_lit (r0 :: s0) ltac:(discriminate)) as [Hl Hs].
        apply (Step _ (ATC o (r0 :: s0))); [assumption | assumption | reflexivity].
Qed.


(* ---- the pre-scan (countCaptures) finds nothing to do on Escape output ---- *)

Lemma prepass_escape s : Forall valid_rune s -> forall tail,
  (forall f, (length tail < f)%nat -> PRE f o tail = Ok true) ->
  forall f, (length (esc s ++ tail) < f)%nat -> PRE f o (esc s ++ tail) = Ok true.
Proof.
  induction s as [|r s IH]; intros Hv tail Htail f Hf.
  - cbn [escape flat_map app] in *. apply Htail. assumption.
  - inversion Hv as [|r' s' Hr Hs]; subst. rewrite esc_cons in *.
    destruct f as [|f']; [lia|].
    destruct (escape_rune_inv2 is_print is_word_char meta_not_word r Hr) as [[Hraw Hrr] | [body [Hesc [Hok Hscan]]]].
    + rewrite Hraw in *. cbn [app length] in *. cbn [prepass prepass_body].
      destruct (raw_not_chars r Hrr) as [H35 [_ [H92 Hpar]]].
      replace (r =? 92) with false by lia. replace (r =? 35) with false by lia. cbn [andb].
      rewrite Hpar. apply IH; [assumption | assumption | lia].
    + rewrite Hesc in *. rewrite <- app_assoc in *. cbn [app length] in *.
      cbn [prepass prepass_body]. rewrite Z.eqb_refl.
      rewrite (scan_backslash_body is_word_char to_lower o true body (esc s ++ tail) r Hok Hscan).
      destruct body as [|c t]; [discriminate|]. cbn [app].
      apply IH; [assumption | assumption |]. rewrite app_length in Hf. lia.
Qed.

Lemma prepass_nil f : (0 < f)%nat -> PRE f o [] = Ok true.
Proof. destruct f; [lia | reflexivity]. Qed.

Lemma prepass_end_anchor f : (2 < f)%nat -> PRE f o [92; 122] = Ok true.
Proof. destruct f as [|[|f]]; [lia | lia | reflexivity]. Qed.

(* ---- the concatenation reduction on literal leaves ---- *)

Lemma reduce_concat_lit ls : Forall (lit_leaf (clear_I o)) ls ->
  reduce_concat o ls = lit_body (clear_I o) (spelling ls).
Proof.
  intros Hl. destruct ls as [|x [|y l]].
  - reflexivity.
  - inversion Hl as [|x' l' Hx _]; subst. cbn [reduce_concat spelling flat_map]. rewrite app_nil_r.
    unfold lit_body. destruct x; cbn in Hx; try contradiction.
    + subst. reflexivity.
    + destruct Hx as [-> Hx]. cbn [leaf_str str_of]. rewrite lit_nodes_long by assumption. reflexivity.
  - inversion Hl as [|x' l' Hx Hl']; subst. cbn [reduce_concat].
    rewrite (coalesce_plain (clear_I o) (y :: l) x (or_introl Hx)).
    2:{ eapply Forall_impl; [|exact Hl']. intros a Ha. left. exact Ha. }
    pose proof (merge_lit_run (clear_I o) (x :: y :: l) Hl ltac:(discriminate) [] I) as Hm.
    rewrite app_nil_r in Hm. rewrite Hm. cbn [merge_strs flush]. rewrite app_nil_r.
    assert (H2 : (2 <= length (spelling (x :: y :: l)))%nat).
    { cbn [spelling flat_map]. apply two_or_more; [eapply lit_leaf_str_nonempty; eassumption|].
      apply (spelling_nonempty (clear_I o) (y :: l)); [assumption | discriminate]. }
    unfold lit_body. rewrite lit_nodes_long by assumption. reflexivity.
Qed.

(* \A ... \z around literal leaves *)
Definition anchored_body (o' : Z) (s : list Z) : pbody :=
  BConcat o' (PnType NT_Beginning o' :: lit_nodes o' s ++ [PnType NT_End o']).

Lemma reduce_concat_cons x l : l <> [] ->
  reduce_concat o (x :: l) =
  match merge_strs None (coalesce x l) with
  | [] => BEmpty (clear_I o)
  | [y] => BSingle y
  | l2 => BConcat (clear_I o) l2
  end.
Proof. destruct l; [congruence | reflexivity]. Qed.

Lemma reduce_concat_anchored ls : Forall (lit_leaf (clear_I o)) ls ->
  reduce_concat o (PnType NT_Beginning (clear_I o) :: ls ++ [PnType NT_End (clear_I o)]) =
  anchored_body (clear_I o) (spelling ls).
Proof.
  intros Hl.
  assert (Hpl : Forall (plain (clear_I o)) (ls ++ [PnType NT_End (clear_I o)])).
  { apply Forall_app. split.
    - eapply Forall_impl; [|exact Hl]. intros a Ha. left. exact Ha.
    - constructor; [right; eauto | constructor]. }
  rewrite reduce_concat_cons by (destruct ls; discriminate).
  rewrite (coalesce_plain (clear_I o) _ _ (or_intror (ex_intro _ _ (ex_intro _ _ eq_refl))) Hpl).
  cbn [merge_strs str_of flush app].
  assert (Hm : merge_strs None (ls ++ [PnType NT_End (clear_I o)]) =
               lit_nodes (clear_I o) (spelling ls) ++ [PnType NT_End (clear_I o)]).
  { destruct ls as [|x l]; [reflexivity|].
    rewrite (merge_lit_run (clear_I o) (x :: l) Hl ltac:(discriminate) [PnType NT_End (clear_I o)] eq_refl). reflexivity. }
  rewrite Hm. unfold anchored_body.
  destruct (lit_nodes (clear_I o) (spelling ls)) as [|a [|b l1]]; reflexivity.
Qed.


(* ---- the whole parser on Escape output ---- *)
Hypothesis HR : useRTL o = false.

Local Notation PARSE := (parse_lit is_word_char to_lower is_cased participates ci_single ci_set_id).

Lemma esc_nonneg s : Forall valid_rune s -> forallb (fun c => 0 <=? c) (esc s) = true.
Proof.
  induction s as [|r s IH]; intros Hv; [reflexivity|].
  inversion Hv as [|r' s' Hr Hs]; subst. rewrite esc_cons, forallb_app, (IH Hs), andb_true_r.
  destruct (escape_rune_inv2 is_print is_word_char meta_not_word r Hr) as [[Hraw Hrr] | [body [Hesc [Hok Hscan]]]].
  - rewrite Hraw. cbn [forallb]. unfold valid_rune in Hr. rewrite andb_true_r. lia.
  - rewrite Hesc. cbn [forallb]. destruct body as [|c t]; [discriminate|].
    unfold body_ok in Hok. apply andb_prop in Hok. destruct Hok as [_ Hok]. rewrite Hok. reflexivity.
Qed.

Lemma tail_spec_nil : tail_spec [] [].
Proof.
  split; [left; reflexivity|]. intros f acc Hf. destruct f; [lia|]. cbn. rewrite app_nil_r. reflexivity.
Qed.

Lemma sb_beginning so rest : SB o so (65 :: rest) = Ok (BGot (EsType NT_Beginning) rest).
Proof. reflexivity. Qed.
Lemma sb_end so rest : SB o so (122 :: rest) = Ok (BGot (EsType NT_End) rest).
Proof. reflexivity. Qed.

Lemma tail_spec_end : tail_spec [92; 122] [PnType NT_End (clear_I o)].
Proof.
  split; [right; eexists; reflexivity|]. intros f acc Hf. cbn [length] in Hf.
  destruct f as [|[|f]]; [lia | lia |]. cbn [scan_loop]. rewrite scan_body_backslash, sb_end.
  cbn [bind node_of_esc]. cbv zeta.
  replace (scan_blank o []) with (@nil Z) by (unfold scan_blank; case (useX o); reflexivity).
  reflexivity.
Qed.

Theorem escape_parses_to_literal s : Forall valid_rune s ->
  PARSE o (esc s) = Ok (PTree (PRoot o (lit_body (clear_I o) s))).
Proof.
  intros Hv. unfold parse_lit. rewrite pl_bounds_ok_true, (esc_nonneg s Hv), HR. cbn [negb].
  pose proof (prepass_escape s Hv [] (fun f Hf => prepass_nil f ltac:(cbn [length] in Hf; lia))
                (S (length (esc s)))) as Hp.
  rewrite app_nil_r in Hp. rewrite Hp by lia. cbn [bind negb].
  destruct (scan_escape (length s) s (le_n _) Hv [] [] tail_spec_nil (S (length (esc s))) [])
    as [ls [Hrun [Hl Hs]]]; [rewrite app_nil_r; lia|].
  rewrite app_nil_r in Hrun. rewrite Hrun. cbn [bind app]. rewrite app_nil_r.
  rewrite (reduce_concat_lit ls Hl), Hs. reflexivity.
Qed.

Theorem anchored_escape_parses s : Forall valid_rune s ->
  PARSE o ([92; 65] ++ esc s ++ [92; 122]) = Ok (PTree (PRoot o (anchored_body (clear_I o) s))).
Proof.
  intros Hv. unfold parse_lit. rewrite pl_bounds_ok_true. cbn [app negb].
  assert (Hnn : forallb (fun c => 0 <=? c) (92 :: 65 :: esc s ++ [92; 122]) = true).
  { cbn [forallb]. rewrite forallb_app, (esc_nonneg s Hv). reflexivity. }
  rewrite Hnn, HR. cbn [negb].
  (* pre-scan *)
  cbn [prepass]. unfold prepass_body at 1. change (92 =? 92) with true. rewrite sb_beginning. cbv iota.
  rewrite (prepass_escape s Hv [92; 122] prepass_end_anchor) by (cbn [length]; lia). cbn [bind negb].
  (* main scan *)
  cbn [scan_loop]. rewrite scan_body_backslash, sb_beginning. cbn [bind node_of_esc app]. cbv zeta.
  assert (Hg : good_head (esc s ++ [92; 122])).
  { apply good_head_esc; [assumption | right; eexists; reflexivity]. }
  rewrite (good_head_blank _ Hg), (good_head_not_quantifier _ Hg).
  destruct (scan_escape (length s) s (le_n _) Hv [92; 122] _ tail_spec_end
              (length (92 :: 65 :: esc s ++ [92; 122])) [PnType NT_Beginning (clear_I o)] ltac:(cbn [length]; lia))
    as [ls [Hrun [Hl Hs]]].
  rewrite Hrun. cbn [bind app].
  rewrite (reduce_concat_anchored ls Hl), Hs. reflexivity.
Qed.

End Main.

(* ------------------------------------------------------------------------------------------ *)
(* totality: the fragment parser neither faults nor loops on any pattern of non-negative runes *)

Lemma is_space_hash : is_space 35 = false.
Proof. vm_compute. reflexivity. Qed.

Section Total2.
Variable is_word_char : Z -> bool.
Variable to_lower : Z -> Z.
Variable is_cased : Z -> bool.
Variable participates : Z -> bool.
Variable ci_single : Z -> bool.
Variable ci_set_id : Z -> Z.

Local Notation SB := (scan_backslash is_word_char to_lower).
Local Notation SBODY := (scan_body is_word_char to_lower is_cased participates ci_single ci_set_id).
Local Notation SL := (scan_loop is_word_char to_lower is_cased participates ci_single ci_set_id).
Local Notation PRE := (prepass is_word_char to_lower).
Local Notation PARSE := (parse_lit is_word_char to_lower is_cased participates ci_single ci_set_id).
Local Notation SB_ADV := (scan_backslash_advb is_word_char to_lower is_cased participates ci_single ci_set_id).

(* every round of the outer loop of scanRegex consumes at least one rune (in x-mode because a
   stopper that is not special is a blank, which scanBlank consumes): the loop cannot hang *)
Lemma scan_body_fine rec o p acc :
  (forall p' acc', (length p' < length p)%nat -> fine (rec p' acc')) ->
  fine (SBODY rec o p acc).
Proof.
  intros Hrec. unfold scan_body. destruct p as [|c0 p0]; [exact I|].
  set (p := c0 :: p0) in *.
  pose proof (scan_blank_len o p) as L1.
  destruct (take_run o (scan_blank o p)) as [run p2] eqn:Er.
  pose proof (take_run_app _ _ _ _ Er) as Eapp.
  assert (L2 : (length run + length p2 = length (scan_blank o p))%nat) by (rewrite Eapp, app_length; reflexivity).
  pose proof (scan_blank_len o p2) as L3.
  destruct (scan_blank o p2) as [|ch p4] eqn:E3; [exact I|].
  destruct (is_special ch) eqn:Esp; cbn [negb].
  - (* special *)
    destruct (ch =? 92).
    + destruct (SB_ADV o false p4) as [F L].
      destruct (SB o false p4) as [[|e p5]|c|w|]; cbn in F; try contradiction; cbn [bind]; try exact I.
      destruct (L e p5 eq_refl) as [L5 Hnil]. specialize (Hnil eq_refl).
      destruct e; cbn [node_of_esc]; try congruence;
        cbv zeta; (destruct (is_true_quantifier (scan_blank o p5)); [exact I|]);
        apply Hrec; pose proof (scan_blank_len o p5); cbn [length] in *; lia.
    + destruct ((ch =? 123) && is_quantifier ch && negb (is_true_quantifier (ch :: p4))); [|exact I].
      destruct run as [|r0 run']; [exact I|].
      apply Hrec. cbn [length] in *. lia.
  - (* ordinary character after the blanks: something was consumed *)
    apply Hrec. destruct run as [|r0 run']; [|cbn [length] in *; lia].
    exfalso. cbn [app] in Eapp. subst p2.
    unfold scan_blank in *. destruct (useX o) eqn:EX.
    + (* x-mode *)
      destruct (blank_x false p) as [|c t] eqn:Eb; [discriminate|].
      destruct (blank_x_head _ _ _ _ Eb) as [Hs Hh].
      rewrite (blank_x_fix c t Hs Hh) in E3. inversion E3; subst ch p4.
      pose proof (take_run_stop _ _ _ _ _ Er) as Hst. unfold is_stopper in Hst. rewrite EX in Hst.
      destruct (stopper_not_special_is_blank c Hst Esp) as [Hb|Hb]; congruence.
    + subst p. inversion E3; subst ch p4.
      pose proof (take_run_stop _ _ _ _ _ Er) as Hst. unfold is_stopper in Hst. rewrite EX in Hst. congruence.
Qed.

Lemma scan_loop_fine o : forall f p acc, (length p < f)%nat -> fine (SL f o p acc).
Proof.
  induction f as [|f IH]; intros p acc Hf; [lia|].
  cbn [scan_loop]. apply scan_body_fine. intros p' acc' Hp. apply IH. lia.
Qed.

Lemma prepass_body_fine rec o p :
  (forall p', (length p' < length p)%nat -> fine (rec p')) ->
  fine (prepass_body is_word_char to_lower rec o p).
Proof.
  intros Hrec. unfold prepass_body. destruct p as [|ch p']; [exact I|].
  destruct (ch =? 92).
  - destruct p' as [|c1 p1]; [exact I|].
    destruct (SB_ADV o true (c1 :: p1)) as [F L].
    destruct (SB o true (c1 :: p1)) as [[|e rest]|c|w|]; cbn in F; try contradiction; try exact I.
    destruct (L e rest eq_refl) as [L5 _]. apply Hrec. cbn [length] in *. lia.
  - destruct ((ch =? 35) && useX o) eqn:Eh.
    + apply andb_prop in Eh. destruct Eh as [Eh EX]. assert (ch = 35) by lia. subst ch.
      apply Hrec. unfold scan_blank. rewrite EX. cbn [blank_x]. rewrite is_space_hash.
      change (35 =? 35) with true. cbv iota. pose proof (blank_x_len p' true). cbn [length]. lia.
    + destruct (is_paren ch); [exact I|]. apply Hrec. cbn [length]. lia.
Qed.

Lemma prepass_fine o : forall f p, (length p < f)%nat -> fine (PRE f o p).
Proof.
  induction f as [|f IH]; intros p Hf; [lia|].
  cbn [prepass]. apply prepass_body_fine. intros p' Hp. apply IH. lia.
Qed.

Theorem parse_lit_total o p : Forall (fun c => 0 <= c) p -> fine (PARSE o p).
Proof.
  intros Hnn. unfold parse_lit. rewrite pl_bounds_ok_true. cbn [negb].
  assert (Hb : forallb (fun c => 0 <=? c) p = true).
  { rewrite forallb_forall. rewrite Forall_forall in Hnn. intros c Hc. specialize (Hnn c Hc). lia. }
  rewrite Hb. cbn [negb]. destruct (useRTL o); [exact I|].
  pose proof (prepass_fine o (S (length p)) p (Nat.lt_succ_diag_r _)) as F1.
  destruct (PRE (S (length p)) o p) as [pre|c|w|]; cbn in F1; try contradiction; cbn [bind]; [|exact I].
  destruct pre; cbn [negb]; [|exact I].
  pose proof (scan_loop_fine o (S (length p)) p [] (Nat.lt_succ_diag_r _)) as F2.
  destruct (SL (S (length p)) o p []) as [r|c|w|]; cbn in F2; try contradiction; cbn [bind]; [|exact I].
  destruct r; exact I.
Qed.

End Total2.
