(* Proofs about Model/ParseLit.v:
     - facts about the generated tables (category table vs Escape's metacharacters),
     - the parser fragment is total: no Fuel / Crash on any rune string,
     - parse_lit o (escape s) is the literal tree of s (and \A..\z around it),
     - the reference semantics of that tree matches exactly s. *)
From Verif Require Import Base.Prelude Gen.EscapeGen Gen.ParseLitGen Model.Escape Model.ParseLit Proofs.EscapeProofs.
From Coq Require Import ZifyBool.
Ltac Zify.zify_post_hook ::= Z.div_mod_to_equations.

(* ------------------------------------------------------------------------------------------ *)
(* finite checks over the ASCII table *)

Definition pl_range (n : nat) : list Z := map Z.of_nat (seq 0 n).

Lemma pl_range_forall (f : Z -> bool) (n : nat) :
  forallb f (pl_range n) = true -> forall c, 0 <= c < Z.of_nat n -> f c = true.
Proof.
  intros H c Hc. rewrite forallb_forall in H. apply H.
  unfold pl_range. apply in_map_iff. exists (Z.to_nat c). split; [lia|].
  apply in_seq. lia.
Qed.

Lemma pl_cat_neg c : c < 0 -> pl_cat c = 0.
Proof. intros H. unfold pl_cat. replace (Z.to_nat c) with 0%nat by lia. reflexivity. Qed.

Lemma pl_bounds_ok_true : pl_bounds_ok = true.
Proof. vm_compute. reflexivity. Qed.

(* a classifier that is false below 0 and above 127 is decided by the table *)
Ltac pl_table_fact c :=
  let Hn := fresh "Hn" in
  let Hl := fresh "Hl" in
  destruct (Z_lt_dec c 0) as [Hn|Hn];
  [ intros; exfalso;
    unfold is_special, is_stopper_x, is_quantifier, is_space in *;
    rewrite (pl_cat_neg c Hn) in *;
    unfold pl_special_min, pl_stopperx_min, pl_quant_min, pl_space_cat in *; lia
  | destruct (Z_lt_dec c 128) as [Hl|Hl];
    [ | intros; exfalso;
        unfold is_special, is_stopper_x, is_quantifier, is_space,
          pl_special_bound, pl_stopperx_bound, pl_quant_bound, pl_space_bound in *; lia ] ].

Definition chk_special_meta (c : Z) : bool := implb (is_special c) (zmem c meta).
Lemma special_in_meta c : is_special c = true -> zmem c meta = true.
Proof.
  pl_table_fact c.
  intros H. pose proof (pl_range_forall chk_special_meta 128 ltac:(vm_compute; reflexivity) c ltac:(lia)) as F.
  unfold chk_special_meta in F. rewrite H in F. exact F.
Qed.

Definition chk_stopper_meta (c : Z) : bool :=
  implb (is_stopper_x c) (zmem c meta || ((9 <=? c) && (c <=? 13))).
Lemma stopper_x_in_meta c : is_stopper_x c = true -> zmem c meta = true \/ 9 <= c <= 13.
Proof.
  pl_table_fact c.
  intros H. pose proof (pl_range_forall chk_stopper_meta 128 ltac:(vm_compute; reflexivity) c ltac:(lia)) as F.
  unfold chk_stopper_meta in F. rewrite H in F. cbn [implb] in F.
  apply orb_prop in F. destruct F as [F|F]; [left; exact F | right; lia].
Qed.

Definition chk_space_meta (c : Z) : bool :=
  implb (is_space c) (zmem c meta || ((9 <=? c) && (c <=? 13))).
Lemma space_in_meta c : is_space c = true -> zmem c meta = true \/ 9 <= c <= 13.
Proof.
  pl_table_fact c.
  intros H. pose proof (pl_range_forall chk_space_meta 128 ltac:(vm_compute; reflexivity) c ltac:(lia)) as F.
  unfold chk_space_meta in F. rewrite H in F. cbn [implb] in F.
  apply orb_prop in F. destruct F as [F|F]; [left; exact F | right; lia].
Qed.

Definition chk_quant_special (c : Z) : bool := implb (is_quantifier c) (is_special c).
Lemma quantifier_is_special c : is_quantifier c = true -> is_special c = true.
Proof.
  pl_table_fact c.
  intros H. pose proof (pl_range_forall chk_quant_special 128 ltac:(vm_compute; reflexivity) c ltac:(lia)) as F.
  unfold chk_quant_special in F. rewrite H in F. exact F.
Qed.

(* what makes the outer loop of scanRegex advance in x-mode: a stopper that is not special is
   whitespace or '#', which scanBlank consumes *)
Definition chk_stopper_blank (c : Z) : bool :=
  implb (is_stopper_x c && negb (is_special c)) (is_space c || (c =? 35)).
Lemma stopper_not_special_is_blank c :
  is_stopper_x c = true -> is_special c = false -> is_space c = true \/ c = 35.
Proof.
  pl_table_fact c.
  intros H1 H2. pose proof (pl_range_forall chk_stopper_blank 128 ltac:(vm_compute; reflexivity) c ltac:(lia)) as F.
  unfold chk_stopper_blank in F. rewrite H1, H2 in F. cbn [implb andb negb] in F.
  apply orb_prop in F. destruct F as [F|F]; [left; exact F | right; lia].
Qed.

Lemma backslash_special : is_special 92 = true /\ is_stopper_x 92 = true /\ is_quantifier 92 = false /\ is_space 92 = false.
Proof. vm_compute. repeat split. Qed.

(* ------------------------------------------------------------------------------------------ *)
(* the scanners never fault and only move right *)

Definition fine {A} (r : res A) : Prop := match r with Ok _ | Err _ => True | _ => False end.

(* [adv r n]: if r succeeded, what is left of the pattern is at most n runes long *)
Definition adv {A} (r : res (A * list Z)) (n : nat) : Prop :=
  fine r /\ forall v rest, r = Ok (v, rest) -> (length rest <= n)%nat.

Lemma skip_digits_len p : (length (skip_digits p) <= length p)%nat.
Proof. induction p as [|c p IH]; cbn [skip_digits length]; [lia|]. destruct (is_digit c); cbn [length]; lia. Qed.

Lemma blank_x_len p : forall inc, (length (blank_x inc p) <= length p)%nat.
Proof.
  induction p as [|c p IH]; intros inc; cbn [blank_x length]; [lia|].
  destruct inc.
  - specialize (IH (negb (c =? 10))). lia.
  - destruct (is_space c); [specialize (IH false); lia|].
    destruct (c =? 35); [specialize (IH true); lia|]. cbn [length]. lia.
Qed.

Lemma scan_blank_len o p : (length (scan_blank o p) <= length p)%nat.
Proof. unfold scan_blank. destruct (useX o); [apply blank_x_len | lia]. Qed.

(* scanBlank stops in front of a rune that is neither whitespace nor '#' *)
Lemma blank_x_head p : forall inc c t, blank_x inc p = c :: t -> is_space c = false /\ c <> 35.
Proof.
  induction p as [|a p IH]; intros inc c t H; cbn [blank_x] in H; [discriminate|].
  destruct inc.
  - exact (IH _ _ _ H).
  - destruct (is_space a) eqn:Es; [exact (IH _ _ _ H)|].
    destruct (a =? 35) eqn:Eh; [exact (IH _ _ _ H)|].
    inversion H; subst. split; [exact Es | lia].
Qed.

Lemma blank_x_fix c t : is_space c = false -> c <> 35 -> blank_x false (c :: t) = c :: t.
Proof. intros H1 H2. cbn [blank_x]. rewrite H1. replace (c =? 35) with false by lia. reflexivity. Qed.

Lemma take_run_app o p : forall r rest, take_run o p = (r, rest) -> p = r ++ rest.
Proof.
  induction p as [|c p IH]; intros r rest H; cbn [take_run] in H.
  - inversion H. reflexivity.
  - destruct (is_stopper o c && (negb (c =? 123) || is_true_quantifier (c :: p))).
    + inversion H. reflexivity.
    + destruct (take_run o p) as [r' rest'] eqn:E. inversion H; subst.
      cbn [app]. f_equal. apply IH. reflexivity.
Qed.

(* the run loop stops at the end or in front of a stopper *)
Lemma take_run_stop o p : forall r c t, take_run o p = (r, c :: t) -> is_stopper o c = true.
Proof.
  induction p as [|a p IH]; intros r c t H; cbn [take_run] in H.
  - inversion H.
  - destruct (is_stopper o a && (negb (a =? 123) || is_true_quantifier (a :: p))) eqn:E.
    + inversion H; subst. apply andb_prop in E. tauto.
    + destruct (take_run o p) as [r' rest'] eqn:E2. inversion H; subst. eapply IH. reflexivity.
Qed.

Lemma scan_decimal_adv p : forall i, adv (scan_decimal i p) (length p).
Proof.
  induction p as [|c p IH]; intros i; cbn [scan_decimal].
  - split; [exact I|]. intros v rest H. inversion H. cbn. lia.
  - destruct ((c - 48 <? 0) || (9 <? c - 48)).
    + split; [exact I|]. intros v rest H. inversion H. lia.
    + destruct ((214748364 <? i) || ((i =? 214748364) && (7 <? c - 48))).
      * split; [exact I|]. intros v rest H. discriminate.
      * destruct (IH (i * 10 + (c - 48))) as [F L]. split; [exact F|].
        intros v rest H. specialize (L v rest H). cbn [length]. lia.
Qed.

Lemma pl_octal_loop_len e c : forall i p, (length (snd (pl_octal_loop e c i p)) <= length p)%nat.
Proof.
  induction c as [|c IH]; intros i p; cbn [pl_octal_loop]; [cbn; lia|].
  destruct p as [|ch p]; [cbn; lia|].
  destruct ((48 <=? ch) && (ch <=? 55)); [|cbn; lia].
  destruct ((32 <=? i) && e); [cbn; lia|].
  specialize (IH (i * 8 + (ch - 48)) p). cbn [length]. lia.
Qed.

Lemma scan_hex_loop_adv c : forall i p, adv (scan_hex_loop c i p) (length p).
Proof.
  induction c as [|c IH]; intros i p; cbn [scan_hex_loop].
  - split; [exact I|]. intros v rest H. inversion H. lia.
  - destruct p as [|ch p].
    + split; [exact I|]. intros v rest H. discriminate.
    + destruct (hex_digit ch <? 0).
      * split; [exact I|]. intros v rest H. discriminate.
      * destruct (IH (i * 16 + hex_digit ch) p) as [F L]. split; [exact F|].
        intros v rest H. specialize (L v rest H). cbn [length]. lia.
Qed.

Lemma scan_hex_adv c p : adv (scan_hex c p) (length p).
Proof.
  unfold scan_hex. destruct (Nat.leb c (length p)); [apply scan_hex_loop_adv|].
  split; [exact I|]. intros v rest H. discriminate.
Qed.

Lemma scan_hex_brace_adv p : forall i has, adv (scan_hex_brace i has p) (length p).
Proof.
  induction p as [|ch p IH]; intros i has; cbn [scan_hex_brace].
  - split; [exact I|]. intros v rest H. discriminate.
  - destruct (ch =? 125).
    + destruct has; (split; [exact I|]); intros v rest H; [inversion H; cbn [length]; lia | discriminate].
    + destruct (hex_digit ch <? 0); [split; [exact I|]; intros v rest H; discriminate|].
      destruct (1114111 <? i * 16 + hex_digit ch); [split; [exact I|]; intros v rest H; discriminate|].
      destruct (IH (i * 16 + hex_digit ch) true) as [F L]. split; [exact F|].
      intros v rest H. specialize (L v rest H). cbn [length]. lia.
Qed.

Lemma scan_control_adv p : adv (scan_control p) (length p).
Proof.
  unfold scan_control. destruct p as [|ch p]; [split; [exact I|]; intros v rest H; discriminate|].
  match goal with |- adv (if ?b then _ else _) _ => destruct b end;
    (split; [exact I|]); intros v rest H; [inversion H; cbn [length]; lia | discriminate].
Qed.

Lemma adv_weaken {A} (r : res (A * list Z)) n m : adv r n -> (n <= m)%nat -> adv r m.
Proof. intros [F L] Hnm. split; [exact F|]. intros v rest H. specialize (L v rest H). lia. Qed.

Section Total.
Variable is_word_char : Z -> bool.
Variable to_lower : Z -> Z.
Variable is_cased : Z -> bool.
Variable participates : Z -> bool.
Variable ci_single : Z -> bool.
Variable ci_set_id : Z -> Z.

Lemma pl_scan_char_escape_adv o p : p <> [] -> adv (pl_scan_char_escape is_word_char o p) (length p).
Proof.
  intros Hne. destruct p as [|ch p']; [congruence|]. unfold pl_scan_char_escape.
  (* the ECMAScript fallback keeps both properties *)
  assert (FB : forall r : res (Z * list Z), adv r (length p') ->
            adv (match r with Err c => if useE o then Ok (ch, p') else Err c | _ => r end) (length (ch :: p'))).
  { intros r [F L]. destruct r as [[v rest]|c|w|]; cbn in F; try contradiction.
    - split; [exact I|]. intros v' rest' H. inversion H; subst. specialize (L v' rest' eq_refl). cbn [length]. lia.
    - destruct (useE o); (split; [exact I|]); intros v' rest' H; [inversion H; cbn [length]; lia | discriminate]. }
  destruct ((48 <=? ch) && (ch <=? 55)).
  { split; [exact I|]. intros v rest H. inversion H. unfold pl_scan_octal in *.
    pose proof (pl_octal_loop_len (useE o) 3 0 (ch :: p')) as L.
    destruct (pl_octal_loop (useE o) 3 0 (ch :: p')) as [i q]. inversion H1; subst. exact L. }
  destruct (ch =? 120).
  { destruct p' as [|c2 p'']; [apply FB, scan_hex_adv|].
    destruct (c2 =? 123); [|apply FB, scan_hex_adv].
    destruct (useE o).
    - split; [exact I|]. intros v rest H. inversion H. cbn [length]. lia.
    - eapply adv_weaken; [apply scan_hex_brace_adv | cbn [length]; lia]. }
  destruct (ch =? 117).
  { destruct p' as [|c2 p'']; [apply FB, scan_hex_adv|].
    destruct ((c2 =? 123) && useE o && useU o); [|apply FB, scan_hex_adv].
    eapply adv_weaken; [apply scan_hex_brace_adv | cbn [length]; lia]. }
  destruct (pl_lookup ch pl_simple_escapes).
  { split; [exact I|]. intros v rest H. inversion H. cbn [length]. lia. }
  destruct (ch =? 99); [apply FB, scan_control_adv|].
  destruct (negb (useE o) && negb (useRE2 o) && is_word_char ch);
    (split; [exact I|]); intros v rest H; [discriminate | inversion H; cbn [length]; lia].
Qed.

(* the same two properties for the scanners that return a [bsk] *)
Definition advb (r : res bsk) (n : nat) (scan_only : bool) : Prop :=
  fine r /\ forall e rest, r = Ok (BGot e rest) ->
            (length rest <= n)%nat /\ (scan_only = false -> e <> EsNil).

Lemma advb_weaken r n m so : advb r n so -> (n <= m)%nat -> advb r m so.
Proof. intros [F L] Hnm. split; [exact F|]. intros e rest H. destruct (L e rest H). split; [lia|assumption]. Qed.

Lemma advb_err c n so : advb (Err c) n so.
Proof. split; [exact I|]. intros e rest H. discriminate. Qed.

Lemma char_code_advb o so p : p <> [] -> advb (char_code is_word_char to_lower o so p) (length p) so.
Proof.
  intros Hne. unfold char_code. destruct (pl_scan_char_escape_adv o p Hne) as [F L].
  destruct (pl_scan_char_escape is_word_char o p) as [[c rest]|c|w|]; cbn in F; try contradiction; cbn [bind].
  - specialize (L c rest eq_refl). destruct so.
    + split; [exact I|]. intros e r H. inversion H; subst. split; [lia | discriminate].
    + split; [exact I|]. intros e r H. inversion H; subst. split; [lia | discriminate].
  - apply advb_err.
Qed.

Lemma scan_word_len p : forall w r, scan_word is_word_char p = (w, r) -> (length r <= length p)%nat.
Proof.
  induction p as [|c p IH]; intros w r H; cbn [scan_word] in H.
  - inversion H. cbn. lia.
  - destruct (is_word_char c).
    + destruct (scan_word is_word_char p) as [w' r'] eqn:E. inversion H; subst.
      specialize (IH w' r eq_refl). cbn [length]. lia.
    + inversion H. lia.
Qed.

Lemma name_ref_advb o so k close p0 cur :
  p0 <> [] -> cur <> [] -> (length cur <= length p0)%nat ->
  advb (name_ref is_word_char to_lower o so k close p0 cur) (length p0) so.
Proof.
  intros H0 Hc Hlen. unfold name_ref. destruct cur as [|ch cur']; [congruence|].
  destruct (is_digit ch).
  - destruct (scan_decimal_adv (ch :: cur') 0) as [F L].
    destruct (scan_decimal 0 (ch :: cur')) as [[capnum r1]|c|w|]; cbn in F; try contradiction; cbn [bind];
      [|apply advb_err].
    specialize (L capnum r1 eq_refl).
    destruct r1 as [|c r2]; [apply char_code_advb; assumption|].
    destruct (c =? close); [|apply char_code_advb; assumption].
    destruct (capnum =? 0); [|apply advb_err].
    split; [exact I|]. intros e rest H. inversion H; subst. cbn [length] in *. split; [lia | discriminate].
  - destruct (useE o). { split; [exact I|]. intros e rest H. discriminate. }
    destruct (scan_word is_word_char (ch :: cur')) as [name r1] eqn:Ew.
    pose proof (scan_word_len _ _ _ Ew) as Lw.
    assert (FB : advb (if k then Err E_MalformedNameRef else char_code is_word_char to_lower o so p0) (length p0) so).
    { destruct k; [apply advb_err | apply char_code_advb; assumption]. }
    destruct name as [|n0 name]; [exact FB|].
    destruct r1 as [|c r2]; [exact FB|].
    destruct (c =? close); [|exact FB].
    destruct so eqn:Eso; [|apply advb_err].
    split; [exact I|]. intros e rest H. inversion H; subst. cbn [length] in *. split; [lia | discriminate].
Qed.

Lemma scan_basic_backslash_advb o so p : advb (scan_basic_backslash is_word_char to_lower o so p) (length p) so.
Proof.
  unfold scan_basic_backslash. destruct p as [|ch p1]; [apply advb_err|].
  destruct ((ch =? 107) && (negb (useE o) || useU o)).
  { destruct p1 as [|c2 p2]; [apply advb_err|].
    destruct (negb ((c2 =? 60) || (negb (useE o) && (c2 =? 39)))); [apply advb_err|].
    destruct p2 as [|c3 p3]; [apply advb_err|].
    apply name_ref_advb; [discriminate | discriminate | cbn [length]; lia]. }
  destruct (negb (useE o) && ((ch =? 60) || (ch =? 39)) && match p1 with [] => false | _ => true end) eqn:Ea.
  { destruct p1 as [|c2 p2]; [rewrite andb_false_r in Ea; discriminate|].
    apply name_ref_advb; [discriminate | discriminate | cbn [length]; lia]. }
  destruct ((49 <=? ch) && (ch <=? 57)); [|apply char_code_advb; discriminate].
  destruct (scan_decimal_adv (ch :: p1) 0) as [F L].
  destruct (scan_decimal 0 (ch :: p1)) as [[capnum rest]|c|w|]; cbn in F; try contradiction; cbn [bind];
    [|apply advb_err].
  specialize (L capnum rest eq_refl).
  destruct so.
  - split; [exact I|]. intros e r H. inversion H; subst. split; [exact L | discriminate].
  - destruct ((capnum <=? 9) && negb (useE o)); [apply advb_err | apply char_code_advb; discriminate].
Qed.

Lemma scan_backslash_advb o so p : advb (scan_backslash is_word_char to_lower o so p) (length p) so.
Proof.
  unfold scan_backslash. destruct p as [|ch p1]; [apply advb_err|].
  destruct (zmem ch pl_assert_letters).
  { split; [exact I|]. intros e rest H. inversion H; subst. cbn [length]. split; [lia | discriminate]. }
  destruct (zmem ch pl_class_letters).
  { split; [exact I|]. intros e rest H. inversion H; subst. cbn [length]. split; [lia | discriminate]. }
  destruct ((ch =? 112) || (ch =? 80)); [|apply scan_basic_backslash_advb].
  destruct (useE o && negb (useU o)); [apply scan_basic_backslash_advb|].
  split; [exact I|]. intros e rest H. discriminate.
Qed.

End Total.
